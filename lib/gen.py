"""shared generators: names, trees, paths"""
import random

# bytes below '/', '/'-adjacent, above, non-ASCII
NAME_ATOMS = [b"a", b"b", b"ab", b"a-b", b"a.b", b"a b", b"a!", b"a0", b"A", b"z", b"-", b"..a", b"a..", b".a",
              b"\xc3\xa9", b"\xff", b"a\\b", b"a+", b"a,", b"a\x01", b"foo", b"bar", b"c", b"d", b"a.txt", b"a-", b"a."]


def name(rng, long_ok=True):
    r = rng.random()
    if r < 0.75:
        return rng.choice(NAME_ATOMS)
    if r < 0.9:
        return bytes(rng.choice(b"ab-. !0z+,") for _ in range(rng.randint(1, 4)))
    if r < 0.97 or not long_ok:
        return bytes(rng.choice([0x20, 0x2d, 0x2e, 0x30, 0x61, 0x7a, 0xc3, 0xa9, 0xff, 0x01]) for _ in range(rng.randint(1, 6)))
    return bytes(rng.choice(b"abc") for _ in range(rng.choice([100, 200, 255])))


def sibling_names(rng, n):
    """n distinct names; biased to contain prefix-related names (a, ab, a-b, a.b ...)"""
    out = set()
    if rng.random() < 0.5:
        base = rng.choice([b"a", b"foo", b"b"])
        for suf in [b"", b"-", b".", b" ", b"0", b"b", b".txt", b"-b", b"!"]:
            if len(out) < n and rng.random() < 0.6:
                out.add(base + suf)
    tries = 0
    while len(out) < n and tries < 200:
        tries += 1
        nm = name(rng)
        if nm in (b".", b"..") or b"/" in nm or not nm:
            continue
        out.add(nm)
    return sorted(out)


def rand_tree(rng, max_entries=30, max_depth=4, dir_p=0.4):
    """a random tree as nested dict name->(None | dict); returns list of (path_bytes, is_dir) in bytewise DFS order"""
    budget = [rng.randint(0, max_entries)]

    def mk(depth):
        d = {}
        if budget[0] <= 0:
            return d
        n = rng.randint(0, min(6, budget[0]))
        for nm in sibling_names(rng, n):
            budget[0] -= 1
            if depth < max_depth and rng.random() < dir_p:
                d[nm] = mk(depth + 1)
            else:
                d[nm] = None
        return d
    t = mk(0)
    out = []

    def walk(pre, d):
        for nm in sorted(d):
            p = pre + nm
            if d[nm] is None:
                out.append((p, False))
            else:
                out.append((p, True))
                walk(p + b"/", d[nm])
    walk(b"", t)
    return out


def pathkey(p):
    """sort key realising the protocol order ('/' lowest)"""
    return [0 if c == 0x2f else c + 1 for c in p]


def rand_bytes_path(rng):
    n = rng.randint(0, 8)
    return bytes(rng.choice(b"a/./-b \\\xff") for _ in range(n))
