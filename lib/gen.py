"""shared generators: names, trees, paths"""
import random

# bytes below '/', '/'-adjacent, above, non-ASCII
NAME_ATOMS = [b"a", b"b", b"ab", b"a-b", b"a.b", b"a b", b"a!", b"a0", b"A", b"z", b"-", b"..a", b"a..", b".a",
              b"\xc3\xa9", b"\xff", b"a\\b", b"a+", b"a,", b"a\x01", b"foo", b"bar", b"c", b"d", b"a.txt", b"a-", b"a.",
              # names made of pattern metacharacters (legal file names; a pattern naming them has to escape them)
              b"a[1]", b"[z]", b"x*", b"q?",
              # names shaped like the disk writer's own staging files (ordinary entries when they come from the source)
              b".tmp.1", b".tmp.abc",
              # the name of the metadata-only listing: an ordinary entry in an ordinary transfer
              b".fsutil-metadata"]


def name(rng, long_ok=True):
    r = rng.random()
    if r < 0.75:
        return rng.choice(NAME_ATOMS)
    if r < 0.9:
        return bytes(rng.choice(b"ab-. !0z+,") for _ in range(rng.randint(1, 4)))
    if r < 0.97 or not long_ok:
        return bytes(rng.choice([0x20, 0x2d, 0x2e, 0x30, 0x61, 0x7a, 0xc3, 0xa9, 0xff, 0x01]) for _ in range(rng.randint(1, 6)))
    return bytes(rng.choice(b"abc") for _ in range(rng.choice([100, 200, 255])))


def sibling_names(rng, n):
    """n distinct names; biased to contain prefix-related names (a, ab, a-b, a.b ...)"""
    out = set()
    if rng.random() < 0.5:
        base = rng.choice([b"a", b"foo", b"b"])
        for suf in [b"", b"-", b".", b" ", b"0", b"b", b".txt", b"-b", b"!"]:
            if len(out) < n and rng.random() < 0.6:
                out.add(base + suf)
    tries = 0
    while len(out) < n and tries < 200:
        tries += 1
        nm = name(rng)
        if nm in (b".", b"..") or b"/" in nm or not nm:
            continue
        out.add(nm)
    return sorted(out)


def rand_tree(rng, max_entries=30, max_depth=4, dir_p=0.4):
    """a random tree as nested dict name->(None | dict); returns list of (path_bytes, is_dir) in bytewise DFS order"""
    budget = [rng.randint(0, max_entries)]

    def mk(depth):
        d = {}
        if budget[0] <= 0:
            return d
        n = rng.randint(0, min(6, budget[0]))
        for nm in sibling_names(rng, n):
            budget[0] -= 1
            if depth < max_depth and rng.random() < dir_p:
                d[nm] = mk(depth + 1)
            else:
                d[nm] = None
        return d
    t = mk(0)
    out = []

    def walk(pre, d):
        for nm in sorted(d):
            p = pre + nm
            if d[nm] is None:
                out.append((p, False))
            else:
                out.append((p, True))
                walk(p + b"/", d[nm])
    walk(b"", t)
    return out


def deep_tree(rng, max_depth=45):
    """a narrow deep tree: a spine of directories with a few siblings per level (stack-growth boundaries)"""
    depth = rng.choice([8, 9, 10, 11, 12, 19, 20, 21, 22, 41, 42, 43]) if rng.random() < 0.6 else rng.randint(5, max_depth)
    out = []
    pre = b""
    for lvl in range(depth):
        names = sibling_names(rng, rng.randint(1, 3))
        spine = rng.choice(names)
        for nm in names:
            if nm == spine:
                out.append((pre + nm, True))
            else:
                out.append((pre + nm, rng.random() < 0.3))
        pre = pre + spine + b"/"
    # leaf level: several siblings so that order among them matters
    for nm in sibling_names(rng, rng.randint(1, 4)):
        out.append((pre + nm, rng.random() < 0.5))
    out.sort(key=lambda e: pathkey(e[0]))
    return out


def pathkey(p):
    """sort key realising the protocol order ('/' lowest)"""
    return [0 if c == 0x2f else c + 1 for c in p]


def rand_bytes_path(rng):
    n = rng.randint(0, 8)
    return bytes(rng.choice(b"a/./-b \\\xff") for _ in range(n))


# ------------------------------------------------------------------ stat listings
MODE_DIR = 1 << 31
MODE_SYMLINK = 1 << 27
MODE_DEVICE = 1 << 26
MODE_FIFO = 1 << 25
MODE_CHAR = 1 << 21
MODE_SETUID = 1 << 23
MODE_SETGID = 1 << 22
MODE_STICKY = 1 << 20
MTIMES = [1700000000_000000000, 1700000000_000000001, 1700000001_000000000, 1600000000_123456789, 0, 1700000000_999999999]


def rand_stat(rng, path, is_dir, small=True):
    from .core import hx
    st = {"p": hx(path), "uid": rng.choice([0, 0, 0, 1000, 65534]), "gid": rng.choice([0, 0, 0, 1000, 65534]),
          "mt": rng.choice(MTIMES), "size": 0, "ln": "", "dmaj": 0, "dmin": 0}
    perm = rng.choice([0o755, 0o644, 0o600, 0o777, 0o400, 0o750])
    if is_dir:
        st["mode"] = MODE_DIR | perm | (MODE_STICKY if rng.random() < 0.1 else 0) | (MODE_SETGID if rng.random() < 0.05 else 0)
        return st
    r = rng.random()
    if r < 0.7:
        st["mode"] = perm | (MODE_SETUID if rng.random() < 0.05 else 0)
        st["size"] = rng.choice([0, 1, 5, 5, 100, 32768, 32769])
    elif r < 0.85:
        st["mode"] = MODE_SYMLINK | 0o777
        st["ln"] = hx(rng.choice([b"a", b"../x", b"/abs", b"b/c"]))
        st["size"] = len(st["ln"]) // 2
    elif r < 0.92:
        st["mode"] = MODE_FIFO | perm
    else:
        st["mode"] = MODE_DEVICE | (MODE_CHAR if rng.random() < 0.5 else 0) | perm
        st["dmaj"] = rng.choice([1, 8])
        st["dmin"] = rng.choice([0, 3, 5])
    return st


def rand_listing(rng, max_entries=25, max_depth=4, hardlinks=True):
    ents = rand_tree(rng, max_entries, max_depth)
    out = []
    regs = []
    from .core import hx
    for p, d in ents:
        st = rand_stat(rng, p, d)
        if hardlinks and not d and st["mode"] < (1 << 19) and regs and rng.random() < 0.15:
            src = rng.choice(regs)
            st = dict(src)
            st["p"] = hx(p)
            st["ln"] = src["p"]
            st["size"] = 0
        elif not d and st["mode"] < (1 << 19):
            regs.append(st)
        out.append(st)
    return out


def mutate_listing(rng, lst):
    """an edit script applied to a listing: returns a new valid listing"""
    from .core import hx
    ents = [dict(s) for s in lst]
    n = rng.randint(0, 4)
    for _ in range(n):
        if not ents:
            break
        k = rng.randrange(len(ents))
        e = ents[k]
        op = rng.randrange(10)
        isdir = e["mode"] & MODE_DIR != 0
        if op == 0:      # touch
            e["mt"] = rng.choice(MTIMES)
        elif op == 1:    # chmod
            e["mode"] = (e["mode"] & ~0o777) | rng.choice([0o755, 0o644, 0o700])
        elif op == 2:    # chown
            e["uid"] = rng.choice([0, 1000])
            e["gid"] = rng.choice([0, 1000])
        elif op == 3 and not isdir:   # rewrite
            e["size"] = rng.choice([0, 1, 5, 100])
        elif op == 4:    # delete (with subtree)
            p = e["p"]
            ents = [x for x in ents if x["p"] != p and not x["p"].startswith(p + "2f")]
        elif op == 5:    # type swap
            p = e["p"]
            ents = [x for x in ents if not x["p"].startswith(p + "2f")]
            for i, x in enumerate(ents):
                if x["p"] == p:
                    ents[i] = rand_stat(rng, bytes.fromhex(p), not isdir)
        elif op == 6:    # add a sibling / child
            base = bytes.fromhex(e["p"])
            if isdir:
                nm = name(rng, False)
                if nm in (b".", b"..") or b"/" in nm:
                    continue
                np = base + b"/" + nm
            else:
                np = base + rng.choice([b"-", b".", b"0", b" x", b"z"])
            if b"/" not in np[len(base) + 1:] and hx(np) not in [x["p"] for x in ents] and not np.endswith(b"/"):
                ents.append(rand_stat(rng, np, rng.random() < 0.3))
        elif op == 7 and not isdir:    # device renumber / link retarget
            if e["mode"] & MODE_DEVICE:
                e["dmin"] = rng.choice([0, 3, 5, 7])
            elif e["mode"] & MODE_SYMLINK:
                e["ln"] = hx(rng.choice([b"a", b"zz"]))
        elif op == 8 and not isdir and e["mode"] < (1 << 19):  # hard-link regroup
            regs = [x for x in ents if x["mode"] < (1 << 19) and not x["ln"] and pathkey(bytes.fromhex(x["p"])) < pathkey(bytes.fromhex(e["p"]))]
            if regs and not any(x["ln"] == e["p"] for x in ents):
                src = rng.choice(regs)
                e.update({k2: src[k2] for k2 in ("mode", "uid", "gid", "mt")})
                e["ln"] = src["p"]
                e["size"] = 0
    # drop hard links whose source vanished / changed type
    regs = {x["p"] for x in ents if x["mode"] < (1 << 19) and not x["ln"]}
    for x in ents:
        if x["ln"] and x["mode"] < (1 << 19) and x["ln"] not in regs:
            x["ln"] = ""
    ents.sort(key=lambda x: pathkey(bytes.fromhex(x["p"])))
    return ents


# ------------------------------------------------------------------ trees to materialise on disk
CAP = bytes([1, 0, 0, 2, 0, 0x20, 0, 0, 0, 0, 0, 0, 0, 0, 0, 0, 0, 0, 0, 0])   # vfs_cap_data v2: cap_net_raw+p
XATTRS = [(b"user.a", b"1"), (b"user.b", b""), (b"trusted.t", b"\x00\xff"), (b"security.s", b"x"), (b"user.long", b"v" * 40),
          (b"security.capability", CAP)]


def disk_tree(rng, max_entries=30, max_depth=5, types=("dir", "file", "symlink", "fifo", "chr", "blk", "hardlink", "sock"),
              deep=False, file_sizes=(0, 1, 5, 100, 4096), xattrs=True, shape=None):
    """a tree description for the harness's mktree: list of dict (parents first)"""
    from .core import hx
    if shape is None:
        shape = deep_tree(rng, 12) if deep else rand_tree(rng, max_entries, max_depth)
    out = []
    linkable = []  # non-dir, non-hardlink entries that can be hard-link sources
    for p, d in shape:
        if len(p) > 3000:
            continue
        e = {"p": hx(p), "uid": rng.choice([0, 0, 1000, 65534]), "gid": rng.choice([0, 0, 1000, 65534]),
             "mt": rng.choice(MTIMES[:4] * 2 + [1234567890_987654321, 0, 0, -1, -315619200_000000000])}      # (the epoch itself and times before it are valid time stamps)
        if d:
            e["t"] = "dir"
            e["mode"] = rng.choice([0o755, 0o700, 0o1777, 0o2755, 0o750, 0o644, 0o600])
            if rng.random() < 0.1:
                e["size"] = 4096        # (in-memory sources only: a directory announced with a size)
        else:
            r = rng.random()
            t = "file"
            if r < 0.55 or len(types) <= 2:
                t = "file"
            elif r < 0.68 and "symlink" in types:
                t = "symlink"
            elif r < 0.78 and "hardlink" in types and linkable:
                t = "hardlink"
            elif r < 0.84 and "fifo" in types:
                t = "fifo"
            elif r < 0.9 and "chr" in types:
                t = "chr"
            elif r < 0.95 and "blk" in types:
                t = "blk"
            elif "sock" in types and r >= 0.98:
                t = "sock"
            e["t"] = t
            e["mode"] = rng.choice([0o644, 0o600, 0o755, 0o4755, 0o2755, 0o400, 0o666])
            if t == "file":
                e["size"] = rng.choice(file_sizes)
                if rng.random() < 0.06:
                    # a sparse tail (the file was extended by truncate): bytes that read as zeros but were never written
                    e["hole"] = rng.choice([1, 4096, 70000])
            elif t == "symlink":
                # (targets are opaque strings: also ones that are not in lexically clean form, and one longer than a tar header field)
                e["ln"] = hx(rng.choice([b"a", b"../a", b"/abs/x", b"b/c", b".", b"..", b"a b", b"\xff",
                                         b"a/", b"./a", b"a//b", b"a/./b", b"x/../y", b"../../", b"/abs//x/", b"d/" * 60 + b"f"]))
            elif t == "hardlink":
                src = rng.choice(linkable)
                e["ln"] = src["p"]
            elif t in ("chr", "blk"):
                e["maj"] = rng.choice([1, 8, 250, 259, 4095])
                e["min"] = rng.choice([0, 3, 5, 255, 256, 70000, 1048575])
            if t not in ("hardlink", "dir") and (t != "symlink" or rng.random() < 0.3):
                linkable.append(e)
        if xattrs and e["t"] != "hardlink" and rng.random() < 0.2:
            xs = []
            for k, v in rng.sample(XATTRS, rng.randint(1, 2)):
                if k.startswith(b"user.") and e["t"] not in ("file", "dir"):
                    continue
                if k == b"security.capability" and e["t"] != "file":
                    continue
                xs.append([hx(k), hx(v)])
            if xs:
                e["x"] = sorted(xs)
        out.append(e)
    if "hardlink" in types and not deep and rng.random() < 0.06:
        # sibling directories of which one name is the other plus a byte below '/': walk order and plain string order differ there
        # ("pd/y" before "pd.d/w"), and a hard link from the second into the first crosses that boundary
        have = {e["p"] for e in out}
        D = rng.choice([b"pd", b"a", b"q"])
        D2 = D + rng.choice([b".", b"-", b"+", b" ", b",", b"!"]) + rng.choice([b"d", b"", b"1"])
        if not any(h == hx(D) or h.startswith(hx(D) + "2f") or h == hx(D2) or h.startswith(hx(D2) + "2f") for h in have):
            mk = lambda p_, t, **kw: dict({"p": hx(p_), "t": t, "uid": 0, "gid": 0, "mt": MTIMES[0], "mode": 0o755 if t == "dir" else 0o644}, **kw)
            out += [mk(D, "dir"), mk(D + b"/y", "file", size=rng.choice([1, 100, 40000])), mk(D2, "dir"),
                    mk(D2 + b"/w", "file", size=rng.choice([0, 5])), {"p": hx(D2 + b"/z"), "t": "hardlink", "ln": hx(D + b"/y")}]
            if rng.random() < 0.5:
                out.append(mk(D + b"/x", "file", size=3))
                out.append({"p": hx(D2 + b"/zz"), "t": "hardlink", "ln": hx(D + b"/x")})
            out.sort(key=lambda e: pathkey(bytes.fromhex(e["p"])))
    return out


def mutate_disk_tree(rng, tree, n_edits=None):
    """edit script over a disk tree description: returns a new valid (parents-first) description"""
    from .core import hx
    ents = [dict(e) for e in tree]
    n = rng.randint(0, 5) if n_edits is None else n_edits
    for _ in range(n):
        if not ents:
            break
        k = rng.randrange(len(ents))
        e = ents[k]
        op = rng.randrange(9)
        p = e["p"]
        if op == 0 and e["t"] != "hardlink":
            if rng.random() < 0.5:
                e["mt"] = rng.choice(MTIMES[:4])
            else:
                # touched again within the same second (one of the two time stamps may be a whole second)
                sec = (e.get("mt", MTIMES[0]) // 10**9) * 10**9
                e["mt"] = sec + rng.choice([x for x in (0, 1, 500000000, 999999999) if sec + x != e.get("mt")])
        elif op == 1 and e["t"] not in ("hardlink", "symlink"):
            e["mode"] = rng.choice([0o755, 0o644, 0o700, 0o4711, 0o1777 if e["t"] == "dir" else 0o600])
        elif op == 2 and e["t"] != "hardlink":
            e["uid"] = rng.choice([0, 1000])
            e["gid"] = rng.choice([0, 1000])
        elif op == 3 and e["t"] == "file":
            e["size"] = rng.choice([0, 1, 5, 100, 32768, 32769, 70000])
            e["mt"] = rng.choice(MTIMES[:4])
        elif op == 4:   # delete subtree (+ hard links into it)
            gone = {x["p"] for x in ents if x["p"] == p or x["p"].startswith(p + "2f")}
            ents = [x for x in ents if x["p"] not in gone and not (x["t"] == "hardlink" and x.get("ln") in gone)]
        elif op == 5:   # type swap
            gone = {x["p"] for x in ents if x["p"].startswith(p + "2f")} | {p}
            ents = [x for x in ents if x["p"] not in gone - {p} and not (x["t"] == "hardlink" and x.get("ln") in gone)]
            for i, x in enumerate(ents):
                if x["p"] == p:
                    nt = rng.choice([t for t in ("dir", "file", "symlink", "fifo") if t != x["t"]])
                    ne = {"p": p, "t": nt, "uid": x["uid"] if "uid" in x else 0, "gid": x.get("gid", 0), "mt": rng.choice(MTIMES[:4]),
                          "mode": 0o755 if nt == "dir" else 0o644}
                    if nt == "file":
                        ne["size"] = rng.choice([0, 3, 100])
                    if nt == "symlink":
                        ne["ln"] = hx(rng.choice([b"a", b"../x"]))
                    ents[i] = ne
        elif op == 6:   # add
            base = bytes.fromhex(p)
            if e["t"] == "dir":
                nm = name(rng, False)
                if nm in (b".", b"..") or b"/" in nm:
                    continue
                np = base + b"/" + nm
            else:
                np = base + rng.choice([b"-", b".", b"0", b" x", b"z", b"!"])
            if hx(np) not in {x["p"] for x in ents} and b"/" not in np[len(base) + 1:] and len(np.split(b"/")[-1]) <= 255:
                nt = rng.choice(["file", "file", "dir", "symlink"])
                ne = {"p": hx(np), "t": nt, "uid": 0, "gid": 0, "mt": rng.choice(MTIMES[:4]), "mode": 0o755 if nt == "dir" else 0o644}
                if nt == "file":
                    ne["size"] = rng.choice([0, 3, 100, 40000])
                if nt == "symlink":
                    ne["ln"] = hx(b"a")
                ents.append(ne)
        elif op == 7 and e["t"] in ("chr", "blk"):
            e["min"] = rng.choice([0, 3, 5, 7])
        elif op == 8 and e["t"] == "file":   # hard-link regroup: turn into a link of an earlier file
            cands = [x for x in ents if x["t"] == "file" and pathkey(bytes.fromhex(x["p"])) < pathkey(bytes.fromhex(p))]
            if cands and not any(x.get("ln") == p and x["t"] == "hardlink" for x in ents):
                src = rng.choice(cands)
                ents[k] = {"p": p, "t": "hardlink", "ln": src["p"]}
    ents.sort(key=lambda x: pathkey(bytes.fromhex(x["p"])))
    return ents
