"""Core of the check orchestrator: builds, runs implementation and model on the same ops,
compares, audits proof obligations, writes evidence.  stdlib only."""
import fcntl, hashlib, json, os, random, re, shutil, subprocess, sys, tempfile, time, atexit

VERIF = os.path.dirname(os.path.dirname(os.path.abspath(__file__)))
REPO = os.environ.get("VERIF_REPO", "/repo")
LEAN = os.path.join(VERIF, "lean")
BUILD = os.path.join(VERIF, ".build")
NPROC = int(os.environ.get("VERIF_NPROC", "0")) or min(16, os.cpu_count() or 4)
STD_AXIOMS = {"propext", "Classical.choice", "Quot.sound"}

GOENV = dict(os.environ, GOFLAGS="-mod=mod", GOPROXY="off", GOSUMDB="off", GOTOOLCHAIN="local",
             CGO_ENABLED="0")


def log(*a):
    print(*a, file=sys.stderr, flush=True)


class BuildError(Exception):
    pass


# ----------------------------------------------------------------------------- builds

_run_dir = None


def run_dir():
    global _run_dir
    if _run_dir is None:
        os.makedirs(BUILD, exist_ok=True)
        _run_dir = tempfile.mkdtemp(prefix="run-", dir=BUILD)
        atexit.register(lambda: shutil.rmtree(_run_dir, ignore_errors=True))
    return _run_dir


_scratch = None


def scratch():
    """per-run scratch directory for disk-touching suites (removed at exit)"""
    global _scratch
    if _scratch is None:
        _scratch = tempfile.mkdtemp(prefix="verif-scratch-")
        atexit.register(lambda: subprocess.run(["rm", "-rf", _scratch]))
    return _scratch


def build_harness(race=False):
    """rebuild the Go harness against REPO's current working tree, with -tags verif"""
    rd = run_dir()
    src = os.path.join(rd, "harness-src")
    if os.path.exists(src):
        shutil.rmtree(src)
    shutil.copytree(os.path.join(VERIF, "harness"), src)
    gomod = open(os.path.join(src, "go.mod")).read()
    gomod = re.sub(r"replace github.com/tonistiigi/fsutil => .*", "replace github.com/tonistiigi/fsutil => " + REPO, gomod)
    open(os.path.join(src, "go.mod"), "w").write(gomod)
    shutil.copy(os.path.join(REPO, "go.sum"), os.path.join(src, "go.sum"))
    out = os.path.join(rd, "vh-race" if race else "vh")
    env = dict(GOENV)
    cmd = ["go", "build", "-tags", "verif", "-o", out]
    if race:
        env["CGO_ENABLED"] = "1"
        cmd.insert(2, "-race")
    cmd.append(".")
    t = time.time()
    p = subprocess.run(cmd, cwd=src, env=env, capture_output=True, text=True)
    if p.returncode != 0:
        raise BuildError("go build of harness against %s failed:\n%s" % (REPO, p.stderr[-4000:]))
    log("[build] harness (%s) %.1fs" % (REPO, time.time() - t))
    return out


def lake_build(targets):
    """lake build under a file lock (checks may run in parallel)"""
    os.makedirs(BUILD, exist_ok=True)
    with open(os.path.join(BUILD, "lake.lock"), "w") as lk:
        fcntl.flock(lk, fcntl.LOCK_EX)
        t = time.time()
        p = subprocess.run(["lake", "build"] + targets, cwd=LEAN, capture_output=True, text=True)
        log("[build] lake build %s %.1fs rc=%d" % (" ".join(targets), time.time() - t, p.returncode))
        return p.returncode, p.stdout + p.stderr


def driver_path():
    return os.path.join(LEAN, ".lake", "build", "bin", "fsdriver")


# ----------------------------------------------------------------------------- running ops

def _chunks(xs, n):
    k = max(1, (len(xs) + n - 1) // n)
    return [xs[i:i + k] for i in range(0, len(xs), k)]


def _run_lines(cmd, ops, nproc, env=None, timeout=3600, cwd=None):
    """feed ops (list of dict) as JSON lines to nproc copies of cmd; return list of parsed answers"""
    if not ops:
        return []
    parts = _chunks(ops, nproc)
    procs = []
    rd = run_dir()
    for i, part in enumerate(parts):
        fin = tempfile.NamedTemporaryFile("w", dir=rd, suffix=".in", delete=False)
        for o in part:
            fin.write(json.dumps(o, separators=(",", ":")) + "\n")
        fin.close()
        fout = open(fin.name + ".out", "w")
        p = subprocess.Popen(cmd, stdin=open(fin.name), stdout=fout, stderr=subprocess.PIPE, env=env, cwd=cwd)
        procs.append((p, fin.name, fout, len(part)))
    res = []
    for p, name, fout, n in procs:
        try:
            _, err = p.communicate(timeout=timeout)
        except subprocess.TimeoutExpired:
            p.kill()
            _, err = p.communicate()
            err = (err or b"") + b"\nTIMEOUT"
        fout.close()
        lines = open(name + ".out").read().splitlines()
        ans = []
        for l in lines:
            try:
                ans.append(json.loads(l))
            except Exception:
                ans.append({"err": "unparsable", "raw": l[:200]})
        if len(ans) < n:
            # process died: mark the op it died on, the rest as not run
            msg = (err or b"").decode("utf8", "replace")
            if len(msg) > 3000:
                msg = msg[:2200] + "\n[...]\n" + msg[-800:]
            ans.append({"crash": msg, "rc": p.returncode})
            while len(ans) < n:
                ans.append({"notrun": True})
        res.extend(ans[:n])
        os.unlink(name)
        os.unlink(name + ".out")
    return res


def run_impl(vh, ops, nproc=None, timeout=3600, env=None):
    e = dict(os.environ)
    e["VERIF_SCRATCH"] = scratch()
    e.setdefault("GOMEMLIMIT", "2GiB")
    if env:
        e.update(env)
    ans = _run_lines([vh], ops, nproc or NPROC, env=e, timeout=timeout)
    # re-run ops that were not run because a process crashed, one process per op
    redo = [i for i, a in enumerate(ans) if a.get("notrun")]
    rounds = 0
    while redo and rounds < 50:
        rounds += 1
        sub = _run_lines([vh], [ops[i] for i in redo], nproc or NPROC, env=e, timeout=timeout)
        for i, a in zip(redo, sub):
            ans[i] = a
        redo = [i for i, a in enumerate(ans) if a.get("notrun")]
    # an op on which the process died is run once more, alone: a panic or a deadly signal caused by the op reproduces; a death
    # that came from outside (memory pressure on a loaded machine) does not, and then the second answer counts (the first
    # message is kept). Reports of the race detector are never retried.
    for i, a in enumerate(ans):
        if "crash" in a and "DATA RACE" not in a["crash"] and a.get("rc") != 66:
            again = _run_lines([vh], [ops[i]], 1, env=e, timeout=timeout)[0]
            if "crash" not in again:
                again["recovered_crash"] = a["crash"][:1500]
                ans[i] = again
    return ans


def run_model(ops, nproc=None, timeout=900):
    return _run_lines([driver_path()], ops, nproc or NPROC, timeout=timeout)


# ----------------------------------------------------------------------------- proof obligations

FORBIDDEN = re.compile(r"\bsorry\b|\badmit\b|^\s*axiom |native_decide|bv_decide|implemented_by|\bunsafe |maxHeartbeats 0")


def strip_comments(src):
    # remove /- ... -/ (nested not handled beyond one level) and -- comments
    out = []
    i = 0
    depth = 0
    n = len(src)
    while i < n:
        if src.startswith("/-", i):
            depth += 1
            i += 2
        elif depth and src.startswith("-/", i):
            depth -= 1
            i += 2
        elif depth:
            if src[i] == "\n":
                out.append("\n")
            i += 1
        elif src.startswith("--", i):
            while i < n and src[i] != "\n":
                i += 1
        else:
            out.append(src[i])
            i += 1
    return "".join(out)


def grep_forbidden():
    hits = []
    for root, _, files in os.walk(LEAN):
        if ".lake" in root:
            continue
        for f in files:
            if f.endswith(".lean"):
                p = os.path.join(root, f)
                body = strip_comments(open(p).read())
                for ln, line in enumerate(body.splitlines(), 1):
                    if FORBIDDEN.search(line):
                        hits.append("%s:%d: %s" % (os.path.relpath(p, VERIF), ln, line.strip()[:120]))
    return hits


def theorems_of(pid):
    """theorem names declared in Props/<pid>.lean (the obligations of the property)"""
    path = os.path.join(LEAN, "FsutilModel", "Props", pid + ".lean")
    src = strip_comments(open(path).read())
    ns = re.findall(r"^namespace\s+(\S+)", src, re.M)
    prefix = (ns[0] + ".") if ns else ""
    return [prefix + m for m in re.findall(r"^theorem\s+([A-Za-z0-9_.']+)", src, re.M)]


def audit(pid, leanchecker=False):
    """returns dict: obligations, discharged, theorems:[{name, axioms, ok}], problems:[...]"""
    res = {"obligations": 0, "discharged": 0, "theorems": [], "problems": []}
    names = theorems_of(pid)
    res["obligations"] = len(names)
    mod = "FsutilModel.Props." + pid
    rc, out = lake_build([mod, "fsdriver"])
    if rc != 0:
        res["problems"].append("lake build %s failed: %s" % (mod, out[-3000:]))
        for n in names:
            res["theorems"].append({"name": n, "axioms": None, "ok": False})
        return res
    bad = grep_forbidden()
    if bad:
        res["problems"].append("forbidden constructs: " + "; ".join(bad[:10]))
    rd = run_dir()
    af = os.path.join(rd, "Audit_%s.lean" % pid)
    with open(af, "w") as f:
        f.write("import %s\n" % mod)
        for n in names:
            f.write("#print axioms %s\n" % n)
    p = subprocess.run(["lake", "env", "lean", af], cwd=LEAN, capture_output=True, text=True)
    txt = p.stdout + p.stderr
    axmap = {}
    for m in re.finditer(r"'([^']+)' depends on axioms: \[([^\]]*)\]", txt, re.S):
        axmap[m.group(1)] = [a.strip() for a in m.group(2).replace("\n", " ").split(",") if a.strip()]
    for m in re.finditer(r"'([^']+)' does not depend on any axioms", txt):
        axmap[m.group(1)] = []
    for n in names:
        ax = axmap.get(n)
        ok = ax is not None and set(ax) <= STD_AXIOMS and not bad
        res["theorems"].append({"name": n, "axioms": ax, "ok": ok})
        if ok:
            res["discharged"] += 1
        elif ax is None:
            res["problems"].append("theorem %s: no axiom report (%s)" % (n, txt[-300:].strip()))
        elif not set(ax) <= STD_AXIOMS:
            res["problems"].append("theorem %s depends on non-standard axioms %s" % (n, ax))
    if leanchecker:
        p = subprocess.run(["lake", "env", "leanchecker", mod], cwd=LEAN, capture_output=True, text=True)
        res["leanchecker_rc"] = p.returncode
        if p.returncode != 0:
            res["problems"].append("leanchecker %s failed: %s" % (mod, (p.stdout + p.stderr)[-500:]))
            res["discharged"] = 0
    return res


# ----------------------------------------------------------------------------- known findings

def load_known():
    p = os.path.join(VERIF, "known_findings.json")
    if not os.path.exists(p):
        return {"findings": [], "fixed": []}
    return json.load(open(p))


# ----------------------------------------------------------------------------- misc

def canon(x):
    return json.dumps(x, sort_keys=True, separators=(",", ":"))


def digest(x):
    return hashlib.sha1(canon(x).encode()).hexdigest()[:16]


def hx(b):
    if isinstance(b, str):
        b = b.encode("latin1")
    return bytes(b).hex()


def write_replay(pid, name, obj):
    d = os.path.join(VERIF, "evidence", "replays")
    os.makedirs(d, exist_ok=True)
    p = os.path.join(d, "%s-%s.json" % (pid, name))
    with open(p, "w") as f:
        json.dump(obj, f, indent=1, sort_keys=True)
    return p
