"""texts for MANIFEST.json"""
HOOK_COMMITS = ["fd76d36"]
NOTES = ("Technique: machine-checked proof in Lean 4 about a hand-written executable model, tied to /repo by a differential "
         "correspondence run on every check (DESIGN.md). fix: commits in /repo are listed in known_findings.json.")
NOT_APPLICABLE = {}
CHECKS = {
    "C17": {
        "text": ("Lean theorems (unbounded, member abstraction): one member per view entry in walk order (members_in_walk_order); a payload follows iff the "
                 "member is a regular file of positive size without link name, links have size 0 and no payload (payload_iff, links_have_no_payload); directories "
                 "carry a trailing slash (dir_trailing_slash); uid/gid/xattrs/device numbers/link name are carried over (identity_preserved); for every canonical "
                 "listing, whichever hard-link group members a filter removed, every link member of the archive the repaired WriteTar writes names an earlier "
                 "member written as the file itself (tar_links_closed, from the closure theorem of C11); the archived mode field reads back to exactly the permission and setuid/setgid/sticky bits of the entry, for every os.FileMode (mode_bits_round_trip). Correspondence: "
                 "WriteTar over in-memory and on-disk views (all types, long and non-UTF-8 names, xattrs, filters), archive read back with archive/tar and compared "
                 "member by member with the model; payload length = header size; 60% of the archives are extracted by an independent extractor (GNU tar as "
                 "root, -p --same-owner --xattrs) and the extracted tree is judged by the Lean tree specification of C01 against the view (mtimes to the second)."),
        "note": ("Trusted: Lean kernel + standard axioms; the byte layout of ustar/PAX is archive/tar's and is trusted; GNU tar as the extractor; mtime is "
                 "compared as archive/tar rounds it (nearest second). The extraction clause found F24 (dangling hard link in a filtered view), repaired."),
    },
    "C13": {
        "text": ("Lean theorems (entry level, unbounded): without options the metadata a copied entry ends up with is the source's, with chown/utime/mode the "
                 "requested owner/time/permission bits, symlinks excepted (no_options_preserves, chown_option, utime_option, mode_option_*); under every option combination name, link target, size and device numbers are the source's, an absent option leaves its field as the source has it, and every source xattr is carried while a destination xattr survives exactly when the source has none of that name (options_keep_identity_fields, absent_option_preserves, xattrs_source_wins); the octal mode option sets exactly the permission/special bits and leaves every type bit as the source has it (mode_option_sets_exactly_perm_bits). Correspondence: "
                 "copy.Copy in a chroot'ed child on materialised trees (all types, hard-link groups, suid/sgid/sticky, xattrs incl. file capabilities, ns "
                 "mtimes) into an empty root: whole tree / sub-directory / single file / single symlink / follow-links x {chown, octal mode, utime} vs the "
                 "executable tree-level reference (landing rule, children-then-metadata, created parents, notifier calls)."),
        "note": ("Trusted: Lean kernel + standard axioms; the tree-level reference is the specification (no separate transcription of the syscall sequence): "
                 "every difference is judged as a violation candidate; symbolic mode strings and the xattr error handler are not generated; POSIX effects observed "
                 "via lstat snapshot."),
        "technique": "Lean 4 theorems about an executable tree-level reference model of copy + differential correspondence with the real copy on generated trees",
    },
    "C14": {
        "text": ("Lean theorem (unbounded): the chroot-style resolver never leaves the root — for every tree (absolute, '..'-laden, dangling, looping links), "
                 "every path and every fuel the location reached has plain components only (resolve_stays_inside); the name a source argument contributes below "
                 "an existing destination directory is, for EVERY argument ('x/..', '..', 'a//b/', ...), empty or one plain separator-free component, never "
                 "'..' (landName_plain, over the byte-level filepath.Clean/Base transcriptions; landName_unrepaired_dotdot is the F23 witness). "
                 "Correspondence/containment: copies with symlinks to sentinel files/directories outside both roots planted in source tree, destination tree "
                 "and both path arguments, chown/mode/times options, '..' source arguments, include/exclude patterns below destination symlinks; full snapshot "
                 "(inode, mode, owner, times, bytes, xattrs) of everything outside the destination root before/after; sentinel bytes must not appear in the copy."),
        "note": ("Trusted: Lean kernel + standard axioms; that containerd/continuity RootPath behaves like the modelled resolver and that every target is "
                 "inspected with lstat is decided by the sentinel oracle on generated placements, not by a theorem over a POSIX model."),
    },
    "C15": {
        "text": ("Lean theorems (unbounded, abstract tree maps): overlaying a source twice equals overlaying it once, source entries win, unrelated destination "
                 "entries stay (overlay_idempotent, overlay_source_wins, overlay_keeps_unrelated); upsert_idem for the working tree. Correspondence: copies onto "
                 "destinations that are edit scripts of the source (every type pair collides) x {dir-contents, always-replace, trailing separator, nested dst}, "
                 "three applications each: result vs the executable reference (merge, replace, conflict error leaving the obstacle), idempotence whenever the "
                 "repetition lands on the same path (landing computed by the model)."),
        "note": ("Trusted: Lean kernel + standard axioms. Reading of idempotence: demanded when the repeated call resolves to the same landing path (DESIGN C15-T3); "
                 "wildcard sources are not generated yet."),
    },
    "C16": {
        "text": ("Lean theorems (unbounded): an entry the include/exclude lists do not select has no effect of its own — no directory, no write, no "
                 "notification (not_selected_no_effect); the copied source itself is always selected. Correspondence: copy with include/exclude lists from the "
                 "C10 fragment into empty/populated roots vs the executable reference (parent-result selection, on-demand ancestors with source mode/owner/xattrs "
                 "and kernel timestamps, chmod of existing ancestors); comparison of the copied set with the naive reference filter (finding F5)."),
        "note": ("Trusted: Lean kernel + standard axioms; patternmatcher modelled for the declared fragment (tied by suite pattern). Known finding F5."),
    },
    "C18": {
        "text": ("Lean theorems (unbounded): for every tree, request list and fuel the result of the transcribed FollowLinks is bytewise sorted and no element "
                 "is inside another (followLinks_sorted_prefix_free, from sortBytes_sorted, dedupe_sorted and dedupe_prefix_free - an invariant over the loop); "
                 "the result is 'everything' exactly when the root was resolved (dedupe_none_iff_root); kernel-checked witnesses for the unrepaired/repaired "
                 "de-duplication; the answer of the transcribed resolver does not depend on its fuel once the fuel flag stays down "
                 "(model_run_is_the_unbounded_run; the flag is reported for every case and a raised flag is a broken correspondence). Correspondence: "
                 "FollowLinks over synthetic and on-disk views with relative/absolute/'..'/chained/cyclic/self/dangling links and wildcard requests vs the "
                 "transcribed resolver (0 disagreements on the generated cases); oracle: the chroot-style reference resolver (every traversed link and the "
                 "final location covered by the result, empty result when the root is reached, sorted, prefix-free); termination by a 5 s watchdog. End to end "
                 "(suite followsend): real Send over NewFilterFS{FollowPaths} + Receive; every requested path must resolve in the transferred tree to the same "
                 "location, kind and bytes as in the source (found F25, repaired)."),
        "note": ("Trusted: Lean kernel + standard axioms; termination and closure of the resolver are decided by correspondence + oracle per case, not by a "
                 "theorem (the variant is the `resolved` set); known findings F12 (middle wildcards) and F19 (memo keyed by link path) are listed; the "
                 "end-to-end clause (transfer with those follow-paths resolves identically) is not exercised yet."),
    },
    "C10": {
        "text": ("Lean theorems (unbounded): core pruning lemma for the parent-result matcher over arbitrary pattern lists (prune_core: under the semantic "
                 "prune condition a negative verdict at a directory stays negative for every descendant); soundness of the syntactic test with a single trim "
                 "for the shapes t, t/*, t/**, t/*/** (prune_syntactic_sound); kernel-checked witness that the double trim was unsound (f9_witness); the "
                 "EXECUTABLE MatchesUsingParentResults of the model is the abstract matcher of prune_core whenever parent results are present (matchesUPR_eq), "
                 "hence for every pattern list (negations included): if it says 'no match' at a directory and no positive pattern matches a path below without "
                 "matching the directory, the verdict stays 'no match' along every chain of descendants evaluated with threaded parent results - SkipDir there "
                 "is unobservable (exec_prune_sound); for literal and 't/**' patterns (what patternmatcher matches by string comparison) the syntactic prune "
                 "test of filter.go alone implies that condition (literal_prune_condition, literal_prune_unobservable). "
                 "Correspondence: moby/patternmatcher vs the Lean matcher (regexp translation with exact/prefix/suffix shortcuts, rune semantics) on 30k "
                 "(pattern list, path) pairs; NewFilterFS.Walk vs the transcribed callback + WalkDir driver on trees x pattern lists x map tables; oracle: "
                 "the naive reference (stateless matcher on every entry + ancestors) and the no-pruning run."),
        "note": ("Trusted: Lean kernel + standard axioms; patternmatcher modelled for a declared fragment; that the syntactic prune test of filter.go implies the semantic condition for regexp-type "
                 "patterns ('t/*', classes, ...), the exclude side, and the lift to 'filterWalk with pruning = filterWalk without' over the transcribed callback and WalkDir driver, are by execution "
                 "(both variants are run on every case), not theorems. "
                 "Known finding F5 (parent-result vs stateless matcher under negations)."),
    },
    "C11": {
        "text": ("Lean theorems (unbounded): CLOSURE of the hard-link reset - for every listing as a walk produces it (distinct non-empty paths, link names "
                 "never naming an entry that is itself announced as a link), whichever group members the filter removed, every hard link of the reset "
                 "listing names an earlier entry announced without link name (reset_closed, by an invariant over the memo); the reset keeps entries and "
                 "order (reset_paths); one-step lemmas reset_promotes / reset_relinks / reset_keeps_plain and the step equations. Correspondence: real Send over NewFilterFS(view) "
                 "(hard-link groups straddling included/excluded paths) + Receive: STAT log vs filterWalk + reset model, executable closure check of link names, "
                 "destination = filtered view (C01 spec); Walk vs Open agreement on every regular file; FollowPaths configurations end to end (suite followsend)."),
        "note": ("Trusted: Lean kernel + standard axioms; the canonical-listing hypothesis of reset_closed is what fs.Walk delivers (C09) and is checked by execution per case "
                 "(linksClosed on the real STAT log); nested filter stacks (a second NewFilterFS on top) are generated and modelled by composing filterWalk. Known finding F5."),
    },
    "C20": {
        "text": ("Lean theorems (unbounded) about the TRANSCRIBED generated code: unmarshalStat (marshalStat s) = ok s for every well-formed Stat "
                 "(stat_roundtrip: uint32/int64 field ranges incl. negative sizes, arbitrary byte strings as names, distinct xattr keys; tag dispatch, wire-type "
                 "and bounds checks, nested map-entry loop, 64-bit shift/OR varint reader with overflow and EOF exits all inside the proof), "
                 "unmarshalPacket (marshalPacket p) = ok p with the nested optional Stat (packet_roundtrip), readVar_roundtrip, varint_roundtrip; for EVERY byte "
                 "string the Stat and Packet decoders return a value or a decoder error, never an out-of-range index or slice "
                 "(stat_decoder_never_panics, packet_decoder_never_panics: every dAtA[i] and dAtA[a:b] of the transcription is bounds-checked); any sequence of "
                 "messages framed with a 4-byte big-endian length is read back identical and in order, independent of fragmentation (frames_roundtrip). "
                 "Correspondence: the transcription is run against the Go decoder on mutated encodings and raw bytes (value-or-error equality, every read "
                 "bounds-checked with outcome 'panic'); values go through the hand-optimised and the generic codec in both directions; packets go through "
                 "util.ProtoStream with fragmenting readers, aliasing and allocation monitors."),
        "note": ("Trusted: Lean kernel + standard axioms; the transcription of *_vtproto.pb.go is tied to the code by the wirebytes/wirevals suites, not by a "
                 "translator. 'Never panics' is a theorem about the transcription (index and slice expressions); that the Go code has no other panicking "
                 "construct is covered by running the Go decoder on the same bytes; 'never aliases' and 'never over-allocates' are runtime facts observed by the harness monitors. Known finding F17 "
                 "(non-UTF-8 names vs the generic runtime) is listed in known_findings.json."),
    },
    "C19": {
        "text": ("Lean theorems (unbounded): the chunked listing buffer flattens to the concatenation of its frames for every chunk capacity and frame size "
                 "(buffer_flatten); with the repaired counter every registered id is the entry's position in the full STAT sequence for every stream "
                 "(ids_are_stat_indices), the unrepaired code only for streams without the listing name (…_partial, ids_shifted_witness); the listing is the stream minus "
                 "the listing name (listing_is_stream_minus_own_name); for every canonical stream and selector the pending-ancestor stack forwards exactly the selected "
                 "entries plus the directories above them, in order, once (forwarded_is_selected_plus_ancestors; premise mcanonB evaluated on every real stream). Correspondence: real "
                 "metadata-only transfers (sources containing the listing name, multi-chunk listings, stats > 32 KiB, prior listing files/symlinks) vs the "
                 "byte-level Lean model: REQ ids, decoded listing file, destination = selected entries + needed ancestors (C01 spec on the projected view)."),
        "note": ("Trusted: Lean kernel + standard axioms; the listing is decoded in the harness with the generic protobuf runtime (falling back to the library "
                 "codec for non-UTF-8 names, which the generic runtime refuses — see C20); the bridge component-level id theorem -> byte-level model is by correspondence."),
    },
    "C04": {
        "text": ("Lean theorems (unbounded): LIVENESS on a concrete blocking model of the sender's goroutines (walker, n workers, pipeline of capacity cap, "
                 "receive loop): after teardown no well-formed state with a live goroutine is stuck (sender_no_deadlock_after_teardown, any n >= 1, cap >= 1, any "
                 "number of pending requests) and every step decreases a variant (sender_terminates_after_teardown); invariant preserved (sender_wf_invariant); "
                 "kernel-checked stuck state for the unrepaired push (unrepaired_sender_can_block_forever). The same for a concrete model of the RECEIVER's "
                 "goroutines (packet reader, dynamicWalker feeder, differ goroutine, async writers; channel capacities and backlog arbitrary): "
                 "receiver_no_deadlock_after_teardown, receiver_terminates (variant), receiver_wf_invariant, and a kernel-checked schedule on which a feeder "
                 "that leaves without closing closeCh blocks the reader for ever (feeder_without_close_blocks_forever). SAFETY: the receiver can send FIN / report success only "
                 "after the end marker and every needed terminator (fin_only_if_complete); convergence from every valid prior destination (resume_converges). "
                 "Fault enumeration on the real code: n-th Send/RecvMsg failing on either end, cancellation after k packets, walk error, read error at offset j, "
                 "hasher/notify error, SIGKILL after k packets, peer that stops reading with 0..320 requests pending; teardown after a grace period; oracle: both "
                 "calls return within 3 s, no fsutil goroutine left, success only with a converged destination / a received FIN, follow-up transfer converges."),
        "note": ("Trusted: Lean kernel + standard axioms. The concrete LTSs abstract callbacks and file I/O as non-blocking steps. They are tied to the code by the fault suites' observed outcomes (never 'blocked'), not by a step-by-step "
                 "correspondence. 'Bounded time' on the real code is wall-clock 3 s after teardown; environment calls (reads, callbacks) are assumed to return."),
        "technique": "Lean 4 liveness (no-deadlock + variant) and safety theorems about LTS models + fault enumeration on the real code with a Lean-evaluated convergence oracle",
    },
    "C08": {
        "text": ("Lean theorems (unbounded): bytes sent for a finished id are the same in any two runs of the sender LTS (sent_bytes_schedule_independent); "
                 "stored bytes depend only on the per-id payload sequence (stored_bytes_schedule_independent); two complete receiver runs over the same change computation requested the same ids (request_set_schedule_independent); the change/request/notification set is a function "
                 "of the two listings (change_set_is_a_function). Correspondence: each transfer is repeated under K seeded schedules (capacity 0..64, delays, "
                 "read splits, GOMAXPROCS 1..16) with an overlap detector that holds every SendMsg/RecvMsg open; final tree, REQ set, notification set with "
                 "digests must coincide across schedules and with the Lean model; overlap count must be 0; the same schedules are executed by a harness "
                 "built with -race and every report of the Go race detector is a violation (suite 'race')."),
        "note": ("Trusted: Lean kernel + standard axioms. 'No data race' is a statement about the Go memory model that no pure model exhibits: it is decided "
                 "by the Go race detector on the executed schedules, i.e. by search, not by a theorem (labelled partial for that clause). Schedules are those "
                 "the seeded gates produce."),
    },
    "C03": {
        "text": ("Lean theorems (unbounded): a path passing the repaired lexical test consists of plain components only, so it names a strict descendant of "
                 "dest (accepted_path_is_plain); an admitted hard link names an earlier admitted plain file (link_source_was_sent); in every sequence the verbatim "
                 "validator accepts, each ancestor path of each entry was announced earlier as a directory and no path is announced twice "
                 "(every_component_is_an_announced_directory, nothing_is_announced_twice: no component of an accepted path is a symlink of the peer's making); over a whole "
                 "stream every hard-link entry that passes names a plain file announced strictly earlier (hard_link_names_an_earlier_plain_file); validator theorems of C12. "
                 "Correspondence: hostile packet scripts (ill-formed paths, order/parent violations, children of files/symlinks, escaping hard links, symlink "
                 "entries with xattrs pointing outside, DATA for unrequested ids, ERR) against real Receive in a chroot'ed child with sentinel trees around dest; "
                 "the first offender predicted by the Lean admission model; oracle: nothing outside dest changed, failure, nothing at/after the offender applied."),
        "note": ("Trusted: Lean kernel + standard axioms; the containment of DiskWriter's syscalls is decided by the sentinel snapshot on generated scripts, "
                 "not by a theorem over a POSIX model; STAT after the end marker (process crash, outside the listed clauses) is not generated."),
    },
    "C07": {
        "text": ("Lean theorems (unbounded): in every reachable state of the receiver LTS requests are needed ids, announced before requested, at most once; "
                 "terminators only for requested ids; FIN only after the end marker and all terminators (receiver_protocol); stored bytes = concatenation of the "
                 "payloads received, any chunking/interleaving (stored_is_concat); a terminator is accepted at most once per id (terminator_once_per_id); nothing after FIN in an accepted log is a request or a second FIN (fin_is_the_last_send); at FIN the requested ids are exactly the needed ones (requests_are_exactly_the_needed_ids); nothing is stored for an id that was not requested (stored_only_for_requested). The LTS is the acceptor of real Receive event logs against an independent "
                 "reference sender; needed ids come from the Lean change computation; the destination (also at the moment FIN is seen) is compared with what was sent."),
        "note": ("Trusted: Lean kernel + standard axioms; bytes compared by content hash in the harness; schedules = those produced by seeded capacities, "
                 "chunkings and interleavings."),
    },
    "C06": {
        "text": ("Lean theorems (unbounded): in the abstract sender LTS (any number of workers, any queue discipline, any interleaving, any read split) the DATA "
                 "payloads per id always form a prefix of the file at that STAT index, the whole file once terminated, and only announced regular entries carry "
                 "data (sender_data; inductive invariant invariant_step); STATs never exceed the view, all are out before the one end marker (sender_stats, one_end_marker); the number of terminators sent for an id is 1 once it is finished and 0 before, never two (one_terminator_per_id); content or a terminator for an id implies a request for it earlier in the run (content_only_for_requested). The same LTS runs as the acceptor of the boundary-event log of real Send runs against "
                 "an independent reference receiver (request scripts: subsets, orders, racing the STAT stream, bursts > 132, unknown/non-file/duplicate ids); "
                 "further clauses (STATs = view + one end marker, FIN echo, failure on bad ids, progress callbacks, bytes) are checked on the log."),
        "note": ("Trusted: Lean kernel + standard axioms; payload bytes are compared by the harness's reference receiver (the acceptor replays lengths and order); "
                 "the acceptor constrains nothing after an invalid request except that Send fails; schedules are those the seeded stream capacities/delays produce."),
    },
    "C01": {
        "text": ("Lean theorems (unbounded): the change events computed for (old destination listing, source listing) applied to the old listing give exactly "
                 "the source listing (transfer_events_converge, both differs); in merge mode only additions are emitted (merge_never_deletes). "
                 "Correspondence: real Send+Receive over an instrumented in-process stream, in-memory and on-disk sources, fresh/dirty/merge destinations; STAT "
                 "sequence, REQ ids and notifications vs the Lean tree-level model; the executable C01 spec (destination snapshot = view: types, bytes, mode bits, "
                 "owners, symlink targets, device numbers, hard-link groups, mtimes, xattrs of created entries; overlay in merge mode) judged on the real destination."),
        "note": ("Trusted: Lean kernel + standard axioms; correspondence only on generated cases; POSIX effects of DiskWriter (syscall level) are observed via an "
                 "independent lstat snapshot, not proved; unprivileged-receiver clause not exercised yet."),
    },
    "C05": {
        "text": ("Lean theorems (unbounded): replaying the notified events on the old listing gives the new one (notifications_replay); nothing is notified when "
                 "nothing changed (unchanged_is_silent); a modify implies a changed identity, every new or changed path is notified (unchanged_never_notified, every_change_notified), and every old path the new listing lacks is covered by a notification that removes it or an entry above it (every_removal_notified); notification paths are strictly ascending, so no path is notified twice (each_path_notified_once). Correspondence: NotifyHashed callbacks of real transfers vs the model's event set, the executable "
                 "listing-level spec (each changed path once, unchanged never, top-most deletes) on the real notifications, and the digest recomputed "
                 "independently as hash(header of the stat as sent ++ bytes now stored)."),
        "note": ("Trusted: Lean kernel + standard axioms; add and modify are both read as 'path now carries this entry' (the code reports every regular file "
                 "as add); the hash is uninterpreted (sha256 in the harness)."),
    },
    "C02": {
        "text": ("Lean theorems (unbounded): the transcribed sameFile/compareStat is exactly equality of the property's identity tuple (sameFile_iff_identity); "
                 "diffing a listing against itself emits nothing (resync_is_silent); for valid listings the emitted add/modify/delete events applied to the old "
                 "listing give the source listing, for both differs (diff_converges); adds are exactly the new paths, modifies exactly the changed co-present ones, deletes only removed paths (adds_exactly_new, modifies_exactly_changed, deletes_only_removed); event paths are strictly ascending, so at most one event per path (at_most_one_event_per_path). Correspondence: doubleWalkDiff (through the verif export) vs the Lean diff "
                 "on generated listing pairs, and the executable reference spec (each changed path once, unchanged never, top-most deletes) applied to what the Go code emitted."),
        "note": ("Trusted: Lean kernel + standard axioms; model = code only on generated inputs. Listing level: that the receiver's destination walk and the "
                 "wire deliver those listings, inode preservation and content requests on disk are decided by the end-to-end suites (resync), not by a theorem."),
    },
    "C09": {
        "text": ("Lean theorems (unbounded): the pre-order walk of every tree whose directories list children in bytewise name order is strictly ascending in "
                 "ComparePath, below any prefix (walk_strictly_ascending, _below), a directory precedes everything under it (dir_before_contents), no path is listed twice (walk_lists_each_entry_once), and every path of a snapshot is visited by the walk of the tree the executable model builds from it, and nothing but those paths and the directories above them (walk_lists_every_entry, walk_lists_only_entries; for a parent-closed snapshot visited iff an entry: walk_lists_exactly_the_entries). "
                 "Correspondence: NewFS(dir).Walk on trees materialised on ext4 (all entry types, hard-link groups, xattrs, adversarial names) vs the executable "
                 "model fed an independent lstat/readlink/listxattr snapshot, and the executable spec (once-ness, order, stat equality, hard-link rule) on the Go output."),
        "note": ("Trusted: Lean kernel + standard axioms; 'stat matches lstat' is an OS fact decided by correspondence only; ReadDir order assumed bytewise "
                 "(exercised). SubDirFS composition is not yet covered by a suite."),
    },
    "C12": {
        "text": ("Lean theorems (unbounded): validator_eq_spec - the VERBATIM byte-level transcription of Validator.HandleChange (lexical tests on the "
                 "byte string, filepath.Clean/Dir/Base, the sort.Search binary search over parentDirs, ComparePath, the last-child comparison) returns for "
                 "every change sequence (any length, arbitrary byte strings, adds and deletes) exactly what the property's specification returns: accept, or "
                 "reject at the same index; it never reaches an out-of-range index (validator_never_panics). Proved by a simulation onto the component-level "
                 "validator (validator_iff_spec_components) through Dir/Base lemmas on plain paths, binary-search correctness over the chain-shaped stack and "
                 "cmp_eq_componentwise. ComparePath is a strict total order (cmp_irrefl/trans/total/asymm); lexical_test_iff_plain; F1 witnesses. "
                 "Correspondence: the transcription and the specification are both run against the Go code on exhaustive short sequences over a 24-path "
                 "alphabet and random mutated tree walks."),
        "note": ("Trusted: Lean kernel + propext/Classical.choice/Quot.sound; that the byte-level transcription equals the Go code beyond the generated inputs "
                 "(decided by the correspondence suite); Go stdlib filepath/sort as transcribed (filepath functions are compared with the stdlib by the pathfn suite)."),
    },

}
