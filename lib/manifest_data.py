"""texts for MANIFEST.json"""
HOOK_COMMITS = []
NOTES = ("Technique: machine-checked proof in Lean 4 about a hand-written executable model, tied to /repo by a differential "
         "correspondence run on every check (DESIGN.md). fix: commits in /repo are listed in known_findings.json.")
NOT_APPLICABLE = {}
CHECKS = {
    "C12": {
        "text": ("Lean theorems (unbounded): ComparePath is a strict total order (cmp_irrefl/trans/total/asymm) and equals component-wise lexicographic "
                 "comparison (cmp_eq_componentwise); the component-level validator accepts exactly the ascending, parent-closed sequences of plain paths "
                 "(validator_iff_spec_components); the repaired lexical test admits exactly plain component lists (lexical_test_iff_plain). "
                 "The byte-level executable transcription of Validator.HandleChange (incl. sort.Search) and the property's own executable spec are both run "
                 "against the Go code on exhaustive short sequences over a 24-path alphabet and random mutated tree walks."),
        "note": ("Trusted: Lean kernel + propext/Classical.choice/Quot.sound; that the byte-level model equals the Go code beyond the generated inputs; "
                 "Go stdlib filepath/sort as modelled. The bridge byte-level model -> component-level theorem is by correspondence (both are run), not yet a Lean theorem."),
    },
}
