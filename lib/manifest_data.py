"""texts for MANIFEST.json"""
HOOK_COMMITS = ["fd76d36"]
NOTES = ("Technique: machine-checked proof in Lean 4 about a hand-written executable model, tied to /repo by a differential "
         "correspondence run on every check (DESIGN.md). fix: commits in /repo are listed in known_findings.json.")
NOT_APPLICABLE = {}
CHECKS = {
    "C02": {
        "text": ("Lean theorems (unbounded): the transcribed sameFile/compareStat is exactly equality of the property's identity tuple (sameFile_iff_identity); "
                 "diffing a listing against itself emits nothing (resync_is_silent); for valid listings the emitted add/modify/delete events applied to the old "
                 "listing give the source listing, for both differs (diff_converges). Correspondence: doubleWalkDiff (through the verif export) vs the Lean diff "
                 "on generated listing pairs, and the executable reference spec (each changed path once, unchanged never, top-most deletes) applied to what the Go code emitted."),
        "note": ("Trusted: Lean kernel + standard axioms; model = code only on generated inputs. Listing level: that the receiver's destination walk and the "
                 "wire deliver those listings, inode preservation and content requests on disk are decided by the end-to-end suites (resync), not by a theorem."),
    },
    "C09": {
        "text": ("Lean theorems (unbounded): the pre-order walk of every tree whose directories list children in bytewise name order is strictly ascending in "
                 "ComparePath, below any prefix (walk_strictly_ascending, _below), and a directory precedes everything under it (dir_before_contents). "
                 "Correspondence: NewFS(dir).Walk on trees materialised on ext4 (all entry types, hard-link groups, xattrs, adversarial names) vs the executable "
                 "model fed an independent lstat/readlink/listxattr snapshot, and the executable spec (once-ness, order, stat equality, hard-link rule) on the Go output."),
        "note": ("Trusted: Lean kernel + standard axioms; 'stat matches lstat' is an OS fact decided by correspondence only; ReadDir order assumed bytewise "
                 "(exercised). SubDirFS composition is not yet covered by a suite."),
    },
    "C12": {
        "text": ("Lean theorems (unbounded): ComparePath is a strict total order (cmp_irrefl/trans/total/asymm) and equals component-wise lexicographic "
                 "comparison (cmp_eq_componentwise); the component-level validator accepts exactly the ascending, parent-closed sequences of plain paths "
                 "(validator_iff_spec_components); the repaired lexical test admits exactly plain component lists (lexical_test_iff_plain). "
                 "The byte-level executable transcription of Validator.HandleChange (incl. sort.Search) and the property's own executable spec are both run "
                 "against the Go code on exhaustive short sequences over a 24-path alphabet and random mutated tree walks."),
        "note": ("Trusted: Lean kernel + propext/Classical.choice/Quot.sound; that the byte-level model equals the Go code beyond the generated inputs; "
                 "Go stdlib filepath/sort as modelled. The bridge byte-level model -> component-level theorem is by correspondence (both are run), not yet a Lean theorem."),
    },
}
