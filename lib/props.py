"""property -> correspondence suites"""
from .suites import pure, diff

PROPS = {
    "C02": {
        "suites": [diff.DiffSuite],
        "assumptions": ["listing-level: the old-destination listing is what the receiver's walk of dest reports (tied by the resync suite)"],
    },
    "C12": {
        "suites": [pure.PathFn, pure.ValidatorSuite],
        "assumptions": ["Go stdlib path/filepath (Clean, Dir, Base, IsAbs, Join) and sort.Search behave as modelled (exercised differentially by suite pathfn/validator)"],
    },
}
