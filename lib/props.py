"""property -> correspondence suites"""
from .suites import pure, diff, walk, sync, proto, faults, metaonly, wire, filt, follow, copy, tar

PROPS = {
    "C17": {"suites": [tar.TarSuite], "assumptions": ["the byte layout of ustar/PAX is archive/tar's and is trusted; the model is about the member abstraction"]},
    "C13": {"suites": [copy.CopyPreserve], "assumptions": ["Linux/ext4 semantics observed through an independent lstat snapshot; symbolic mode strings are not generated"]},
    "C14": {"suites": [copy.CopyEscape], "assumptions": ["copy runs in a chroot'ed child; sentinels outside both roots are snapshotted before/after"]},
    "C15": {"suites": [copy.CopyOverlay], "assumptions": ["idempotence reading: see DESIGN.md C15-T3"]},
    "C16": {"suites": [copy.CopyFilter, filt.PatternSuite], "assumptions": ["reference set = parent-result filter walk (what Walk reports); the naive-matcher difference is finding F5"]},
    "C18": {
        "suites": [follow.Dedupe, follow.FollowLinks, sync.FollowSend],
        "assumptions": ["filepath.Match is modelled for *, ?, simple classes and escapes"],
    },
    "C11": {
        "suites": [sync.SendFilter, filt.FilterC11, sync.FollowSend],
        "assumptions": ["moby/patternmatcher modelled for the declared fragment"],
    },
    "C10": {
        "suites": [filt.FilterSuite, filt.PatternSuite],
        "assumptions": ["moby/patternmatcher is modelled for the declared pattern fragment only; patterns outside it are covered by correspondence alone"],
    },
    "C20": {
        "suites": [wire.Frames, wire.WireValues, wire.WireBytes],
        "assumptions": ["google.golang.org/protobuf is only the other party of a Go-side cross-decode, not modelled"],
    },
    "C19": {
        "suites": [metaonly.MetaOnly],
        "assumptions": ["the listing file is decoded by the generic protobuf runtime in the harness"],
    },
    "C04": {
        "suites": [faults.FaultSend, faults.FaultSync, sync.SwapRace],
        "assumptions": ["'bounded time' = returns within 3 s of wall clock after the harness tears the stream down; environment calls (reads, callbacks) return"],
    },
    "C08": {
        "suites": [sync.SchedSuite, sync.RaceSuite, sync.SwapRace],
        "assumptions": ["'no data race' is a statement about the Go memory model, not expressible in the Lean model: it is decided by the Go race detector on the executed schedules (suite 'race'), i.e. by search, not by a theorem; the overlap detector decides 'no two SendMsg/RecvMsg in flight'"],
    },
    "C03": {
        "suites": [proto.Hostile, pure.ValidatorSuite],
        "assumptions": ["fsutil runs in a chroot'ed child process; everything in the jail outside dest is snapshotted before/after (mode, owner, inode, times, bytes, xattrs)"],
    },
    "C07": {
        "suites": [proto.RecvProto],
        "assumptions": ["payload bytes on disk are compared by content hash with what the reference sender sent"],
    },
    "C06": {
        "suites": [proto.SendProto],
        "assumptions": ["payload bytes are compared by the independent reference receiver in the harness; the Lean acceptor replays lengths/order of the boundary events"],
    },
    "C05": {
        "suites": [sync.SyncC05, diff.DiffSuite],
        "assumptions": ["the hash function is uninterpreted: the harness's recording hasher feeds sha256 with (canonical header of the stat it is given) ++ bytes written"],
    },
    "C01": {
        "suites": [sync.SyncC01, faults.FaultResync, diff.DiffSuite],
        "assumptions": ["Linux/ext4 syscall semantics as observed through an independent lstat snapshot"],
    },
    "C09": {
        "suites": [walk.WalkSuite, walk.SubWalkSuite, pure.PathFn],
        "assumptions": ["os.ReadDir/filepath.WalkDir order = bytewise name order per directory (exercised by suite walk)",
                        "'stat matches lstat/readlink/listxattr' is an OS fact: decided by correspondence with an independent snapshot only"],
    },
    "C02": {
        "suites": [diff.DiffSuite, sync.SyncC02],
        "assumptions": ["listing-level: the old-destination listing is what the receiver's walk of dest reports (tied by the resync suite)"],
    },
    "C12": {
        "suites": [pure.PathFn, pure.ValidatorSuite],
        "assumptions": ["Go stdlib path/filepath (Clean, Dir, Base, IsAbs, Join) and sort.Search behave as modelled (exercised differentially by suite pathfn/validator)"],
    },
}
