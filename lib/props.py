"""property -> correspondence suites"""
from .suites import pure

PROPS = {
    "C12": {
        "suites": [pure.PathFn, pure.ValidatorSuite],
        "assumptions": ["Go stdlib path/filepath (Clean, Dir, Base, IsAbs, Join) and sort.Search behave as modelled (exercised differentially by suite pathfn/validator)"],
    },
}
