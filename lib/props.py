"""property -> correspondence suites"""
from .suites import pure, diff, walk

PROPS = {
    "C09": {
        "suites": [walk.WalkSuite, pure.PathFn],
        "assumptions": ["os.ReadDir/filepath.WalkDir order = bytewise name order per directory (exercised by suite walk)",
                        "'stat matches lstat/readlink/listxattr' is an OS fact: decided by correspondence with an independent snapshot only"],
    },
    "C02": {
        "suites": [diff.DiffSuite],
        "assumptions": ["listing-level: the old-destination listing is what the receiver's walk of dest reports (tied by the resync suite)"],
    },
    "C12": {
        "suites": [pure.PathFn, pure.ValidatorSuite],
        "assumptions": ["Go stdlib path/filepath (Clean, Dir, Base, IsAbs, Join) and sort.Search behave as modelled (exercised differentially by suite pathfn/validator)"],
    },
}
