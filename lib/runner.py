"""Generic check runner: obligations + correspondence suites -> verdict + evidence."""
import json, os, random, sys, time, collections
from . import core
from .core import log


class Verdict:
    __slots__ = ("agree", "spec_ok", "note")

    def __init__(self, agree, spec_ok=None, note=""):
        self.agree, self.spec_ok, self.note = agree, spec_ok, note


class Suite:
    """one correspondence suite.  Subclasses define gen/judge (and optionally the rest)."""
    name = "?"
    rule = ""
    needs_root = False

    def gen(self, rng, tier):
        return []

    def corpus(self):
        p = os.path.join(core.VERIF, "corpus", self.name + ".jsonl")
        if not os.path.exists(p):
            return []
        return [json.loads(l) for l in open(p) if l.strip()]

    def prepare_impl(self, ops):
        return ops

    def prepare_model(self, ops, impl=None):
        return ops

    def run_impl(self, vh, ops):
        return core.run_impl(vh, ops)

    def run_model(self, ops):
        return core.run_model(ops)

    def judge(self, op, impl, model):
        raise NotImplementedError

    def nontrivial(self, op, impl, model):
        return True

    def key(self, op):
        return core.digest(op)

    def features(self, op, impl, model):
        """labels for the input-distribution histogram"""
        return []

    def shrink(self, op):
        """candidate smaller ops (for minimisation)"""
        return []

    def neighbours(self, op, rng):
        """inputs near op, used when searching for a failing input after a disagreement"""
        return []

    matchers = {}


def minimise(suite, vh, op, pred, budget=300):
    """greedy delta-minimisation: keep shrinking while pred(op, impl, model) holds"""
    if os.environ.get("VERIF_NOMIN"):
        return op        # bookkeeping runs (tools/seed_matrix.py) only need the verdict
    cur = op
    steps = 0
    improved = True
    while improved and steps < budget:
        improved = False
        cands = list(suite.shrink(cur))
        if not cands:
            break
        B = 64
        for s in range(0, len(cands), B):
            batch = cands[s:s + B]
            impl = suite.run_impl(vh, suite.prepare_impl(batch))
            model = suite.run_model(suite.prepare_model(batch, impl))
            steps += len(batch)
            hit = None
            for c, i, m in zip(batch, impl, model):
                try:
                    if pred(c, i, m):
                        hit = c
                        break
                except Exception:
                    pass
            if hit is not None:
                cur = hit
                improved = True
                break
            if steps >= budget:
                break
    return cur


def run_suites(pid, suites, tier, seed, vh, known, evidence):
    """runs the suites; returns (violations, known_hits, disagreements) and fills evidence coverage"""
    cov = evidence["coverage"]
    violations = []   # (suite, op, impl, model, note)
    disagreements = []
    known_hits = collections.OrderedDict()
    total = 0
    distinct = set()
    hist = collections.Counter()
    samples = []
    per_suite = {}
    for suite in suites:
        t0 = time.time()
        rng = random.Random("%s/%s/%d" % (pid, suite.name, seed))
        ops = list(suite.corpus()) + list(suite.gen(rng, tier))
        impl = suite.run_impl(vh, suite.prepare_impl(ops))
        model = suite.run_model(suite.prepare_model(ops, impl))
        nv = nd = nskip = 0
        skip_why = ""
        for op, i, m in zip(ops, impl, model):
            total += 1
            try:
                if isinstance(i, dict) and i.get("hung"):
                    # the harness's last-resort watchdog: a call of the library never returned (blocked in the kernel)
                    v = Verdict(False, False, "%s; goroutines: %s" % (i["hung"], str(i.get("stacks", ""))[:1500]))
                elif isinstance(i, dict) and "crash" in i and not getattr(suite, "handles_crash", False):
                    # the harness process died on this op, and again when the op was run on its own: a panic / fatal error in the library
                    v = Verdict(False, False, "the process died on this operation (also when run alone): %s" % str(i["crash"])[-1200:])
                else:
                    v = suite.judge(op, i, m)
            except Exception as e:
                v = Verdict(False, None, "judge error: %r impl=%s model=%s" % (e, str(i)[:300], str(m)[:300]))
            if suite.nontrivial(op, i, m):
                distinct.add(suite.name + ":" + suite.key(op))
            for f in suite.features(op, i, m):
                hist[suite.name + "." + f] += 1
            if v.spec_ok is None and v.agree and (v.note or "").startswith("skipped"):
                nskip += 1
                skip_why = skip_why or v.note[:300]
            if v.spec_ok is False:
                violations.append((suite, op, i, m, v.note))
                nv += 1
            elif not v.agree:
                if known is not None and _match_known(pid, known, suite, op, i, m):
                    # a listed finding that shows as a difference between implementation and model (the model cannot predict what the
                    # kernel does there) rather than as a violated clause: reported as that finding
                    violations.append((suite, op, i, m, v.note))
                    nv += 1
                else:
                    disagreements.append((suite, op, i, m, v.note))
                    nd += 1
        if ops:
            k = rng.randrange(len(ops))
            samples.append({"suite": suite.name, "op": _trunc(ops[k]), "impl": _trunc(impl[k]), "model": _trunc(model[k])})
        rec = [i["recovered_crash"][:400] for i in impl if isinstance(i, dict) and i.get("recovered_crash")]
        per_suite[suite.name] = {"cases": len(ops), "spec_violations": nv, "disagreements": nd, "skipped": nskip,
                                 "wall_s": round(time.time() - t0, 2)}
        if rec:
            per_suite[suite.name]["process_deaths_not_reproduced"] = {"count": len(rec), "first": rec[0]}
            log("[suite] %s: %d process death(s) that did not reproduce when the op was run alone" % (suite.name, len(rec)))
        log("[suite] %s: %d cases, %d spec violations, %d disagreements%s, %.1fs" % (
            suite.name, len(ops), nv, nd, ", %d skipped" % nskip if nskip else "", time.time() - t0))
        # vacuity guard: a run in which the cases are not executed decides nothing. (Unchanged tree: < 3% skipped in every suite.)
        if len(ops) >= 20 and nskip > max(5, getattr(suite, "max_skip", 0.15) * len(ops)):
            disagreements.append((suite, ops[0], impl[0], model[0],
                                  "correspondence not executed: %d of %d cases of suite %s were skipped (first reason: %s)" % (nskip, len(ops), suite.name, skip_why)))
    cov["evaluations"] = total
    cov["distinct_nontrivial"] = len(distinct)
    cov["samples"] = samples[:6]
    cov["input_distribution"] = dict(sorted(hist.items()))
    cov["suites"] = per_suite
    cov["rule"] = " | ".join("%s: %s" % (s.name, s.rule) for s in suites)
    return violations, disagreements


def _trunc(x, n=1500):
    s = json.dumps(x, sort_keys=True)
    if len(s) <= n:
        return x
    return {"truncated": s[:n]}


def check_property(pid, suites, tier, seed, level_note="", assumptions=None, leanchecker=None):
    """the whole check for one property; prints VIOLATION / KNOWN-FINDING lines; returns exit code"""
    t0 = time.time()
    evidence = {
        "property_id": pid, "tier": tier, "seed": seed, "level": "proof",
        "coverage": {"obligations": 0, "discharged": 0,
                     "checker_cmd": "cd /verif/lean && lake build FsutilModel.Props.%s && lake env lean <generated #print axioms file>%s" % (
                         pid, " && lake env leanchecker FsutilModel.Props.%s" % pid if tier == "thorough" else ""),
                     "trusted_base": [
                         "Lean 4.33.0 kernel; axioms allowed: propext, Classical.choice, Quot.sound (checked per theorem)",
                         "statements in lean/FsutilModel/Props/%s.lean say what properties.jsonl says" % pid,
                         "correspondence: Go harness (/verif/harness), Lean driver (/verif/lean/Driver.lean, Drv/), generators and canonicalisers (/verif/lib); "
                         "model = code only on the inputs generated in this run"]},
        "assumptions": assumptions or [], "wall_s": 0.0, "violations": 0,
    }
    cov = evidence["coverage"]
    known = core.load_known()
    exit_code = 0
    out_lines = []
    try:
        vh = core.build_harness()
    except core.BuildError as e:
        # the repository no longer builds with the harness: the correspondence cannot run
        rp = core.write_replay(pid, "build", {"property": pid, "broken": "go build of the harness against the working tree", "detail": str(e)})
        print("VIOLATION property=%s replay=%s no-failing-input-found" % (pid, rp))
        cov.update({"evaluations": 0, "distinct_nontrivial": 0, "samples": [], "rule": "build failed"})
        evidence["violations"] = 1
        _write_evidence(pid, evidence, t0)
        return 1
    aud = core.audit(pid, leanchecker=(tier == "thorough") if leanchecker is None else leanchecker)
    cov["obligations"] = aud["obligations"]
    cov["discharged"] = aud["discharged"]
    cov["theorems"] = aud["theorems"]
    broken_obl = list(aud["problems"])

    violations, disagreements = run_suites(pid, suites, tier, seed, vh, known, evidence)
    cov["disagreements_checked"] = len(disagreements)

    # ---- spec violations on the implementation
    reported = 0
    seen_known = collections.OrderedDict()
    unknown = []
    for (suite, op, i, m, note) in violations:
        fid = _match_known(pid, known, suite, op, i, m)
        if fid:
            seen_known.setdefault(fid, (suite, op, note))
        else:
            unknown.append((suite, op, i, m, note))
    for fid, (suite, op, note) in seen_known.items():
        f = [x for x in known["findings"] if x["id"] == fid][0]
        print("KNOWN-FINDING: property=%s %s: %s" % (pid, fid, f["what"]))
    cov["known_findings_seen"] = list(seen_known.keys())
    if unknown:
        suite, op, i, m, note = unknown[0]
        small = minimise(suite, vh, op, lambda c, ci, cm: suite.judge(c, ci, cm).spec_ok is False and not _match_known(pid, known, suite, c, ci, cm))
        si = suite.run_impl(vh, suite.prepare_impl([small]))[0]
        sm = suite.run_model(suite.prepare_model([small], [si]))[0]
        rp = core.write_replay(pid, "violation", {"property": pid, "suite": suite.name, "op": small, "impl": si, "model": sm,
                                                  "note": suite.judge(small, si, sm).note, "original_op": op if small != op else None,
                                                  # what the run itself observed (kept because a schedule-dependent failure may not
                                                  # show again when the minimised case is re-run for this file)
                                                  "first_observation": {"note": note, "impl": _trunc(i, 6000)},
                                                  "count_unlisted_violations": len(unknown)})
        print("VIOLATION property=%s replay=%s" % (pid, rp))
        exit_code = 1
        reported = len(unknown)
    # ---- model/implementation disagreements and broken obligations: property no longer shown
    if exit_code == 0 and (disagreements or broken_obl):
        found = None
        detail = {}
        if disagreements:
            suite, op, i, m, note = disagreements[0]
            small = minimise(suite, vh, op, lambda c, ci, cm: not suite.judge(c, ci, cm).agree)
            # search the neighbourhood for an input on which the property itself fails
            rng = random.Random("search/%s/%d" % (pid, seed))
            cands = [small] + list(suite.neighbours(small, rng))
            more = list(suite.gen(random.Random("search2/%s/%d" % (pid, seed)), "search"))
            cands += more
            ci = suite.run_impl(vh, suite.prepare_impl(cands))
            cm = suite.run_model(suite.prepare_model(cands, ci))
            for c, a, b in zip(cands, ci, cm):
                try:
                    v = suite.judge(c, a, b)
                except Exception:
                    continue
                if v.spec_ok is False and not _match_known(pid, known, suite, c, a, b):
                    found = (suite, c, a, b, v.note)
                    break
            si = suite.run_impl(vh, suite.prepare_impl([small]))[0]
            sm = suite.run_model(suite.prepare_model([small], [si]))[0]
            detail = {"suite": suite.name, "op": small, "impl": si, "model": sm, "note": note,
                      "disagreements": len(disagreements), "searched": len(cands)}
        if found:
            suite, c, a, b, note = found
            small = minimise(suite, vh, c, lambda x, xi, xm: suite.judge(x, xi, xm).spec_ok is False)
            si = suite.run_impl(vh, suite.prepare_impl([small]))[0]
            sm = suite.run_model(suite.prepare_model([small], [si]))[0]
            rp = core.write_replay(pid, "violation", {"property": pid, "suite": suite.name, "op": small, "impl": si, "model": sm,
                                                      "note": suite.judge(small, si, sm).note, "first_disagreement": detail})
            print("VIOLATION property=%s replay=%s" % (pid, rp))
        else:
            rp = core.write_replay(pid, "unproved", {"property": pid,
                                                     "no_longer_checks": ("correspondence suite '%s' (model and implementation differ)" % detail.get("suite")) if detail else "proof obligations",
                                                     "broken_obligations": broken_obl, "minimised_disagreement": detail})
            print("VIOLATION property=%s replay=%s no-failing-input-found" % (pid, rp))
        exit_code = 1
        reported += 1
    evidence["violations"] = reported
    _write_evidence(pid, evidence, t0)
    log("[check] %s tier=%s seed=%d: obligations %d/%d, %d cases, exit %d, %.1fs" % (
        pid, tier, seed, cov["discharged"], cov["obligations"], cov.get("evaluations", 0), exit_code, time.time() - t0))
    return exit_code


def _match_known(pid, known, suite, op, impl, model):
    for f in known.get("findings", []):
        if pid not in f.get("properties", [f.get("property")]):
            continue
        if f.get("suite") and suite.name not in (f["suite"] if isinstance(f["suite"], list) else [f["suite"]]):
            continue
        fn = suite.matchers.get(f["matcher"])
        if fn is None:
            continue
        try:
            if fn(op, impl, model):
                return f["id"]
        except Exception:
            pass
    return None


def _write_evidence(pid, evidence, t0):
    evidence["wall_s"] = round(time.time() - t0, 2)
    d = os.path.join(core.VERIF, "evidence")
    os.makedirs(d, exist_ok=True)
    tmp = os.path.join(d, ".%s.json.tmp" % pid)
    with open(tmp, "w") as f:
        json.dump(evidence, f, indent=1, sort_keys=True)
    os.replace(tmp, os.path.join(d, pid + ".json"))


def replay(pid, suites, path):
    r = json.load(open(path))
    op = r.get("op") or (r.get("minimised_disagreement") or {}).get("op")
    if op is None:
        print(json.dumps(r, indent=1))
        return 0
    sname = r.get("suite") or r["minimised_disagreement"]["suite"]
    suite = [s for s in suites if s.name == sname][0]
    vh = core.build_harness()
    core.lake_build(["fsdriver"])
    i = suite.run_impl(vh, suite.prepare_impl([op]))[0]
    m = suite.run_model(suite.prepare_model([op], [i]))[0]
    v = suite.judge(op, i, m)
    print(json.dumps({"op": op, "impl": i, "model": m, "agree": v.agree, "spec_ok": v.spec_ok, "note": v.note}, indent=1))
    return 0 if (v.agree and v.spec_ok is not False) else 1
