"""C17: WriteTar, archive read back with archive/tar, members vs the Lean member model"""
from ..runner import Suite, Verdict
from .. import gen
from ..core import hx

KEYS = ("name", "tf", "size", "perm", "uid", "gid", "mt", "ln", "dmaj", "dmin", "sha")


class TarSuite(Suite):
    name = "tar"
    needs_root = True
    rule = ("views in memory and on disk (empty files, multi-chunk files, hard-link groups, symlinks, fifos, devices, names > 100 bytes, non-ASCII / "
            "non-UTF-8 names, xattrs, suid/sgid/sticky) x include/exclude filters through WriteTar; the archive is read back with archive/tar and "
            "compared member by member (name, type, size, mode, owner, mtime in seconds, link name, device numbers, SCHILY.xattr records, payload hash) "
            "with the Lean member model; 60% of the archives are also extracted by GNU tar (as root, -p --same-owner --xattrs) and the resulting tree is judged "
            "by the C01 tree specification against the view (mtimes to the second); non-trivial = >= 3 entries, distinct")

    def gen(self, rng, tier):
        from . import filt
        n = {"quick": 2000, "thorough": 8000, "search": 150}[tier]
        ops = []
        for _ in range(n):
            tree = gen.disk_tree(rng, rng.choice([6, 15, 35]), 4, types=("dir", "file", "symlink", "fifo", "chr", "blk", "hardlink"),
                                 file_sizes=(0, 1, 100, 32768, 70000), xattrs=True)
            if rng.random() < 0.2:
                # long names (> 100 bytes: PAX path records)
                long = bytes(rng.choice(b"abc") for _ in range(rng.choice([101, 150, 255])))
                tree.append({"p": hx(long), "t": "dir", "uid": 0, "gid": 0, "mt": gen.MTIMES[3], "mode": 0o755})
                tree.append({"p": hx(long + b"/" + long[:120]), "t": "file", "size": 5, "uid": 1000, "gid": 1000, "mt": gen.MTIMES[3], "mode": 0o644})
                tree.sort(key=lambda e: gen.pathkey(bytes.fromhex(e["p"])))
            op = {"op": "tar", "src": {"kind": "mem" if rng.random() < 0.6 else "disk", "tree": tree}, "extract": rng.random() < 0.6}
            paths = [bytes.fromhex(e["p"]) for e in tree]
            if rng.random() < 0.25 and paths and all(filt.fragment_ok([p]) for p in paths):
                sf = {}
                if rng.random() < 0.5:
                    sf["include"] = [hx(p) for p in filt.pattern_list(rng, paths, 0.2)]
                else:
                    sf["exclude"] = [hx(p) for p in filt.pattern_list(rng, paths, 0.3)]
                op["sfilter"] = sf
            hl = [e for e in tree if e["t"] == "hardlink"]
            if "sfilter" not in op and hl and rng.random() < 0.5:
                # two filters stacked: the inner one (no patterns) stats every entry, the outer one hides the FIRST name of a hard-link
                # group: the next name becomes the file of the archive and must carry the bytes
                op["sfilter"] = {}
                op["sfilter2"] = {"exclude": [(lambda c: hx(b"".join(b"\\" + bytes([x]) if x in b"*?[]\\" else bytes([x]) for x in bytes.fromhex(c))))(rng.choice(hl)["ln"])]}
                if rng.random() < 0.7:
                    op["src"]["kind"] = "disk"      # (the stats of an on-disk view come from the library's own lstat code)
            if rng.random() < 0.3:
                # ... and once more into a sink that fails: in the trailer / the padding of the last member (the last bytes an archive
                # gets), or anywhere
                op["sink"] = {"from_end": rng.choice([1, 2, 511, 512, 513, 1023, 1024, 1025, 1100, 1400, 1536, rng.randint(1, 1536)])} if rng.random() < 0.7 \
                    else {"permille": rng.randint(0, 999)}
            ops.append(op)
        return ops

    def prepare_model(self, ops, impl=None):
        out = []
        for k, o in enumerate(ops):
            i = impl[k] if impl else {}
            m = {"op": "tar", "view": i.get("view", []) if isinstance(i, dict) else [], "viewkind": o["src"]["kind"]}
            if isinstance(i, dict) and "extracted" in i:
                m["extracted"] = i["extracted"]
            if "sfilter" in o:
                m["sfilter"] = o["sfilter"]
            if "sfilter2" in o:
                m["sfilter2"] = o["sfilter2"]
            out.append(m)
        return out

    def judge(self, op, impl, model):
        if "view" not in impl:
            return Verdict(True, None, "skipped: %s" % str(impl)[:200])
        if model.get("unsupported"):
            return Verdict(True, None, "view contains a socket (archive/tar refuses it)")
        if impl.get("werr"):
            return Verdict(False, False, "WriteTar failed: %s" % impl["werr"])
        sk = impl.get("sink")
        if sk and sk["limit"] < sk["total"] and not sk["err"]:
            return Verdict(False, False, "WriteTar reported success although its sink failed after %d of the %d bytes of the archive" % (sk["limit"], sk["total"]))
        notes = []
        ok = True
        if impl.get("readerr"):
            ok = False
            notes.append("archive is not well-formed: %s" % impl["readerr"])
        im = [{k: m.get(k) for k in KEYS} | {"x": sorted(m.get("x") or [])} for m in impl.get("members", [])]
        mm = [{k: m.get(k) for k in KEYS} | {"x": sorted(m.get("x") or [])} for m in model.get("members", [])]
        if im != mm:
            ok = False
            for a, b in zip(im + [None] * len(mm), mm + [None] * len(im)):
                if a != b:
                    diff = [k for k in (a or {}) if b is None or a.get(k) != b.get(k)] if a else ["missing"]
                    notes.append("member differs (%s): archive=%s expected=%s" % (diff, a, b))
                    break
        for m in impl.get("members", []):
            if m["tf"] == "reg" and m["paylen"] != m["size"]:
                ok = False
                notes.append("payload length != header size")
            if m["tf"] in ("symlink", "link") and (m["paylen"] or m["size"]):
                ok = False
                notes.append("link member with payload")
        if impl.get("xerr"):
            ok = False
            notes.append("an independent extractor (GNU tar) refuses the archive: %s" % impl["xerr"][:300])
        if model.get("extract") is False:
            ok = False
            notes.append("extracting the archive does not reproduce the view: %s" % model.get("extract_why"))
        return Verdict(ok, ok, "; ".join(notes)[:900])

    matchers = {
        # F5 (see C10): the filtered walk announces a file that Open (stateless matcher) refuses: WriteTar fails after the header
        "F5": lambda op, impl, model: bool(impl.get("werr")) and "sfilter" in op and
        any(bytes.fromhex(p).strip().startswith(b"!") for p in op["sfilter"].get("include", []) + op["sfilter"].get("exclude", [])),
    }

    def nontrivial(self, op, impl, model):
        return len(op["src"]["tree"]) >= 3

    def features(self, op, impl, model):
        ts = sorted(set(e["t"] for e in op["src"]["tree"]))
        return ["src=" + op["src"]["kind"], "filter=%s" % ("sfilter" in op), "long=%s" % any(len(e["p"]) > 200 for e in op["src"]["tree"])] + ["has." + t for t in ts]

    def shrink(self, op):
        out = []
        tree = op["src"]["tree"]
        for i in range(len(tree)):
            p = tree[i]["p"]
            t2 = [e for e in tree if e["p"] != p and not e["p"].startswith(p + "2f") and not (e["t"] == "hardlink" and e.get("ln") == p)]
            o = dict(op)
            o["src"] = {"kind": op["src"]["kind"], "tree": t2}
            out.append(o)
        if "sfilter" in op:
            o = dict(op)
            del o["sfilter"]
            out.append(o)
        return out
