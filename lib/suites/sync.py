"""end-to-end transfer suites: real Send + Receive over the instrumented in-process stream"""
from ..runner import Suite, Verdict
from .. import gen
from ..core import hx

SRC_TYPES = ("dir", "file", "symlink", "fifo", "chr", "blk", "hardlink")


def reqs_of(impl):
    return [e["id"] for e in impl.get("log", []) if e["e"] == "R" and e["k"] == "send" and e.get("t") == "REQ"]


def sent_stats(impl):
    return [e.get("stat") for e in impl.get("log", []) if e["e"] == "S" and e["k"] == "send" and e.get("t") == "STAT" and e.get("stat")]


STAT_KEYS = ("p", "mode", "uid", "gid", "size", "mt", "ln", "dmaj", "dmin", "x")


def norm_stat(s):
    d = {k: s.get(k) for k in STAT_KEYS}
    d["x"] = d["x"] or []
    return d


class SyncSuite(Suite):
    """focus: which clauses decide spec_ok — 'c01' convergence, 'c02' minimality, 'c05' notifications"""
    name = "sync"
    needs_root = True
    focus = ("c01",)
    n_cases = {"quick": 600, "thorough": 6000, "search": 120}
    rule = ("(source tree, prior destination) pairs: source in memory (readers with short-read schedules) or on disk, all entry types, hard-link groups, suid/sgid/sticky, xattrs, sizes around "
            "32KiB; destination fresh / edit-script of the source (touch, chmod, chown, rewrite, delete, type swap, add, renumber, relink) / unrelated tree; "
            "merge on/off; differ metadata/none; receive filter; stream capacity 0..64; 12% of the cases with an UNPRIVILEGED receiver (uid 1000 in a chroot'ed "
            "child, owner-mapping filter, read-only files); non-trivial = distinct op with >= 3 source entries")

    def gen_case(self, rng):
        kind = "mem" if rng.random() < 0.6 else "disk"
        tree = gen.disk_tree(rng, rng.choice([6, 15, 35]), 4, types=SRC_TYPES,
                             file_sizes=(0, 1, 5, 100, 4096, 32767, 32768, 32769, 70000), deep=rng.random() < 0.05)
        r = rng.random()
        if r < 0.3:
            dst = []
        elif r < 0.8:
            dst = gen.mutate_disk_tree(rng, tree)
        else:
            dst = gen.disk_tree(rng, rng.choice([6, 15]), 4, types=SRC_TYPES)
        opt = {"notify": True, "cap": rng.choice([0, 1, 4, 32, 64]), "seed": rng.randrange(1 << 30)}
        if rng.random() < 0.2:
            opt["merge"] = True
        if rng.random() < 0.1:
            opt["differ"] = "none"
        if rng.random() < 0.15:
            opt["rfilter"] = {"uid": rng.choice([0, 1000]), "gid": rng.choice([0, 1000])}
        if kind == "mem" and rng.random() < 0.35:
            # a synthetic source whose readers return short reads (io.Reader allows it): 0 = as much as fits
            opt["readsizes"] = [rng.choice([1000, 4096, 10000, 32768, 0]) for _ in range(rng.randint(1, 3))]
        src = {"kind": kind, "tree": tree}
        if kind == "mem" and rng.random() < 0.2:
            src["eof_with_data"] = True      # the source's readers deliver their last bytes together with io.EOF
        links = [e for e in tree if e["t"] == "hardlink"]
        # (only in the plain sync suite: such a view is not consistent with itself, so "unchanged re-sync is silent" and the exact
        # change set are not defined for it)
        if type(self) is SyncSuite and kind == "mem" and links and rng.random() < 0.15 and not opt.get("merge") and opt.get("differ") != "none":
            # a source inode touched while the tree was being walked: a later name of a hard-link group is announced with another
            # time stamp than the first; the destination already holds the group as it was
            by = {e["p"]: e for e in tree}
            l = rng.choice(links)
            if by.get(l["ln"], {}).get("t") == "file":
                l["lmt"] = by[l["ln"]]["mt"] + rng.choice([1, 1000000000, 5000000000])
                dst = [dict(e) for e in tree]
                for e in dst:
                    e.pop("lmt", None)
                    e.pop("hole", None)
                if rng.random() < 0.5:
                    dst = gen.mutate_disk_tree(rng, dst, 1)
        return {"op": "sync", "src": src, "dst": dst, "opt": opt}

    def gen_unpriv(self, rng):
        """unprivileged receiver (uid/gid 1000, chroot'ed child): synthetic source, a receive filter that maps every owner to the receiver's
        own id (the usual client-side configuration), read-only files (0444/0400), no devices, no privileged xattrs"""
        def fit(tree):
            out = []
            for e in tree:
                e = dict(e)
                e.pop("x", None)
                if e["t"] == "dir":
                    e["mode"] = rng.choice([0o755, 0o700, 0o750])
                elif e["t"] != "hardlink":
                    e["mode"] = rng.choice([0o644, 0o444, 0o400, 0o600, 0o555, 0o755, 0o444])
                out.append(e)
            return out
        tree = fit(gen.disk_tree(rng, rng.choice([6, 15, 35]), 4, types=("dir", "file", "file", "symlink", "hardlink", "fifo"),
                                 file_sizes=(0, 1, 5, 100, 4096, 32767, 32768, 32769, 70000), xattrs=False))
        r = rng.random()
        if r < 0.35:
            dst = []
        else:
            dst = fit(gen.mutate_disk_tree(rng, tree)) if r < 0.85 else fit(gen.disk_tree(rng, rng.choice([6, 15]), 4, types=("dir", "file", "symlink", "hardlink", "fifo"), xattrs=False))
            dst = [e for e in dst if e["t"] in ("dir", "file", "symlink", "hardlink", "fifo")]
            for e in dst:
                if "uid" in e:
                    e["uid"] = 1000
                    e["gid"] = 1000
        opt = {"notify": True, "cap": rng.choice([0, 1, 4, 32]), "seed": rng.randrange(1 << 30), "unpriv": True,
               "rfilter": {"uid": 1000, "gid": 1000}}
        if rng.random() < 0.1:
            opt["differ"] = "none"
        return {"op": "sync", "src": {"kind": "mem", "tree": tree}, "dst": dst, "opt": opt}

    unpriv_share = 0.12

    def gen(self, rng, tier):
        return [self.gen_unpriv(rng) if rng.random() < self.unpriv_share else self.gen_case(rng) for _ in range(self.n_cases[tier])]

    def prepare_model(self, ops, impl=None):
        out = []
        for k, o in enumerate(ops):
            i = impl[k] if impl else {}
            if not isinstance(i, dict) or "view" not in i:
                out.append({"op": "sync", "view": [], "before": [], "after": [], "opt": o["opt"]})
                continue
            m = {"op": "sync", "view": i["view"], "viewkind": o["src"]["kind"], "before": i["before"], "after": i["after"],
                 "opt": o["opt"], "notif": i.get("notif", [])}
            if "sfilter" in o:
                m["sfilter"] = o["sfilter"]
            if "sfilter2" in o:
                m["sfilter2"] = o["sfilter2"]
            out.append(m)
        return out

    def judge(self, op, impl, model):
        if "view" not in impl:
            # the harness (not fsutil) could not materialise the case: skipped, and counted in the input distribution
            return Verdict(True, None, "skipped: harness could not set the case up: %s" % str(impl)[:300])
        notes = []
        ok = True
        agree = True
        if impl["send"] != "ok" or impl["recv"] != "ok":
            return Verdict(False, False, "fault-free transfer did not succeed: send=%s (%s) recv=%s (%s)" % (
                impl["send"], impl.get("senderr"), impl["recv"], impl.get("recverr")))
        if impl.get("leaked"):
            return Verdict(False, False, "goroutines did not end")
        # correspondence: STATs sent, REQ ids, notifications
        ss = [norm_stat(s) for s in sent_stats(impl)]
        ms = [norm_stat(s) for s in model.get("sent", [])]
        if ss != ms:
            agree = False
            notes.append("STAT sequence differs from the model's view")
        ir = sorted(reqs_of(impl))
        mr = sorted(model.get("reqs", []))
        if ir != mr:
            agree = False
            notes.append("REQ ids impl=%s model=%s" % (ir[:20], mr[:20]))
        # add/modify are both "upsert" (the code reports every regular file as add)
        up = lambda k: "delete" if k == "delete" else "upsert"
        # a delete below an already deleted directory is a no-op whose emission depends on how far the (concurrent) walk of the
        # destination had got when the directory was removed: such deletes are dropped on both sides before comparing
        def topmost(evs):
            dels = [p for k, p in evs if k == "delete"]
            return sorted([k, p] for k, p in evs if not (k == "delete" and any(p.startswith(d + "2f") for d in dels)))
        inot = topmost([[up(n["kind"]), n["p"]] for n in impl.get("notif", [])])
        mnot = topmost([[up(k), p] for k, p in model.get("events", [])])
        if inot != mnot:
            agree = False
            notes.append("notifications impl=%s model=%s" % (inot[:6], mnot[:6]))
        racy = any(e.get("lmt") for e in op["src"]["tree"])
        if racy:
            # a view that reports one inode with different time stamps under two of its names (touched during the walk) cannot be met
            # in the time stamps; what is judged is the path set: nothing but the view's entries, every one of them there
            vp = {e["p"] for e in impl.get("view", [])}
            ap = {e["p"] for e in impl.get("after", [])}
            if "c01" in self.focus and vp != ap:
                ok = False
                notes.append("C01: destination paths differ from the view's (only in the destination: %s; missing: %s)" % (sorted(ap - vp)[:4], sorted(vp - ap)[:4]))
        elif "c01" in self.focus and model.get("c01") is False:
            ok = False
            notes.append("C01: " + str(model.get("c01_why")))
        if "c02" in self.focus:
            if model.get("untouched") is False:
                ok = False
                notes.append("C02: " + str(model.get("untouched_why")))
            if model.get("notif") is False:
                ok = False
                notes.append("C02: change set: " + str(model.get("notif_why")))
            # content is requested exactly for the regular non-link entries reported as added/modified
            want = sorted(k for k, s in enumerate(ss) if s["mode"] & gen_type_mask() == 0 and not s["ln"] and
                          any(n["p"] == s["p"] and n["kind"] in ("add", "modify") for n in impl.get("notif", [])))
            if ir != want:
                ok = False
                notes.append("C02: REQ ids %s != changed regular entries %s" % (ir[:20], want[:20]))
            if len(set(ir)) != len(ir):
                ok = False
                notes.append("duplicate REQ")
        if "c05" in self.focus:
            if model.get("notif") is False:
                ok = False
                notes.append("C05: " + str(model.get("notif_why")))
            bad = [n["p"] for n in impl.get("notif", []) if n["kind"] != "delete" and not n.get("digest_ok")]
            if bad:
                ok = False
                notes.append("C05: digest != hash(header as sent ++ stored bytes) for %s" % bad[:3])
        if "c08" in self.focus and any(impl.get("overlaps", [])):
            ok = False
            notes.append("C08: concurrent stream calls %s" % impl["overlaps"])
        return Verdict(agree, ok, "; ".join(notes))

    def nontrivial(self, op, impl, model):
        return len(op["src"]["tree"]) >= 3

    def features(self, op, impl, model):
        if "view" not in impl and "runs" not in impl:
            return ["skipped=setup"]
        f = ["src=" + op["src"]["kind"], "dst=" + ("fresh" if not op["dst"] else "dirty"), "merge=%s" % bool(op["opt"].get("merge")),
             "differ=" + op["opt"].get("differ", "meta"), "cap=%s" % op["opt"].get("cap")]
        f += ["reqs>%d" % (0 if len(reqs_of(impl)) == 0 else 1 if len(reqs_of(impl)) < 10 else 10)]
        for t in sorted(set(e["t"] for e in op["src"]["tree"])):
            f.append("src.has." + t)
        return f

    def shrink(self, op):
        out = []
        for side in ("src", "dst"):
            tree = op["src"]["tree"] if side == "src" else op["dst"]
            for i in range(len(tree)):
                p = tree[i]["p"]
                t2 = [e for e in tree if e["p"] != p and not e["p"].startswith(p + "2f") and not (e["t"] == "hardlink" and e.get("ln") == p)]
                o = dict(op)
                if side == "src":
                    o["src"] = {"kind": op["src"]["kind"], "tree": t2}
                else:
                    o["dst"] = t2
                out.append(o)
        for k in ("merge", "differ", "rfilter"):
            if k == "rfilter" and op["opt"].get("unpriv"):
                continue        # an unprivileged receiver cannot chown: the owner-mapping filter is part of the configuration
            if k in op["opt"]:
                o = dict(op)
                o["opt"] = {a: b for a, b in op["opt"].items() if a != k}
                out.append(o)
        return out


def gen_type_mask():
    return (1 << 31) | (1 << 27) | (1 << 26) | (1 << 25) | (1 << 24) | (1 << 21) | (1 << 19)


CAPKEY = "73656375726974792e6361706162696c697479"   # security.capability


def _has_cap(op):
    return any(k == CAPKEY for e in op["src"]["tree"] if e.get("t") == "file" for k, _ in e.get("x", []))


# F20: file capabilities do not survive a transfer (chown after setxattr, and the later content write, both drop them).
# Signature: the only C01 complaint is about xattrs of a created entry and a source file carries security.capability.
def _ro_linked(op):
    """a regular source file without owner write permission that another source entry is a hard link of"""
    by = {e["p"]: e for e in op["src"]["tree"]}
    return any(e.get("t") == "hardlink" and by.get(e.get("ln"), {}).get("t") == "file" and not by[e["ln"]].get("mode", 0o644) & 0o200
               for e in op["src"]["tree"])


def _f31(op, impl, model):
    runs = impl.get("runs") if isinstance(impl, dict) else None
    errs = [str(r.get("recverr", "")) for r in runs] if runs else [str(impl.get("recverr", ""))]
    if isinstance(impl, dict) and isinstance(impl.get("again"), dict):
        errs.append(str(impl["again"].get("recverr", "")))      # (the repeated transfer of the re-sync suite)
    return bool(op.get("opt", {}).get("unpriv")) and _ro_linked(op) and any("permission denied" in e and "failed to open" in e for e in errs)


SyncSuite.matchers = {
    "F20": lambda op, impl, model: _has_cap(op) and model.get("c01") is False and model.get("c01_why") == "xattrs of a created entry are missing"
    and impl.get("send") == "ok" and impl.get("recv") == "ok",
    # F31: unprivileged receiver, read-only file with a hard link: lazy open (chmod + reopen) races with the link's metadata
    "F31": _f31,
}


class SyncC01(SyncSuite):
    focus = ("c01",)


class SyncC02(SyncSuite):
    name = "resync"
    focus = ("c02",)

    def gen_case(self, rng):
        # destination = exactly what an earlier transfer of an earlier version of the source produced is approximated by
        # an edit script over the source; fresh and unrelated destinations are left to suite 'sync'
        op = super().gen_case(rng)
        op["opt"].pop("merge", None)
        if rng.random() < 0.7:
            op["dst"] = gen.mutate_disk_tree(rng, op["src"]["tree"], rng.choice([0, 1, 2, 3]))
        # ... and the transfer is then repeated with the unchanged source into the destination it produced
        op["opt"]["again"] = True
        return op

    def gen_unpriv(self, rng):
        op = super().gen_unpriv(rng)
        op["opt"]["again"] = True
        return op

    def judge(self, op, impl, model):
        v = super().judge(op, impl, model)
        ag = impl.get("again") if isinstance(impl, dict) else None
        if v.spec_ok is False or not ag:
            return v
        notes = []
        if ag["send"] != "ok" or ag["recv"] != "ok":
            notes.append("the repeated transfer failed: send=%s (%s) recv=%s (%s)" % (ag["send"], ag.get("senderr"), ag["recv"], ag.get("recverr")))
        elif op["opt"].get("differ") != "none":
            if ag["reqs"] != 0:
                notes.append("re-sync of an unchanged source sent %d content requests" % ag["reqs"])
            if ag["notifs"] != 0:
                notes.append("re-sync of an unchanged source emitted %d notifications" % ag["notifs"])
            ino1 = {e["p"]: e["ino"] for e in impl["after"]}
            ino2 = {e["p"]: e["ino"] for e in ag["after"]}
            moved = [p for p in ino1 if ino2.get(p) != ino1[p]]
            if moved or set(ino1) != set(ino2):
                notes.append("re-sync of an unchanged source replaced inodes / changed the path set: %s" % moved[:3])
        else:
            # every regular file that is announced without link name (= what the model expects the first run to request as well)
            want = len(model.get("reqs", []))
            if ag["reqs"] != want:
                notes.append("with differencing disabled %d of %d regular files were re-requested" % (ag["reqs"], want))
        if notes:
            return Verdict(v.agree, False, "C02: " + "; ".join(notes))
        return v


class SendFilter(SyncSuite):
    """C11: a filtered view (include/exclude, hard-link groups spread over included and excluded paths) transfers as a self-contained tree"""
    name = "sendfilter"
    focus = ("c01", "c11")
    unpriv_share = 0
    rule = ("sources with hard-link groups spread over included and excluded paths x include/exclude lists from the pattern fragment; (30% with a second filter stacked on top); real Send over "
            "NewFilterFS(view) + Receive; STAT log vs filterWalk + hard-link reset model; destination = filtered view; non-trivial = filter non-empty, distinct")

    def gen_skip_family(self, rng):
        """nested stack: the inner filter selects entries deep below directories it does not select itself (they are reported lazily, as
        ancestors); the outer filter excludes one of those ancestors wholesale (it answers "skip this directory" when the inner filter
        hands the ancestor over). Several pending directories lie below the skipped one, matched directories and files follow."""
        D = lambda p: {"p": hx(p), "t": "dir", "uid": 0, "gid": 0, "mt": gen.MTIMES[0], "mode": 0o755}
        Fl = lambda p: {"p": hx(p), "t": "file", "size": rng.choice([0, 5, 100]), "uid": 0, "gid": 0, "mt": gen.MTIMES[1], "mode": 0o644}
        top, a, b = rng.sample([b"p", b"q", b"r", b"s"], 1)[0], rng.choice([b"a", b"a-b"]), rng.choice([b"b", b"k"])
        base = top + b"/" + a + b"/" + b
        tree = [D(top), D(top + b"/" + a), D(base)]
        leaves = []
        for n in sorted(rng.sample([b"c", b"d", b"e", b"f", b"g"], rng.randint(2, 4))):
            if rng.random() < 0.5:
                tree += [D(base + b"/" + n), Fl(base + b"/" + n + b"/f")]
            else:
                tree.append(Fl(base + b"/" + n))
            leaves.append(base + b"/" + n)
        tree += [D(top + b"/x"), Fl(top + b"/x/y")]
        regs = [e for e in tree if e["t"] == "file"]
        if len(regs) >= 2 and rng.random() < 0.6:
            tree.append({"p": hx(top + b"/x/z"), "t": "hardlink", "ln": rng.choice(regs)["p"]})
        tree.sort(key=lambda e: gen.pathkey(bytes.fromhex(e["p"])))
        sf = {"include": [hx(x) for x in leaves + [top + b"/x"]]}
        sf2 = {"exclude": [hx(rng.choice([top + b"/" + a, base]))]}
        if rng.random() < 0.3:
            top_only = True
            sf2 = {"exclude": [hx(top + b"/" + a + b"/*")]}
        return {"op": "sync", "src": {"kind": "mem" if rng.random() < 0.7 else "disk", "tree": tree}, "dst": [], "sfilter": sf, "sfilter2": sf2,
                "opt": {"notify": True, "cap": rng.choice([0, 4, 32]), "seed": rng.randrange(1 << 30)}}

    def gen_case(self, rng):
        from . import filt
        if type(self) is SendFilter and rng.random() < 0.06:
            return self.gen_skip_family(rng)
        while True:
            tree = gen.disk_tree(rng, rng.choice([8, 20, 40]), 4, types=("dir", "file", "file", "hardlink", "hardlink", "symlink", "fifo"),
                                 file_sizes=(0, 5, 100, 40000), xattrs=False)
            paths = [bytes.fromhex(e["p"]) for e in tree]
            if tree and all(filt.fragment_ok([p]) for p in paths):
                break
        sf = {}
        r = rng.random()
        if r < 0.45:
            sf["exclude"] = [hx(p) for p in filt.pattern_list(rng, paths, 0.3)]
        elif r < 0.85:
            sf["include"] = [hx(p) for p in filt.pattern_list(rng, paths, 0.2)]
        else:
            sf["include"] = [hx(p) for p in filt.pattern_list(rng, paths, 0.2)]
            sf["exclude"] = [hx(p) for p in filt.pattern_list(rng, paths, 0.3)]
        dst = [] if rng.random() < 0.6 else gen.mutate_disk_tree(rng, tree)
        op = {"op": "sync", "src": {"kind": "mem" if rng.random() < 0.7 else "disk", "tree": tree}, "dst": dst, "sfilter": sf,
              "opt": {"notify": True, "cap": rng.choice([0, 4, 32]), "seed": rng.randrange(1 << 30)}}
        if rng.random() < 0.3:
            # nested filter stack: a second NewFilterFS on top of the first
            sf2 = {}
            links = [e for e in tree if e["t"] == "hardlink"]
            if links and rng.random() < 0.5:
                # the outer filter hides the first name of a hard-link group that the inner filter let through
                sf2["exclude"] = [(lambda c: hx(b"".join(b"\\" + bytes([x]) if x in b"*?[]\\" else bytes([x]) for x in bytes.fromhex(c))))(rng.choice(links)["ln"])]
                if rng.random() < 0.6:
                    op["src"]["kind"] = "disk"
            elif rng.random() < 0.5:
                sf2["exclude"] = [hx(p) for p in filt.pattern_list(rng, paths, 0.3)]
            else:
                sf2["include"] = [hx(p) for p in filt.pattern_list(rng, paths, 0.2)]
            op["sfilter2"] = sf2
        return op

    def judge(self, op, impl, model):
        v = super().judge(op, impl, model)
        if v.spec_ok is not False and model.get("links_closed") is False:
            return Verdict(v.agree, False, "C11: a hard link in the announced view names an entry that is not in the view; " + v.note)
        return v

    def nontrivial(self, op, impl, model):
        return bool(op["sfilter"].get("include") or op["sfilter"].get("exclude"))

    matchers = {
        # F5: the walk announces a file (parent-result matcher) that Open (stateless matcher) refuses: it arrives empty.
        # Signature: a '!' pattern is present and the announced STAT sequence is exactly the model's filtered view.
        "F5": lambda op, impl, model: any(bytes.fromhex(p).strip().startswith(b"!") for p in op["sfilter"].get("include", []) + op["sfilter"].get("exclude", []) +
                                                         op.get("sfilter2", {}).get("include", []) + op.get("sfilter2", {}).get("exclude", []))
        and [norm_stat(s) for s in sent_stats(impl)] == [norm_stat(s) for s in model.get("sent", [])],
    }

    def features(self, op, impl, model):
        f = super().features(op, impl, model)
        sent = sent_stats(impl)
        view = impl.get("view") or []
        f.append("filtered_out=%s" % (len(sent) < len(view)))
        f.append("links_in_view=%s" % any(s.get("ln") and s["mode"] & gen_type_mask() == 0 for s in sent))
        return f


class SyncC05(SyncSuite):
    name = "notify"
    focus = ("c05",)

    def gen_case(self, rng):
        op = super().gen_case(rng)
        if op["src"]["kind"] == "mem" and rng.random() < 0.15:
            # a source that announces a size its readers do not deliver (a file that grew or shrank after it was listed, procfs-style
            # entries of size 0): the digest still covers exactly the bytes that were stored
            files = [e for e in op["src"]["tree"] if e["t"] == "file" and not e.get("openerr")]
            for e in rng.sample(files, min(len(files), rng.randint(1, 3))):
                real = e.get("size", 0) + e.get("hole", 0)
                e["asize"] = rng.choice([0, 0, real + 1, max(real - 1, 0), 1, 32768])
                if real == 0 and rng.random() < 0.7:
                    e["size"] = rng.choice([1, 5, 4096, 40000])
        return op


def canon_after(after, before):
    """destination snapshot in a schedule-independent form: inode numbers -> group classes, mtimes of pre-existing directories dropped"""
    groups = {}
    out = []
    old_dirs = {b["p"] for b in before if b["mode"] & (1 << 31)}
    for e in after:
        g = groups.setdefault(e["ino"], len(groups))
        d = {k: e.get(k) for k in ("p", "mode", "uid", "gid", "size", "ln", "dmaj", "dmin", "sha", "x")}
        d["grp"] = g
        if not (e["mode"] & (1 << 31) and e["p"] in old_dirs):
            d["mt"] = e["mt"]
        out.append(d)
    return out


class SchedSuite(SyncSuite):
    """C08: the same transfer under K seeded schedules; outcomes must coincide and no stream call may overlap another"""
    name = "sched"
    focus = ("c01", "c05", "c08")
    n_cases = {"quick": 120, "thorough": 1500, "search": 20}
    K = {"quick": 8, "thorough": 24, "search": 6}
    rule = ("transfers with many multi-chunk files in flight, each run under K seeded schedules (stream capacity 0..64, per-call delays, overlap-detector "
            "window holding every SendMsg/RecvMsg open, read-size schedules, GOMAXPROCS 1..16); outcome = final tree, REQ set, notification set with digests")

    def gen(self, rng, tier):
        ops = []
        for k in range(self.n_cases[tier]):
            wide = k % 40 == 3 or rng.random() < 0.02
            if wide:
                # hundreds of multi-chunk files in flight at once (more than any internal queue or worker limit holds)
                from .proto import flat_view
                tree = flat_view(rng, rng.choice([350, 450]), (40000,))
            else:
                tree = gen.disk_tree(rng, rng.choice([15, 30, 60]), 3, types=("dir", "file", "file", "symlink", "hardlink", "fifo"),
                                     file_sizes=(0, 100, 32768, 40000, 70000, 100000), xattrs=False)
            r = rng.random()
            dst = [] if r < 0.4 or wide else gen.mutate_disk_tree(rng, tree)
            scheds = []
            for _ in range(self.K[tier]):
                scheds.append({"cap": rng.choice([0, 0, 1, 4, 16, 64]), "delay": rng.choice([0, 0, 5, 50]), "window": rng.choice([0, 2, 10, 50]),
                               "seed": rng.randrange(1 << 30), "procs": rng.choice([1, 2, 4, 16]), "linger": 0 if wide else rng.choice([0, 0, 0, 300]),
                               "readsizes": [rng.choice([0, 1000, 32768, 5000]) for _ in range(rng.randint(1, 3))]})
            opt = {"notify": True, "cap": 4, "seed": 1}
            if rng.random() < 0.6:
                # a progress callback that keeps plain (unsynchronised) state: its calls must be serialised by the sender
                opt["progress"] = True
            if wide and rng.random() < 0.7:
                # a slow content-hasher callback for the first file: its request reaches the sender after ~300 later ones
                opt["hold_hasher"] = 300
            elif not wide and rng.random() < 0.2 and sum(1 for e in tree if e["t"] == "file") >= 3:
                opt["hold_hasher"] = 2
            if "hold_hasher" in opt and rng.random() < 0.6 and not any(bytes.fromhex(e["p"]) < b"!0" for e in tree):
                # ... and that file is the FIRST entry of the walk (id 0)
                tree.insert(0, {"p": hx(b"!0"), "t": "file", "size": rng.choice([1, 40000]), "uid": 0, "gid": 0, "mt": gen.MTIMES[0], "mode": 0o644})
                dst = [e for e in dst if e["p"] != hx(b"!0")]
            ops.append({"op": "sync", "src": {"kind": "mem", "tree": tree}, "dst": dst, "opt": opt, "schedules": scheds})
        return ops

    def prepare_model(self, ops, impl=None):
        firsts = []
        for k, o in enumerate(ops):
            i = impl[k] if impl else {}
            runs = i.get("runs") if isinstance(i, dict) else None
            firsts.append(runs[0] if runs else {})
        return super().prepare_model(ops, firsts)

    def judge(self, op, impl, model):
        runs = impl.get("runs")
        if not runs or any("view" not in r for r in runs):
            return Verdict(True, None, "skipped: %s" % str(impl)[:200])
        v0 = super().judge(op, runs[0], model)
        notes = [v0.note] if v0.note else []
        ok = v0.spec_ok is not False
        ref = None
        for k, r in enumerate(runs):
            if r["send"] != "ok" or r["recv"] != "ok":
                ok = False
                notes.append("schedule %d: transfer failed send=%s recv=%s %s" % (k, r["send"], r["recv"], r.get("recverr") or r.get("senderr")))
                continue
            pg = r.get("prog")
            if op["opt"].get("progress") and pg and (pg[1] != 0 or pg[2] != 1):
                ok = False
                notes.append("schedule %d: progress callbacks: %d calls, %d decreasing totals, %d final calls" % (k, pg[0], pg[1], pg[2]))
            if any(r.get("overlaps", [])):
                ok = False
                notes.append("schedule %d: concurrent stream calls [S.send,S.recv,R.send,R.recv]=%s" % (k, r["overlaps"]))
            out = (canon_after(r["after"], r["before"]), sorted(reqs_of(r)),
                   sorted((n["kind"] if n["kind"] == "delete" else "upsert", n["p"], bool(n.get("digest_ok", True))) for n in r["notif"]))
            if ref is None:
                ref = out
            elif out != ref:
                ok = False
                which = ["final tree", "REQ set", "notifications"][[a != b for a, b in zip(out, ref)].index(True)]
                notes.append("schedule %d: %s differs from schedule 0" % (k, which))
        return Verdict(v0.agree and ok, ok, "; ".join(notes))

    def features(self, op, impl, model):
        runs = impl.get("runs") or [{}]
        return ["schedules=%d" % len(op["schedules"]), "reqs>%d" % (0 if not reqs_of(runs[0]) else 10 if len(reqs_of(runs[0])) >= 10 else 1)]

    def shrink(self, op):
        out = []
        for o in super().shrink(op):
            out.append(o)
        if len(op["schedules"]) > 2:
            for i in range(len(op["schedules"])):
                o = dict(op)
                o["schedules"] = op["schedules"][:i] + op["schedules"][i + 1:]
                out.append(o)
        return out


class RaceSuite(SchedSuite):
    """C08, last clause: the same transfers executed by a harness built with -race; any report of the Go race detector is a violation"""
    name = "race"
    handles_crash = True
    n_cases = {"quick": 30, "thorough": 600, "search": 10}
    K = {"quick": 4, "thorough": 8, "search": 3}
    rule = ("the schedules of the sched suite executed by a harness built with `go build -race` (GORACE=halt_on_error): every report of the race "
            "detector in fsutil or in the harness is a violation; non-trivial = distinct transfer with >= 3 entries")

    def run_impl(self, vh, ops):
        from .. import core
        rvh = getattr(RaceSuite, "_vh", None)
        if rvh is None or not __import__("os").path.exists(rvh):
            rvh = core.build_harness(race=True)
            RaceSuite._vh = rvh
        return core.run_impl(rvh, ops, env={"GORACE": "halt_on_error=1 exitcode=66"})

    def judge(self, op, impl, model):
        if isinstance(impl, dict) and "crash" in impl:
            msg = impl["crash"]
            if "DATA RACE" in msg or impl.get("rc") == 66:
                where = [l.strip() for l in msg.splitlines() if "fsutil" in l or "harness" in l][:4]
                return Verdict(False, False, "the Go race detector reports a data race: %s" % "; ".join(where))
            return Verdict(False, False, "process crashed: %s" % msg[-300:])
        return super().judge(op, impl, model)


class SwapRace(SyncSuite):
    """C04 / C08: the destination walker runs concurrently with the changes applied to the entries it has already reported. The window between
    reporting a directory and opening it cannot be forced from outside, so it is explored statistically: tiny transfers whose first change
    replaces a destination DIRECTORY by a FIFO / device / file / symlink, thousands of times, by harness processes that share two CPUs with
    CPU-bound competitors (the preemption that opens the window)."""
    name = "swaprace"
    focus = ("c01",)
    unpriv_share = 0
    n_cases = {"quick": 1920, "thorough": 12000, "search": 480}
    rule = ("destination directory (with children) vs source non-directory of the same name (FIFO 60%, device, file, symlink), at depth 0..2, 1..3 such pairs per case; "
            "8 harness processes pinned to two CPUs together with 4 busy loops; a transfer that blocks (watchdog: 1.5 s without stream traffic) or fails is a "
            "violation; oracle otherwise as suite sync; non-trivial = every case (each has a swapped directory)")

    def gen_case(self, rng):
        names = [b"a", b"..a", b"b-", b"d", b"zz"]
        src, dst = [], []
        base = b""
        for _ in range(rng.choice([0, 0, 1, 2])):
            base = (base + b"/" if base else b"") + rng.choice(names)
            d = {"p": hx(base), "t": "dir", "mode": 0o755, "uid": 0, "gid": 0, "mt": 1700000000000000001}
            src.append(dict(d))
            dst.append(dict(d))
        used = set()
        for _ in range(rng.choice([1, 1, 2, 3])):
            n = rng.choice(names)
            if n in used:
                continue
            used.add(n)
            p = (base + b"/" if base else b"") + n
            dst.append({"p": hx(p), "t": "dir", "mode": 0o755, "uid": 0, "gid": 0, "mt": 1700000000000000001})
            for c in rng.sample([b"f", b"g", b"h"], rng.randint(0, 2)):
                dst.append({"p": hx(p + b"/" + c), "t": "file", "size": rng.choice([0, 10, 100]), "mode": 0o644, "uid": 0, "gid": 0, "mt": 1700000001000000000})
            t = rng.choice(["fifo", "fifo", "fifo", "chr", "file", "symlink"])
            e = {"p": hx(p), "t": t, "mode": rng.choice([0o644, 0o600, 0o2755]), "uid": rng.choice([0, 1000]), "gid": 0, "mt": 1600000000123456789}
            if t == "file":
                e["size"] = rng.choice([0, 5, 100])
            if t == "symlink":
                e["ln"] = hx(rng.choice([b"/etc", b"x", b"."]))
                e["mode"] = 0o777
            if t == "chr":
                e["maj"], e["min"] = rng.choice([(1, 3), (240, 7), (4, 64)])
            src.append(e)
        src.sort(key=lambda e: [c for c in bytes.fromhex(e["p"]).split(b"/")])
        dst.sort(key=lambda e: [c for c in bytes.fromhex(e["p"]).split(b"/")])
        opt = {"notify": True, "cap": rng.choice([4, 32, 64]), "seed": rng.randrange(1 << 30), "timeout_ms": 5000}
        return {"op": "sync", "src": {"kind": rng.choice(["mem", "disk"]), "tree": src}, "dst": dst, "opt": opt}

    def run_impl(self, vh, ops):
        import json as _json, os as _os, subprocess as _sp, sys as _sys, tempfile as _tf
        from .. import core
        cpus = sorted(_os.sched_getaffinity(0))[:2]
        pin = lambda: _os.sched_setaffinity(0, cpus)
        hogs = [_sp.Popen([_sys.executable, "-c", "while True: pass"], preexec_fn=pin) for _ in range(4)]
        env = dict(_os.environ)
        env["VERIF_SCRATCH"] = core.scratch()
        nproc = 8
        k = max(1, (len(ops) + nproc - 1) // nproc)
        parts = [ops[i:i + k] for i in range(0, len(ops), k)]
        procs = []
        try:
            for part in parts:
                fin = _tf.NamedTemporaryFile("w", dir=core.run_dir(), suffix=".in", delete=False)
                for o in part:
                    fin.write(_json.dumps(o, separators=(",", ":")) + "\n")
                fin.close()
                fout = open(fin.name + ".out", "w")
                procs.append((_sp.Popen([vh], stdin=open(fin.name), stdout=fout, stderr=_sp.PIPE, env=env, preexec_fn=pin), fin.name, fout, len(part)))
            res = []
            for pr, name, fout, n in procs:
                try:
                    _, err = pr.communicate(timeout=3600)
                except _sp.TimeoutExpired:
                    pr.kill()
                    _, err = pr.communicate()
                fout.close()
                ans = []
                for l in open(name + ".out").read().splitlines():
                    try:
                        ans.append(_json.loads(l))
                    except Exception:
                        ans.append({"err": "unparsable", "raw": l[:200]})
                if len(ans) < n:
                    ans.append({"crash": (err or b"").decode("utf8", "replace")[-600:], "rc": pr.returncode})
                    while len(ans) < n:
                        ans.append({"skipped": "not run: the harness process died on an earlier case"})
                res.extend(ans[:n])
                _os.unlink(name)
                _os.unlink(name + ".out")
            return res
        finally:
            for h in hogs:
                h.kill()
                h.wait()

    def nontrivial(self, op, impl, model):
        return True

    def features(self, op, impl, model):
        ts = sorted(set(e["t"] for e in op["src"]["tree"] if e["t"] != "dir"))
        return ["swap=%s" % "+".join(ts), "src=%s" % op["src"]["kind"]]


class FollowSend(SendFilter):
    """C18 (last clause) and C11 (follow-path configurations): a view filtered by FollowPaths transfers as a self-contained tree in which
    every requested path resolves as in the source"""
    name = "followsend"
    focus = ("c01", "c11")
    unpriv_share = 0
    n_cases = {"quick": 1200, "thorough": 8000, "search": 150}
    rule = ("link trees of the followlinks suite (relative, absolute, '..', chained, cyclic, dangling links) x request lists as FilterOpt.FollowPaths "
            "(optionally with include patterns); real Send over NewFilterFS + Receive into an empty destination; STAT log vs the model's filtered view; "
            "oracle: destination = view (C01), link names closed (C11), every requested path without wildcard resolves in the destination to the same "
            "location, kind and bytes as in the source (C18); non-trivial = >= 1 symlink and >= 1 request")

    def gen_case(self, rng):
        from . import follow
        tree, paths = follow.link_tree(rng)
        for e in tree:
            if e["t"] == "file":
                e["size"] = rng.choice([1, 5, 100])
        reqs = []
        for _ in range(rng.randint(1, 3)):
            r = rng.random()
            if r < 0.7 and paths:
                q = rng.choice(paths)
                if rng.random() < 0.3:
                    q = q + b"/" + rng.choice(follow.NAMES)
            elif r < 0.8:
                q = b"../" + rng.choice(follow.NAMES)
            else:
                q = b"/".join(rng.choice(follow.NAMES) for _ in range(rng.randint(1, 3)))
            if rng.random() < 0.15 and b"/" in q:
                # a wildcard in a component that is not the last one (the last stays literal)
                cs = q.split(b"/")
                i = rng.randrange(len(cs) - 1)
                cs[i] = rng.choice([b"*", cs[i][:1] + b"*", b"?" * len(cs[i])])
                q = b"/".join(cs)
            reqs.append(q)
        sf = {"follow": [hx(q) for q in reqs]}
        if rng.random() < 0.35 and paths:
            sf["include"] = [hx(rng.choice(paths))]
            deep = [q for q in paths if b"/" in q]
            if deep and rng.random() < 0.5:
                # an ORDERED include list: a directory, then an exception carving an entry out of it (the order of the list the caller
                # gave must survive whatever NewFilterFS does when it adds the follow targets)
                q = rng.choice(deep)
                sf["include"] = [hx(q.split(b"/")[0]), hx(b"!" + q)]
        op = {"op": "sync", "src": {"kind": "mem" if rng.random() < 0.8 else "disk", "tree": tree}, "dst": [], "sfilter": sf,
              "opt": {"notify": True, "cap": rng.choice([0, 4, 32]), "seed": rng.randrange(1 << 30)}}
        if rng.random() < 0.2 and "include" not in sf:
            # a stack of two filters: the follow paths belong to the OUTER one and are resolved in the view of the inner one, which hides a
            # link (or a directory) of the tree - what the inner filter hides stays hidden
            esc = lambda c: b"".join(b"\\" + bytes([x]) if x in b"*?[]\\" else bytes([x]) for x in c)
            links = [bytes.fromhex(e["p"]) for e in tree if e["t"] == "symlink"]
            hide = rng.choice(links) if links and rng.random() < 0.7 else (rng.choice(paths) if paths else b"a")
            op["sfilter"] = {"exclude": [hx(esc(hide))]} if rng.random() < 0.8 else {}
            op["sfilter2"] = sf
        return op

    def judge(self, op, impl, model):
        if isinstance(impl, dict) and "verif-timeout" in str(impl.get("err", "")):
            return Verdict(False, False, "C18: resolving the follow paths did not terminate: %s" % impl["err"])
        v = super().judge(op, impl, model)
        if model.get("follow_fuel_ok") is False:
            return Verdict(False, v.spec_ok, "the model's run of the resolver was cut short by its fuel (resolveAllX flag up); " + v.note)
        # (an exception in the caller's own include list may hide what a follow path leads to: the resolution clause is judged
        # for lists without exceptions only; the view itself is compared with the model in every case)
        neg = any(bytes.fromhex(p).strip().startswith(b"!") for p in op["sfilter"].get("include", []))
        if v.spec_ok is not False and model.get("follow") is False and not neg:
            return Verdict(v.agree, False, "C18: %s; %s" % (model.get("follow_why"), v.note))
        return v

    def nontrivial(self, op, impl, model):
        return any(e["t"] == "symlink" for e in op["src"]["tree"]) and bool(op["sfilter"].get("follow") or op.get("sfilter2", {}).get("follow"))

    matchers = {
        # F12 / F19: FollowLinks returned an include set that is not closed for these requests (see the followlinks suite): the transferred
        # tree then lacks a link target. Signature: implementation = model and the reference says the include set is not closed.
        "F19": lambda op, impl, model: model.get("follow_spec") is False and model.get("follow") is False
        and [norm_stat(s) for s in sent_stats(impl)] == [norm_stat(s) for s in model.get("sent", [])],
        # F12 on a disk source: a request component that is a pattern and, read literally, the name of an entry: FollowLinks looks the
        # pattern text up as a path and the kernel resolves through the entry of that name, which the listing-level transcription cannot see
        "F12": lambda op, impl, model: op["src"]["kind"] == "disk" and any(
            c in {x for e in op["src"]["tree"] for x in bytes.fromhex(e["p"]).split(b"/")} and any(y in c for y in b"*?[")
            for f in ("sfilter", "sfilter2") for q in op.get(f, {}).get("follow", []) for c in bytes.fromhex(q).split(b"/")),
        # F32: the same, with a link whose resolution text has a component with a pattern metacharacter in the tree
        # (or the include set is closed but names the literal '[v1]x' unescaped, which the filter reads as a class)
        "F32": lambda op, impl, model: model.get("follow_metalink") is True and model.get("follow") is False
        and [norm_stat(s) for s in sent_stats(impl)] == [norm_stat(s) for s in model.get("sent", [])],
    }
