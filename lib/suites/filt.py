"""C10 / C11 / C16: pattern matcher and filtered walk"""
from ..runner import Suite, Verdict
from .. import gen
from ..core import hx


def pattern_from_path(rng, p, allnames):
    """a pattern of the declared fragment derived from a real path p (bytes)"""
    cs = p.split(b"/")
    k = rng.randrange(16)
    esc = lambda c: b"".join(b"\\" + bytes([x]) if x in b"*?[]\\" else bytes([x]) for x in c)
    cs2 = [esc(c) for c in cs]
    i = rng.randrange(len(cs))
    c = cs[i]
    if k == 0:
        pass
    elif k == 1:
        cs2[i] = b"*"
    elif k == 2:
        cs2[i] = esc(c[:1]) + b"*"
    elif k == 3 and all(x < 128 for x in c):
        cs2[i] = b"?" * len(c)
    elif k == 4:
        cs2 = cs2[:i] + [b"**"] + cs2[i + 1:]
    elif k == 5:
        cs2 = [b"**"] + cs2[i:]
    elif k == 6:
        cs2 = cs2[:i + 1] + [b"**"]
    elif k == 7:
        cs2 = cs2[:i + 1] + [b"*"]
    elif k == 8:
        cs2 = cs2[:i + 1] + [b"*", b"**"]
    elif k == 9 and c and c[0] < 128 and c[0] not in b"]\\^-[":
        cs2[i] = b"[" + bytes([c[0]]) + b"z]" + esc(c[1:])
    elif k == 10 and c and c[0] < 128 and c[0] not in b"]\\^-[":
        cs2[i] = b"[^" + bytes([c[0]]) + b"]" + esc(c[1:])
    elif k == 11:
        cs2[i] = b"*" + esc(c[-1:])
    elif k == 12:
        cs2 = cs2[:i + 1]
    elif k == 13:
        cs2[i] = esc(c) + b"*"
    elif k == 14 and i + 1 < len(cs):
        # a negated class standing where the separator is: "a/b[^x]c" matches a/b/c (a last component that spans directories)
        cs2 = cs2[:i] + [cs2[i] + b"[^z]" + cs2[i + 1]] + cs2[i + 2:]
    elif k == 15:
        # "**" glued to other characters ("vendor/**LICENSE"): it is ".*", and spans directories as well
        cs2 = cs2[:i] + [b"**" + esc(cs[-1])]
    out = b"/".join(cs2)
    r = rng.random()
    if r < 0.07:
        out = b"/" + out
    elif r < 0.14:
        out = out + b"/"
    elif r < 0.18:
        out = b" " + out + b" "
    elif r < 0.22:
        out = b"./" + out
    return out


def pattern_list(rng, paths, neg_p=0.3):
    n = rng.choice([0, 1, 1, 2, 3, 4])
    out = []
    for _ in range(n):
        if not paths:
            break
        pat = pattern_from_path(rng, rng.choice(paths), paths)
        if out and rng.random() < neg_p:
            pat = b"!" + pat
        if pat.strip() in (b"!", b""):
            continue
        out.append(pat)
        if rng.random() < 0.1:
            out.append(pat)
    if len(out) >= 2 and rng.random() < 0.2:
        # a pattern stated again AFTER other patterns (re-asserting a decision that an exception in between had flipped)
        out.append(rng.choice(out[:-1]))
    return out


def nested_list(rng, paths):
    """literal prefix chains with negations in between: [a, !a/b, a/b/c] and permutations / truncations of it (prefix-only lists keep the
    directory-skipping shortcut active)"""
    deep = [p for p in paths if p.count(b"/") >= 2]
    if not deep:
        return pattern_list(rng, paths)
    cs = rng.choice(deep).split(b"/")
    chain = [b"/".join(cs[:i + 1]) for i in range(len(cs))]
    esc = lambda c: b"".join(b"\\" + bytes([x]) if x in b"*?[]\\" else bytes([x]) for x in c)
    out = []
    neg = False
    for i, c in enumerate(chain):
        if rng.random() < 0.25:
            continue
        pat = esc(c)
        if rng.random() < 0.2:
            pat += rng.choice([b"/*", b"/**"])
        out.append((b"!" if neg else b"") + pat)
        neg = not neg if rng.random() < 0.8 else neg
    if rng.random() < 0.2:
        rng.shuffle(out)
    if rng.random() < 0.3:
        out += pattern_list(rng, paths)[:1]
    return [p for p in out if p not in (b"!", b"")]


def fragment_ok(pats):
    """patterns the model declares support for (valid UTF-8, no '^' outside a class start, no '!' in the middle)"""
    for p in pats:
        try:
            p.decode("utf8")
        except Exception:
            return False
        if b"\n" in p or b"\x0b" in p or b"\x0c" in p or b"\r" in p or b"\t" in p:
            return False
    return True


class PatternSuite(Suite):
    name = "pattern"
    rule = ("(pattern list, path) pairs: patterns derived from real tree paths by the fragment {literal, *, x*, *x, ?, **, **/x, x/**, x/*, x/*/**, [ab]x, [^a]x, "
            "escapes, leading /, trailing /, ./, surrounding blanks, !-negation, duplicates}; single match, MatchesOrParentMatches and chained "
            "MatchesUsingParentResults along the ancestors vs the Lean matcher; non-trivial = distinct pair with a non-literal pattern")

    def gen(self, rng, tier):
        n = {"quick": 30000, "thorough": 600000, "search": 5000}[tier]
        ops = []
        tree = [p for p, _ in gen.rand_tree(rng, 40, 5)]
        while len(ops) < n:
            if rng.random() < 0.03 or not tree:
                tree = [p for p, _ in gen.rand_tree(rng, 40, 5)] or [b"a"]
            tree2 = [p for p in tree if fragment_ok([p])]
            if not tree2:
                tree = []
                continue
            pats = pattern_list(rng, tree2, 0.4) or [pattern_from_path(rng, rng.choice(tree2), tree2)]
            path = rng.choice(tree2)
            if rng.random() < 0.2:
                path = path + rng.choice([b"/x", b"x", b"/a/b", b"-"])
            ops.append({"op": "patmatch", "patterns": [hx(p) for p in pats], "path": hx(path)})
        return ops

    def judge(self, op, impl, model):
        if impl.get("newerr") and model.get("illegal"):
            return Verdict(True, True, "")      # a lone '!' (after trimming and cleaning) is rejected by both
        if model.get("illegal"):
            return Verdict(False, None, "the model rejects the list (lone '!'), the library accepts it")
        if impl.get("newerr") or impl.get("matcherr") or impl.get("panic"):
            # the generator emits well-formed patterns only (no other rejection occurs on the unchanged code): a rejection is a failure
            return Verdict(False, False, "the pattern matcher rejected a well-formed pattern list: %s" % (impl.get("newerr") or impl.get("matcherr") or impl.get("panic")))
        ms = model.get("single") or []
        isg = impl.get("single") or []
        agree = impl.get("mopm") == model.get("mopm") and impl.get("upr") == model.get("upr") and len(ms) == len(isg) and \
            all(a is None or a == b for a, b in zip(isg, ms))
        return Verdict(agree, None, "impl=%s model=%s" % ({k: impl.get(k) for k in ("single", "mopm", "upr")}, {k: model.get(k) for k in ("single", "mopm", "upr")}))

    def nontrivial(self, op, impl, model):
        return any(c in bytes.fromhex(p) for p in op["patterns"] for c in b"*?[!")

    def features(self, op, impl, model):
        return ["mopm=%s" % impl.get("mopm"), "upr=%s" % impl.get("upr"), "upr!=mopm=%s" % (impl.get("upr") != impl.get("mopm")),
                "neg=%s" % any(bytes.fromhex(p).strip().startswith(b"!") for p in op["patterns"])]

    def shrink(self, op):
        out = []
        for i in range(len(op["patterns"])):
            if len(op["patterns"]) > 1:
                o = dict(op)
                o["patterns"] = op["patterns"][:i] + op["patterns"][i + 1:]
                out.append(o)
            p = op["patterns"][i]
            for j in range(0, len(p), 2):
                o = dict(op)
                o["patterns"] = op["patterns"][:i] + [p[:j] + p[j + 2:]] + op["patterns"][i + 1:]
                if o["patterns"][i]:
                    out.append(o)
        s = op["path"]
        for j in range(0, len(s), 2):
            o = dict(op)
            o["path"] = s[:j] + s[j + 2:]
            out.append(o)
        return out


class FilterSuite(Suite):
    """focus 'c10': reported set = naive reference; 'c11': Walk and Open agree"""
    name = "filter"
    focus = ("c10",)
    rule = ("trees (synthetic views; sibling names always include prefix-related triples a / ab / a-b / a.b) x include/exclude lists from the pattern "
            "fragment (incl. negations, redundant entries, x/*/**) x map tables (keep / rewrite / exclude / skipdir on files and dirs) through "
            "NewFilterFS(view).Walk; Open on every regular file; non-trivial = distinct (tree, config) with >= 1 pattern or map entry")

    def gen(self, rng, tier):
        n = {"quick": 2500, "thorough": 100000, "search": 600}[tier]
        ops = []
        while len(ops) < n:
            tree = gen.disk_tree(rng, rng.choice([6, 15, 30]), 4, types=("dir", "file", "symlink"), xattrs=False, file_sizes=(0, 3))
            paths = [bytes.fromhex(e["p"]) for e in tree]
            paths = [p for p in paths if fragment_ok([p])]
            if not paths or len(paths) != len(tree):
                continue
            op = {"op": "filter", "src": {"kind": "mem", "tree": tree}}
            if rng.random() < 0.02:
                op["include"] = [hx(x) for x in rng.choice([[b""], [b" ", b"\t"]])]     # blank entries only: a filter that selects nothing
                ops.append(op)
                continue
            deep3 = [q for q in paths if q.count(b"/") >= 2]
            if deep3 and rng.random() < 0.08:
                # a matched directory D below an ancestor A that the patterns leave pending, and a map function that drops D itself
                # (or rewrites / skips A) while entries inside D are kept: A has to be reported before the first entry below it
                cs = rng.choice(deep3).split(b"/")
                esc = lambda c: b"".join(b"\\" + bytes([x]) if x in b"*?[]\\" else bytes([x]) for x in c)
                D = b"/".join(cs[:-1])
                Dp = b"/".join(esc(c) for c in cs[:-1])
                op["include"] = [hx(x) for x in rng.choice([[Dp], [Dp, Dp + b"/*"], [Dp + b"/**", Dp], [b"*/" * (len(cs) - 2) + esc(cs[-2])]])]
                mp = [[hx(D), "exclude"]]
                if rng.random() < 0.5:
                    mp.append([hx(cs[0]), rng.choice(["keep", "chown", "skipdir"])])
                    if mp[-1][1] == "chown":
                        mp[-1].append(4242)
                op["map"] = mp
                ops.append(op)
                continue
            if rng.random() < 0.1:
                # literal lists only (so that the directory-skipping shortcuts are active) naming an entry INSIDE a directory D and a
                # sibling whose name is D's name plus a byte below '/' ("docker/Dockerfile" and "docker-compose.yml"): in a sorted list
                # of prefixes the sibling stands between "D" and "D/"
                pset = set(paths)
                cands = []
                for q in paths:
                    par, _, nm = q.rpartition(b"/")
                    for d in paths:
                        dpar, _, dnm = d.rpartition(b"/")
                        if dpar == par and d != q and nm.startswith(dnm) and len(nm) > len(dnm) and nm[len(dnm)] < 0x2f:
                            kids = [k for k in paths if k.startswith(d + b"/")]
                            if kids:
                                cands.append((q, rng.choice(kids), d))
                if cands:
                    esc = lambda c: b"".join(b"\\" + bytes([x]) if x in b"*?[]\\" else bytes([x]) for x in c)
                    sib, kid, d = rng.choice(cands)
                    pl2 = [esc(sib), esc(kid)]
                    if rng.random() < 0.5:
                        pl2.reverse()
                    if rng.random() < 0.3:
                        pl2.append(esc(rng.choice(paths)))
                    if b"/" not in d and rng.random() < 0.4:
                        op["exclude"] = [hx(b"*")] + [hx(b"!" + x) for x in pl2]
                    else:
                        op["include"] = [hx(x) for x in pl2]
                    ops.append(op)
                    continue
            if deep3 and rng.random() < 0.06:
                # both lists at work on one chain A/D/x: a negation chain in one list (A, !A/D, A/D/x) and a pattern in the other list
                # that matches one element of the chain itself and none of its ancestors (literal, */b, **/b, class)
                cs = rng.choice(deep3).split(b"/")
                esc = lambda c: b"".join(b"\\" + bytes([x]) if x in b"*?[]\\" else bytes([x]) for x in c)
                ch = [b"/".join(esc(c) for c in cs[:i + 1]) for i in range(len(cs))]
                k = rng.randrange(len(ch) - 1)
                chain = [ch[k], b"!" + ch[k + 1]] + ([ch[k + 2]] if k + 2 < len(ch) else [ch[k + 1] + b"/*"])
                j = rng.randrange(k, min(k + 2, len(ch) - 1) + 1)
                tgt = rng.choice([ch[j], b"*/" * j + esc(cs[j]), b"**/" + esc(cs[j]), ch[j] + b"/**"])
                if rng.random() < 0.7:
                    op["include"], op["exclude"] = [hx(x) for x in chain], [hx(tgt)]
                else:
                    op["exclude"], op["include"] = [hx(x) for x in chain], [hx(tgt)] + ([hx(ch[0])] if rng.random() < 0.5 else [])
                ops.append(op)
                continue
            r = rng.random()
            pl = (lambda neg_p: nested_list(rng, paths)) if rng.random() < 0.25 else (lambda neg_p: pattern_list(rng, paths, neg_p))
            if r < 0.4:
                op["include"] = [hx(p) for p in pl(0.3)]
            elif r < 0.75:
                op["exclude"] = [hx(p) for p in pl(0.5)]
            else:
                op["include"] = [hx(p) for p in pl(0.3)]
                op["exclude"] = [hx(p) for p in pattern_list(rng, paths, 0.5)]
            if rng.random() < 0.2:
                mp = []
                for e in rng.sample(tree, min(len(tree), rng.randint(1, 3))):
                    kind = rng.choice(["exclude", "skipdir", "chown", "keep"])
                    mp.append([e["p"], kind, 4242] if kind == "chown" else [e["p"], kind])
                op["map"] = mp
            ops.append(op)
        return ops

    def prepare_model(self, ops, impl=None):
        out = []
        for k, o in enumerate(ops):
            i = impl[k] if impl else {}
            m = {"op": "filter", "listing": i.get("listing", []) if isinstance(i, dict) else [], "include": o.get("include", []),
                 "exclude": o.get("exclude", []), "map": o.get("map", [])}
            out.append(m)
        return out

    def judge(self, op, impl, model):
        if impl.get("newerr") and model.get("illegal"):
            return Verdict(True, True, "")
        if impl.get("newerr"):
            return Verdict(False, False, "NewFilterFS rejected a well-formed configuration: %s" % str(impl["newerr"])[:200])
        if "out" not in impl:
            return Verdict(True, None, "skipped: %s" % str(impl)[:100])
        from .sync import norm_stat
        io = [norm_stat(s) for s in (impl["out"] or [])]
        mo = [norm_stat(s) for s in model.get("m", [])]
        agree = io == mo and not impl.get("walkerr")
        notes = []
        if model.get("canon") is False:
            # premise of C16.filtered_walk_reports_copier_selection / canonical_check_sound, evaluated on the real walk's listing
            agree = False
            notes.append("the unfiltered listing is not canonical for the walk's own ancestor test (C16W.canonB = false)")
        if not agree:
            notes.append("walk impl=%s model=%s %s" % ([bytes.fromhex(s["p"]) for s in io][:8], [bytes.fromhex(s["p"]) for s in mo][:8], impl.get("walkerr") or ""))
        ok = None
        ipaths = [s["p"] for s in io]
        if not op.get("map"):
            ok = True
            if "c10" in self.focus:
                if ipaths != model.get("ref"):
                    ok = False
                    notes.append("C10: reported %s != naive reference %s" % ([bytes.fromhex(p) for p in ipaths][:8], [bytes.fromhex(p) for p in model.get("ref", [])][:8]))
                if len(set(ipaths)) != len(ipaths):
                    ok = False
                    notes.append("an entry is reported twice")
            if "c11" in self.focus:
                rep = set(ipaths)
                for p, can in impl.get("open", []):
                    if can == "error":
                        ok = False
                        notes.append("Open failed with an unexpected error for %s" % bytes.fromhex(p))
                    elif can != (p in rep):
                        ok = False
                        notes.append("C11: Walk %s %s but Open %s" % ("reports" if p in rep else "hides", bytes.fromhex(p), "succeeds" if can else "fails"))
                        break
        iopen = [[p, c] for p, c in impl.get("open", [])]
        if iopen != model.get("open"):
            agree = False
            notes.append("Open results differ from the model")
        return Verdict(agree, ok, "; ".join(notes))

    def nontrivial(self, op, impl, model):
        return bool(op.get("include") or op.get("exclude") or op.get("map"))

    def features(self, op, impl, model):
        pats = [bytes.fromhex(p) for p in op.get("include", []) + op.get("exclude", [])]
        return ["inc=%s" % bool(op.get("include")), "exc=%s" % bool(op.get("exclude")), "map=%s" % bool(op.get("map")),
                "neg=%s" % any(p.strip().startswith(b"!") for p in pats), "pruned=%s" % (model.get("noprune") is not None and len(model.get("m", [])) >= 0),
                "ref_eq=%s" % ([s["p"] for s in (impl.get("out") or [])] == model.get("ref")), "canonical_listing=%s" % model.get("canon")]

    def shrink(self, op):
        out = []
        tree = op["src"]["tree"]
        for i in range(len(tree)):
            p = tree[i]["p"]
            t2 = [e for e in tree if e["p"] != p and not e["p"].startswith(p + "2f")]
            o = dict(op)
            o["src"] = {"kind": "mem", "tree": t2}
            out.append(o)
        for k in ("include", "exclude", "map"):
            for i in range(len(op.get(k, []))):
                o = dict(op)
                o[k] = op[k][:i] + op[k][i + 1:]
                out.append(o)
        return out

    @staticmethod
    def _pats(op):
        return [bytes.fromhex(p).strip() for p in op.get("include", []) + op.get("exclude", [])]

    matchers = {
        # F5: Walk evaluates patterns with parent results, the reference/Open with the stateless matcher: they differ only when negations are present;
        # the walk itself is right w.r.t. the no-pruning run of the same algorithm
        "F5": lambda op, impl, model: any(p.startswith(b"!") for p in FilterSuite._pats(op)) and
        [s["p"] for s in (impl.get("out") or [])] == model.get("noprune") and
        [[p, c] for p, c in impl.get("open", [])] == model.get("open"),
    }


class FilterC11(FilterSuite):
    name = "filteropen"
    focus = ("c11",)
