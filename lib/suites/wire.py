"""C20: wire codec and framing"""
from ..runner import Suite, Verdict
from .. import gen
from ..core import hx

INT64S = [0, 1, -1, 127, 128, 300, 2**31 - 1, 2**31, 2**32, 2**53 + 1, 2**63 - 1, -2**63, -2**31, 1700000000_123456789]
UINT32S = [0, 1, 127, 128, 0o644, 0o755 | (1 << 31), (1 << 27) | 0o777, 2**32 - 1, 65534]


def rbytes(rng, n=None, utf8=None):
    n = rng.choice([0, 1, 3, 8, 40, 200]) if n is None else n
    if utf8 is None:
        utf8 = rng.random() < 0.8
    if utf8:
        return "".join(rng.choice(["a", "/", ".", "\x00", "\x7f", "é", "\n", "日", " "]) for _ in range(n)).encode("utf8")
    return bytes(rng.choice([0x00, 0x2f, 0x61, 0x7f, 0x80, 0xc3, 0xa9, 0xff, 0x2e, 0x0a]) for _ in range(n))


def rand_pstat(rng):
    u = rng.random() < 0.8
    st = {"p": hx(rbytes(rng, utf8=u)), "mode": rng.choice(UINT32S), "uid": rng.choice(UINT32S), "gid": rng.choice(UINT32S),
          "size": rng.choice(INT64S), "mt": rng.choice(INT64S), "ln": hx(rbytes(rng, utf8=u)), "dmaj": rng.choice(INT64S), "dmin": rng.choice(INT64S)}
    if rng.random() < 0.5:
        keys = set()
        xs = []
        for _ in range(rng.randint(0, 4)):
            k = rbytes(rng, rng.choice([0, 1, 6, 20]), utf8=rng.random() < 0.95)
            if k in keys:
                continue
            keys.add(k)
            xs.append([hx(k), hx(rbytes(rng, rng.choice([0, 1, 10, 300])))])
        st["x"] = sorted(xs)
    for k in list(st):
        if rng.random() < 0.25 and k != "x":
            st[k] = "" if k in ("p", "ln") else 0
    return st


def rand_ppacket(rng):
    p = {"type": rng.choice([0, 1, 2, 3, 4, 4, 5, -1, 2**31 - 1]), "id": rng.choice(UINT32S), "stat": None, "data": None}
    r0 = rng.random()
    if r0 < 0.08:
        p["stat"] = {}            # present but all fields at their defaults (encodes as a zero-length submessage)
    elif r0 < 0.5:
        p["stat"] = rand_pstat(rng)
    r = rng.random()
    if r < 0.4:
        p["data"] = hx(rbytes(rng, rng.choice([1, 10, 1000])))
    return p


def norm_pstat(s):
    if s is None:
        return None
    return {"p": s.get("p", ""), "mode": s.get("mode", 0), "uid": s.get("uid", 0), "gid": s.get("gid", 0), "size": s.get("size", 0),
            "mt": s.get("mt", 0), "ln": s.get("ln", ""), "dmaj": s.get("dmaj", 0), "dmin": s.get("dmin", 0),
            "x": sorted(s.get("x") or []), "unk": s.get("unk", "")}


def norm_ppkt(p):
    if p is None:
        return None
    return {"type": p.get("type", 0), "id": p.get("id", 0), "stat": norm_pstat(p.get("stat")), "data": p.get("data"), "unk": p.get("unk", "")}


def valid_utf8(h):
    try:
        bytes.fromhex(h).decode("utf8")
        return True
    except Exception:
        return False


def strings_utf8(kind, v):
    """are all proto3 string fields (Path, Linkname, xattr keys) valid UTF-8?"""
    st = v if kind == "stat" else v.get("stat")
    if st is None:
        return True
    return valid_utf8(st.get("p", "")) and valid_utf8(st.get("ln", "")) and all(valid_utf8(k) for k, _ in (st.get("x") or []))


class WireValues(Suite):
    name = "wirevals"
    rule = ("Stat / Packet values over boundary field values (0, max uint32, min/max int64, negative sizes), arbitrary bytes in names incl. non-UTF-8, "
            "xattr maps with empty keys/values: hand-optimised and generic codec, both directions, vs the Lean codec; non-trivial = distinct value with >= 3 set fields")

    def gen(self, rng, tier):
        n = {"quick": 6000, "thorough": 300000, "search": 2000}[tier]
        ops = []
        for _ in range(n):
            if rng.random() < 0.03:
                ops.append({"op": "wire_enc", "kind": "stat", "v": {}})
            elif rng.random() < 0.5:
                ops.append({"op": "wire_enc", "kind": "stat", "v": rand_pstat(rng)})
            else:
                ops.append({"op": "wire_enc", "kind": "pkt", "v": rand_ppacket(rng)})
        return ops

    def judge(self, op, impl, model):
        if "panic" in impl:
            return Verdict(False, False, "encoder/decoder panicked: %s" % impl["panic"])
        notes = []
        ok = True
        # model decodes the implementation's bytes to the same value, and model's own round trip holds
        agree = bool(model.get("rt"))
        if not impl.get("vt_vt"):
            ok = False
            notes.append("hand-optimised codec does not round-trip")
        if not impl.get("size_eq"):
            ok = False
            notes.append("Size() != len(Marshal())")
        if impl.get("api_ok") is False:
            ok = False
            notes.append("the marshal entry points disagree: %s" % impl.get("api_why"))
        if strings_utf8(op["kind"], op["v"]):
            for k in ("gen_vt", "vt_gen", "gen_gen"):
                if not impl.get(k):
                    ok = False
                    notes.append("cross-codec round trip %s fails %s" % (k, impl.get("vt_gen_err") or impl.get("gerr") or ""))
        else:
            # proto3 string fields with non-UTF-8 bytes: the generic runtime refuses them
            if not (impl.get("gen_vt") and impl.get("vt_gen")):
                ok = False
                notes.append("non-UTF-8 name: generic runtime and hand-optimised codec do not interoperate (%s)" % (impl.get("vt_gen_err") or impl.get("gerr")))
        return Verdict(agree, ok, "; ".join(notes) + ("" if agree else " | model round trip failed"))

    def nontrivial(self, op, impl, model):
        v = op["v"]
        return sum(1 for x in v.values() if x) >= 3

    def features(self, op, impl, model):
        return ["kind=" + op["kind"], "utf8=%s" % strings_utf8(op["kind"], op["v"])]

    matchers = {
        "F17": lambda op, impl, model: not strings_utf8(op["kind"], op["v"]) and impl.get("vt_vt") and impl.get("size_eq"),
    }


class WireBytes(Suite):
    name = "wirebytes"
    rule = ("byte strings: encodings of random values mutated (bit flips, truncation, insertion, splicing, length-field corruption), raw random bytes, and a sweep of length prefixes around 2^31, 2^32, 2^63, 2^64 for every length-delimited field, "
            "through UnmarshalVT (under recover) vs the transcribed Lean decoder: value-or-error equality; non-trivial = distinct string of >= 2 bytes")

    def gen(self, rng, tier):
        n = {"quick": 30000, "thorough": 1500000, "search": 5000}[tier]
        ops = []
        seeds = []

        def var(v):
            v &= (1 << 64) - 1
            out = bytearray()
            while True:
                if v < 128:
                    out.append(v)
                    return bytes(out)
                out.append((v & 127) | 128)
                v >>= 7
        # boundary values of every length prefix (deterministic sweep): a length-delimited field of each message whose length is around
        # 2^31, 2^32, 2^63 and 2^64, at several offsets into the buffer (index + length is what overflows)
        if tier != "search":
            for base in (1 << 31, 1 << 32, 1 << 63, 1 << 64):
                for d in list(range(-24, 4)):
                    ln = var(base + d)
                    for kind, pre, tag in (("stat", b"", 0x0a), ("stat", b"", 0x3a), ("stat", b"\x10\x01", 0x52), ("stat", b"", 0x7a),
                                           ("pkt", b"", 0x12), ("pkt", b"\x08\x01", 0x22), ("pkt", b"", 0x7a)):
                        ops.append({"op": "wire_dec", "kind": kind, "bytes": hx(pre + bytes([tag]) + ln + b"xy")})
                    # nested: a Stat field inside a Packet, and a map entry key inside a Stat
                    inner = b"\x0a" + ln + b"p"
                    ops.append({"op": "wire_dec", "kind": "pkt", "bytes": hx(b"\x12" + var(len(inner)) + inner)})
                    ent = b"\x0a" + ln + b"k"
                    ops.append({"op": "wire_dec", "kind": "stat", "bytes": hx(b"\x52" + var(len(ent)) + ent)})
        for _ in range(n):
            kind = rng.choice(["stat", "pkt"])
            r = rng.random()
            if r < 0.15 or not seeds:
                b = bytes(rng.randrange(256) for _ in range(rng.choice([0, 1, 2, 5, 12, 40])))
            else:
                b = bytearray(rng.choice(seeds))
                for _ in range(rng.randint(1, 3)):
                    m = rng.randrange(6)
                    if m == 0 and b:
                        b[rng.randrange(len(b))] ^= 1 << rng.randrange(8)
                    elif m == 1 and b:
                        del b[rng.randrange(len(b)):]
                    elif m == 2:
                        b.insert(rng.randrange(len(b) + 1), rng.choice([0, 0x7f, 0x80, 0xff, 0x0a, 0x12, 0x52, 0x08]))
                    elif m == 3 and b:
                        b[rng.randrange(len(b))] = rng.choice([0x80, 0xff, 0x00, 0x7f, 0x0b, 0x0c, 0x53, 0x54])
                    elif m == 4:
                        b += bytes(rng.choice(seeds))[:rng.randint(0, 20)]
                    elif m == 5 and len(b) > 2:
                        i = rng.randrange(len(b) - 1)
                        b[i:i + 1] = bytes([0xff, 0xff, 0xff, 0xff, 0xff, 0xff, 0xff, 0xff, 0xff, rng.choice([0x01, 0x7f, 0x80])])
                b = bytes(b)
            ops.append({"op": "wire_dec", "kind": kind, "bytes": hx(b)})
            if len(seeds) < 400 and rng.random() < 0.1:
                seeds.append(self._enc(rng))
        return ops

    @staticmethod
    def _enc(rng):
        # a plausible encoding built by hand (python side): tag/len/value triples in field order
        def var(n):
            n &= (1 << 64) - 1
            out = bytearray()
            while True:
                if n < 128:
                    out.append(n)
                    return bytes(out)
                out.append((n & 127) | 128)
                n >>= 7
        st = b""
        p = rbytes(rng, rng.choice([1, 5, 30]))
        st += b"\x0a" + var(len(p)) + p
        st += b"\x10" + var(rng.choice(UINT32S)) + b"\x28" + var(rng.choice(INT64S)) + b"\x30" + var(rng.choice(INT64S))
        if rng.random() < 0.5:
            k, v = rbytes(rng, 6), rbytes(rng, 10)
            e = b"\x0a" + var(len(k)) + k + b"\x12" + var(len(v)) + v
            st += b"\x52" + var(len(e)) + e
        if rng.random() < 0.5:
            return st
        return b"\x08" + var(rng.choice([0, 1, 2, 3, 4])) + b"\x12" + var(len(st)) + st + b"\x18" + var(rng.choice(UINT32S)) + b"\x22" + var(3) + b"abc"

    def judge(self, op, impl, model):
        if "panic" in impl:
            return Verdict(False, False, "decoder panicked on arbitrary bytes: %s" % impl["panic"])
        nf = norm_pstat if op["kind"] == "stat" else norm_ppkt
        agree = impl.get("ok") == model.get("ok") and (not impl.get("ok") or nf(impl.get("v")) == nf(model.get("v")))
        ok = True
        notes = []
        if impl.get("ok") and impl.get("rt") is False:
            ok = False
            notes.append("decoded value does not re-encode to an equal value")
        if not agree:
            notes.append("impl ok=%s v=%s | model ok=%s v=%s err=%s" % (impl.get("ok"), str(impl.get("v"))[:200], model.get("ok"), str(model.get("v"))[:200], model.get("err")))
        return Verdict(agree, ok, "; ".join(notes))

    def nontrivial(self, op, impl, model):
        return len(op["bytes"]) >= 4

    def features(self, op, impl, model):
        return ["kind=" + op["kind"], "ok=%s" % impl.get("ok"), "err=%s" % (model.get("err") if not model.get("ok") else "-")]

    def shrink(self, op):
        s = op["bytes"]
        out = []
        for i in range(0, len(s), 2):
            o = dict(op)
            o["bytes"] = s[:i] + s[i + 2:]
            out.append(o)
        return out


class Frames(Suite):
    name = "frames"
    rule = ("packet sequences (empty packets, packets > 32 KiB pooled buffer, every encoded size 32720..32790 around it, STAT/DATA mixes) written through util.NewProtoStream and read back through a reader "
            "that fragments by a generated schedule (1-byte reads .. whole stream); packets compared, and re-compared after later receives (aliasing); "
            "non-trivial = >= 2 packets, distinct")

    def gen(self, rng, tier):
        n = {"quick": 1000, "thorough": 20000, "search": 100}[tier]
        ops = []
        # every encoded packet size around the pooled 32 KiB buffer (header bytes included): a deterministic sweep
        if tier != "search":
            for L in range(32768 - 48, 32768 + 16):
                idv = rng.choice([0, 7, 300, 4294967295])
                ops.append({"op": "frames", "pkts": [{"type": 2, "id": idv, "stat": None, "data": hx(bytes([L % 251]) * L)},
                                                     {"type": 4, "id": 0, "stat": None, "data": None}],
                            "frag": [rng.choice([1, 4096, 0])] if L % 8 else [4096, 0]})
        for _ in range(n):
            pkts = []
            for _ in range(rng.randint(1, 6)):
                r = rng.random()
                if r < 0.05:
                    p = {"type": 2, "id": rng.choice(UINT32S), "stat": None, "data": hx(bytes([rng.randrange(256)]) * (32768 + rng.randint(-48, 16)))}
                elif r < 0.15:
                    p = {"type": 0, "id": 0, "stat": None, "data": None}      # encodes to zero bytes
                elif r < 0.3:
                    p = {"type": 2, "id": rng.choice(UINT32S), "stat": None, "data": hx(bytes([rng.randrange(256)]) * rng.choice([32768, 32769, 40000, 70000]))}
                elif r < 0.4:
                    st = rand_pstat(rng)
                    st["x"] = [[hx(b"user.big"), hx(b"x" * 40000)]]
                    p = {"type": 0, "id": 0, "stat": st, "data": None}
                else:
                    p = rand_ppacket(rng)
                pkts.append(p)
            frag = [rng.choice([1, 2, 3, 4, 5, 7, 100, 4096, 0]) for _ in range(rng.randint(1, 4))]
            if sum(len(p.get("data") or "") for p in pkts) > 100000 and 1 in frag:
                frag = [4096, 0]
            op = {"op": "frames", "pkts": pkts, "frag": frag}
            if rng.random() < 0.25:
                op["reuse"] = True      # one packet struct reused for every send
            if rng.random() < 0.25 and "extra" not in op:
                op["eof_with_data"] = True   # the underlying reader delivers the last bytes of the stream together with io.EOF
            if rng.random() < 0.15:
                # a frame header that announces more bytes than follow (truncated / hostile stream)
                # ... also with more than one pooled buffer (32 KiB) of bytes actually delivered behind the bogus length
                op["extra"] = hx(rng.choice([b"\x10\x00\x00\x00", b"\x04\x00\x00\x00abc", b"\x00\x10\x00\x00x",
                                             b"\x10\x00\x00\x00" + b"z" * 40000, b"\x04\x00\x00\x00" + b"q" * 32768,
                                             b"\x7f\xff\xff\xff" + b"w" * 33000]))
            ops.append(op)
        return ops

    def prepare_model(self, ops, impl=None):
        # the model frames the byte strings the implementation produced for each packet (decoded again by the model)
        out = []
        for k, o in enumerate(ops):
            out.append({"op": "frames", "msgs": []})
        return out

    def judge(self, op, impl, model):
        if "panic" in impl:
            return Verdict(False, False, "stream panicked: %s" % impl["panic"])
        ok = True
        notes = []
        if impl.get("senderr"):
            ok = False
            notes.append("SendMsg failed: %s" % impl["senderr"])
        if impl.get("alloc", 0) > 8 * impl.get("streamlen", 0) + (4 << 20):
            ok = False
            notes.append("over-allocation: %d bytes allocated while reading a %d-byte stream" % (impl["alloc"], impl["streamlen"]))
        if not impl.get("same"):
            ok = False
            notes.append("packets read back differ from packets written (%d written, %d read, end: %s)" % (len(op["pkts"]), len(impl.get("got", [])), impl.get("recv_end")))
        if impl.get("stable") is False:
            ok = False
            notes.append("a received packet changed after a later receive (aliases the receive buffer)")
        return Verdict(ok, ok, "; ".join(notes))

    matchers = {
        "F11": lambda op, impl, model: "extra" in op and impl.get("same") and impl.get("stable") is not False and
        impl.get("alloc", 0) > 8 * impl.get("streamlen", 0) + (4 << 20),
    }

    def nontrivial(self, op, impl, model):
        return len(op["pkts"]) >= 2

    def features(self, op, impl, model):
        return ["extra=%s" % ("extra" in op), "big=%s" % any(len(p.get("data") or "") > 65536 or (p.get("stat") and p["stat"].get("x") and len(p["stat"]["x"][0][1]) > 65536) for p in op["pkts"]),
                "frag1=%s" % (1 in op["frag"])]

    def shrink(self, op):
        out = []
        for i in range(len(op["pkts"])):
            o = dict(op)
            o["pkts"] = op["pkts"][:i] + op["pkts"][i + 1:]
            if o["pkts"]:
                out.append(o)
        return out
