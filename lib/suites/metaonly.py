"""C19: metadata-only transfers (real Send + Receive with a MetadataOnly selector)"""
from ..runner import Suite, Verdict
from .. import gen
from ..core import hx
from .sync import reqs_of, norm_stat, SRC_TYPES

META = hx(b".fsutil-metadata")


class MetaOnly(Suite):
    name = "metaonly"
    needs_root = True
    rule = ("sources (in memory, typed trees; some contain an entry named .fsutil-metadata; listings from a few records to several 32 KiB chunks; single "
            "stats > 32 KiB through xattrs) x selectors (none, all, files, directories, nested; closed under hard-link sources) x prior destinations "
            "(fresh, edited, holding a listing file or a symlink/directory with that name); non-trivial = >= 1 selected path, distinct")

    def gen(self, rng, tier):
        n = {"quick": 800, "thorough": 5000, "search": 100}[tier]
        ops = []
        for _ in range(n):
            bigp = None
            big = rng.random() < 0.08
            tree = gen.disk_tree(rng, rng.choice([6, 15, 35]) if not big else 300, 4, types=SRC_TYPES,
                                 file_sizes=(0, 1, 5, 100, 4096, 40000), xattrs=True)
            if big:
                tree = tree + [e for e in __import__("lib.suites.proto", fromlist=["flat_view"]).flat_view(rng, 600, (0, 5)) if True]
                tree.sort(key=lambda e: gen.pathkey(bytes.fromhex(e["p"])))
                seen = set()
                tree = [e for e in tree if not (e["p"] in seen or seen.add(e["p"]))]
            pair = None
            if big and rng.random() < 0.7 and not any(bytes.fromhex(e["p"]) < b"!src" or bytes.fromhex(e["p"]) > b"~zlink" for e in tree):
                # a selected file at the very start of a long stream and a selected hard link to it at the very end: the content of the
                # source has long been requested when the link is announced
                pair = (hx(b"!src"), hx(b"~zlink"))
                tree = [{"p": pair[0], "t": "file", "size": rng.choice([5, 40000]), "uid": 0, "gid": 0, "mt": gen.MTIMES[1], "mode": 0o644}] + tree + \
                       [{"p": pair[1], "t": "hardlink", "ln": pair[0]}]
            if rng.random() < 0.1 and tree:
                # one stat larger than a 32 KiB buffer chunk
                # (ext4 cannot store such xattrs: the entry is kept out of the selection, it only has to be listed)
                e = rng.choice([x for x in tree if x["t"] == "file"] or [tree[0]])
                if e["t"] == "file":
                    bigp = e["p"]
                    e["x"] = sorted([[hx(b"trusted.big"), hx(b"v" * rng.choice([33000, 40000]))], [hx(b"trusted.t2"), hx(b"y" * 20000)]])
            if bigp is None and rng.random() < 0.08 and not any(bytes.fromhex(e["p"]) < b"!big" for e in tree):
                # the FIRST record of the listing is a few KiB (between small and a whole buffer chunk)
                bigp = hx(b"!big")
                tree = [{"p": bigp, "t": "file", "size": 3, "uid": 0, "gid": 0, "mt": gen.MTIMES[1], "mode": 0o644,
                         "x": [[hx(b"trusted.big"), hx(b"v" * rng.choice([4200, 6000, 12000, 30000, 32700]))]]}] + tree
            if rng.random() < 0.25:
                # the source itself contains the listing name
                kind = rng.choice(["file", "dir", "symlink"])
                ent = {"p": META, "t": kind, "uid": 0, "gid": 0, "mt": gen.MTIMES[0], "mode": 0o644 if kind != "dir" else 0o755}
                if kind == "file":
                    ent["size"] = 7
                if kind == "symlink":
                    ent["ln"] = hx(b"a")
                tree = [e for e in tree if e["p"] != META and not e["p"].startswith(META + "2f")] + [ent]
                # (no children below a directory of that name: the statement excepts the name itself only)
                tree.sort(key=lambda e: gen.pathkey(bytes.fromhex(e["p"])))
            if rng.random() < 0.06:
                # the source has a DIRECTORY with the listing name, with children (they are listed, nothing is created below the name),
                # and selected files after it: their ids count every announced entry
                tree = [e for e in tree if e["p"] != META and not e["p"].startswith(META + "2f")]
                tree.append({"p": META, "t": "dir", "uid": 0, "gid": 0, "mt": gen.MTIMES[0], "mode": 0o755})
                for nm in rng.sample([b"a", b"ab", b"c", b"d/"], rng.randint(1, 3)):
                    if nm.endswith(b"/"):
                        tree.append({"p": META + "2f" + hx(nm[:-1]), "t": "dir", "uid": 0, "gid": 0, "mt": gen.MTIMES[0], "mode": 0o755})
                        tree.append({"p": META + "2f" + hx(nm + b"x"), "t": "file", "size": 2, "uid": 0, "gid": 0, "mt": gen.MTIMES[0], "mode": 0o644})
                    else:
                        tree.append({"p": META + "2f" + hx(nm), "t": "file", "size": rng.choice([0, 7]), "uid": 0, "gid": 0, "mt": gen.MTIMES[0], "mode": 0o644})
                for nm in (b"zfile1", b"zfile2"):
                    if hx(nm) not in {e["p"] for e in tree}:
                        tree.append({"p": hx(nm), "t": "file", "size": rng.choice([5, 100]), "uid": 0, "gid": 0, "mt": gen.MTIMES[1], "mode": 0o644})
                tree.sort(key=lambda e: gen.pathkey(bytes.fromhex(e["p"])))
            near = None
            if rng.random() < 0.2:
                # a selected top-level entry whose name is NEAR the listing name (what an implementation might use as a staging / backup /
                # lock name for the listing): it is an ordinary entry and must arrive like any other
                nm = b".fsutil-metadata" + rng.choice([b".tmp", b".tmp", b"~", b".new", b".lock", b".bak", b".swp", b".part", b".old", b"-tmp", b".1"])
                if rng.random() < 0.1:
                    nm = b".tmp" + nm
                if rng.random() < 0.3:
                    # the listing name in another spelling (case): still an ordinary entry
                    nm = rng.choice([b".Fsutil-Metadata", b".FSUTIL-METADATA", b".fsutil-Metadata", b".fsutil_metadata", b".fsutil-metadata "])
                kind = rng.choice(["file", "file", "symlink"])
                files = [e["p"] for e in tree if e["t"] == "file" and b"/" not in bytes.fromhex(e["p"])]
                near = hx(nm)
                ent = {"p": near, "t": kind, "uid": 0, "gid": 0, "mt": gen.MTIMES[2], "mode": 0o644}
                if kind == "file":
                    ent["size"] = rng.choice([5, 100])
                else:
                    ent["ln"] = rng.choice(files) if files else hx(b"a")
                tree = [e for e in tree if e["p"] != near and not e["p"].startswith(near + "2f")] + [ent]
                tree.sort(key=lambda e: gen.pathkey(bytes.fromhex(e["p"])))
            paths = [e["p"] for e in tree if e["p"] != META and not e["p"].startswith(META + "2f")]
            r = rng.random()
            if r < 0.1 and near is None:
                sel = []
            elif r < 0.25:
                sel = list(paths)
            elif r < 0.5:
                sel = [e["p"] for e in tree if e["t"] in ("file", "hardlink") and rng.random() < 0.5 and e["p"] in paths]
            elif r < 0.7:
                sel = [e["p"] for e in tree if e["t"] == "dir" and rng.random() < 0.5 and e["p"] in paths]
            else:
                sel = [p for p in paths if rng.random() < 0.4]
            by = {e["p"]: e for e in tree}
            if near is not None and near not in sel:
                sel.append(near)
                if by[near]["t"] == "symlink" and by[near]["ln"] in by and by[near]["ln"] not in sel:
                    sel.append(by[near]["ln"])
            if bigp is not None:
                sel = [p for p in sel if p != bigp and not (by[p]["t"] == "hardlink" and by[p]["ln"] == bigp)]
            if pair is not None:
                sel = [p for p in sel if p not in pair] + list(pair)
            # (a hard link whose source is the listing name or lies below it cannot be selected: the statement asks for selectors that
            # select the link source too, and nothing can be materialised at or below that name)
            sel = [p for p in sel if not (by[p]["t"] == "hardlink" and (by[p]["ln"] == META or by[p]["ln"].startswith(META + "2f")))]
            # closed under link sources
            for p in list(sel):
                e = by[p]
                if e["t"] == "hardlink" and e["ln"] not in sel:
                    sel.append(e["ln"])
            r = rng.random()
            if r < 0.4:
                dst = []
            elif r < 0.8:
                dst = gen.mutate_disk_tree(rng, [e for e in tree if e["p"] in sel or e["t"] == "dir"])
            else:
                dst = gen.mutate_disk_tree(rng, tree)
            dst = [e for e in dst if e["p"] != META and not e["p"].startswith(META + "2f")]
            r = rng.random()
            if r < 0.15:
                dst.append({"p": META, "t": "file", "size": 11, "uid": 0, "gid": 0, "mt": gen.MTIMES[1], "mode": 0o600})
            elif r < 0.25:
                dst.append({"p": META, "t": "symlink", "ln": hx(b"/nonexistent/zz"), "uid": 0, "gid": 0, "mt": gen.MTIMES[1], "mode": 0o777})
            elif r < 0.35:
                dst.append({"p": META, "t": "dir", "uid": 0, "gid": 0, "mt": gen.MTIMES[1], "mode": 0o755})
                if rng.random() < 0.7:
                    dst.append({"p": META + "2f" + hx(b"old"), "t": "file", "size": 3, "uid": 0, "gid": 0, "mt": gen.MTIMES[1], "mode": 0o644})
            dst.sort(key=lambda e: gen.pathkey(bytes.fromhex(e["p"])))
            ops.append({"op": "sync", "src": {"kind": "mem", "tree": tree}, "dst": dst,
                        "opt": {"notify": True, "cap": rng.choice([0, 4, 32]), "seed": rng.randrange(1 << 30), "metaonly": sel}})
        return ops

    def prepare_model(self, ops, impl=None):
        out = []
        for k, o in enumerate(ops):
            i = impl[k] if impl else {}
            if not isinstance(i, dict) or "view" not in i:
                out.append({"op": "metasync", "view": [], "selected": [], "before": [], "after": [], "opt": {}})
            else:
                out.append({"op": "metasync", "view": i["view"], "selected": o["opt"]["metaonly"], "before": i["before"], "after": i["after"],
                            "opt": {k2: v for k2, v in o["opt"].items() if k2 != "metaonly"}})
        return out

    def judge(self, op, impl, model):
        if "view" not in impl:
            return Verdict(True, None, "skipped: %s" % str(impl)[:200])
        notes = []
        ok = True
        agree = True
        if impl["send"] != "ok" or impl["recv"] != "ok":
            return Verdict(False, False, "transfer failed: send=%s (%s) recv=%s (%s)" % (impl["send"], impl.get("senderr"), impl["recv"], impl.get("recverr")))
        ir = sorted(reqs_of(impl))
        if ir != sorted(model.get("reqs", [])):
            agree = False
            notes.append("REQ ids impl=%s model=%s" % (ir[:12], sorted(model.get("reqs", []))[:12]))
        if ir != sorted(model.get("spec_reqs", [])):
            ok = False
            notes.append("REQ ids %s are not the STAT positions of the selected regular files that need content %s" % (ir[:12], sorted(model.get("spec_reqs", []))[:12]))
        il = [norm_stat(s) for s in impl.get("listing") or []]
        if "listing" not in impl:
            ok = False
            notes.append("listing file unreadable: %s" % impl.get("listing_err"))
        else:
            if il != [norm_stat(s) for s in model.get("listing", [])]:
                agree = False
                notes.append("listing differs from the model's")
            if il != [norm_stat(s) for s in model.get("spec_listing", [])]:
                ok = False
                notes.append("listing file does not hold exactly the announced stats in stream order (%d records, %d expected)" % (len(il), len(model.get("spec_listing", []))))
        if model.get("c01") is False:
            ok = False
            notes.append("destination != selected entries + needed ancestors: %s" % model.get("c01_why"))
        if model.get("c01_m") is False and model.get("c01") is not False:
            agree = False
            notes.append("destination differs from the model's forwarded set: %s" % model.get("c01_m_why"))
        if model.get("canon") is False:
            # premise of C19.forwarded_is_selected_plus_ancestors, evaluated on the stream the real sender produced
            agree = False
            notes.append("the announced stream (listing name taken out) is not canonical (C19F.mcanonB = false)")
        elif model.get("fwd_is_spec") is False:
            agree = False
            notes.append("the model's forwarded entries differ from the reference although the stream is canonical (contradicts C19.forwarded_is_selected_plus_ancestors)")
        ups = [(n["kind"] == "delete", n["p"]) for n in impl.get("notif", [])]
        if len(set(ups)) != len(ups):
            ok = False
            notes.append("a path was notified twice: %s" % [p for d, p in ups if ups.count((d, p)) > 1][:3])
        # the listing file itself: regular file, mode 0644
        lf = [e for e in impl["after"] if e["p"] == META]
        if not lf or lf[0]["mode"] & ((1 << 31) | (1 << 27)):
            ok = False
            notes.append("listing file missing or not a regular file")
        return Verdict(agree and ok, ok, "; ".join(notes))

    def nontrivial(self, op, impl, model):
        return len(op["opt"]["metaonly"]) >= 1

    def features(self, op, impl, model):
        n = len(op["src"]["tree"])
        return ["entries=%s" % ("<50" if n < 50 else ">=50"), "selected=%s" % ("none" if not op["opt"]["metaonly"] else "some"),
                "src_has_listing_name=%s" % any(e["p"] == META for e in op["src"]["tree"]),
                "dst_has_listing_name=%s" % any(e["p"] == META for e in op["dst"]), "reqs=%d" % min(len(reqs_of(impl)), 5),
                "canonical_stream=%s" % model.get("canon")]

    def shrink(self, op):
        out = []
        tree = op["src"]["tree"]
        sel = op["opt"]["metaonly"]
        for i in range(len(tree)):
            p = tree[i]["p"]
            gone = {e["p"] for e in tree if e["p"] == p or e["p"].startswith(p + "2f") or (e["t"] == "hardlink" and e.get("ln") == p)}
            o = dict(op)
            o["src"] = {"kind": "mem", "tree": [e for e in tree if e["p"] not in gone]}
            o["opt"] = dict(op["opt"], metaonly=[s for s in sel if s not in gone])
            out.append(o)
        for i in range(len(op["dst"])):
            o = dict(op)
            o["dst"] = op["dst"][:i] + op["dst"][i + 1:]
            out.append(o)
        for i in range(len(sel)):
            o = dict(op)
            o["opt"] = dict(op["opt"], metaonly=sel[:i] + sel[i + 1:])
            out.append(o)
        return out

    matchers = {
        "F2": lambda op, impl, model: any(e["p"] == META for e in op["src"]["tree"]),
        "F20": lambda op, impl, model: any(k == "73656375726974792e6361706162696c697479" for e in op["src"]["tree"] if e.get("t") == "file" for k, _ in e.get("x", []))
        and model.get("c01") is False and model.get("c01_why") == "xattrs of a created entry are missing",
    }
