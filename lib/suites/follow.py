"""C18: FollowLinks and dedupePaths"""
from ..runner import Suite, Verdict
from .. import gen
from ..core import hx

# (names that only START with two dots are ordinary names: Kubernetes-style "..data", "...")
NAMES = [b"a", b"b", b"c", b"a.txt", b"a-b", b"d", b"l", b"k", b"foo", b"a b", b"..data", b"...", b"..2", b"[v1]x", b"d:v", b"C:"]


def link_tree(rng):
    """small trees over few names so that links hit real entries: dirs, files, symlinks (relative, absolute, .., chains, cycles, dangling)"""
    ents = {}

    def mk(pre, depth):
        n = rng.randint(1, 4)
        for nm in rng.sample(NAMES, n):
            p = pre + nm
            r = rng.random()
            if depth < 3 and r < 0.35:
                ents[p] = ("dir", None)
                mk(p + b"/", depth + 1)
            elif r < 0.6:
                ents[p] = ("file", None)
            else:
                ents[p] = ("symlink", None)
    mk(b"", 0)
    paths = sorted(ents)
    allp = paths + [b"nonexistent", b"a/zz"]
    for p in paths:
        if ents[p][0] == "symlink":
            r = rng.random()
            tgt = rng.choice(allp)
            if r < 0.3:
                t = b"/" + tgt
            elif r < 0.6:
                # relative to the link's directory
                up = p.count(b"/")
                t = b"../" * rng.randint(0, up + 1) + tgt.split(b"/")[-1] if rng.random() < 0.5 else b"../" * up + tgt
            elif r < 0.7:
                t = rng.choice([b"..", b".", b"/", b"../..", b"../../.."])
            elif r < 0.8:
                t = p.split(b"/")[-1]            # self loop
            else:
                t = tgt.split(b"/")[-1]
            ents[p] = ("symlink", t or b".")
    tree = []
    for p in sorted(ents, key=gen.pathkey):
        k, t = ents[p]
        e = {"p": hx(p), "t": k, "uid": 0, "gid": 0, "mt": gen.MTIMES[0], "mode": 0o755 if k == "dir" else 0o644}
        if k == "symlink":
            e["ln"] = hx(t)
        if k == "file":
            e["size"] = 1
        tree.append(e)
    return tree, paths


class FollowLinks(Suite):
    name = "followlinks"
    rule = ("trees with symlinks (relative, absolute, '..' beyond the root, chains, cycles, self loops, links in intermediate components, dangling) over a small "
            "name universe x request lists (existing paths, paths through links, wildcards in the last and in middle components and below symlink components, non-existent, '.', '/', "
            "'../x'); FollowLinks over synthetic and on-disk views vs the transcribed Lean resolver; oracle: the chroot-style reference resolver; "
            "non-trivial = tree with >= 1 symlink and >= 1 request, distinct")

    def gen(self, rng, tier):
        n = {"quick": 6000, "thorough": 80000, "search": 500}[tier]
        ops = []
        for k in range(n):
            if k % 1250 == 7:
                # many links followed in ONE call (no per-call budget may run out): N requests, each a link (half of them two hops)
                N = rng.choice([260, 300, 520])
                D = lambda p: {"p": hx(p), "t": "dir", "uid": 0, "gid": 0, "mt": gen.MTIMES[0], "mode": 0o755}
                L = lambda p, t: {"p": hx(p), "t": "symlink", "ln": hx(t), "uid": 0, "gid": 0, "mt": gen.MTIMES[0], "mode": 0o777}
                tree = [D(b"bin"), D(b"lib")]
                for i in range(N):
                    nm = b"c%03d" % i
                    if i % 2:
                        tree += [L(b"bin/" + nm, b"../lib/" + nm), L(b"lib/" + nm, b"t")]
                    else:
                        tree += [L(b"bin/" + nm, b"../lib/t")]
                tree.append({"p": hx(b"lib/t"), "t": "file", "size": 1, "uid": 0, "gid": 0, "mt": gen.MTIMES[0], "mode": 0o644})
                tree.sort(key=lambda e: gen.pathkey(bytes.fromhex(e["p"])))
                reqs = [b"bin/*"] if rng.random() < 0.5 else [b"bin/c%03d" % i for i in range(N)]
                ops.append({"op": "followlinks", "src": {"kind": "mem", "tree": tree}, "paths": [hx(q) for q in reqs]})
                continue
            if rng.random() < 0.04:
                # an earlier request resolves a directory X; a later link points strictly BELOW X, at something that is itself a link
                # (or holds one) leading out of X: the walk below X must still happen for the later request
                D = lambda p: {"p": hx(p), "t": "dir", "uid": 0, "gid": 0, "mt": gen.MTIMES[0], "mode": 0o755}
                L = lambda p, t: {"p": hx(p), "t": "symlink", "ln": hx(t), "uid": 0, "gid": 0, "mt": gen.MTIMES[0], "mode": 0o777}
                Fl = lambda p: {"p": hx(p), "t": "file", "size": 1, "uid": 0, "gid": 0, "mt": gen.MTIMES[0], "mode": 0o644}
                x, sub, inner, out, other = rng.sample(NAMES[:10], 5)
                tree = [D(x), D(x + b"/" + sub), L(x + b"/" + sub + b"/" + inner, rng.choice([b"/" + out + b"/f", b"../../" + out + b"/f", b"/" + out])),
                        D(out), Fl(out + b"/f"), D(other), L(other + b"/l", rng.choice([b"/", b"../"]) + x + b"/" + sub + b"/" + inner)]
                if rng.random() < 0.5:
                    tree[-1] = L(other + b"/l", rng.choice([b"/", b"../"]) + x + b"/" + sub)
                tree.sort(key=lambda e: gen.pathkey(bytes.fromhex(e["p"])))
                reqs = [x, other + b"/l"] if rng.random() < 0.7 else [other + b"/l", x]
                if rng.random() < 0.3:
                    reqs.append(other + b"/l/" + inner)
                ops.append({"op": "followlinks", "src": {"kind": "mem" if rng.random() < 0.8 else "disk", "tree": tree}, "paths": [hx(q) for q in reqs]})
                continue
            tree, paths = link_tree(rng)
            reqs = []
            for _ in range(rng.randint(1, 3)):
                r = rng.random()
                if r < 0.45 and paths:
                    q = rng.choice(paths)
                    if rng.random() < 0.4:
                        q = q + b"/" + rng.choice(NAMES)
                elif r < 0.6 and paths:
                    q = rng.choice(paths)
                    cs = q.split(b"/")
                    i = rng.randrange(len(cs))
                    cs[i] = rng.choice([b"*", cs[i][:1] + b"*", b"?" * len(cs[i]), b"[a-c]*"])
                    q = b"/".join(cs)
                elif r < 0.7 and rng.random() < 0.6 and paths:
                    # a wildcard BELOW a symlink component (the link is crossed first, the pattern is expanded behind it)
                    links = [bytes.fromhex(e["p"]) for e in tree if e["t"] == "symlink"]
                    q = rng.choice(links or paths) + b"/" + rng.choice([b"*", b"a*", b"?", b"*.txt", b"[a-l]*"])
                    if rng.random() < 0.3:
                        q += b"/" + rng.choice(NAMES)
                elif r < 0.66 and paths:
                    # a component with an ESCAPED metacharacter followed by a real wildcard ("\\[v1\\]*"): still a pattern
                    q = rng.choice(paths)
                    cs = q.split(b"/")
                    i = rng.randrange(len(cs))
                    esc = lambda c: b"".join(b"\\" + bytes([x]) if x in b"*?[]\\" else bytes([x]) for x in c)
                    cs[i] = esc(cs[i][:max(1, len(cs[i]) - 1)]) + b"*"
                    q = b"/".join(cs)
                elif r < 0.7:
                    q = rng.choice([b".", b"/", b"", b"nonexistent", b"a/../b", b"/a", b"./a", b"a/"])
                elif r < 0.75:
                    q = b"../" + rng.choice(NAMES)
                else:
                    q = b"/".join(rng.choice(NAMES) for _ in range(rng.randint(1, 3)))
                reqs.append(q)
            ops.append({"op": "followlinks", "src": {"kind": "mem" if rng.random() < 0.8 else "disk", "tree": tree}, "paths": [hx(q) for q in reqs]})
        return ops

    def prepare_model(self, ops, impl=None):
        out = []
        for k, o in enumerate(ops):
            i = impl[k] if impl else {}
            m = {"op": "followlinks", "listing": i.get("listing", []) if isinstance(i, dict) else [], "paths": o["paths"]}
            if isinstance(i, dict) and "out" in i:
                m["impl"] = i["out"]
            out.append(m)
        return out

    def judge(self, op, impl, model):
        if "listing" not in impl:
            return Verdict(True, None, "skipped: %s" % str(impl)[:100])
        if impl.get("timeout"):
            return Verdict(False, False, "FollowLinks did not terminate within 5 s")
        if impl.get("ferr"):
            # the one error the unchanged code returns: a wildcard expanded below something that is not a directory (the model does not
            # predict it; the case is skipped). Any other error is a failure of "resolving always terminates and returns the set".
            wild = any(c in bytes.fromhex(p) for p in op["paths"] for c in b"*?[")
            if wild and "not a directory" in impl["ferr"] and "readdir" in impl["ferr"]:
                return Verdict(True, None, "FollowLinks returned an error: %s" % impl["ferr"][:80])
            return Verdict(False, False, "C18: FollowLinks failed: %s" % impl["ferr"][:200])
        agree = impl.get("out") == model.get("m")
        ok = model.get("spec_i")
        if model.get("fuel_ok") is False:
            # premise of C18.model_run_is_the_unbounded_run: the transcription ran out of fuel, its answer is not the resolver's
            return Verdict(False, ok, "the model's run of the resolver was cut short by its fuel (resolveAllX flag up): no answer to compare with")
        return Verdict(agree, ok, "impl=%s model=%s spec(impl)=%s %s" % (
            None if impl.get("out") is None else [bytes.fromhex(p) for p in impl["out"]],
            None if model.get("m") is None else [bytes.fromhex(p) for p in model["m"]], ok, model.get("spec_i_why")))

    def nontrivial(self, op, impl, model):
        return any(e["t"] == "symlink" for e in op["src"]["tree"])

    def features(self, op, impl, model):
        reqs = [bytes.fromhex(p) for p in op["paths"]]
        return ["wild=%s" % any(c in q for q in reqs for c in b"*?["), "out=%s" % ("nil" if impl.get("out") is None else min(len(impl["out"]), 3)),
                "err=%s" % bool(impl.get("ferr")), "src=" + op["src"]["kind"]]

    def shrink(self, op):
        out = []
        tree = op["src"]["tree"]
        for i in range(len(tree)):
            p = tree[i]["p"]
            o = dict(op)
            o["src"] = {"kind": op["src"]["kind"], "tree": [e for e in tree if e["p"] != p and not e["p"].startswith(p + "2f")]}
            out.append(o)
        for i in range(len(op["paths"])):
            if len(op["paths"]) > 1:
                o = dict(op)
                o["paths"] = op["paths"][:i] + op["paths"][i + 1:]
                out.append(o)
        return out

    @staticmethod
    def _pattern_is_a_name(op):
        """a request component that is a wildcard pattern AND, read literally, the name of an entry of the tree"""
        names = {c for e in op["src"]["tree"] for c in bytes.fromhex(e["p"]).split(b"/")}
        for q in op["paths"]:
            for c in bytes.fromhex(q).split(b"/"):
                if c in names and any(x in c for x in b"*?["):
                    return True
        return False

    matchers = {
        # F19: the violation disappears when every request is resolved with a fresh memo (model variant), implementation = model
        # (or when the memo is keyed by (link, remainder): the same link crossed twice by ONE request)
        "F19": lambda op, impl, model: impl.get("out") == model.get("m") and (model.get("spec_sep") is True or model.get("spec_keyed") is True),
        # F12: a request has a wildcard in a middle component, implementation = model, and the requests without one are fine
        # (on a disk source the text of such a pattern is then looked up as a PATH: when an entry is really named like that and is a
        # cyclic link, lstat through it fails with ELOOP and FollowLinks returns the error)
        "F12": lambda op, impl, model: model.get("midwild") and
        (impl.get("out") == model.get("m") or (op["src"]["kind"] == "disk" and "too many levels of symbolic links" in str(impl.get("ferr")))
         or (op["src"]["kind"] == "disk" and not impl.get("ferr") and FollowLinks._pattern_is_a_name(op))) and
        (model.get("spec_nomid") is True or model.get("spec_sep_nomid") is True or model.get("spec_keyed_nomid") is True),
        # F32: a link whose resolution text has a component with a pattern metacharacter, implementation = model, and the variant of
        # the model that takes link-target components literally (shared, fresh or keyed memo) meets the reference
        # (on a disk source the name that was not recognised as a link is then walked THROUGH: a cyclic one gives ELOOP from lstat)
        # (... or, not cyclic, is resolved by the kernel where the listing-level transcription finds nothing: the two then differ)
        "F32": lambda op, impl, model: model.get("metalink") is True and
        ((impl.get("out") == model.get("m") and not impl.get("ferr")) or "too many levels of symbolic links" in str(impl.get("ferr"))
         or (op["src"]["kind"] == "disk" and not impl.get("ferr"))) and
        (model.get("spec_lit") is True or (model.get("midwild") and model.get("spec_lit_nomid") is True) or
         # (a REQUEST whose pattern text is at the same time the literal name of a link: the pattern matches nothing and is recorded
         # as resolved under that very text, which then stands in for the link in the memo - F32 and F19 together)
         (impl.get("out") == model.get("m") and FollowLinks._pattern_is_a_name(op))),
    }


class Dedupe(Suite):
    name = "dedupe"
    rule = "sorted path lists with prefix-related names (a, a.txt, a/b, a-b/c, …) through dedupePaths (verif export) vs model; oracle: result prefix-free"

    def gen(self, rng, tier):
        n = {"quick": 5000, "thorough": 100000, "search": 1000}[tier]
        ops = []
        for _ in range(n):
            s = set()
            for _ in range(rng.randint(0, 6)):
                base = rng.choice([b"a", b"a/b", b"b", b"a.txt", b"a-", b"a b", b"a/b/c", b"a!", b"a0"])
                if rng.random() < 0.4:
                    base += b"/" + rng.choice([b"x", b"y.z", b"b"])
                s.add(base)
            if rng.random() < 0.03:
                s.add(b".")
            ops.append({"op": "dedupe", "paths": [hx(p) for p in sorted(s)]})
        return ops

    def judge(self, op, impl, model):
        agree = impl.get("m") == model.get("m")
        ok = True
        note = ""
        res = [bytes.fromhex(p) for p in (impl.get("m") or [])]
        for a in res:
            for b in res:
                if b.startswith(a + b"/"):
                    ok = False
                    note = "result not prefix-free: %s is inside %s" % (b, a)
        return Verdict(agree, ok, note or "impl=%s model=%s" % (impl.get("m"), model.get("m")))

    def shrink(self, op):
        return [{"op": "dedupe", "paths": op["paths"][:i] + op["paths"][i + 1:]} for i in range(len(op["paths"]))]
