"""walk suite: NewFS(dir).Walk on materialised trees vs the Lean walk model + spec (C09)"""
from ..runner import Suite, Verdict
from .. import gen
from ..core import hx

STAT_KEYS = ("p", "mode", "uid", "gid", "size", "mt", "ln", "dmaj", "dmin", "x")


def norm_stat(s):
    d = {k: s.get(k) for k in STAT_KEYS}
    d["x"] = d["x"] or []
    return d


class WalkSuite(Suite):
    name = "walk"
    needs_root = True
    rule = ("trees materialised on ext4 (dirs, files, symlinks, fifos, char/block devices, sockets, hard-link groups incl. links to symlinks and "
            "across directories, xattrs, suid/sgid/sticky, names from the adversarial alphabet incl. bytes < '/', 0xff, 255-byte names; depth <= 12) "
            "walked from the root or a sub-target; the model is fed the independent lstat snapshot; non-trivial = >= 3 entries, distinct")

    def gen(self, rng, tier):
        n = {"quick": 800, "thorough": 6000, "search": 150}[tier]
        ops = []
        for _ in range(n):
            tree = gen.disk_tree(rng, rng.choice([5, 15, 40]), 5, deep=rng.random() < 0.15)
            target = b""
            r = rng.random()
            if tree and r < 0.25:
                target = bytes.fromhex(rng.choice(tree)["p"])
            elif r < 0.3:
                target = rng.choice([b"nonexistent", b".", b"a/../a", b"./"])
            ops.append({"op": "walk", "tree": tree, "target": hx(target)})
            if rng.random() < 0.1:
                ops[-1]["root_symlink"] = True     # the root path given to NewFS ends in a symlink to the directory
        return ops

    def prepare_model(self, ops, impl=None):
        out = []
        for k, o in enumerate(ops):
            i = impl[k] if impl else {}
            m = {"op": "walk", "target": o["target"], "snap": i.get("snap", []) if isinstance(i, dict) else []}
            if isinstance(i, dict) and "out" in i and i["out"] is not None:
                m["impl"] = i["out"]
            out.append(m)
        return out

    def judge(self, op, impl, model):
        if "snap" not in impl:
            return Verdict(True, None, "skipped: harness could not materialise the tree: %s" % str(impl)[:200])
        if impl.get("walkerr"):
            return Verdict(False, False, "Walk returned an error")
        for s in impl.get("out") or []:
            if "info2" in s:
                return Verdict(False, False, "a second Info() on the entry %s reports a different stat: %s (first: link source %r)" % (s.get("p"), str(s["info2"])[:200], s.get("ln")))
        io = [norm_stat(s) for s in (impl.get("out") or [])]
        mo = [norm_stat(s) for s in (model.get("m") or [])]
        agree = io == mo and all(s.get("cb") == s.get("p") for s in impl.get("out") or [])
        note = ""
        if not agree:
            for a, b in zip(io + [None] * len(mo), mo + [None] * len(io)):
                if a != b:
                    note = "first difference impl=%s model=%s" % (a, b)
                    break
        if model.get("spec_m") is False:
            return Verdict(False, model.get("spec_i"), "MODEL violates spec: %s; %s" % (model.get("spec_m_why"), note))
        return Verdict(agree, model.get("spec_i"), "spec(impl)=%s %s; %s" % (model.get("spec_i"), model.get("spec_i_why"), note))

    def nontrivial(self, op, impl, model):
        return len(op["tree"]) >= 3

    def features(self, op, impl, model):
        ts = sorted(set(e["t"] for e in op["tree"]))
        return ["has." + t for t in ts] + ["target=" + ("root" if not op["target"] else "sub")]

    def shrink(self, op):
        out = []
        tree = op["tree"]
        for i in range(len(tree)):
            p = tree[i]["p"]
            t2 = [e for e in tree if e["p"] != p and not e["p"].startswith(p + "2f") and e.get("ln") != p]
            if len(t2) < len(tree):
                out.append({"op": "walk", "tree": t2, "target": op["target"]})
        if op["target"]:
            out.append({"op": "walk", "tree": tree, "target": ""})
        return out


class SubWalkSuite(Suite):
    name = "subwalk"
    needs_root = True
    rule = ("composite file systems (SubDirFS) of 1..4 named sub-roots (names from the prefix-related alphabet: a, a.b, a-b, ab …), each a materialised tree with "
            "hard-link groups and absolute/relative symlinks; walked from the top; vs the Lean composite-walk model; non-trivial = >= 2 sub-roots, distinct")

    def gen(self, rng, tier):
        n = {"quick": 150, "thorough": 3000, "search": 60}[tier]
        ops = []
        for _ in range(n):
            names = rng.sample([b"a", b"a.b", b"a-b", b"ab", b"b", b"a b", b"z", b"\xc3\xa9", b"A"], rng.randint(1, 4))
            dirs = []
            for nm in names:
                tree = gen.disk_tree(rng, rng.choice([3, 8, 15]), 3, types=("dir", "file", "symlink", "hardlink", "fifo"), xattrs=False)
                dirs.append({"name": hx(nm), "uid": rng.choice([0, 1000]), "tree": tree})
            ops.append({"op": "subwalk", "dirs": dirs})
        return ops

    def prepare_model(self, ops, impl=None):
        out = []
        for k, o in enumerate(ops):
            i = impl[k] if impl else {}
            out.append({"op": "subwalk", "dirs": i.get("dirs", []) if isinstance(i, dict) else []})
        return out

    def judge(self, op, impl, model):
        if "dirs" not in impl or impl.get("newerr"):
            return Verdict(True, None, "skipped: %s" % str(impl)[:200])
        if impl.get("walkerr"):
            return Verdict(False, False, "composite walk failed: %s" % impl["walkerr"])
        io = [norm_stat(s) for s in (impl.get("out") or [])]
        mo = [norm_stat(s) for s in (model.get("m") or [])]
        agree = io == mo and all(s.get("cb") == s.get("p") for s in impl.get("out") or [])
        note = ""
        if not agree:
            for a, b in zip(io + [None] * len(mo), mo + [None] * len(io)):
                if a != b:
                    note = "first difference impl=%s model=%s" % (a, b)
                    break
        # the property: each sub-walk prefixed with its name, link names included; ascending for plain names
        ok = agree and model.get("ascending") is not False
        return Verdict(agree, ok if not agree or model.get("ascending") is False else True, note)

    def nontrivial(self, op, impl, model):
        return len(op["dirs"]) >= 2

    def shrink(self, op):
        out = []
        for i in range(len(op["dirs"])):
            if len(op["dirs"]) > 1:
                out.append({"op": "subwalk", "dirs": op["dirs"][:i] + op["dirs"][i + 1:]})
            t = op["dirs"][i]["tree"]
            for j in range(len(t)):
                p = t[j]["p"]
                t2 = [e for e in t if e["p"] != p and not e["p"].startswith(p + "2f") and e.get("ln") != p]
                d2 = dict(op["dirs"][i], tree=t2)
                out.append({"op": "subwalk", "dirs": op["dirs"][:i] + [d2] + op["dirs"][i + 1:]})
        return out
