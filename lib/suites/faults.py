"""C04 fault suites"""
from ..runner import Suite, Verdict
from .. import gen
from ..core import hx
from .proto import flat_view

STREAM_FAULTS = ["sendS", "recvS", "sendR", "recvR", "dieR", "dieS"]


class FaultSync(Suite):
    name = "faults"
    needs_root = True
    rule = ("one injected fault per run: n-th SendMsg/RecvMsg on either endpoint fails (and every later one), the peer's process dies at its n-th call (its "
            "packets are lost, this end reads end-of-stream), context cancelled after k delivered packets, "
            "walk error at entry k, read error after j bytes of a file, hasher/notify callback error at call k, SIGKILL of the process after k packets; "
            "the stream is torn down 150 ms after the start if the calls are still running; then a fault-free transfer into whatever was left. "
            "Small trees with every position (thorough) / sampled positions (quick), and wide trees (140..600 entries: > 132 requests, > 2 x 128 queued stats, early and late faults); non-trivial = distinct (tree, fault)")

    def gen(self, rng, tier):
        n = {"quick": 1000, "thorough": 12000, "search": 150}[tier]
        ops = []
        while len(ops) < n:
            wide = rng.random() < 0.12
            if wide:
                # wide views: more entries than all the internal queues together can hold (2 x 128 + in-flight), so that a fault
                # finds producers blocked on full queues
                tree = flat_view(rng, rng.choice([140, 200, 400, 400, 600, 600]), (0, 10, 100, 3000))
            else:
                tree = gen.disk_tree(rng, rng.choice([5, 12, 30]), 3, types=("dir", "file", "file", "symlink", "hardlink", "fifo"),
                                     file_sizes=(0, 5, 100, 32768, 40000, 70000), xattrs=False)
            if not tree:
                continue
            if not wide and rng.random() < 0.04:
                # the caller of Send cancels when every request has been queued and the workers are slow: what is still pending must not
                # be answered as if it were empty
                tree = flat_view(rng, rng.choice([20, 30, 40]), (100, 3000, 40000))
                nf = sum(1 for e in tree if e["t"] == "file")
                for _ in range(1 if tier == "quick" else 2):
                    ops.append({"op": "fault", "src": {"kind": "mem", "tree": tree, "read_delay_us": rng.choice([2000, 3000, 5000])}, "dst": [],
                                "fault": {"kind": "cancelO", "at": rng.randint(max(1, nf // 4), max(2, nf // 2))},
                                "opt": {"notify": True, "cap": rng.choice([4, 32]), "seed": rng.randrange(1 << 30)}})
                continue
            dst = [] if rng.random() < (0.4 if wide else 0.6) else gen.mutate_disk_tree(rng, tree)
            nent = len(tree)
            files = [e for e in tree if e["t"] == "file"]
            kinds = STREAM_FAULTS + ["cancel", "cancelS", "walk", "hasher", "notify", "kill"] + (["read", "cancelO"] if files else [])
            reps = 1 if tier == "quick" else 2
            for _ in range(reps):
                kind = rng.choice(kinds)
                if wide and dst and rng.random() < 0.4:
                    # a destination wider than the walker's channel, and a fault that stops the comparison while the walk of the
                    # destination is still running
                    kind = rng.choice(["cancel", "recvR", "sendR", "kill", "hasher", "notify"])
                if wide and len(tree) >= 400 and rng.random() < 0.35:
                    # the comparison dies right at the start while hundreds of announced entries are still queued in front of it
                    kind = rng.choice(["hasher", "notify", "cancel"])
                f = {"kind": kind}
                if wide and kind in ("cancel", "hasher", "notify", "recvR", "sendR") and rng.random() < 0.6:
                    f["at"] = rng.randint(1, 8)      # early fault: the whole backlog is still queued
                elif kind in STREAM_FAULTS:
                    f["at"] = rng.randint(1, 2 * nent + 6)
                elif kind in ("cancel", "kill"):
                    f["at"] = rng.randint(1, 4 * nent + 6)
                elif kind == "cancelS":
                    # the caller of Send cancels while the source is still being walked; the stream stays usable
                    f["at"] = rng.randint(1, nent)
                elif kind == "cancelO":
                    # the caller of Send cancels while requests are being served (the walk may be over): at the k-th Open
                    f["at"] = rng.randint(1, max(1, len(files)))
                elif kind == "walk":
                    f["at"] = rng.randint(1, nent)
                    if rng.random() < 0.6:
                        # the failing entry is reported to the walk callback with an errno (as filepath.WalkDir reports a failing lstat /
                        # readdir); half of the time a FilterFS (no patterns) sits between the source and the sender. None of these
                        # errnos means "the entry vanished": the transfer has to fail
                        f["errno"] = rng.choice(["ESTALE", "EIO", "EACCES"])
                        stack_filter = rng.random() < 0.5
                elif kind in ("hasher", "notify"):
                    f["at"] = rng.randint(1, nent)
                elif kind == "read":
                    e = rng.choice(files)
                    f["path"] = e["p"]
                    f["off"] = rng.choice([0, 1, e.get("size", 0) // 2, max(0, e.get("size", 0) - 1)])
                ops.append({"op": "fault", "src": {"kind": "mem", "tree": tree}, "dst": dst, "fault": f,
                            "opt": {"notify": True, "cap": rng.choice([0, 1, 4, 32]), "seed": rng.randrange(1 << 30)}})
                if kind == "cancelO":
                    ops[-1]["src"] = dict(ops[-1]["src"], read_delay_us=rng.choice([0, 1000, 3000]))   # requests pile up while the workers wait
                if kind == "cancelS" and rng.random() < 0.5:
                    ops[-1]["src"]["kind"] = "disk"     # the library's own directory walk is the one that is cancelled
                if f.get("errno") and stack_filter:
                    ops[-1]["sfilter"] = {}
        return ops[:n]

    def prepare_model(self, ops, impl=None):
        out = []
        for k, o in enumerate(ops):
            i = impl[k] if impl else {}
            if not isinstance(i, dict) or "view" not in i or "after" not in i:
                out.append({"op": "fault", "view": [], "before": [], "mid": [], "after": [], "opt": o["opt"]})
            else:
                out.append({"op": "fault", "view": i["view"], "viewkind": o["src"]["kind"], "before": i["before"], "mid": i["mid"], "after": i["after"], "opt": o["opt"]})
        return out

    def judge(self, op, impl, model):
        if "after" not in impl:
            return Verdict(True, None, "skipped: %s" % str(impl)[:200])
        notes = []
        ok = True
        r1, r2 = impl["run1"], impl["run2"]
        for end in ("send", "recv"):
            if r1[end] == "blocked":
                ok = False
                notes.append("%s did not return within 3 s after the stream was torn down (goroutine at %s)" % (end, r1.get("alive_at")))
        if r1.get("alive"):
            ok = False
            notes.append("%d goroutine(s) of the faulty run still alive: %s" % (r1["alive"], r1.get("alive_at")))
        if r1["recv"] == "ok" and model.get("c01_mid") is False:
            ok = False
            vp = {e["p"] for e in impl.get("view", [])}
            mp = {e["p"] for e in impl.get("mid", [])}
            notes.append("Receive reported success but the destination differs from the view: %s (only in the destination: %s; only in the view: %s; stream log tail: %s)" % (
                model.get("c01_mid_why"), sorted(mp - vp)[:4], sorted(vp - mp)[:4],
                [(e.get("e"), e.get("k"), e.get("t")) for e in r1.get("log", [])[-6:]]))
        if r1["send"] == "ok" and not any(e["e"] == "S" and e["k"] == "recv" and e.get("t") == "FIN" for e in r1.get("log", [])):
            ok = False
            notes.append("Send reported success without having received FIN")
        if r2["send"] != "ok" or r2["recv"] != "ok":
            ok = False
            notes.append("follow-up fault-free transfer failed: send=%s recv=%s %s" % (r2["send"], r2["recv"], r2.get("recverr") or r2.get("senderr")))
        elif model.get("c01_after") is False:
            ok = False
            notes.append("follow-up transfer into the leftovers did not converge: %s" % model.get("c01_after_why"))
        if r2.get("alive"):
            ok = False
            notes.append("goroutines of the follow-up run still alive")
        return Verdict(ok, ok, "; ".join(notes))

    def key(self, op):
        from ..core import digest
        return digest([op["src"], op["dst"], op["fault"]])

    def features(self, op, impl, model):
        r1 = impl.get("run1", {})
        return ["kind=" + op["fault"]["kind"], "send1=%s" % r1.get("send"), "recv1=%s" % r1.get("recv"), "torn=%s" % r1.get("torn"),
                "wide=%s" % (len(op["src"]["tree"]) > 100)]

    def shrink(self, op):
        out = []
        tree = op["src"]["tree"]
        for i in range(len(tree)):
            p = tree[i]["p"]
            if op["fault"].get("path") == p:
                continue
            t2 = [e for e in tree if e["p"] != p and not e["p"].startswith(p + "2f") and not (e["t"] == "hardlink" and e.get("ln") == p)]
            o = dict(op)
            o["src"] = {"kind": "mem", "tree": t2}
            out.append(o)
        if op["dst"]:
            o = dict(op)
            o["dst"] = []
            out.append(o)
        if op["fault"].get("at", 0) > 1:
            for a in (op["fault"]["at"] - 1, op["fault"]["at"] // 2):
                o = dict(op)
                o["fault"] = dict(op["fault"], at=max(1, a))
                out.append(o)
        return out


class FaultSend(Suite):
    """Send against a peer that requests a burst and then stops reading; the stream is torn down after 300 ms"""
    name = "faultsend"
    rule = ("Send over wide synthetic views against a reference receiver that issues a burst of 0..320 requests after the end marker and then stops "
            "reading (blocked stream); teardown after 300 ms; Send must return and leave no goroutine; non-trivial = distinct (view size, burst)")

    def gen(self, rng, tier):
        n = {"quick": 24, "thorough": 200, "search": 8}[tier]
        ops = []
        for _ in range(n):
            nf = rng.choice([20, 100, 140, 200, 320])
            tree = flat_view(rng, nf, (10, 100, 3000, 40000))
            regs = [i for i, e in enumerate(tree) if e["t"] == "file"]
            k = rng.choice([0, 5, 100, 131, 132, 133, 140, len(regs)])
            chosen = rng.sample(regs, min(k, len(regs)))
            ops.append({"op": "sendproto", "src": {"kind": "mem", "tree": tree}, "reqs": [[i, -1] for i in chosen],
                        "opt": {"cap": rng.choice([0, 1, 4, 32]), "seed": rng.randrange(1 << 30), "stall": True}})
        return ops

    def run_model(self, ops):
        return [{} for _ in ops]

    def judge(self, op, impl, model):
        if "send" not in impl:
            return Verdict(True, None, "skipped: %s" % str(impl)[:200])
        notes = []
        ok = True
        if impl["send"] == "blocked":
            ok = False
            notes.append("Send did not return within 3 s after the stream was torn down (%d requests pending; goroutine at %s)" % (len(op["reqs"]), impl.get("alive_at")))
        elif impl.get("alive"):
            ok = False
            notes.append("goroutines still alive after Send returned: %s" % impl.get("alive_at"))
        if impl["send"] == "ok":
            ok = False
            notes.append("Send reported success although the receiver never acknowledged completion")
        return Verdict(ok, ok, "; ".join(notes))

    def key(self, op):
        return "%d/%d/%s" % (len(op["src"]["tree"]), len(op["reqs"]), op["opt"]["cap"])

    def features(self, op, impl, model):
        n = len(op["reqs"])
        return ["burst=%s" % ("<=132" if n <= 132 else ">132"), "send=%s" % impl.get("send")]

    def shrink(self, op):
        out = []
        if len(op["reqs"]) > 1:
            for k in (len(op["reqs"]) - 1, len(op["reqs"]) // 2):
                o = dict(op)
                o["reqs"] = op["reqs"][:k]
                out.append(o)
        return out

    matchers = {
        "F3": lambda op, impl, model: impl.get("send") == "blocked" and len(op["reqs"]) > 132,
    }


class FaultResync(FaultSync):
    """C01: 'leftovers of an aborted run' as prior destination content — an aborted transfer followed by a fault-free one must converge"""
    name = "faultresync"
    rule = ("a transfer aborted by a stream fault / cancellation / SIGKILL at a sampled position, then a fault-free transfer of the same source into the "
            "leftovers; oracle: the second transfer succeeds and the destination equals the view (C01 spec); non-trivial = distinct (tree, fault)")

    def gen(self, rng, tier):
        n = {"quick": 200, "thorough": 5000, "search": 80}[tier]
        ops = []
        while len(ops) < n:
            tree = gen.disk_tree(rng, rng.choice([5, 12, 30]), 3, types=("dir", "file", "file", "symlink", "hardlink", "fifo"),
                                 file_sizes=(1, 5, 100, 32768, 40000, 70000), xattrs=False)
            if not tree:
                continue
            dst = [] if rng.random() < 0.7 else gen.mutate_disk_tree(rng, tree)
            nent = len(tree)
            kind = rng.choice(["recvR", "sendS", "recvS", "sendR", "cancel", "kill"])
            f = {"kind": kind, "at": rng.randint(1, 3 * nent + 6)}
            ops.append({"op": "fault", "src": {"kind": "mem", "tree": tree}, "dst": dst, "fault": f,
                        "opt": {"notify": True, "cap": rng.choice([0, 1, 4, 32]), "seed": rng.randrange(1 << 30)}})
        return ops
