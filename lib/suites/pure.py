"""pure-function suites: pathfn (ComparePath + filepath functions), validator"""
import itertools
from ..runner import Suite, Verdict
from .. import gen
from ..core import hx

VAL_ALPHABET = [b"a", b"b", b"a/b", b"a/c", b"a/b/c", b"ab", b"a-b", b"a-b/c", b"a b", b".", b"..", b"../a", b"a/..", b"a/../b",
                b"", b"/a", b"a/", b"a//b", b"./a", b"a/./b", b"a\\b", b"a/b/../c", b"..a", b"a/..b"]


class PathFn(Suite):
    name = "pathfn"
    rule = ("pairs of byte strings (random over a 9-byte alphabet incl. '/', '.', '\\\\', 0xff; tree paths; VAL_ALPHABET pairs) "
            "through ComparePath/Clean/Dir/Base/IsAbs/Join; non-trivial = distinct pair whose strings differ and share a first byte or contain '/'")

    def gen(self, rng, tier):
        n = {"quick": 20000, "thorough": 400000, "search": 3000}[tier]
        ops = []
        for a, b in itertools.product(VAL_ALPHABET, repeat=2):
            ops.append({"op": "cmp", "a": hx(a), "b": hx(b)})
        tree = [p for p, _ in gen.rand_tree(rng, 60, 5)]
        for _ in range(n // 2):
            r = rng.random()
            if r < 0.4 and tree:
                a, b = rng.choice(tree), rng.choice(tree)
            elif r < 0.7:
                a = gen.rand_bytes_path(rng)
                b = bytearray(a)
                if b and rng.random() < 0.7:
                    b[rng.randrange(len(b))] = rng.choice(b"a/.-b \xff")
                b = bytes(b) + (gen.rand_bytes_path(rng) if rng.random() < 0.4 else b"")
            else:
                a, b = gen.rand_bytes_path(rng), gen.rand_bytes_path(rng)
            ops.append({"op": "cmp", "a": hx(a), "b": hx(b)})
            if rng.random() < 0.02:
                tree = [p for p, _ in gen.rand_tree(rng, 60, 5)]
        for p in VAL_ALPHABET:
            ops.append({"op": "pathfn", "p": hx(p), "q": hx(b"x")})
        for _ in range(n // 2):
            p = gen.rand_bytes_path(rng) if rng.random() < 0.7 else b"/".join(gen.name(rng, False) for _ in range(rng.randint(1, 4)))
            q = gen.rand_bytes_path(rng) if rng.random() < 0.5 else gen.name(rng, False)
            ops.append({"op": "pathfn", "p": hx(p), "q": hx(q)})
        return ops

    def judge(self, op, impl, model):
        if op["op"] == "cmp":
            agree = impl.get("r") == model.get("r")
            # property: the comparison equals component-wise comparison
            spec_ok = impl.get("r") == model.get("s")
            return Verdict(agree, spec_ok, "ComparePath sign impl=%s model=%s componentwise=%s" % (impl.get("r"), model.get("r"), model.get("s")))
        agree = all(impl.get(k) == model.get(k) for k in ("clean", "dir", "base", "abs", "join"))
        return Verdict(agree, None, "filepath functions differ (stdlib assumption of the model)")

    def nontrivial(self, op, impl, model):
        if op["op"] == "cmp":
            return op["a"] != op["b"] and (op["a"][:2] == op["b"][:2] or "2f" in op["a"] + op["b"])
        return len(op["p"]) > 2

    def features(self, op, impl, model):
        if op["op"] == "cmp":
            return ["cmp.sign=%s" % impl.get("r")]
        return ["pathfn.abs=%s" % impl.get("abs"), "pathfn.unclean=%s" % (impl.get("clean") != op["p"])]

    def shrink(self, op):
        out = []
        for k in ("a", "b", "p", "q"):
            if k in op:
                s = op[k]
                for i in range(0, len(s), 2):
                    o = dict(op)
                    o[k] = s[:i] + s[i + 2:]
                    out.append(o)
        return out


def seq_from_tree(rng, entries):
    return [["add" if rng.random() < 0.8 else rng.choice(["modify", "delete"]), hx(p), d] for p, d in entries]


class ValidatorSuite(Suite):
    name = "validator"
    rule = ("sequences of (kind, path, isDir): exhaustive over VAL_ALPHABET(24 paths)x{dir,file,delete-dir} up to length 2 (quick) / 3 (thorough), "
            "plus random walks of random trees mutated by swap/drop-parent/duplicate/type-flip/unclean-path; non-trivial = length>=2 and distinct")

    def gen(self, rng, tier):
        ops = []
        kinds = [("add", True), ("add", False), ("delete", True)]
        items = [[k, hx(p), d] for p in VAL_ALPHABET for (k, d) in kinds]
        L = {"quick": 2, "thorough": 3, "search": 1}[tier]
        for l in range(1, L + 1):
            for seq in itertools.product(items, repeat=l):
                ops.append({"op": "validate", "seq": list(seq)})
        if tier == "quick":
            # length-3: sampled
            for _ in range(30000):
                ops.append({"op": "validate", "seq": [rng.choice(items) for _ in range(3)]})
        n = {"quick": 6000, "thorough": 200000, "search": 3000}[tier]
        for _ in range(n):
            ents = gen.deep_tree(rng) if rng.random() < 0.25 else gen.rand_tree(rng, rng.choice([5, 10, 30, 60]), 5)
            seq = seq_from_tree(rng, ents)
            m = rng.random()
            if seq and m < 0.7:
                for _ in range(rng.randint(1, 2)):
                    k = rng.randrange(len(seq))
                    mut = rng.randrange(8)
                    if mut == 7 and len(seq) > 1:
                        # swap two adjacent elements / duplicate the previous one late in the sequence (deep positions)
                        k = rng.randrange(max(1, len(seq) - 6), len(seq))
                        if rng.random() < 0.5:
                            seq[k - 1], seq[k] = seq[k], seq[k - 1]
                        else:
                            seq.append(list(seq[rng.randrange(max(0, len(seq) - 4), len(seq))]))
                    elif mut == 0 and len(seq) > 1:
                        j = rng.randrange(len(seq))
                        seq[k], seq[j] = seq[j], seq[k]
                    elif mut == 1:
                        del seq[k]
                    elif mut == 2:
                        seq.insert(k, list(seq[k]))
                    elif mut == 3:
                        seq[k] = [seq[k][0], seq[k][1], not seq[k][2]]
                    elif mut == 4:
                        seq[k] = [seq[k][0], hx(rng.choice(VAL_ALPHABET)), seq[k][2]]
                    elif mut == 5:
                        seq[k] = ["delete", seq[k][1], seq[k][2]]
                    else:
                        p = bytes.fromhex(seq[k][1])
                        p = rng.choice([p + b"/", b"./" + p, p.replace(b"/", b"//", 1), p + b"/..", b"../" + p, b"/" + p, p + b"/.", p.replace(b"/", b"/../", 1)])
                        seq[k] = [seq[k][0], hx(p), seq[k][2]]
                    if not seq:
                        break
            ops.append({"op": "validate", "seq": seq})
        return ops

    def judge(self, op, impl, model):
        agree = impl.get("m") == model.get("m")
        spec_ok = impl.get("m") == model.get("s")
        return Verdict(agree, spec_ok, "validator verdict impl=%s model=%s spec=%s" % (impl.get("m"), model.get("m"), model.get("s")))

    def nontrivial(self, op, impl, model):
        return len(op["seq"]) >= 2

    def features(self, op, impl, model):
        m = str(impl.get("m"))
        return ["verdict=" + m.split("@")[0], "len=%d" % min(len(op["seq"]), 64).bit_length()]

    def shrink(self, op):
        seq = op["seq"]
        out = []
        for i in range(len(seq)):
            out.append({"op": "validate", "seq": seq[:i] + seq[i + 1:]})
        for i in range(len(seq)):
            p = seq[i][1]
            for j in range(0, len(p), 2):
                s2 = [list(x) for x in seq]
                s2[i][1] = p[:j] + p[j + 2:]
                out.append({"op": "validate", "seq": s2})
        return out

    def neighbours(self, op, rng):
        out = []
        seq = op["seq"]
        for i in range(len(seq)):
            for p in VAL_ALPHABET:
                s2 = [list(x) for x in seq]
                s2[i][1] = hx(p)
                out.append({"op": "validate", "seq": s2})
        return out

    matchers = {
        # F1: the only offending element is '.' or '..'
        "F1": lambda op, impl, model: any(x[1] in ("2e", "2e2e") for x in op["seq"]),
    }
