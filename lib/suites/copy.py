"""C13-C16: copy.Copy on materialised (source root, destination root) pairs in a chroot'ed child, vs the Lean tree-level reference"""
import hashlib
from ..runner import Suite, Verdict
from .. import gen
from ..core import hx

ALLT = ("dir", "file", "symlink", "fifo", "chr", "blk", "hardlink")
SECRET_SHA = hashlib.sha256(b"SECRET-OUTSIDE-SOURCE-ROOT").hexdigest()[:32]
# content of every sentinel file outside the roots: none of it may ever show up in the destination
OUTSIDE_SHAS = {hashlib.sha256(b).hexdigest()[:32] for b in (b"SECRET-OUTSIDE-SOURCE-ROOT", b"sentinel", b"sentinel2")}


def canon(after):
    groups = {}
    out = []
    for e in after:
        d = {k: e.get(k) for k in ("p", "mode", "uid", "gid", "ln", "dmaj", "dmin", "sha", "x")}
        if not e["mode"] & (1 << 31):
            d["mt"] = e["mt"]
            d["grp"] = groups.setdefault(e["ino"], len(groups))
        out.append(d)
    return out


def rand_opts(rng, a):
    if rng.random() < 0.25:
        a["chown"] = [rng.choice([0, 1000, 4242]), rng.choice([0, 1000, 4242])]
    r = rng.random()
    if r < 0.2:
        a["mode"] = rng.choice([0o644, 0o755, 0o600, 0o4755, 0o2750, 0o1777])
    elif r < 0.4:
        a["modestr"] = rng.choice(["a+X", "u=rwX,go=rX", "go-w", "u+s", "+t", "=r", "a=rwx", "g+s,o-rwx", "u-x,g+X", "o=", "ug+rw", "a-x+X", "+X", "go=rX", "u=rw,g=r,o="])
    if rng.random() < 0.2:
        a["utime"] = rng.choice([1111111111_000000000, 1500000000_123456789])
    return a


class CopySuite(Suite):
    name = "copy"
    needs_root = True
    repeat = 1
    rule = ""

    def mk(self, src, dst, args, repeat=None):
        import zlib
        h = zlib.crc32(repr((args, [e["p"] for e in src])).encode())
        if h % 16 == 0 and src:
            # one time stamp outside the range of int64 nanoseconds (after 2262): the copier works on timespecs and has to keep it
            # (derived from the case itself, so that a case replays as it was)
            cands = [e for e in src if e["t"] != "hardlink"]
            if cands:
                e = cands[(h >> 8) % len(cands)]
                src = [dict(x, mt=(10413878400_000000007 if (h >> 4) % 2 else 9300000000_999999999)) if x is e else x for x in src]
        return {"op": "copy", "src": src, "dst": dst, "args": args, "repeat": repeat or self.repeat}

    def prepare_model(self, ops, impl=None):
        out = []
        for k, o in enumerate(ops):
            i = impl[k] if impl else {}
            if not isinstance(i, dict) or "runs" not in i:
                out.append({"op": "copy", "src": [], "before": [], "args": o["args"]})
            else:
                m = {"op": "copy", "src": i["src"], "before": i["before"], "after": i["runs"][0]["after"], "args": o["args"]}
                if len(i["runs"]) > 1:
                    m["after2"] = i["runs"][1]["after"]
                out.append(m)
        return out

    def extra_checks(self, op, impl, model, notes):
        return True

    def judge(self, op, impl, model):
        if "runs" not in impl:
            return Verdict(True, None, "skipped: %s" % str(impl)[:200])
        r = impl["runs"][0]
        notes = []
        ok = True
        if r["res"] == "panic":
            return Verdict(False, False, "copy crashed: %s" % str(r.get("crash"))[-200:])
        if r.get("snaperr"):
            ok = False
            notes.append("the destination root can no longer be listed as a directory: %s" % r["snaperr"])
        if impl.get("outside_changed"):
            ok = False
            notes.append("C14: something outside the destination root changed: %s" % impl["outside_changed"][:4])
        if impl.get("src_changed"):
            ok = False
            notes.append("the source tree was modified")
        if any(e.get("sha") in OUTSIDE_SHAS for e in r["after"]):
            ok = False
            notes.append("C14: bytes from outside the source root were copied")
        if model.get("res") == "ok":
            if r["res"] != "ok":
                ok = False
                notes.append("copy failed (%s) where the reference succeeds" % r.get("errmsg"))
            else:
                if model.get("cmp") is False:
                    ok = False
                    notes.append("destination differs from the reference: %s" % model.get("cmp_why"))
                inot = sorted(p for k, p, isdir in r.get("notif", []) if not isdir)
                mnot = sorted(hx(b"/" + bytes.fromhex(p)) for p, isdir in model.get("notif", []) if not isdir)
                if inot != mnot:
                    ok = False
                    notes.append("change notifier calls for non-directories %s != expected %s" % ([bytes.fromhex(p) for p in inot][:5], [bytes.fromhex(p) for p in mnot][:5]))
        else:
            if r["res"] == "ok":
                ok = False
                notes.append("copy succeeded where the reference reports: %s" % model.get("why"))
        if not self.extra_checks(op, impl, model, notes):
            ok = False
        return Verdict(ok, ok, "; ".join(notes))

    @staticmethod
    def _isdir(model, p):
        for n in model.get("tree", []):
            if n["p"] == p:
                return bool(n["mode"] & (1 << 31))
        return False

    def nontrivial(self, op, impl, model):
        return len(op["src"]) >= 2

    def features(self, op, impl, model):
        a = op["args"]
        r = (impl.get("runs") or [{}])[0]
        f = ["res=%s" % r.get("res"), "ref=%s" % model.get("res"), "cdc=%s" % bool(a.get("cdc")), "replace=%s" % bool(a.get("replace")),
             "follow=%s" % bool(a.get("follow")), "dst=%s" % ("empty" if not op["dst"] else "populated")]
        for k in ("chown", "mode", "modestr", "utime", "include", "exclude"):
            if k in a:
                f.append("opt." + k)
        return f

    def shrink(self, op):
        out = []
        for side in ("src", "dst"):
            tree = op[side]
            for i in range(len(tree)):
                p = tree[i]["p"]
                t2 = [e for e in tree if e["p"] != p and not e["p"].startswith(p + "2f") and not (e["t"] == "hardlink" and e.get("ln") == p)]
                o = dict(op)
                o[side] = t2
                out.append(o)
        for k in ("chown", "mode", "modestr", "utime", "include", "exclude", "replace", "cdc", "follow", "wild"):
            if k in op["args"]:
                o = dict(op)
                o["args"] = {a: b for a, b in op["args"].items() if a != k}
                out.append(o)
        return out

    matchers = {}


def pick_src_arg(rng, tree):
    """(src argument, kind)"""
    dirs = [e for e in tree if e["t"] == "dir"]
    files = [e for e in tree if e["t"] in ("file",)]
    links = [e for e in tree if e["t"] == "symlink"]
    r = rng.random()
    if r < 0.4 or not tree:
        return b"/", "tree"
    if r < 0.65 and dirs:
        return b"/" + bytes.fromhex(rng.choice(dirs)["p"]), "subdir"
    if r < 0.85 and files:
        return b"/" + bytes.fromhex(rng.choice(files)["p"]), "file"
    if links:
        return b"/" + bytes.fromhex(rng.choice(links)["p"]), "symlink"
    return b"/", "tree"


class CopyPreserve(CopySuite):
    """C13"""
    name = "copy"
    rule = ("source trees with all entry types (hard-link groups, suid/sgid/sticky, xattrs, ns mtimes) copied into an EMPTY destination root: whole tree "
            "(dir-contents), a sub-directory, a single file, a single symlink, follow-links on/off x option sets {chown, octal mode, utime}; "
            "non-trivial = distinct case with >= 2 source entries")

    def gen(self, rng, tier):
        n = {"quick": 1800, "thorough": 10000, "search": 150}[tier]
        ops = []
        for _ in range(n):
            tree = gen.disk_tree(rng, rng.choice([6, 15, 35]), 4, types=ALLT, file_sizes=(0, 1, 100, 40000), xattrs=True)
            tree = [e for e in tree if not (e["t"] == "symlink" and rng.random() < 0.0)]
            src, kind = pick_src_arg(rng, tree)
            a = {"src": hx(src)}
            if kind == "tree":
                a["dst"] = hx(rng.choice([b"/", b"/out", b"/out/", b"/x/y/out"]))
                a["cdc"] = rng.random() < 0.8
            elif kind == "subdir":
                a["dst"] = hx(rng.choice([b"/out", b"/", b"/a/b/c", b"/out/"]))
                a["cdc"] = rng.random() < 0.5
            else:
                a["dst"] = hx(rng.choice([b"/f2", b"/d/f2", b"/", b"/newdir/"]))
            if rng.random() < 0.2:
                a["follow"] = True
            if rng.random() < 0.08:
                # the source argument itself is a symlink to an existing entry with ANOTHER base name, followed: the copy lands under the
                # argument's own name
                cands = [e for e in tree if e["t"] in ("file", "dir") and b"/" not in bytes.fromhex(e["p"])[:0]]
                if cands:
                    tgt = bytes.fromhex(rng.choice(cands)["p"])
                    nm = rng.choice([b"current", b"lnk0", b"zz-link"])
                    if hx(nm) not in {e["p"] for e in tree}:
                        tree.append({"p": hx(nm), "t": "symlink", "ln": hx(rng.choice([tgt, b"/" + tgt])), "uid": 0, "gid": 0, "mt": gen.MTIMES[0], "mode": 0o777})
                        tree.sort(key=lambda e: gen.pathkey(bytes.fromhex(e["p"])))
                        a = {"src": hx(b"/" + nm), "dst": hx(rng.choice([b"/", b"/", b"/out", b"/newdir/"])), "follow": True}
                        if rng.random() < 0.3:
                            a["cdc"] = True
            rand_opts(rng, a)
            ops.append(self.mk(tree, [], a))
        return ops

    matchers = {
        # F13: block devices come out as character devices
        "F13": lambda op, impl, model: any(e["t"] == "blk" for e in op["src"]) and model.get("cmp_why") == "mode/type differs",
    }



def collide_family(rng, escape=False):
    """several wildcard matches (directories below one parent) whose CONTENTS land on the same destination names, with hard-link groups that
    span the matches: a path one match created (and that may be the recorded link source of a group) is replaced by a later match"""
    names = [b"a", b"d", b"f", b"g"] if escape else [b"a", b"b", b"f", b"g", b"d"]
    D = lambda p: {"p": hx(p), "t": "dir", "uid": 0, "gid": 0, "mt": gen.MTIMES[0], "mode": 0o755}
    F = lambda p: {"p": hx(p), "t": "file", "size": rng.choice([0, 3, 100]), "uid": rng.choice([0, 1000]), "gid": 0, "mt": rng.choice(gen.MTIMES[:3]), "mode": 0o644}
    tree = [D(b"w")]
    regs = []
    for m in sorted(rng.sample([b"u", b"x", b"y", b"z"], rng.randint(2, 4))):
        md = b"w/" + m
        tree.append(D(md))
        for n in sorted(rng.sample(names, rng.randint(1, 3))):
            p = md + b"/" + n
            t = rng.choice(["file", "file", "dir", "symlink", "hardlink", "hardlink"])
            if t == "hardlink" and not regs:
                t = "file"
            if t == "file":
                tree.append(F(p))
                regs.append(p)
            elif t == "hardlink":
                tree.append({"p": hx(p), "t": "hardlink", "ln": hx(rng.choice(regs))})
            elif t == "symlink":
                ln = rng.choice([b"/outside", b"/outside", b"/outside/d", b"/srcout", b"../outside", b"../outside/d", rng.choice(SYM_TARGETS)]) if escape \
                    else rng.choice([b"f", b"../x", b".", b"g"])
                tree.append({"p": hx(p), "t": "symlink", "ln": hx(ln), "uid": 0, "gid": 0, "mt": gen.MTIMES[0], "mode": 0o777})
            else:
                tree.append(D(p))
                for c in sorted(rng.sample([b"f", b"g", b"secret"] if escape else names, rng.randint(1, 2))):
                    if regs and rng.random() < 0.5:
                        tree.append({"p": hx(p + b"/" + c), "t": "hardlink", "ln": hx(rng.choice(regs))})
                    else:
                        tree.append(F(p + b"/" + c))
                        regs.append(p + b"/" + c)
    if rng.random() < 0.5:
        # skeleton: the first match records a link source (possibly inside a directory), a later match replaces that path (or the
        # directory above it) by something else, a still later match holds another member of the group
        have = {e["p"] for e in tree}
        def put(e):
            if e["p"] not in have:
                have.add(e["p"])
                tree.append(e)
        tgt, child = rng.choice([(b"/outside", b"f"), (b"/outside/d", b"g"), (b"../outside", b"f"), (b"/srcout", b"secret")]) if escape \
            else (rng.choice([b"f", b".", b"../x"]), rng.choice([b"f", b"g"]))
        dn = rng.choice([b"a", b"d"])
        deep = escape or rng.random() < 0.5
        for m in (b"u", b"x", b"z"):
            put(D(b"w/" + m))
        tree[:] = [e for e in tree if not (e["p"] == hx(b"w/u/" + dn) or e["p"].startswith(hx(b"w/u/" + dn + b"/")))]
        have = {e["p"] for e in tree}
        if deep:
            put(D(b"w/u/" + dn))
            lead = b"w/u/" + dn + b"/" + child
        else:
            lead = b"w/u/" + dn
        put(F(lead))
        tree[:] = [e for e in tree if e["p"] != hx(b"w/x/" + dn) and not e["p"].startswith(hx(b"w/x/" + dn + b"/"))]
        have = {e["p"] for e in tree}
        if escape or rng.random() < 0.4:
            put({"p": hx(b"w/x/" + dn), "t": "symlink", "ln": hx(tgt), "uid": 0, "gid": 0, "mt": gen.MTIMES[0], "mode": 0o777})
        else:
            put(F(b"w/x/" + dn))
        put({"p": hx(b"w/z/" + rng.choice([b"h", b"b", b"g"])), "t": "hardlink", "ln": hx(lead)})
        files = {e["p"] for e in tree if e["t"] == "file"}
        tree[:] = [e for e in tree if e["t"] != "hardlink" or e["ln"] in files]
        tree.sort(key=lambda e: gen.pathkey(bytes.fromhex(e["p"])))
    a = {"src": hx(b"/w/*"), "dst": hx(rng.choice([b"/out", b"/out/", b"/"])), "cdc": True, "wild": True}
    if rng.random() < (0.85 if escape else 0.6):
        a["replace"] = True
    dst = [] if rng.random() < 0.6 else [D(b"out")]
    return tree, dst, a

class CopyOverlay(CopySuite):
    """C15"""
    name = "copyoverlay"
    repeat = 3
    rule = ("(source tree, destination tree) over a shared name universe (destination = edit script of the source: every type pair collides) x "
            "{dir-contents, always-replace, trailing separator, nested not-yet-existing dst} x repeated application (3 runs: idempotence); "
            "non-trivial = populated destination, distinct")

    def gen(self, rng, tier):
        n = {"quick": 1800, "thorough": 10000, "search": 150}[tier]
        ops = []
        for _ in range(n):
            tree = gen.disk_tree(rng, rng.choice([5, 12, 25]), 3, types=("dir", "file", "symlink", "fifo", "hardlink"), file_sizes=(0, 3, 100), xattrs=False)
            src, kind = pick_src_arg(rng, tree)
            sub = bytes(src).strip(b"/")
            # destination: an edit of (part of) the source so that names collide with other types
            if rng.random() < 0.7:
                dst = gen.mutate_disk_tree(rng, [e for e in tree if e["t"] != "hardlink"], rng.choice([1, 2, 4]))
            else:
                dst = gen.disk_tree(rng, 8, 3, types=("dir", "file", "symlink"), xattrs=False, file_sizes=(0, 3))
            dst = [e for e in dst if e["t"] != "hardlink"]
            if rng.random() < 0.08:
                ops.append(self.mk(*collide_family(rng)))
                continue
            sdirs = [bytes.fromhex(e["p"]) for e in tree if e["t"] == "dir"]
            ddirs = [bytes.fromhex(e["p"]) for e in dst if e["t"] == "dir"]
            if sdirs and ddirs and rng.random() < 0.15:
                # where the source has a directory the destination has a SYMLINK to an existing directory (inside the destination):
                # a directory meets a non-directory - an error that leaves the link in place, nothing is merged through it
                pdir = rng.choice(sdirs)
                cands = [q for q in ddirs if q != pdir and not q.startswith(pdir + b"/") and not pdir.startswith(q + b"/")]
                if cands:
                    q = rng.choice(cands)
                    hp = hx(pdir)
                    dst = [e for e in dst if e["p"] != hp and not e["p"].startswith(hp + "2f")]
                    par = pdir.rsplit(b"/", 1)[0] if b"/" in pdir else b""
                    have = {e["p"] for e in dst}
                    if par == b"" or hx(par) in have:
                        dst.append({"p": hp, "t": "symlink", "ln": hx(b"../" * pdir.count(b"/") + q), "uid": 0, "gid": 0, "mt": gen.MTIMES[0], "mode": 0o777})
                        dst.sort(key=lambda e: gen.pathkey(bytes.fromhex(e["p"])))
            if rng.random() < 0.3:
                # a destination file that differs from the source file of the same name in its BYTES only (same size, same times)
                sf = {e["p"]: e for e in tree if e["t"] == "file" and 0 < e.get("size", 0) <= 4096}
                for e in dst:
                    if e["t"] == "file" and e["p"] in sf and rng.random() < 0.6:
                        e["size"] = sf[e["p"]]["size"]
                        e["mt"] = sf[e["p"]]["mt"]
                        e["data"] = bytes((5 + 13 * i) % 251 for i in range(e["size"])).hex()
            a = {"src": hx(src)}
            a["dst"] = hx(rng.choice([b"/", b"/", b"/" + sub if sub else b"/", b"/" + sub + b"/" if sub else b"/new/", b"/new/x", b"/new"]))
            if rng.random() < 0.5:
                a["cdc"] = True
            if rng.random() < 0.3:
                a["replace"] = True
            if rng.random() < 0.3 and tree:
                # wildcard source: union of the matches, in order
                e = rng.choice(tree)
                cs = bytes.fromhex(e["p"]).split(b"/")
                k = rng.randrange(len(cs))
                esc = lambda c: b"".join(b"\\" + bytes([x]) if x in b"*?[]\\" else bytes([x]) for x in c)
                pat = [esc(c) for c in cs[:k]] + [rng.choice([b"*", esc(cs[k][:1]) + b"*", b"?" * max(1, len(cs[k])), b"*" + esc(cs[k][-1:])])]
                if k + 1 < len(cs) and rng.random() < 0.5:
                    # the wildcard is not in the last component ("*/conf", "pkg?/go.*")
                    pat.append(rng.choice([esc(cs[k + 1]), esc(cs[k + 1][:1]) + b"*"]))
                a["src"] = hx(b"/" + b"/".join(pat))
                a["wild"] = True
                # (a destination that is or becomes a directory: several matches onto one non-directory name is not a union)
                a["dst"] = hx(rng.choice([b"/", b"/new/", b"/x/y/", b"/new", b"/x/y"]))
            ops.append(self.mk(tree, dst, a))
        return ops

    def extra_checks(self, op, impl, model, notes):
        runs = impl["runs"]
        ok = True
        if runs[0]["res"] == "ok" and len(runs) >= 3:
            # "repeating a successful copy changes nothing" is demanded whenever the repetition lands on the same path as the run before
            # (it lands elsewhere when the first run created the directory the second must copy INTO, or created a symlink that the
            # destination argument now resolves through)
            l1, l2, l3 = model.get("land1"), model.get("land2"), model.get("land3")
            c1, c2, c3 = canon(runs[0]["after"]), canon(runs[1]["after"]), canon(runs[2]["after"])
            if l1 is not None and l1 == l2:
                if runs[1]["res"] != "ok":
                    notes.append("C15: repeating a successful copy failed (%s)" % runs[1].get("errmsg"))
                    return False
                if c1 != c2:
                    ok = False
                    notes.append("C15: repeating the copy changed the destination")
            if l2 is not None and l2 == l3 and runs[1]["res"] == "ok":
                if runs[2]["res"] != "ok":
                    notes.append("C15: repeating a successful copy failed (%s)" % runs[2].get("errmsg"))
                    return False
                if c2 != c3:
                    ok = False
                    notes.append("C15: a further application still changes the destination")
        elif runs[0]["res"] == "err":
            # a conflict leaves the obstacle in place: nothing that existed before may have changed type
            before = {e["p"]: e for e in impl["before"]}
            for e in runs[0]["after"]:
                b = before.get(e["p"])
                if b and bool(b["mode"] & (1 << 31)) != bool(e["mode"] & (1 << 31)):
                    ok = False
                    notes.append("C15: failed copy replaced an existing entry of another type: %s" % bytes.fromhex(e["p"]))
                    break
        return ok

    @staticmethod
    def _src_is_dir(op):
        s = bytes.fromhex(op["args"]["src"]).strip(b"/")
        if not s:
            return True
        for e in op["src"]:
            if bytes.fromhex(e["p"]) == s:
                return e["t"] == "dir"
        return False

    @staticmethod
    def _dst_existed(op, impl):
        d = bytes.fromhex(op["args"]["dst"]).strip(b"/")
        if not d:
            return True
        return any(bytes.fromhex(e["p"]) == d and e["mode"] & (1 << 31) for e in impl["before"])


class CopyFilter(CopySuite):
    """C16"""
    name = "copyfilter"
    rule = ("trees (30% with hard-link groups, some with the first name filtered out) x include/exclude lists from the pattern fragment (as C10) through copy.Copy into empty and populated destinations; the copied set must be "
            "the filtered walk's set plus needed ancestors, no extra directories; non-trivial = non-empty pattern list, distinct")

    def gen(self, rng, tier):
        from . import filt
        n = {"quick": 2500, "thorough": 15000, "search": 200}[tier]
        ops = []
        while len(ops) < n:
            links = rng.random() < 0.3
            tree = gen.disk_tree(rng, rng.choice([6, 15, 30]), 4, types=("dir", "file", "symlink", "hardlink", "hardlink") if links else ("dir", "file", "symlink"),
                                 xattrs=rng.random() < 0.3, file_sizes=(0, 3))
            paths = [bytes.fromhex(e["p"]) for e in tree]
            if not paths or not all(filt.fragment_ok([p]) for p in paths):
                continue
            a = {"src": hx(b"/"), "dst": hx(rng.choice([b"/", b"/out"])), "cdc": True}
            r = rng.random()
            hl = [e for e in tree if e["t"] == "hardlink"]
            if hl and rng.random() < 0.5:
                # the filter rejects the first name of a hard-link group and selects a later one
                # (the path is used as a pattern: its metacharacters are escaped)
                a["exclude"] = [(lambda c: hx(b"".join(b"\\" + bytes([x]) if x in b"*?[]\\" else bytes([x]) for x in bytes.fromhex(c))))(rng.choice(hl)["ln"])]
                dst = [] if rng.random() < 0.7 else [e for e in gen.mutate_disk_tree(rng, tree, 2) if e["t"] != "hardlink"]
                ops.append(self.mk(tree, dst, a))
                continue
            if rng.random() < 0.05:
                # wildcard-free include patterns that have to ESCAPE a metacharacter in a directory name in the middle of the path
                dn = rng.choice([b"r[1]", b"x*", b"q?", b"2024[final]", b"a\\b"])
                extra = [{"p": hx(dn), "t": "dir", "uid": 0, "gid": 0, "mt": gen.MTIMES[0], "mode": 0o755},
                         {"p": hx(dn + b"/s.txt"), "t": "file", "size": 3, "uid": 0, "gid": 0, "mt": gen.MTIMES[1], "mode": 0o644},
                         {"p": hx(dn + b"/t"), "t": "dir", "uid": 0, "gid": 0, "mt": gen.MTIMES[0], "mode": 0o755},
                         {"p": hx(dn + b"/t/u"), "t": "file", "size": 3, "uid": 0, "gid": 0, "mt": gen.MTIMES[1], "mode": 0o644}]
                hdn = hx(dn)
                tree2 = [e for e in tree if e["p"] != hdn and not e["p"].startswith(hdn + "2f") and e.get("ln", "") != hdn and not e.get("ln", "").startswith(hdn + "2f")] + extra
                tree2.sort(key=lambda e: gen.pathkey(bytes.fromhex(e["p"])))
                esc = lambda c: b"".join(b"\\" + bytes([x]) if x in b"*?[]\\" else bytes([x]) for x in c)
                a["include"] = [hx(esc(dn) + rng.choice([b"/s.txt", b"/t/u", b"/t"]))]
                if rng.random() < 0.4:
                    a["include"].append(hx(esc(dn) + b"/t/u"))
                dst = [] if rng.random() < 0.7 else [e for e in gen.mutate_disk_tree(rng, tree2, 2) if e["t"] != "hardlink"]
                ops.append(self.mk(tree2, dst, a))
                continue
            if rng.random() < 0.04:
                # an include list whose entries are all blank: it is a filter (it selects nothing), not "no filter"
                a["include"] = [hx(x) for x in rng.choice([[b""], [b" ", b"\t"], [b"", b" "]])]
                if rng.random() < 0.3:
                    a["exclude"] = [hx(b"")]
                dst = [] if rng.random() < 0.7 else [e for e in gen.mutate_disk_tree(rng, tree, 2) if e["t"] != "hardlink"]
                ops.append(self.mk(tree, dst, a))
                continue
            deep = [q for q in paths if q.count(b"/") >= 1]
            if deep and rng.random() < 0.15:
                # include AND exclude lists together: an include that selects entries below directories it does not select itself
                # (created on demand), an exclude list with an exception naming one of those directories
                cs = rng.choice(deep).split(b"/")
                esc = lambda c: b"".join(b"\\" + bytes([x]) if x in b"*?[]\\" else bytes([x]) for x in c)
                leaf, d1 = esc(cs[-1]), esc(cs[0])
                par = b"/".join(esc(c) for c in cs[:-1])
                a["include"] = [hx(rng.choice([b"**/" + leaf, b"*/" * (len(cs) - 1) + leaf, par + b"/*", b"**/" + leaf[:1] + b"*"]))]
                a["exclude"] = [hx(rng.choice([b"**/" + leaf, d1 + b"/**", d1, b"*/" + leaf, par])),
                                hx(b"!" + rng.choice([d1, par, esc(cs[-2]) if len(cs) >= 2 else d1, b"/".join(esc(c) for c in cs)]))]
                if rng.random() < 0.3:
                    a["exclude"].reverse()
                dst = [] if rng.random() < 0.7 else [e for e in gen.mutate_disk_tree(rng, tree, 2) if e["t"] != "hardlink"]
                ops.append(self.mk(tree, dst, a))
                continue
            pl = (lambda neg_p: filt.nested_list(rng, paths)) if rng.random() < 0.25 else (lambda neg_p: filt.pattern_list(rng, paths, neg_p))
            if rng.random() < 0.25:
                a["replace"] = True     # always-replace: only what is SELECTED may clear something in the destination
            if r < 0.45:
                a["include"] = [hx(p) for p in pl(0.3)]
            elif r < 0.8:
                a["exclude"] = [hx(p) for p in pl(0.4)]
            else:
                a["include"] = [hx(p) for p in pl(0.3)]
                a["exclude"] = [hx(p) for p in filt.pattern_list(rng, paths, 0.4)]
            dst = [] if rng.random() < (0.3 if a.get("replace") else 0.7) else gen.mutate_disk_tree(rng, tree, rng.choice([2, 4]))
            dst = [e for e in dst if e["t"] != "hardlink"]
            ops.append(self.mk(tree, dst, a))
        return ops

    def nontrivial(self, op, impl, model):
        return bool(op["args"].get("include") or op["args"].get("exclude"))

    def features(self, op, impl, model):
        return super().features(op, impl, model) + ["canonical_source_listing=%s" % model.get("src_canon")]

    def extra_checks(self, op, impl, model, notes):
        if model.get("src_canon") is False:
            # premise of C16.filtered_walk_reports_copier_selection, evaluated on the snapshot of the source tree
            notes.append("the source listing is not canonical for the walk's ancestor test (C16W.canonB = false)")
            return False
        if model.get("res") == "ok" and model.get("naive_eq") is False and model.get("cmp") is not False:
            notes.append("C16: the copied set (= filtered walk) differs from the naive reference filter of C10")
            return False
        return True

    matchers = {
        # F5 (see C10): parent-result vs stateless matcher under negations; the copy itself equals the filtered walk
        "F5": lambda op, impl, model: model.get("naive_eq") is False and model.get("cmp") is True and
        any(bytes.fromhex(p).strip().startswith(b"!") for p in op["args"].get("include", []) + op["args"].get("exclude", [])),
    }


SYM_TARGETS = [b"/outside", b"/outside/f", b"/outside/d", b"../outside", b"../../outside/f", b"/srcout", b"/srcout/secret", b"../srcout/secret",
               b"/nonexistent/x", b"loop", b".", b"..", b"/", b"/outside/newfile", b"../outside/newdir/x"]


class CopyEscape(CopySuite):
    """C14"""
    name = "copyescape"
    rule = ("(source tree, destination tree, src path, dst path) with symlinks to sentinel directories/files outside both roots planted at every component "
            "position (absolute, '..'-laden, dangling, looping), source arguments ending in '..', follow-links on/off, always-replace on/off, chown/mode/times options, include/exclude patterns selecting entries below a directory that the destination has as a symlink; oracle: full snapshot (inode, mode, owner, "
            "times, bytes, xattrs) of everything outside the destination root unchanged, no sentinel bytes copied; non-trivial = >= 1 planted link, distinct")

    def gen(self, rng, tier):
        n = {"quick": 2500, "thorough": 15000, "search": 200}[tier]
        ops = []
        for _ in range(n):
            tree = gen.disk_tree(rng, rng.choice([5, 12]), 3, types=("dir", "file", "symlink"), xattrs=False, file_sizes=(0, 3))
            dst = gen.mutate_disk_tree(rng, [dict(e) for e in tree], 1)
            dst = [e for e in dst if e["t"] != "hardlink"]
            if rng.random() < 0.15:
                # colliding wildcard matches with hard-link groups across them and symlinks to the sentinels among the colliding names
                ops.append(self.mk(*collide_family(rng, escape=True)))
                continue

            def plant(t):
                # replace some entries by escaping symlinks / add escaping symlinks
                out = [dict(e) for e in t]
                for _ in range(rng.randint(1, 3)):
                    if out and rng.random() < 0.6:
                        i = rng.randrange(len(out))
                        p = out[i]["p"]
                        out = [e for e in out if not e["p"].startswith(p + "2f")]
                        for k, e in enumerate(out):
                            if e["p"] == p:
                                out[k] = {"p": p, "t": "symlink", "ln": hx(rng.choice(SYM_TARGETS)), "uid": 0, "gid": 0, "mt": gen.MTIMES[0], "mode": 0o777}
                                if rng.random() < 0.3:
                                    # an attribute ON the link (trusted.*: the only kind a symlink can carry): it belongs to the link, not to its target
                                    out[k]["x"] = [[hx(b"trusted.onlink"), hx(b"1")]]
                    else:
                        nm = rng.choice([b"lnk", b"a", b"out", b"x"])
                        if hx(nm) not in {e["p"] for e in out}:
                            out.append({"p": hx(nm), "t": "symlink", "ln": hx(rng.choice(SYM_TARGETS)), "uid": 0, "gid": 0, "mt": gen.MTIMES[0], "mode": 0o777})
                out.sort(key=lambda e: gen.pathkey(bytes.fromhex(e["p"])))
                return out
            r = rng.random()
            if r < 0.4:
                dst = plant(dst)
            elif r < 0.7:
                tree = plant(tree)
            else:
                dst = plant(dst)
                tree = plant(tree)
            spaths = [b"/"] + [b"/" + bytes.fromhex(e["p"]) for e in tree]
            # paths THROUGH a symlink of the source tree (names that exist behind the sentinels)
            for e in tree:
                if e["t"] == "symlink":
                    spaths += [b"/" + bytes.fromhex(e["p"]) + suf for suf in (b"/f", b"/d/g", b"/secret", b"/d", b"/outside/f", b"/srcout/secret")]
            # source arguments that step back with '..' (they denote entries inside the source root, the root at most)
            for e in rng.sample(tree, min(2, len(tree))):
                spaths += [b"/" + bytes.fromhex(e["p"]) + b"/..", bytes.fromhex(e["p"]) + b"/..", b"/" + bytes.fromhex(e["p"]) + b"/../.."]
            spaths += [b"..", b"/..", b"../.."]
            dpaths = [b"/", b"/out", b"/lnk/x", b"/lnk", b"/a/x", b"/x/../../outside/z"] + [b"/" + bytes.fromhex(e["p"]) for e in dst] + \
                     [b"/" + bytes.fromhex(e["p"]) + b"/sub" for e in dst if e["t"] == "symlink"]
            a = {"src": hx(rng.choice(spaths)), "dst": hx(rng.choice(dpaths))}
            if rng.random() < 0.5:
                a["cdc"] = True
            if rng.random() < 0.3:
                a["follow"] = True
            if rng.random() < 0.3:
                a["replace"] = True
            if rng.random() < 0.5:
                # chown / mode / times must not be applied through a copied or pre-existing symlink either
                for k in rng.sample(["chown", "mode", "utime"], rng.randint(1, 2)):
                    if k == "chown":
                        a["chown"] = [rng.choice([1000, 4242]), rng.choice([1000, 4242])]
                    elif k == "mode":
                        a["mode"] = rng.choice([0o755, 0o600, 0o4755, 0o1777, 0o700])
                    else:
                        a["utime"] = rng.choice([1111111111_000000000, 1500000000_123456789])
            if rng.random() < 0.35:
                a["wild"] = True
                if rng.random() < 0.4:
                    cs = bytes.fromhex(a["src"]).split(b"/")
                    cs[-1] = rng.choice([b"*", cs[-1][:1] + b"*"])
                    a["src"] = hx(b"/".join(cs))
            if rng.random() < 0.12:
                # include/exclude patterns that select an entry BELOW a directory which the destination has as a symlink to a sentinel
                # directory: the parent is created on demand, the conflict check must not go through the link
                dn = rng.choice([b"D", b"a", b"sub"])
                leaf, tgt = rng.choice([(b"g", b"/outside/d"), (b"f", b"/outside"), (b"g", b"../outside/d"), (b"secret", b"/srcout")])
                tree = [e for e in tree if not (bytes.fromhex(e["p"]) == dn or bytes.fromhex(e["p"]).startswith(dn + b"/"))]
                tree += [{"p": hx(dn), "t": "dir", "uid": 0, "gid": 0, "mt": gen.MTIMES[0], "mode": 0o755},
                         {"p": hx(dn + b"/" + leaf), "t": "file", "size": 3, "uid": 0, "gid": 0, "mt": gen.MTIMES[1], "mode": 0o644}]
                tree.sort(key=lambda e: gen.pathkey(bytes.fromhex(e["p"])))
                dst = [e for e in dst if not (bytes.fromhex(e["p"]) == dn or bytes.fromhex(e["p"]).startswith(dn + b"/"))]
                dst.append({"p": hx(dn), "t": "symlink", "ln": hx(tgt), "uid": 0, "gid": 0, "mt": gen.MTIMES[0], "mode": 0o777})
                dst.sort(key=lambda e: gen.pathkey(bytes.fromhex(e["p"])))
                a = {"src": hx(b"/"), "dst": hx(b"/"), "cdc": True}
                if rng.random() < 0.7:
                    a["include"] = [hx(rng.choice([dn + b"/" + leaf, dn + b"/*", b"*/" + leaf]))]
                else:
                    a["exclude"] = [hx(dn), hx(b"!" + dn + b"/" + leaf)]
                if rng.random() < 0.6:
                    a["replace"] = True
            if rng.random() < 0.05:
                # a destination symlink where the source has a DIRECTORY; its text, read as if the destination root were "/", names a
                # directory that exists inside the root, while the kernel takes it to the sentinel of the same path outside
                dn = rng.choice([b"D", b"lib", b"a"])
                tgt, mirror = rng.choice([(b"/outside/d", [b"outside", b"outside/d"]), (b"../outside/d", [b"outside", b"outside/d"]),
                                          (b"/outside", [b"outside"]), (b"../../outside/d", [b"outside", b"outside/d"])])
                tree = [e for e in tree if bytes.fromhex(e["p"]).split(b"/")[0] != dn]
                tree += [{"p": hx(dn), "t": "dir", "uid": 0, "gid": 0, "mt": gen.MTIMES[0], "mode": rng.choice([0o755, 0o777])},
                         {"p": hx(dn + b"/" + rng.choice([b"evil", b"g", b"f"])), "t": "file", "size": 3, "uid": 0, "gid": 0, "mt": gen.MTIMES[1], "mode": 0o644}]
                tree.sort(key=lambda e: gen.pathkey(bytes.fromhex(e["p"])))
                dst = [e for e in dst if bytes.fromhex(e["p"]).split(b"/")[0] not in (dn, b"outside")]
                dst += [{"p": hx(m), "t": "dir", "uid": 0, "gid": 0, "mt": gen.MTIMES[0], "mode": 0o755} for m in mirror]
                dst.append({"p": hx(dn), "t": "symlink", "ln": hx(tgt), "uid": 0, "gid": 0, "mt": gen.MTIMES[0], "mode": 0o777})
                dst.sort(key=lambda e: gen.pathkey(bytes.fromhex(e["p"])))
                a = {"src": hx(rng.choice([b"/", b"/" + dn])), "dst": hx(b"/")}
                if bytes.fromhex(a["src"]) != b"/":
                    a["dst"] = hx(b"/" + dn)
                    if rng.random() < 0.5:
                        a["cdc"] = True
                if rng.random() < 0.3:
                    a["include"] = [hx(dn + b"/*")]
                ops.append(self.mk(tree, dst, a))
                continue
            if rng.random() < 0.05:
                # wildcard matches copied onto ONE destination name that is an existing non-directory: the first match (a symlink to a
                # sentinel directory) takes the name, the next ones must not be written through it
                nm1, nm2 = rng.choice([(b"a0", b"b.txt"), (b"!l", b"m"), (b"k1", b"k2")])
                tgt = rng.choice([b"/outside/d", b"/outside", b"../outside/d", b"../outside"])
                tree = [e for e in tree if bytes.fromhex(e["p"]).split(b"/")[0] not in (nm1, nm2)]
                tree += [{"p": hx(nm1), "t": "symlink", "ln": hx(tgt), "uid": 0, "gid": 0, "mt": gen.MTIMES[0], "mode": 0o777},
                         {"p": hx(nm2), "t": rng.choice(["file", "file", "dir"]), "size": 3, "uid": 0, "gid": 0, "mt": gen.MTIMES[1], "mode": 0o644}]
                if tree[-1]["t"] == "dir":
                    tree[-1].pop("size")
                    tree[-1]["mode"] = 0o755
                    tree.append({"p": hx(nm2 + b"/g"), "t": "file", "size": 3, "uid": 0, "gid": 0, "mt": gen.MTIMES[1], "mode": 0o644})
                tree.sort(key=lambda e: gen.pathkey(bytes.fromhex(e["p"])))
                dn = rng.choice([b"t", b"out"])
                dst = [e for e in dst if bytes.fromhex(e["p"]).split(b"/")[0] != dn]
                dst.append({"p": hx(dn), "t": rng.choice(["file", "file", "fifo"]), "size": 2, "uid": 0, "gid": 0, "mt": gen.MTIMES[0], "mode": 0o600})
                if dst[-1]["t"] != "file":
                    dst[-1].pop("size")
                dst.sort(key=lambda e: gen.pathkey(bytes.fromhex(e["p"])))
                a = {"src": hx(rng.choice([b"/*", b"/" + nm1[:1] + b"*" if nm1[:1] == nm2[:1] else b"/*"])), "dst": hx(b"/" + dn), "wild": True}
                if rng.random() < 0.5:
                    a["cdc"] = True
                if rng.random() < 0.4:
                    a["replace"] = True
            if rng.random() < 0.06:
                # the destination has, at the path of a source NON-directory, a dangling link whose parent exists outside the destination
                # root: materialising the entry must replace the link, not write through it
                cands = [e for e in tree if e["t"] in ("file", "symlink") and b"/" not in bytes.fromhex(e["p"])] or \
                        [e for e in tree if e["t"] in ("file", "symlink")]
                if cands:
                    e = rng.choice(cands)
                    pb = bytes.fromhex(e["p"])
                    depth = pb.count(b"/") + 1
                    tgt = rng.choice([b"/outside/newfile", b"../" * depth + b"outside/newfile", b"/outside/d/new", b"/srcout/new"])
                    have = {x["p"] for x in tree if x["t"] == "dir"}
                    dst = [x for x in dst if not (x["p"] == e["p"] or x["p"].startswith(e["p"] + "2f"))]
                    # the parents as the source has them
                    par = pb.rsplit(b"/", 1)[0] if b"/" in pb else b""
                    while par:
                        if hx(par) not in {x["p"] for x in dst}:
                            dst.append({"p": hx(par), "t": "dir", "uid": 0, "gid": 0, "mt": gen.MTIMES[0], "mode": 0o755})
                        par = par.rsplit(b"/", 1)[0] if b"/" in par else b""
                    dst = [x for x in dst if not any(x["p"].startswith(y["p"] + "2f") for y in dst if y["t"] != "dir")]
                    dst.append({"p": e["p"], "t": "symlink", "ln": hx(tgt), "uid": 0, "gid": 0, "mt": gen.MTIMES[0], "mode": 0o777})
                    dst.sort(key=lambda x: gen.pathkey(bytes.fromhex(x["p"])))
                    a = {"src": hx(rng.choice([b"/", b"/" + pb])), "dst": hx(b"/")}
                    if bytes.fromhex(a["src"]) != b"/":
                        a["dst"] = hx(rng.choice([b"/" + pb, b"/"])) if b"/" not in pb else hx(b"/" + pb)
                    if rng.random() < 0.5:
                        a["cdc"] = True
                    if rng.random() < 0.3:
                        a["chown"] = [1000, 4242]
            ops.append(self.mk(tree, dst, a))
        return ops

    def judge(self, op, impl, model):
        # containment is judged by the sentinels; the tree-level reference does not model symlinks inside path arguments,
        # so its comparison is not used here
        if "runs" not in impl:
            return Verdict(True, None, "skipped: %s" % str(impl)[:200])
        r = impl["runs"][0]
        notes = []
        ok = True
        if r["res"] == "panic":
            return Verdict(False, False, "copy crashed: %s" % str(r.get("crash"))[-200:])
        if impl.get("outside_changed"):
            ok = False
            notes.append("C14: something outside the destination root changed: %s" % impl["outside_changed"][:4])
        if impl.get("src_changed"):
            ok = False
            notes.append("C14: the source tree was modified")
        if any(e.get("sha") in OUTSIDE_SHAS for e in r["after"]):
            ok = False
            notes.append("C14: bytes from outside the source root were copied")
        return Verdict(ok, ok, "; ".join(notes))

    def nontrivial(self, op, impl, model):
        return any(e["t"] == "symlink" for e in op["src"] + op["dst"])
