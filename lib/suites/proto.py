"""protocol suites: real Send against an independent reference receiver (C06); real Receive against an independent reference sender (C07)"""
from ..runner import Suite, Verdict
from .. import gen
from ..core import hx
from .sync import norm_stat, sent_stats, gen_type_mask


def flat_view(rng, n_files, sizes):
    """a wide view with many regular files (for > 132 pending requests): dirs d0..dk with files"""
    ents = []
    nd = max(1, n_files // 40)
    for d in range(nd):
        dn = ("d%02d" % d).encode()
        ents.append({"p": hx(dn), "t": "dir", "mode": 0o755, "uid": 0, "gid": 0, "mt": gen.MTIMES[0]})
        for f in range(n_files // nd):
            fn = dn + b"/" + ("f%03d" % f).encode()
            ents.append({"p": hx(fn), "t": "file", "mode": 0o644, "uid": 0, "gid": 0, "mt": gen.MTIMES[1], "size": rng.choice(sizes)})
    return ents


class SendProto(Suite):
    name = "sendproto"
    rule = ("synthetic views (random typed trees, or wide views with up to 320 regular files) x request scripts of an independent reference receiver: "
            "any subset, any order, each request issued after a chosen STAT index (its own = racing the STAT stream) or after the end marker, bursts > 132, "
            "negative scripts (unknown / non-file / duplicate id) x stream capacity 0..64, read-size schedules; non-trivial = >= 2 requests, distinct")

    def gen(self, rng, tier):
        n = {"quick": 800, "thorough": 20000, "search": 150}[tier]
        ops = []
        for _ in range(n):
            small_reads = rng.random() < 0.3
            if rng.random() < 0.12 and not small_reads:
                tree = flat_view(rng, rng.choice([140, 200, 320]), (0, 1, 10, 100, 3000))
            else:
                # small reads (1..100 bytes) only on small trees with small files: the acceptor's history grows with every DATA event
                tree = gen.disk_tree(rng, rng.choice([6, 15]) if small_reads else rng.choice([6, 15, 40]), 4,
                                     types=("dir", "file", "symlink", "fifo", "chr", "hardlink"),
                                     file_sizes=(0, 1, 5, 100) if small_reads else (0, 1, 5, 100, 4096, 32767, 32768, 32769, 70000, 200000),
                                     xattrs=rng.random() < 0.5)
            # ids of regular entries (incl. hard links): position in the view
            regs = [i for i, e in enumerate(tree) if e["t"] in ("file", "hardlink")]
            # hard links to non-regular sources are not regular
            bypath = {e["p"]: e for e in tree}
            regs = [i for i in regs if tree[i]["t"] == "file" or bypath.get(tree[i].get("ln"), {}).get("t") == "file"]
            k = rng.choice([0, 1, max(1, len(regs) // 2), len(regs), len(regs), len(regs), rng.randint(0, len(regs))])
            chosen = rng.sample(regs, min(k, len(regs)))
            mode = rng.choice(["end", "eager", "mixed", "late"])
            reqs = []
            for i in chosen:
                if mode == "end":
                    after = -1
                elif mode == "eager":
                    after = i
                elif mode == "late":
                    after = rng.randint(i, len(tree) - 1)
                else:
                    after = rng.choice([-1, i, rng.randint(i, len(tree) - 1)])
                reqs.append([i, after])
            rng.shuffle(reqs)
            neg = None
            if rng.random() < 0.12 and tree:
                kind = rng.choice(["unknown", "nonfile", "dup"])
                if kind == "unknown":
                    reqs.append([len(tree) + rng.randint(0, 3), -1])
                    neg = kind
                elif kind == "nonfile":
                    nf = [i for i in range(len(tree)) if i not in regs]
                    if nf:
                        i = rng.choice(nf)
                        reqs.append([i, rng.choice([-1, i])])
                        neg = kind
                elif kind == "dup" and reqs:
                    r = rng.choice(reqs)
                    reqs.append([r[0], -1])
                    neg = kind
            opt = {"cap": rng.choice([0, 1, 4, 32, 64]), "seed": rng.randrange(1 << 30)}
            if small_reads:
                opt["readsizes"] = [rng.choice([1, 7, 100, 0]) for _ in range(rng.randint(1, 4))]
            elif rng.random() < 0.3:
                opt["readsizes"] = [rng.choice([4096, 10000, 32768, 0]) for _ in range(rng.randint(1, 4))]
            if rng.random() < 0.2:
                opt["delay"] = rng.choice([5, 50])
            ops.append({"op": "sendproto", "src": {"kind": "mem", "tree": tree}, "reqs": reqs, "opt": opt})
        return ops

    def prepare_model(self, ops, impl=None):
        out = []
        for k, o in enumerate(ops):
            i = impl[k] if impl else {}
            if not isinstance(i, dict) or "view" not in i:
                out.append({"op": "sendproto", "view": [], "log": []})
            else:
                out.append({"op": "sendproto", "view": i["view"], "log": i["log"]})
        return out

    @staticmethod
    def negative(op, view):
        """kind of the first non-conforming request of the script, judged against the view"""
        seen = set()
        for i, _ in op["reqs"]:
            if i >= len(view):
                return "unknown"
            if view[i]["mode"] & gen_type_mask():
                return "nonfile"
            if i in seen:
                return "dup"
            seen.add(i)
        return None

    def judge(self, op, impl, model):
        if "view" not in impl:
            return Verdict(True, None, "skipped: %s" % str(impl)[:200])
        op = dict(op)
        op["neg"] = self.negative(op, impl["view"])
        notes = []
        ok = True
        ref = impl.get("ref") or {}
        if impl.get("blocked"):
            ok = False
            notes.append("Send/reference receiver did not finish (blocked)")
        if not model.get("accept"):
            ok = False
            notes.append("protocol acceptor rejects the sender's event log at %s: %s" % (model.get("at"), model.get("why")))
        ss = [norm_stat(s) for s in sent_stats(impl)]
        vs = [norm_stat(s) for s in impl["view"]]
        if op["neg"] is None or impl["send"] == "ok":
            if ss != vs:
                ok = False
                notes.append("STAT sequence != view")
        elif ss != vs[:len(ss)]:
            ok = False
            notes.append("STAT sequence is not a prefix of the view")
        if any(v is False for v in (ref.get("prefix_ok") or {}).values()):
            ok = False
            notes.append("DATA payloads are not a prefix of the file bytes")
        if ref.get("data_before_req"):
            ok = False
            notes.append("DATA for an id that was not requested")
        if any(c != 1 for c in (ref.get("terms") or {}).values()):
            ok = False
            notes.append("terminator count != 1: %s" % ref.get("terms"))
        if op["neg"] is None:
            if impl["send"] != "ok":
                ok = False
                notes.append("Send failed against a conforming receiver: %s" % impl.get("senderr"))
            else:
                want = set(str(r[0]) for r in op["reqs"])
                if set((ref.get("terms") or {}).keys()) != want:
                    ok = False
                    notes.append("not every request was answered with a terminator")
                if any(v is False for v in (ref.get("full") or {}).values()):
                    ok = False
                    notes.append("payloads do not concatenate to the whole file")
                if not ref.get("fin_echo") or ref.get("after_fin") or ref.get("ends") != 1 or ref.get("err"):
                    ok = False
                    notes.append("FIN echo/end marker: %s" % {k: ref.get(k) for k in ("fin_echo", "after_fin", "ends", "err")})
        else:
            if impl["send"] != "err":
                ok = False
                notes.append("Send did not fail on a %s id" % op["neg"])
        pr = impl.get("progress") or []
        if pr:
            vals = [p[0] for p in pr]
            if any(b < a for a, b in zip(vals, vals[1:])) or [p[1] for p in pr].count(1) != 1 or pr[-1][1] != 1:
                ok = False
                notes.append("progress callbacks not monotone / not exactly one final call")
        else:
            ok = False
            notes.append("no progress callback")
        if any(impl.get("overlaps", [])):
            ok = False
            notes.append("concurrent stream calls %s" % impl["overlaps"])
        return Verdict(ok, ok, "; ".join(notes))

    def nontrivial(self, op, impl, model):
        return len(op["reqs"]) >= 2

    def key(self, op):
        from ..core import digest
        return digest([op["src"], op["reqs"]])

    def features(self, op, impl, model):
        n = len(op["reqs"])
        return ["reqs=%s" % ("0" if n == 0 else "1-9" if n < 10 else "10-132" if n <= 132 else ">132"), "neg=%s" % self.negative(op, impl.get("view", [])),
                "cap=%s" % op["opt"]["cap"], "send=%s" % impl.get("send")]

    def shrink(self, op):
        out = []
        for i in range(len(op["reqs"])):
            o = dict(op)
            o["reqs"] = op["reqs"][:i] + op["reqs"][i + 1:]
            out.append(o)
        return out
