"""protocol suites: real Send against an independent reference receiver (C06); real Receive against an independent reference sender (C07)"""
from ..runner import Suite, Verdict
from .. import gen
from ..core import hx
from .sync import norm_stat, sent_stats, gen_type_mask


def flat_view(rng, n_files, sizes):
    """a wide view with many regular files (for > 132 pending requests): dirs d0..dk with files"""
    ents = []
    nd = max(1, n_files // 40)
    for d in range(nd):
        dn = ("d%02d" % d).encode()
        ents.append({"p": hx(dn), "t": "dir", "mode": 0o755, "uid": 0, "gid": 0, "mt": gen.MTIMES[0]})
        for f in range(n_files // nd):
            fn = dn + b"/" + ("f%03d" % f).encode()
            ents.append({"p": hx(fn), "t": "file", "mode": 0o644, "uid": 0, "gid": 0, "mt": gen.MTIMES[1], "size": rng.choice(sizes)})
    return ents


class SendProto(Suite):
    name = "sendproto"
    rule = ("synthetic views (random typed trees, or wide views with up to 320 regular files) x request scripts of an independent reference receiver: "
            "any subset, any order, each request issued after a chosen STAT index (its own = racing the STAT stream) or after the end marker, bursts > 132, "
            "negative scripts (unknown / non-file / duplicate id) x stream capacity 0..64, read-size schedules; non-trivial = >= 2 requests, distinct")

    def gen(self, rng, tier):
        n = {"quick": 1500, "thorough": 20000, "search": 150}[tier]
        ops = []
        for _ in range(n):
            small_reads = rng.random() < 0.3
            if rng.random() < 0.12 and not small_reads:
                tree = flat_view(rng, rng.choice([140, 200, 320]), (0, 1, 10, 100, 3000))
            else:
                # small reads (1..100 bytes) only on small trees with small files: the acceptor's history grows with every DATA event
                tree = gen.disk_tree(rng, rng.choice([6, 15]) if small_reads else rng.choice([6, 15, 40]), 4,
                                     types=("dir", "file", "symlink", "fifo", "chr", "hardlink"),
                                     file_sizes=(0, 1, 5, 100) if small_reads else (0, 1, 5, 100, 4096, 32767, 32768, 32769, 70000, 200000),
                                     xattrs=rng.random() < 0.5)
            if rng.random() < 0.15:
                # regular entries of size 0 that cannot be opened (what a unix socket in a real tree is to the sender): a request for one is
                # answered like any other, by its terminator
                for e in tree:
                    if e["t"] == "file" and rng.random() < 0.3:
                        e["size"] = 0
                        e.pop("hole", None)
                        e["openerr"] = True
            elif rng.random() < 0.15:
                # a view that announces a size its readers do not deliver (a file that grew or shrank after it was listed, procfs-style
                # entries of size 0): the answer is what the reader yields
                for e in tree:
                    if e["t"] == "file" and rng.random() < 0.3:
                        real = e.get("size", 0) + e.get("hole", 0)
                        e["asize"] = rng.choice([0, 0, real + 1, max(real - 1, 0), 1])
                        if real == 0:
                            e["size"] = rng.choice([1, 5, 100])
            if small_reads:
                # (1..100-byte reads: no sparse tails of tens of kilobytes, the acceptor's history grows with every DATA event)
                for e in tree:
                    if e.get("hole", 0) > 4096:
                        e["hole"] = 1
            # ids of regular entries (incl. hard links): position in the view
            regs = [i for i, e in enumerate(tree) if e["t"] in ("file", "hardlink")]
            # hard links to non-regular sources are not regular
            bypath = {e["p"]: e for e in tree}
            regs = [i for i in regs if tree[i]["t"] == "file" or bypath.get(tree[i].get("ln"), {}).get("t") == "file"]
            k = rng.choice([0, 1, max(1, len(regs) // 2), len(regs), len(regs), len(regs), rng.randint(0, len(regs))])
            chosen = rng.sample(regs, min(k, len(regs)))
            mode = rng.choice(["end", "eager", "mixed", "late", "burst"])
            burst_at = rng.randint(0, max(0, len(tree) - 2)) if tree else 0
            reqs = []
            for i in chosen:
                if mode == "burst":
                    # several requests handed over back to back in the middle of the STAT stream
                    after = burst_at if i <= burst_at else i
                elif mode == "end":
                    after = -1
                elif mode == "eager":
                    after = i
                elif mode == "late":
                    after = rng.randint(i, len(tree) - 1)
                else:
                    after = rng.choice([-1, i, rng.randint(i, len(tree) - 1)])
                reqs.append([i, after])
            rng.shuffle(reqs)
            neg = None
            if rng.random() < 0.12 and tree:
                kind = rng.choice(["unknown", "nonfile", "dup"])
                if kind == "unknown":
                    reqs.append([len(tree) + rng.randint(0, 3), -1])
                    neg = kind
                elif kind == "nonfile":
                    nf = [i for i in range(len(tree)) if i not in regs]
                    if nf:
                        i = rng.choice(nf)
                        reqs.append([i, rng.choice([-1, i])])
                        neg = kind
                elif kind == "dup" and reqs:
                    r = rng.choice(reqs)
                    reqs.append([r[0], -1])
                    neg = kind
            opt = {"cap": rng.choice([0, 1, 4, 32, 64]), "seed": rng.randrange(1 << 30)}
            if small_reads:
                opt["readsizes"] = [rng.choice([1, 7, 100, 0]) for _ in range(rng.randint(1, 4))]
            elif rng.random() < 0.3:
                opt["readsizes"] = [rng.choice([4096, 10000, 32768, 0]) for _ in range(rng.randint(1, 4))]
            if rng.random() < 0.2:
                opt["delay"] = rng.choice([5, 50])
            if len(tree) <= 40 and rng.random() < 0.25:
                # the sender's SendMsg(STAT) returns late: a request racing the STAT stream arrives before the sender got control back
                opt["linger"] = rng.choice([200, 1000])
            if neg is None and len(reqs) <= 100 and rng.random() < 0.35:
                # a single-threaded peer: it sends its requests from its reading loop and reads nothing while a send is pending
                # (fewer pending requests than the sender's pipeline holds, so that flow control cannot stall it)
                opt["inline"] = True
            ops.append({"op": "sendproto", "src": {"kind": "mem", "tree": tree}, "reqs": reqs, "opt": opt})
            if rng.random() < 0.2:
                ops[-1]["src"]["eof_with_data"] = True   # readers that deliver their last bytes together with io.EOF
        return ops

    def prepare_model(self, ops, impl=None):
        out = []
        for k, o in enumerate(ops):
            i = impl[k] if impl else {}
            if not isinstance(i, dict) or "view" not in i:
                out.append({"op": "sendproto", "view": [], "log": []})
            else:
                out.append({"op": "sendproto", "view": i["view"], "log": i["log"]})
        return out

    @staticmethod
    def negative(op, view):
        """kind of the first non-conforming request of the script, judged against the view"""
        seen = set()
        for i, _ in op["reqs"]:
            if i >= len(view):
                return "unknown"
            if view[i]["mode"] & gen_type_mask():
                return "nonfile"
            if i in seen:
                return "dup"
            seen.add(i)
        return None

    def judge(self, op, impl, model):
        if "view" not in impl:
            return Verdict(True, None, "skipped: %s" % str(impl)[:200])
        op = dict(op)
        op["neg"] = self.negative(op, impl["view"])
        notes = []
        ok = True
        ref = impl.get("ref") or {}
        if impl.get("blocked"):
            ok = False
            notes.append("Send/reference receiver did not finish (blocked)")
        if not model.get("accept"):
            ok = False
            notes.append("protocol acceptor rejects the sender's event log at %s: %s" % (model.get("at"), model.get("why")))
        ss = [norm_stat(s) for s in sent_stats(impl)]
        vs = [norm_stat(s) for s in impl["view"]]
        if op["neg"] is None or impl["send"] == "ok":
            if ss != vs:
                ok = False
                notes.append("STAT sequence != view")
        elif ss != vs[:len(ss)]:
            ok = False
            notes.append("STAT sequence is not a prefix of the view")
        if any(v is False for v in (ref.get("prefix_ok") or {}).values()):
            ok = False
            notes.append("DATA payloads are not a prefix of the file bytes")
        if ref.get("data_before_req"):
            ok = False
            notes.append("DATA for an id that was not requested")
        if any(c != 1 for c in (ref.get("terms") or {}).values()):
            ok = False
            notes.append("terminator count != 1: %s" % ref.get("terms"))
        if op["neg"] is None:
            if impl["send"] != "ok":
                ok = False
                notes.append("Send failed against a conforming receiver: %s" % impl.get("senderr"))
            else:
                want = set(str(r[0]) for r in op["reqs"])
                if set((ref.get("terms") or {}).keys()) != want:
                    ok = False
                    notes.append("not every request was answered with a terminator")
                if any(v is False for v in (ref.get("full") or {}).values()):
                    ok = False
                    notes.append("payloads do not concatenate to the whole file")
                if not ref.get("fin_echo") or ref.get("after_fin") or ref.get("ends") != 1 or ref.get("err"):
                    ok = False
                    notes.append("FIN echo/end marker: %s" % {k: ref.get(k) for k in ("fin_echo", "after_fin", "ends", "err")})
        else:
            if impl["send"] != "err":
                ok = False
                notes.append("Send did not fail on a %s id" % op["neg"])
        pr = impl.get("progress") or []
        if pr:
            vals = [p[0] for p in pr]
            if any(b < a for a, b in zip(vals, vals[1:])) or [p[1] for p in pr].count(1) != 1 or pr[-1][1] != 1:
                ok = False
                notes.append("progress callbacks not monotone / not exactly one final call")
        else:
            ok = False
            notes.append("no progress callback")
        if any(impl.get("overlaps", [])):
            ok = False
            notes.append("concurrent stream calls %s" % impl["overlaps"])
        return Verdict(ok, ok, "; ".join(notes))

    def nontrivial(self, op, impl, model):
        return len(op["reqs"]) >= 2

    def key(self, op):
        from ..core import digest
        return digest([op["src"], op["reqs"]])

    def features(self, op, impl, model):
        n = len(op["reqs"])
        return ["reqs=%s" % ("0" if n == 0 else "1-9" if n < 10 else "10-132" if n <= 132 else ">132"), "neg=%s" % self.negative(op, impl.get("view", [])),
                "cap=%s" % op["opt"]["cap"], "send=%s" % impl.get("send")]

    def shrink(self, op):
        out = []
        for i in range(len(op["reqs"])):
            o = dict(op)
            o["reqs"] = op["reqs"][:i] + op["reqs"][i + 1:]
            out.append(o)
        return out


class RecvProto(Suite):
    name = "recvproto"
    needs_root = True
    rule = ("real Receive into fresh/dirty on-disk destinations against an independent reference sender (synthetic stats): legal STAT sequences from "
            "random typed trees, DATA chunkings 1 B .. 1 MiB, empty files, payload length != stat size, ids served fifo/round-robin/random/reversed, DATA "
            "answered while STATs still flow, EOF before FIN (negative); non-trivial = >= 2 regular files in the view, distinct")

    def gen(self, rng, tier):
        n = {"quick": 700, "thorough": 8000, "search": 150}[tier]
        ops = []
        for _ in range(n):
            wide = rng.random() < 0.04
            if wide:
                # more files needing content than any internal queue or worker limit can hold (STATs first, answers later)
                tree = flat_view(rng, rng.choice([350, 500]), (10, 100))
            else:
                tree = gen.disk_tree(rng, rng.choice([6, 15, 40]), 4, types=("dir", "file", "symlink", "fifo", "chr", "hardlink"),
                                     file_sizes=(0, 1, 5, 100, 4096, 32767, 32768, 32769, 70000, 1200000 if rng.random() < 0.1 else 100))
            r = rng.random()
            dst = [] if r < 0.4 or wide else gen.mutate_disk_tree(rng, tree) if r < 0.85 else gen.disk_tree(rng, 10, 3, types=("dir", "file", "symlink"))
            big = any(e.get("size", 0) + e.get("hole", 0) > 100000 for e in tree)
            chunk = [rng.choice([1, 2, 7, 100, 1000] if not big and sum(e.get("size", 0) + e.get("hole", 0) for e in tree) < 20000 else [4096, 32768, 100000, 1048576])
                     for _ in range(rng.randint(1, 3))]
            ref = {"chunk": chunk, "interleave": rng.choice(["fifo", "rr", "random", "reverse"]), "eager": rng.random() < 0.5 and not wide,
                   "seed": rng.randrange(1 << 30)}
            if wide:
                ref["chunk"] = [4096]
            if not wide and rng.random() < 0.03 and not any(e["p"] == hx(b"zbig") for e in tree):
                # payloads of (about) 1 MiB, the largest the statement mentions
                tree.append({"p": hx(b"zbig"), "t": "file", "size": rng.choice([1048576, 2500000, 2097152]), "uid": 0, "gid": 0, "mt": gen.MTIMES[0], "mode": 0o644})
                tree.sort(key=lambda e: gen.pathkey(bytes.fromhex(e["p"])))
                dst = [e for e in dst if e["p"] != hx(b"zbig")]
                ref["chunk"] = [rng.choice([1048576, 1048576 - 12, 1048576 - 64, 1048575])]
            if not wide and rng.random() < 0.06:
                # dozens of ids in the middle of their content at the same time: every file takes several payloads, served round-robin
                # (more files open at once than any cap on open descriptors / writers an implementation may have)
                tree = flat_view(rng, rng.choice([20, 40, 70]), (5, 100, 1000))
                dst = []
                ref = {"chunk": [rng.choice([2, 7, 100, 300])], "interleave": rng.choice(["rr", "rr", "random"]), "eager": False,
                       "seed": rng.randrange(1 << 30)}
            if rng.random() < 0.08:
                ref["eof_before_fin"] = True
            op = {"op": "recvproto", "src": {"kind": "mem", "tree": tree}, "dst": dst, "ref": ref,
                  "opt": {"cap": rng.choice([0, 1, 4, 32, 64]), "seed": rng.randrange(1 << 30)}}
            if not wide and rng.random() < 0.3:
                # the receiver's SendMsg(REQ) returns late: the answer of an eager sender races with whatever the receiver does "after sending"
                op["opt"]["linger"] = rng.choice([200, 1000])
            if rng.random() < 0.15:
                regs = [i for i, e in enumerate(tree) if e["t"] == "file"]
                if regs:
                    op["payload"] = [[rng.choice(regs), rng.choice([0, 3, 50000])]]
            if rng.random() < 0.1:
                op["opt"]["differ"] = "none"
            ops.append(op)
        return ops

    def prepare_model(self, ops, impl=None):
        out = []
        for k, o in enumerate(ops):
            i = impl[k] if impl else {}
            if not isinstance(i, dict) or "view" not in i:
                out.append({"op": "recvproto", "view": [], "before": [], "after": [], "log": [], "opt": o["opt"]})
                continue
            view = [dict(v) for v in i["view"]]
            asked = set(e["id"] for e in i.get("log", []) if e["e"] == "R" and e["k"] == "send" and e.get("t") == "REQ")
            for idx, v in enumerate(view):
                if "sha" in v and idx in asked and str(idx) in i.get("sentsha", {}):
                    v["sha"] = i["sentsha"][str(idx)]
            m = {"op": "recvproto", "view": view, "before": i["before"], "after": i["after"], "log": i["log"], "opt": o["opt"]}
            if "atfin" in i:
                m["atfin"] = i["atfin"]
            out.append(m)
        return out

    def judge(self, op, impl, model):
        if "view" not in impl:
            return Verdict(True, None, "skipped: %s" % str(impl)[:200])
        notes = []
        ok = True
        if impl.get("blocked"):
            ok = False
            notes.append("Receive did not return (blocked)")
        neg = op["ref"].get("eof_before_fin")
        if not model.get("accept"):
            ok = False
            notes.append("receiver acceptor rejects the event log at event %s (need=%s requested=%s)" % (model.get("at"), model.get("need"), model.get("reqd")))
        if neg:
            if impl["recv"] != "err":
                ok = False
                notes.append("end of stream before FIN was not an error")
        else:
            if impl["recv"] != "ok":
                ok = False
                notes.append("Receive failed against a conforming sender: %s" % impl.get("recverr"))
            else:
                if sorted(model.get("reqd", [])) != sorted(model.get("need", [])):
                    ok = False
                    notes.append("requested ids %s != needed ids %s" % (sorted(model.get("reqd", [])), sorted(model.get("need", []))))
                if model.get("c01") is False:
                    ok = False
                    notes.append("stored content/tree: " + str(model.get("c01_why")))
                if model.get("atfin") is False:
                    ok = False
                    notes.append("at the moment FIN was sent the destination was not complete: " + str(model.get("atfin_why")))
                if not model.get("fin"):
                    ok = False
                    notes.append("success without FIN")
        if any(impl.get("overlaps", [])):
            ok = False
            notes.append("concurrent stream calls %s" % impl["overlaps"])
        return Verdict(ok, ok, "; ".join(notes))

    matchers = {
        # F20 (see C01): file capabilities do not survive; the only complaint is about xattrs of a created entry
        "F20": lambda op, impl, model: any(k == "73656375726974792e6361706162696c697479" for e in op["src"]["tree"] if e.get("t") == "file" for k, _ in e.get("x", []))
        and model.get("accept") and impl.get("recv") == "ok" and model.get("c01_why") == "xattrs of a created entry are missing"
        and model.get("atfin_why") in (None, "", "xattrs of a created entry are missing"),
    }

    def nontrivial(self, op, impl, model):
        return sum(1 for e in op["src"]["tree"] if e["t"] == "file") >= 2

    def features(self, op, impl, model):
        return ["interleave=" + op["ref"]["interleave"], "eager=%s" % op["ref"]["eager"], "dst=" + ("fresh" if not op["dst"] else "dirty"),
                "recv=%s" % impl.get("recv"), "neg=%s" % bool(op["ref"].get("eof_before_fin")), "payload_override=%s" % ("payload" in op),
                "needs=%s" % min(len(model.get("need", [])), 10)]

    def shrink(self, op):
        out = []
        for side in ("src", "dst"):
            tree = op["src"]["tree"] if side == "src" else op["dst"]
            for i in range(len(tree)):
                p = tree[i]["p"]
                t2 = [e for e in tree if e["p"] != p and not e["p"].startswith(p + "2f") and not (e["t"] == "hardlink" and e.get("ln") == p)]
                o = dict(op)
                o.pop("payload", None)
                if side == "src":
                    o["src"] = {"kind": "mem", "tree": t2}
                else:
                    o["dst"] = t2
                out.append(o)
        return out


HOSTILE_PATHS = [b"..", b".", b"", b"a/../..", b"../x", b"/abs", b"/", b"a//b", b"a/", b"./a", b"a/./b", b"a\\b", b"a/../b", b"..a", b"a/..",
                 b"../../outside/f", b"x/../../sib"]


class Hostile(Suite):
    name = "hostile"
    needs_root = True
    rule = ("packet scripts of a hostile sender run against real Receive in a chroot'ed child process with sentinel trees beside and above dest: valid "
            "STAT walks mutated by ill-formed paths (.., ., '', a/../.., absolute, //, trailing /, backslash), duplicates, swaps, missing parents, "
            "children of files/symlinks, mode words with several type bits set (dir+symlink ...) plus link names, entries named like the writer's temporary files as symlinks pointing outside, hard links to unknown/escaping names, symlink entries with xattrs pointing outside, DATA for ids never requested, "
            "ERR; dirty destinations containing symlinks that point outside, also under the names the receiver itself writes (metadata-only listing, merge mode); non-trivial = script with >= 2 packets, distinct")

    def gen(self, rng, tier):
        n = {"quick": 1500, "thorough": 6000, "search": 120}[tier]
        ops = []
        for _ in range(n):
            if rng.random() < 0.05:
                # an otherwise well-formed stream with ONE hard link whose name escapes dest with '..' - and whose root-cleaned form is the
                # path of an entry that was sent before (a decoy): the link must still be refused
                L = rng.choice([b"../../sent", b"../sib/h", b"../../../outside/f", b"a/../../sib/h", b"../../../outside/d/g"])
                P = [c for c in L.split(b"/") if c not in (b"..", b"a")]
                stats = []
                for d in range(1, len(P)):
                    stats.append(gen.rand_stat(rng, b"/".join(P[:d]), True))
                fs_ = gen.rand_stat(rng, b"/".join(P), False)
                fs_.update({"mode": 0o644, "size": 3, "ln": "", "dmaj": 0, "dmin": 0})
                stats.append(fs_)
                lk = gen.rand_stat(rng, b"zzlink", False)
                lk.update({"mode": rng.choice([0o644, 0o600]), "size": 0, "ln": hx(L), "dmaj": 0, "dmin": 0})
                stats.append(lk)
                for extra in rng.sample([b"b", b"c0", b"k"], rng.randint(0, 2)):
                    stats.append(gen.rand_stat(rng, extra, False))
                for st in stats:
                    st.setdefault("x", [])
                    st["size"] = min(st.get("size", 0), 100)
                stats.sort(key=lambda st: gen.pathkey(bytes.fromhex(st["p"])))
                script = [{"t": "STAT", "stat": st} for st in stats] + [{"t": "STAT"}]
                ops.append({"op": "hostile", "script": script, "dst": [], "answer": True, "opt": {"cap": rng.choice([0, 4, 32]), "seed": rng.randrange(1 << 30)}})
                continue
            if rng.random() < 0.08:
                # a WELL-FORMED stream against a destination whose directories have children named like the sentinels' children: the
                # stream drops some of those directories and turns others into symlinks that point at the sentinel directories
                # (what is deleted / replaced must be deleted inside dest, never through the new link)
                dirs = sorted(rng.sample([b"b", b"c", b"d", b"e", b"k"], rng.randint(2, 4)))
                dst, stats = [], []
                for d in dirs:
                    dst.append({"p": hx(d), "t": "dir", "uid": 0, "gid": 0, "mt": gen.MTIMES[0], "mode": 0o755})
                    for c in sorted(rng.sample([b"d", b"f", b"g", b"h"], rng.randint(1, 3))):
                        if c == b"d" and rng.random() < 0.5:
                            dst.append({"p": hx(d + b"/d"), "t": "dir", "uid": 0, "gid": 0, "mt": gen.MTIMES[0], "mode": 0o755})
                            dst.append({"p": hx(d + b"/d/g"), "t": "file", "size": 3, "uid": 0, "gid": 0, "mt": gen.MTIMES[0], "mode": 0o644})
                        else:
                            dst.append({"p": hx(d + b"/" + c), "t": "file", "size": 3, "uid": 0, "gid": 0, "mt": gen.MTIMES[0], "mode": 0o644})
                    k = rng.choice(["drop", "drop", "link", "link", "keep", "file"])
                    if k == "link":
                        st = gen.rand_stat(rng, d, False)
                        st.update({"mode": (1 << 27) | 0o777, "size": 0, "dmaj": 0, "dmin": 0,
                                   "ln": hx(rng.choice([b"/outside", b"/outside/d", b"../sib", b"../../../outside", b"../../../outside/d"]))})
                        stats.append(st)
                    elif k == "keep":
                        stats.append(gen.rand_stat(rng, d, True))
                    elif k == "file":
                        st = gen.rand_stat(rng, d, False)
                        st.update({"mode": 0o644, "size": 0, "ln": "", "dmaj": 0, "dmin": 0})
                        stats.append(st)
                for st in stats:
                    st.setdefault("x", [])
                script = [{"t": "STAT", "stat": st} for st in stats] + [{"t": "STAT"}]
                ops.append({"op": "hostile", "script": script, "dst": dst, "answer": True, "opt": {"cap": rng.choice([0, 4, 32]), "seed": rng.randrange(1 << 30)}})
                continue
            ents = gen.rand_tree(rng, rng.choice([3, 8, 20]), 3)
            stats = []
            for p, d in ents:
                st = gen.rand_stat(rng, p, d)
                st["size"] = min(st["size"], 100)
                if not d and st["mode"] & (1 << 27) and rng.random() < 0.5:
                    # symlink pointing outside dest, sometimes with xattrs
                    st["ln"] = hx(rng.choice([b"/outside/f", b"../../../outside/f", b"/x/sent", b"../sib/h", b"/outside/d"]))
                    if rng.random() < 0.6:
                        st["x"] = [[hx(b"trusted.evil"), hx(b"1")], [hx(b"security.evil"), hx(b"2")]]
                stats.append(st)
            script = [{"t": "STAT", "stat": s} for s in stats]
            mut = rng.random()
            if script and mut < 0.75:
                for _ in range(rng.randint(1, 2)):
                    sk = [i for i, x in enumerate(script) if x["t"] == "STAT" and x.get("stat")]
                    if not sk:
                        break
                    k = rng.choice(sk)
                    m = rng.randrange(10)
                    if m == 9:
                        # type-confused mode word: more than one type bit set (dir+symlink, dir+fifo, symlink+device, ...), a link name
                        # pointing outside dest, and a child entry below it
                        dk = [i for i in sk if script[i]["stat"]["mode"] & (1 << 31)] or [k]
                        k = rng.choice(dk)
                        st = dict(script[k]["stat"])
                        st["mode"] = (st["mode"] & 0o777) | rng.choice([(1 << 31) | (1 << 27), (1 << 31) | (1 << 27), (1 << 31) | (1 << 25), (1 << 27) | (1 << 26),
                                                                      (1 << 31) | (1 << 26), (1 << 27) | (1 << 25), (1 << 31) | (1 << 27) | (1 << 24)])
                        st["ln"] = hx(rng.choice([b"/outside/d", b"../../../outside/d", b"/outside", b"../sib"]))
                        st["size"] = 0
                        script[k] = {"t": "STAT", "stat": st}
                        if rng.random() < 0.7:
                            ch = gen.rand_stat(rng, bytes.fromhex(st["p"]) + b"/" + rng.choice([b"x", b"new", b"f"]), False)
                            ch["mode"] = 0o644
                            ch["size"] = rng.choice([0, 5])
                            ch.pop("ln", None)
                            script.insert(k + 1, {"t": "STAT", "stat": ch})
                    elif m == 0:
                        st = dict(script[k]["stat"])
                        st["p"] = hx(rng.choice(HOSTILE_PATHS))
                        script[k] = {"t": "STAT", "stat": st}
                    elif m == 1 and len(script) > 1:
                        j = rng.randrange(len(script))
                        script[k], script[j] = script[j], script[k]
                    elif m == 2:
                        script.insert(k, dict(script[k]))
                    elif m == 3:
                        del script[k]
                    elif m == 4:
                        st = dict(script[k]["stat"])
                        st["p"] = hx(bytes.fromhex(st["p"]) + rng.choice([b"/..", b"/../..", b"/.", b"/", b"/../../../outside/new"]))
                        script[k] = {"t": "STAT", "stat": st}
                    elif m == 5:
                        # hard link to an unknown / escaping name
                        st = gen.rand_stat(rng, bytes.fromhex(script[k]["stat"]["p"]) + b"~", False)
                        # regular, or a special file type carrying a link name (fifo / char device / block device / socket bit)
                        st["mode"] = rng.choice([0o644, 0o644, (1 << 25) | 0o644, (1 << 26) | (1 << 21) | 0o600, (1 << 26) | 0o600, (1 << 24) | 0o644])
                        st["size"] = 0
                        st["ln"] = hx(rng.choice([b"nonexistent", b"../../outside/f", b"/outside/f", b"..", b"zzz", b"../sib/h", b"../../sent"]))
                        if rng.random() < 0.2:
                            st["ln"] = st["p"]       # a link to itself: its name was not sent EARLIER
                        script.insert(k + 1, {"t": "STAT", "stat": st})
                        if rng.random() < 0.5 and all(x["t"] == "STAT" and x.get("stat") for x in script):
                            # ... with a decoy: the escaping link name, cleaned against the root, names an entry that WAS sent before
                            # ("../../sent" -> "sent"); joined to dest it still names the sentinel outside
                            L = rng.choice([b"../../sent", b"../sib/h", b"../../../outside/f", b"a/../../sib/h"])
                            P = [c for c in L.split(b"/") if c not in (b"..", b"a")]
                            have = {x["stat"]["p"] for x in script if x["t"] == "STAT" and x.get("stat")}
                            top = P[0]
                            if hx(top) not in have and not any(bytes.fromhex(h).startswith(top + b"/") for h in have):
                                for d in range(1, len(P)):
                                    ds = gen.rand_stat(rng, b"/".join(P[:d]), True)
                                    ds.setdefault("x", [])
                                    script.append({"t": "STAT", "stat": ds})
                                fs_ = gen.rand_stat(rng, b"/".join(P), False)
                                fs_.update({"mode": 0o644, "size": 3, "ln": "", "dmaj": 0, "dmin": 0})
                                fs_.setdefault("x", [])
                                script.append({"t": "STAT", "stat": fs_})
                                st2 = dict(st)
                                st2["p"] = hx(b"zzlink")
                                st2["ln"] = hx(L)
                                script.append({"t": "STAT", "stat": st2})
                                script.sort(key=lambda x: gen.pathkey(bytes.fromhex(x["stat"]["p"])))
                    elif m == 6:
                        # DATA for an id that can never be requested (a directory's index / beyond the sequence)
                        # (the id is filled in after all mutations: the STAT index of a directory, or one beyond the sequence)
                        script.append({"t": "DATA", "id": None, "n": rng.choice([0, 10]), "want": rng.choice(["dir", "beyond"])})
                    elif m == 7:
                        script.insert(k, {"t": "ERR"})
                    elif m == 8:
                        # child of a file / symlink
                        st = gen.rand_stat(rng, bytes.fromhex(script[k]["stat"]["p"]) + b"/child", False)
                        script.insert(k + 1, {"t": "STAT", "stat": st})
                    if not script:
                        break
            forced_dst = []
            if rng.random() < 0.08 and all(x["t"] == "STAT" for x in script):
                # entries named like the writer's own temporary files (".tmp.<suffix>", small counters and a few fixed guesses) as symlinks
                # pointing outside dest, and a regular file that replaces an existing destination entry (which goes through such a name)
                for k in rng.sample([1, 2, 3, 4, 5, 0], rng.randint(2, 5)):
                    nm = b".tmp.%09d" % k if rng.random() < 0.8 else b".tmp.%d" % k
                    script.append({"t": "STAT", "stat": {"p": hx(nm), "mode": (1 << 27) | 0o777, "uid": 0, "gid": 0, "size": 0, "mt": gen.MTIMES[0],
                                                         "ln": hx(rng.choice([b"/outside/f", b"../../../outside/f", b"/x/sent"])), "dmaj": 0, "dmin": 0, "x": []}})
                script.append({"t": "STAT", "stat": {"p": hx(b"zfile"), "mode": 0o644, "uid": 0, "gid": 0, "size": 5, "mt": gen.MTIMES[1], "ln": "", "dmaj": 0, "dmin": 0, "x": []}})
                seenp = set()
                uniq = []
                for x in script:
                    if x["stat"]["p"] not in seenp:
                        seenp.add(x["stat"]["p"])
                        uniq.append(x)
                script = sorted(uniq, key=lambda x: gen.pathkey(bytes.fromhex(x["stat"]["p"])))
                forced_dst = [{"p": hx(b"zfile"), "t": "file", "size": 3, "uid": 0, "gid": 0, "mt": gen.MTIMES[0], "mode": 0o600}]
            stat_idx = [x for x in script if x["t"] == "STAT" and x.get("stat")]
            dir_ids = [i for i, x in enumerate(stat_idx) if x["stat"]["mode"] & (1 << 31)]
            for x in script:
                if x["t"] == "DATA" and x.get("id") is None:
                    x["id"] = rng.choice(dir_ids) if (x.pop("want") == "dir" and dir_ids) else len(stat_idx) + 5
                    x.pop("want", None)
            selfname = None
            if rng.random() < 0.04 and all(x["t"] == "STAT" and x.get("stat") for x in script):
                # an entry that names ITSELF as its link source, while the destination holds a symlink of that name pointing outside
                selfname = rng.choice([b"zself", b"~self", b"zz/self"]) if any(x["stat"]["p"] == hx(b"zz") and x["stat"]["mode"] & (1 << 31) for x in script) \
                    else rng.choice([b"zself", b"~self"])
                if hx(selfname) not in {x["stat"]["p"] for x in script}:
                    script.append({"t": "STAT", "stat": {"p": hx(selfname), "mode": rng.choice([0o644, 0o666, 0o4755]), "uid": 0, "gid": 0, "size": 0, "mt": gen.MTIMES[1],
                                                         "ln": hx(selfname), "dmaj": 0, "dmin": 0, "x": []}})
                    script.sort(key=lambda x: gen.pathkey(bytes.fromhex(x["stat"]["p"])))
                else:
                    selfname = None
            script.append({"t": "STAT"})
            r = rng.random()
            dst = []
            if selfname is not None and b"/" not in selfname:
                forced_dst = forced_dst + [{"p": hx(selfname), "t": "symlink", "ln": hx(rng.choice([b"/outside/f", b"../../../outside/f", b"/outside/d/g"])),
                                            "uid": 0, "gid": 0, "mt": gen.MTIMES[0], "mode": 0o777}]
            if r < 0.6:
                # dirty destination with symlinks pointing outside, named like entries of the script
                names = [bytes.fromhex(s["stat"]["p"]) for s in script if s["t"] == "STAT" and s.get("stat")]
                tops = sorted(set(nm.split(b"/")[0] for nm in names if nm and not nm.startswith(b"/") and nm.split(b"/")[0] not in (b".", b"..", b"")))
                for t in tops[:4]:
                    kind = rng.choice(["symlink-out", "symlink-out", "dir", "file", "none"])
                    if kind == "symlink-out":
                        dst.append({"p": hx(t), "t": "symlink", "ln": hx(rng.choice([b"/outside", b"../../../outside", b"/outside/f", b"../sib"])),
                                    "uid": 0, "gid": 0, "mt": gen.MTIMES[0], "mode": 0o777})
                    elif kind == "dir":
                        dst.append({"p": hx(t), "t": "dir", "uid": 0, "gid": 0, "mt": gen.MTIMES[0], "mode": 0o755})
                    elif kind == "file":
                        dst.append({"p": hx(t), "t": "file", "size": 3, "uid": 0, "gid": 0, "mt": gen.MTIMES[0], "mode": 0o644})
            if forced_dst:
                dst = [e for e in dst if e["p"] not in {f["p"] for f in forced_dst}] + forced_dst
                dst.sort(key=lambda e: gen.pathkey(bytes.fromhex(e["p"])))
            opt = {"cap": rng.choice([0, 4, 32]), "seed": rng.randrange(1 << 30)}
            answer = True if forced_dst else rng.random() < 0.7
            if rng.random() < 0.1:
                # receiver options under which the receiver itself writes a file (the metadata listing) / keeps old entries (merge):
                # the destination already holds entries with the names the receiver uses, as symlinks pointing outside
                opt["metaonly"] = [x["stat"]["p"] for x in script if x["t"] == "STAT" and x.get("stat") and rng.random() < 0.5]
                if rng.random() < 0.7:
                    opt["merge"] = True
                dst = [e for e in dst if e["p"] != hx(b".fsutil-metadata")]
                dst.append({"p": hx(b".fsutil-metadata"), "t": "symlink", "ln": hx(rng.choice([b"/outside/f", b"/outside/newlisting", b"../../../outside/f"])),
                            "uid": 0, "gid": 0, "mt": gen.MTIMES[0], "mode": 0o777})
                dst.sort(key=lambda e: gen.pathkey(bytes.fromhex(e["p"])))
                answer = True
            if rng.random() < 0.05 and "metaonly" not in opt and not any(x.get("stat") and bytes.fromhex(x["stat"]["p"]).split(b"/")[0] == b"mim" for x in script):
                # the peer knows a symlink of the destination and announces a DIRECTORY that mimics it in every field a comparison might
                # look at (link name, size, time stamp, owner, permission bits), with a child below it: the link has to go
                tgt = rng.choice([b"/outside/d", b"/outside", b"../../../outside/d"])
                mim = {"p": hx(b"mim"), "mode": (1 << 31) | 0o777, "uid": 0, "gid": 0, "size": len(tgt), "mt": gen.MTIMES[0], "ln": hx(tgt), "dmaj": 0, "dmin": 0, "x": []}
                kid = {"p": hx(b"mim/" + rng.choice([b"new", b"g", b"f"])), "mode": 0o644, "uid": 0, "gid": 0, "size": rng.choice([0, 3]), "mt": gen.MTIMES[1],
                       "ln": "", "dmaj": 0, "dmin": 0, "x": []}
                end = [x for x in script if x["t"] == "STAT" and not x.get("stat")]
                body = [x for x in script if not (x["t"] == "STAT" and not x.get("stat"))]
                if all(x["t"] == "STAT" for x in body):
                    body += [{"t": "STAT", "stat": mim}, {"t": "STAT", "stat": kid}]
                    body.sort(key=lambda x: gen.pathkey(bytes.fromhex(x["stat"]["p"])))
                    script = body + end
                    dst = [e for e in dst if bytes.fromhex(e["p"]).split(b"/")[0] != b"mim"]
                    dst.append({"p": hx(b"mim"), "t": "symlink", "ln": hx(tgt), "uid": 0, "gid": 0, "mt": gen.MTIMES[0], "mode": 0o777})
                    dst.sort(key=lambda e: gen.pathkey(bytes.fromhex(e["p"])))
            op = {"op": "hostile", "script": script, "dst": dst, "answer": answer, "opt": opt}
            if answer and not (script and mut < 0.75) and not forced_dst and "metaonly" not in opt and rng.random() < 0.3:
                # an otherwise well-formed sender that sends more content for an id AFTER it has terminated that id's answer
                # (most telling for an empty file: its answer is the terminator alone)
                sts = [x for x in script if x["t"] == "STAT" and x.get("stat")]
                tmask = (1 << 31) | (1 << 27) | (1 << 26) | (1 << 25) | (1 << 24) | (1 << 21) | (1 << 19)
                regs = [i for i, x in enumerate(sts) if x["stat"]["mode"] & tmask == 0 and not x["stat"].get("ln")]
                if regs:
                    i = rng.choice(regs)
                    if rng.random() < 0.6:
                        sts[i]["stat"]["size"] = 0
                    op["after_eof"] = {str(i): rng.choice([1, 10, 4096])}
            ops.append(op)
        return ops

    def judge(self, op, impl, model):
        if "recv" not in impl:
            return Verdict(True, None, "skipped: %s" % str(impl)[:200])
        notes = []
        ok = True
        off = model.get("offender")
        if impl.get("outside_changed"):
            ok = False
            notes.append("C03 containment: outside of dest changed: %s" % impl["outside_changed"][:5])
        if impl["recv"] == "panic":
            ok = False
            notes.append("receiver process crashed: %s" % str(impl.get("crash"))[-200:])
        if off is not None:
            if impl["recv"] == "ok":
                ok = False
                notes.append("stream with an offending packet at %d (%s) was accepted" % (off, model.get("why")))
            # nothing at or after the first offender is applied
            allowed = set(e["p"] for e in impl.get("before", []))
            for k, pk in enumerate(op["script"]):
                if k < off and pk["t"] == "STAT" and pk.get("stat"):
                    allowed.add(pk["stat"]["p"])
            extra = [e["p"] for e in impl.get("after", []) if e["p"] not in allowed and not bytes.fromhex(e["p"]).split(b"/")[-1].startswith(b".tmp.")]
            if extra:
                ok = False
                notes.append("entries at/after the first offender were applied: %s" % extra[:4])
        elif op.get("after_eof") and impl.get("after_eof_sent"):
            if impl["recv"] == "ok":
                ok = False
                notes.append("content sent for id %s after the terminator of its answer was accepted" % list(op["after_eof"])[0])
        else:
            complete = any(pk["t"] == "STAT" and not pk.get("stat") for pk in op["script"])
            if op["answer"] and complete and impl["recv"] != "ok":
                ok = False
                notes.append("valid stream rejected: %s" % impl.get("recverr"))
        if impl.get("blocked"):
            notes.append("(blocked until teardown)")
        agree = ok
        return Verdict(agree, ok, "; ".join(notes))

    def nontrivial(self, op, impl, model):
        return len(op["script"]) >= 2

    def features(self, op, impl, model):
        return ["offender=%s" % (model.get("offender") is not None), "recv=%s" % impl.get("recv"), "dst=" + ("dirty" if op["dst"] else "fresh"),
                "why=%s" % str(model.get("why"))[:30]]

    def shrink(self, op):
        out = []
        sc = op["script"]
        for i in range(len(sc)):
            o = dict(op)
            o["script"] = sc[:i] + sc[i + 1:]
            out.append(o)
        for i in range(len(op["dst"])):
            o = dict(op)
            o["dst"] = op["dst"][:i] + op["dst"][i + 1:]
            out.append(o)
        return out

    matchers = {
        "F8": lambda op, impl, model: any("outside" in c or "sent" in c or "sib" in c for c in impl.get("outside_changed", [])) and
        any(pk["t"] == "STAT" and pk.get("stat") and pk["stat"].get("x") and pk["stat"]["mode"] & (1 << 27) for pk in op["script"]),
    }
