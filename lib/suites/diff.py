"""listing-level diff suite: doubleWalkDiff through the verif export vs the Lean diff model + spec"""
from ..runner import Suite, Verdict
from .. import gen


class DiffSuite(Suite):
    name = "diff"
    rule = ("pairs (old destination listing, source listing) of typed stats: source = edit script over old (touch/chmod/chown/rewrite/delete subtree/"
            "type swap/add/device renumber/hard-link regroup), or independent trees over the same adversarial name alphabet, or equal; differ in "
            "{metadata, none}; non-trivial = distinct pair with both listings non-empty")

    def gen(self, rng, tier):
        n = {"quick": 4000, "thorough": 150000, "search": 2000}[tier]
        ops = []
        for _ in range(n):
            lower = gen.rand_listing(rng, rng.choice([4, 10, 25]), 4)
            r = rng.random()
            if r < 0.6:
                upper = gen.mutate_listing(rng, lower)
            elif r < 0.7:
                upper = [dict(s) for s in lower]
            elif r < 0.8:
                upper = gen.rand_listing(rng, rng.choice([4, 10, 25]), 4)
                lower = [] if rng.random() < 0.3 else lower
            else:
                upper = gen.mutate_listing(rng, gen.mutate_listing(rng, lower))
            ops.append({"op": "diff", "none": rng.random() < 0.1, "lower": lower, "upper": upper})
        return ops

    def prepare_model(self, ops, impl=None):
        if impl is None:
            return ops
        out = []
        for o, i in zip(ops, impl):
            o2 = dict(o)
            if isinstance(i, dict) and "evs" in i:
                o2["impl"] = i["evs"]
            out.append(o2)
        return out

    def judge(self, op, impl, model):
        if "evs" not in impl:
            return Verdict(False, False, "implementation failed: %s" % impl)
        ievs = [[e[0], e[1] if e[0] == "delete" else e[1]["p"]] for e in impl["evs"]]
        agree = ievs == model.get("m")
        spec_ok = model.get("spec_i")
        note = "events impl=%s model=%s spec(impl)=%s %s" % (ievs[:8], (model.get("m") or [])[:8], spec_ok, model.get("spec_i_why"))
        if model.get("spec_m") is False:
            return Verdict(False, spec_ok, "MODEL violates its own spec: " + str(model.get("spec_m_why")) + " " + note)
        return Verdict(agree, spec_ok, note)

    def nontrivial(self, op, impl, model):
        return bool(op["lower"]) and bool(op["upper"])

    def features(self, op, impl, model):
        evs = impl.get("evs") or []
        kinds = sorted(set(e[0] for e in evs))
        return ["events=" + "+".join(kinds) if kinds else "events=none", "differ=" + ("none" if op["none"] else "metadata")]

    def shrink(self, op):
        out = []
        for side in ("lower", "upper"):
            for i in range(len(op[side])):
                p = op[side][i]["p"]
                o = dict(op)
                o[side] = [x for x in op[side] if x["p"] != p and not x["p"].startswith(p + "2f")]
                out.append(o)
        return out
