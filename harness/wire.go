package main

import (
	"bytes"
	"context"
	"fmt"
	"io"
	"runtime"
	"sort"

	"github.com/tonistiigi/fsutil/types"
	"github.com/tonistiigi/fsutil/util"
	"google.golang.org/protobuf/proto"
)

func init() {
	handlers["wire_dec"] = hWireDec
	handlers["wire_enc"] = hWireEnc
	handlers["frames"] = hFrames
}

func xattrsJSON(m map[string][]byte) []interface{} {
	keys := make([]string, 0, len(m))
	for k := range m {
		keys = append(keys, k)
	}
	sort.Strings(keys)
	xs := []interface{}{}
	for _, k := range keys {
		xs = append(xs, []interface{}{hx(k), hx(string(m[k]))})
	}
	return xs
}

func pstatJSON(st *types.Stat) map[string]interface{} {
	if st == nil {
		return nil
	}
	return map[string]interface{}{"p": hx(st.Path), "mode": st.Mode, "uid": st.Uid, "gid": st.Gid, "size": st.Size, "mt": st.ModTime,
		"ln": hx(st.Linkname), "dmaj": st.Devmajor, "dmin": st.Devminor, "x": xattrsJSON(st.Xattrs),
		"unk": hx(string(st.ProtoReflect().GetUnknown()))}
}

func ppacketJSON(p *types.Packet) map[string]interface{} {
	m := map[string]interface{}{"type": int32(p.Type), "id": p.ID, "stat": nil, "data": nil, "unk": hx(string(p.ProtoReflect().GetUnknown()))}
	if p.Stat != nil {
		m["stat"] = pstatJSON(p.Stat)
	}
	if p.Data != nil {
		m["data"] = hx(string(p.Data))
	}
	return m
}

func pstatFromJSON(x interface{}) *types.Stat {
	if x == nil {
		return nil
	}
	st := statFromJSON(x)
	return st
}

func ppacketFromJSON(x interface{}) *types.Packet {
	m := Op(x.(map[string]interface{}))
	p := &types.Packet{Type: types.Packet_PacketType(int32(num64(m["type"]))), ID: uint32(num64(m["id"]))}
	if st, ok := m["stat"].(map[string]interface{}); ok {
		p.Stat = statFromJSON(st)
	}
	if d, ok := m["data"].(string); ok {
		p.Data = []byte(unhex(d))
	}
	return p
}

// hWireDec: arbitrary bytes through the hand-optimised decoder (under recover) and the generic runtime
func hWireDec(o Op) (out map[string]interface{}) {
	b := []byte(o.hex("bytes"))
	out = map[string]interface{}{}
	defer func() {
		if r := recover(); r != nil {
			out["panic"] = fmt.Sprint(r)
		}
	}()
	if o.str("kind") == "stat" {
		var st types.Stat
		err := st.Unmarshal(b)
		out["ok"] = err == nil
		if err == nil {
			out["v"] = pstatJSON(&st)
			re, _ := st.Marshal()
			var st2 types.Stat
			out["rt"] = st2.Unmarshal(re) == nil && st.EqualVT(&st2)
		}
		var g types.Stat
		gerr := proto.Unmarshal(b, &g)
		out["gok"] = gerr == nil
		if gerr == nil && err == nil {
			out["gequal"] = proto.Equal(&g, &st)
		}
		if gerr != nil {
			out["gerr"] = gerr.Error()
		}
	} else {
		var p types.Packet
		err := p.Unmarshal(b)
		out["ok"] = err == nil
		if err == nil {
			out["v"] = ppacketJSON(&p)
			re, _ := p.Marshal()
			var p2 types.Packet
			out["rt"] = p2.Unmarshal(re) == nil && p.EqualVT(&p2)
		}
		var g types.Packet
		gerr := proto.Unmarshal(b, &g)
		out["gok"] = gerr == nil
		if gerr == nil && err == nil {
			out["gequal"] = proto.Equal(&g, &p)
		}
		if gerr != nil {
			out["gerr"] = gerr.Error()
		}
	}
	return out
}

// hWireEnc: a value through both encoders and both decoders, in both directions
func hWireEnc(o Op) (out map[string]interface{}) {
	out = map[string]interface{}{}
	defer func() {
		if r := recover(); r != nil {
			out["panic"] = fmt.Sprint(r)
		}
	}()
	var vt, gen []byte
	var err, gerr error
	var msg, fresh1, fresh2 proto.Message
	if o.str("kind") == "stat" {
		st := statFromJSON(o["v"])
		vt, err = st.Marshal()
		gen, gerr = proto.MarshalOptions{Deterministic: true}.Marshal(st)
		msg, fresh1, fresh2 = st, &types.Stat{}, &types.Stat{}
		out["size_eq"] = st.SizeVT() == len(vt)
		// vt bytes -> vt decoder ; generic bytes -> vt decoder
		var a, b types.Stat
		out["vt_vt"] = err == nil && a.Unmarshal(vt) == nil && a.EqualVT(st)
		out["gen_vt"] = gerr == nil && b.Unmarshal(gen) == nil && b.EqualVT(st)
	} else {
		p := ppacketFromJSON(o["v"])
		vt, err = p.Marshal()
		gen, gerr = proto.MarshalOptions{Deterministic: true}.Marshal(p)
		msg, fresh1, fresh2 = p, &types.Packet{}, &types.Packet{}
		out["size_eq"] = p.Size() == len(vt)
		var a, b types.Packet
		out["vt_vt"] = err == nil && a.Unmarshal(vt) == nil && a.EqualVT(p)
		out["gen_vt"] = gerr == nil && b.Unmarshal(gen) == nil && b.EqualVT(p)
	}
	// the other entry points of the generated API must produce the same bytes: MarshalTo / MarshalToVT write at the START of a
	// buffer that may be larger than needed, MarshalToSizedBufferVT at its END; nothing beyond the encoding is touched; a clone is equal
	if err == nil {
		apiOK := true
		apiWhy := ""
		type mt interface {
			MarshalToVT([]byte) (int, error)
			MarshalToSizedBufferVT([]byte) (int, error)
			MarshalVT() ([]byte, error)
		}
		m := msg.(mt)
		// (map entries are written in Go's map iteration order, also by the Strict variants: an output that differs from vt is compared by decoding it)
		sameValue := func(enc []byte) bool {
			switch v := msg.(type) {
			case *types.Stat:
				var d types.Stat
				return d.UnmarshalVT(enc) == nil && d.EqualVT(v)
			case *types.Packet:
				var d types.Packet
				return d.UnmarshalVT(enc) == nil && d.EqualVT(v)
			}
			return false
		}
		if b2, e := m.MarshalVT(); e != nil || len(b2) != len(vt) || !sameValue(b2) {
			apiOK, apiWhy = false, "MarshalVT does not encode the value"
		}
		for _, slack := range []int{0, 1, 7, 4096} {
			check := func(name string, f func([]byte) (int, error), atEnd bool) {
				buf := bytes.Repeat([]byte{0xAA}, len(vt)+slack)
				n, e := f(buf)
				if e != nil || n != len(vt) {
					apiOK, apiWhy = false, fmt.Sprintf("%s(slack %d): n=%d err=%v, want n=%d", name, slack, n, e, len(vt))
					return
				}
				enc, rest := buf[:n], buf[n:]
				if atEnd {
					enc, rest = buf[len(buf)-n:], buf[:len(buf)-n]
				}
				if !bytes.Equal(enc, vt) && !sameValue(enc) {
					apiOK, apiWhy = false, fmt.Sprintf("%s(slack %d): encoding is not where the contract puts it", name, slack)
				}
				for _, c := range rest {
					if c != 0xAA {
						apiOK, apiWhy = false, fmt.Sprintf("%s(slack %d): bytes outside the encoding were written", name, slack)
						break
					}
				}
			}
			check("MarshalToVT", m.MarshalToVT, false)
			check("MarshalToSizedBufferVT", m.MarshalToSizedBufferVT, true)
			if p, ok := msg.(*types.Packet); ok {
				check("Packet.MarshalTo", p.MarshalTo, false)
			}
		}
		switch v := msg.(type) {
		case *types.Stat:
			if c := v.CloneVT(); !c.EqualVT(v) || !v.Clone().EqualVT(v) {
				apiOK, apiWhy = false, "clone differs"
			}
		case *types.Packet:
			if c := v.CloneVT(); !c.EqualVT(v) {
				apiOK, apiWhy = false, "clone differs"
			}
		}
		out["api_ok"] = apiOK
		if !apiOK {
			out["api_why"] = apiWhy
		}
	}
	out["ok"] = err == nil
	out["gok"] = gerr == nil
	if gerr != nil {
		out["gerr"] = gerr.Error()
	}
	out["bytes"] = hx(string(vt))
	// vt bytes -> generic decoder ; generic bytes -> generic decoder
	e1 := proto.Unmarshal(vt, fresh1)
	out["vt_gen"] = err == nil && e1 == nil && proto.Equal(fresh1, msg)
	if e1 != nil {
		out["vt_gen_err"] = e1.Error()
	}
	out["gen_gen"] = gerr == nil && proto.Unmarshal(gen, fresh2) == nil && proto.Equal(fresh2, msg)
	return out
}

// fragReader returns data in fragments of the scheduled sizes
type fragReader struct {
	data        []byte
	sizes       []int
	k           int
	eofWithData bool
}

func (r *fragReader) Read(b []byte) (int, error) {
	if len(r.data) == 0 {
		return 0, io.EOF
	}
	n := len(b)
	if len(r.sizes) > 0 {
		s := r.sizes[r.k%len(r.sizes)]
		r.k++
		if s > 0 && s < n {
			n = s
		}
	}
	if n > len(r.data) {
		n = len(r.data)
	}
	copy(b, r.data[:n])
	r.data = r.data[n:]
	if r.eofWithData && len(r.data) == 0 {
		return n, io.EOF // the last bytes of the stream arrive together with io.EOF
	}
	return n, nil
}

// hFrames: packets written through util.NewProtoStream and read back through a fragmenting reader
func hFrames(o Op) (out map[string]interface{}) {
	out = map[string]interface{}{}
	defer func() {
		if r := recover(); r != nil {
			out["panic"] = fmt.Sprint(r)
		}
	}()
	var pkts []*types.Packet
	for _, x := range o.arr("pkts") {
		pkts = append(pkts, ppacketFromJSON(x))
	}
	var w bytes.Buffer
	ws := util.NewProtoStream(context.Background(), nil, &w)
	// "reuse": the sender keeps ONE packet value and assigns the fields of the next packet to it before every send
	// (the encoding of a value must not depend on what the same struct held, or how it was measured, before)
	reuse := o.boolean("reuse")
	carrier := &types.Packet{}
	for _, p := range pkts {
		q := p
		if reuse {
			carrier.Type, carrier.Stat, carrier.ID, carrier.Data = p.Type, p.Stat, p.ID, p.Data
			q = carrier
			_ = q.Size()
		}
		if err := ws.SendMsg(q); err != nil {
			out["senderr"] = err.Error()
			return out
		}
	}
	stream := append([]byte(nil), w.Bytes()...)
	out["stream"] = hx(string(stream))
	// optional extra raw bytes appended by the test (truncated/oversized frames)
	if extra := o.hex("extra"); extra != "" {
		stream = append(stream, []byte(extra)...)
	}
	rs := util.NewProtoStream(context.Background(), &fragReader{data: stream, sizes: intList(o.arr("frag")), eofWithData: o.boolean("eof_with_data")}, nil)
	var got []*types.Packet
	var snaps []*types.Packet
	var ms0, ms1 runtime.MemStats
	runtime.ReadMemStats(&ms0)
	defer func() {
		runtime.ReadMemStats(&ms1)
		out["alloc"] = ms1.TotalAlloc - ms0.TotalAlloc
		out["streamlen"] = len(stream)
	}()
	for {
		p := &types.Packet{}
		err := rs.RecvMsg(p)
		if err != nil {
			out["recv_end"] = err.Error()
			break
		}
		got = append(got, p)
		// remember what the packet looked like when it was delivered
		snaps = append(snaps, p.CloneVT())
		if len(got) > len(pkts)+4 {
			break
		}
	}
	res := []interface{}{}
	stable := true
	for i, p := range got {
		res = append(res, ppacketJSON(p))
		if !p.EqualVT(snaps[i]) {
			stable = false
		}
	}
	out["got"] = res
	out["stable"] = stable // a decoded packet is unchanged by later receives (no aliasing of the pooled buffer)
	same := len(got) == len(pkts)
	if same {
		for i := range got {
			if !got[i].EqualVT(pkts[i]) {
				same = false
			}
		}
	}
	out["same"] = same
	return out
}
