package main

import (
	"encoding/json"
	"sort"

	"github.com/tonistiigi/fsutil/types"
)

// stat <-> JSON (see lean/Drv/Stat.lean)
func statFromJSON(x interface{}) *types.Stat {
	m := x.(map[string]interface{})
	o := Op(m)
	st := &types.Stat{
		Path: o.hex("p"), Mode: uint32(num64(m["mode"])), Uid: uint32(num64(m["uid"])), Gid: uint32(num64(m["gid"])),
		Size: num64(m["size"]), ModTime: num64(m["mt"]), Linkname: o.hex("ln"),
		Devmajor: num64(m["dmaj"]), Devminor: num64(m["dmin"]),
	}
	if xs, ok := m["x"].([]interface{}); ok && len(xs) > 0 {
		st.Xattrs = map[string][]byte{}
		for _, kv := range xs {
			a := kv.([]interface{})
			st.Xattrs[unhex(a[0].(string))] = []byte(unhex(a[1].(string)))
		}
	}
	return st
}

func num64(x interface{}) int64 {
	switch v := x.(type) {
	case json.Number:
		if n, err := v.Int64(); err == nil {
			return n
		}
		f, _ := v.Float64()
		return int64(f)
	case float64:
		return int64(v)
	case int:
		return int64(v)
	case int64:
		return v
	case uint32:
		return int64(v)
	case uint64:
		return int64(v)
	case int32:
		return int64(v)
	case string:
		var n int64
		neg := false
		for i, c := range v {
			if i == 0 && c == '-' {
				neg = true
				continue
			}
			n = n*10 + int64(c-'0')
		}
		if neg {
			return -n
		}
		return n
	}
	return 0
}

func statToJSON(st *types.Stat) map[string]interface{} {
	if st == nil {
		return nil
	}
	m := map[string]interface{}{
		"p": hx(st.Path), "mode": st.Mode, "uid": st.Uid, "gid": st.Gid, "size": st.Size, "mt": st.ModTime,
		"ln": hx(st.Linkname), "dmaj": st.Devmajor, "dmin": st.Devminor,
	}
	if len(st.Xattrs) > 0 {
		keys := make([]string, 0, len(st.Xattrs))
		for k := range st.Xattrs {
			keys = append(keys, k)
		}
		sort.Strings(keys)
		xs := make([]interface{}, 0, len(keys))
		for _, k := range keys {
			xs = append(xs, []interface{}{hx(k), hx(string(st.Xattrs[k]))})
		}
		m["x"] = xs
	}
	return m
}

func statsFromJSON(xs []interface{}) []*types.Stat {
	out := make([]*types.Stat, 0, len(xs))
	for _, x := range xs {
		out = append(out, statFromJSON(x))
	}
	return out
}
