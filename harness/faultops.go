package main

import (
	"context"
	"encoding/json"
	gofs "io/fs"
	"os"
	"os/exec"
	"path/filepath"
	"sync/atomic"
	"syscall"
	"time"

	"github.com/tonistiigi/fsutil"
	"github.com/tonistiigi/fsutil/types"
)

func init() {
	handlers["fault"] = hFault
	childCmds["faultkill"] = childFaultKill
}

func parseFault(f Op, xo *xferOpts, mfs *memFS) {
	fp := &faultPlan{kind: f.str("kind"), at: f.num("at"), path: f.hex("path"), off: f.num("off"), teardown: 150 * time.Millisecond}
	switch f.str("errno") {
	case "ESTALE":
		fp.errno = syscall.ESTALE
	case "EIO":
		fp.errno = syscall.EIO
	case "EACCES":
		fp.errno = syscall.EACCES
	}
	if ms := f.num("teardown_ms"); ms > 0 {
		fp.teardown = time.Duration(ms) * time.Millisecond
	}
	switch fp.kind {
	case "sendS":
		xo.cfg.FailSendS = fp.at
	case "recvS":
		xo.cfg.FailRecvS = fp.at
	case "sendR":
		xo.cfg.FailSendR = fp.at
	case "recvR":
		xo.cfg.FailRecvR = fp.at
	case "dieR":
		xo.cfg.DieRecvR = fp.at
	case "dieS":
		xo.cfg.DieSendS = fp.at
	case "cancelS":
		// the context of the Send call alone is cancelled while the source is being walked (the stream has its own context and keeps working)
		if mfs != nil {
			cs := xo.cancelSend
			mfs.walkHookAt = fp.at
			mfs.walkHook = func() {
				if cs != nil && *cs != nil {
					(*cs)()
				}
			}
		}
	case "cancelO":
		// ... or later: at the at-th Open of a source file, when the walk may long be over and requests are being served
		if mfs != nil {
			cs := xo.cancelSend
			var n int32
			at := int32(fp.at)
			mfs.openGate = func(string) {
				if atomic.AddInt32(&n, 1) == at && cs != nil && *cs != nil {
					(*cs)()
				}
			}
		}
	case "walk":
		if mfs != nil {
			mfs.walkFailAt = fp.at
			mfs.walkFailErrno = fp.errno
		}
	case "read":
		if mfs != nil {
			mfs.readFailKey = fp.path
			mfs.readFailOff = fp.off
		}
	}
	xo.fault = fp
}

func faultRunJSON(res *xferResult) map[string]interface{} {
	out := map[string]interface{}{
		"send": errClass(res.sendErr, res.sendRet), "recv": errClass(res.recvErr, res.recvRet),
		"torn": res.tornDown, "send_after_tear": res.sendAfterTear, "recv_after_tear": res.recvAfterTear,
		"alive": res.alive, "alive_at": res.aliveAt, "stacks": res.stacks, "late": []int32{res.late[0], res.late[1]},
	}
	if res.recvErr != nil {
		out["recverr"] = res.recvErr.Error()
	}
	if res.sendErr != nil {
		out["senderr"] = res.sendErr.Error()
	}
	return out
}

// hookFS calls hook when the walk of the wrapped FS reaches its at-th entry.
type hookFS struct {
	fsutil.FS
	at   int
	hook func()
}

func (h *hookFS) Walk(ctx context.Context, target string, fn gofs.WalkDirFunc) error {
	n := 0
	return h.FS.Walk(ctx, target, func(p string, d gofs.DirEntry, err error) error {
		n++
		if n == h.at {
			h.hook()
		}
		return fn(p, d, err)
	})
}

// hFault: a transfer with one injected fault, then a fault-free transfer into whatever was left behind.
func hFault(o Op) map[string]interface{} {
	dir := newScratch("fault")
	defer os.RemoveAll(dir)
	dest := filepath.Join(dir, "x", "y", "dest")
	if err := os.MkdirAll(dest, 0755); err != nil {
		return map[string]interface{}{"err": err.Error()}
	}
	if err := mktree(dest, treeFromJSON(o.arr("dst"))); err != nil {
		return map[string]interface{}{"err": "mktree dst: " + err.Error()}
	}
	log := &evLog{}
	fs, mfs, view, err := buildSource(o, dir, log)
	if err != nil {
		return map[string]interface{}{"err": "source: " + err.Error()}
	}
	before, err := snapshot(dest, true)
	if err != nil {
		return map[string]interface{}{"err": "snapshot: " + err.Error()}
	}
	f := Op(o["fault"].(map[string]interface{}))
	out := map[string]interface{}{"view": view, "before": snapsToJSON(before)}
	if f.str("kind") == "kill" {
		// the faulty run happens in a child process that SIGKILLs itself after k delivered packets
		b, _ := json.Marshal(map[string]interface{}(o))
		cmd := exec.Command("/proc/self/exe", "child", "faultkill", dest)
		cmd.Stdin = bytesReader(b)
		cmd.Env = append(os.Environ(), "VERIF_SCRATCH="+dir)
		cmd.Run()
		out["run1"] = map[string]interface{}{"send": "killed", "recv": "killed", "torn": false, "alive": 0}
	} else {
		xo := parseXferOpts(Op(o["opt"].(map[string]interface{})))
		parseFault(f, &xo, mfs)
		if f.str("kind") == "cancelS" && mfs == nil {
			// an on-disk source (the library's own walk): the hook sits in a wrapper around it
			cs := xo.cancelSend
			fs = &hookFS{FS: fs, at: f.num("at"), hook: func() {
				if cs != nil && *cs != nil {
					(*cs)()
				}
			}}
		}
		res := runXfer(fs, dest, xo, log)
		r1 := faultRunJSON(res)
		r1["log"] = logJSON(log, false)
		out["run1"] = r1
	}
	mid, err := snapshot(dest, true)
	if err != nil {
		return map[string]interface{}{"err": "snapshot mid: " + err.Error()}
	}
	out["mid"] = snapsToJSON(mid)
	// follow-up, fault-free, fresh source object (same content)
	log2 := &evLog{}
	var fs2 = fs
	if mfs != nil {
		fs2b, _, _, err := buildSource(o, dir+"/second", log2)
		if err != nil {
			return map[string]interface{}{"err": "source2: " + err.Error()}
		}
		fs2 = fs2b
	}
	xo2 := parseXferOpts(Op(o["opt"].(map[string]interface{})))
	res2 := runXfer(fs2, dest, xo2, log2)
	out["run2"] = faultRunJSON(res2)
	after, err := snapshot(dest, true)
	if err != nil {
		return map[string]interface{}{"err": "snapshot after: " + err.Error()}
	}
	out["after"] = snapsToJSON(after)
	return out
}

func childFaultKill(args []string) {
	dest := args[0]
	var o Op
	dec := json.NewDecoder(os.Stdin)
	dec.UseNumber()
	if err := dec.Decode(&o); err != nil {
		os.Exit(3)
	}
	log := &evLog{}
	fs, mfs, _, err := buildSource(o, os.Getenv("VERIF_SCRATCH")+"/killsrc", log)
	if err != nil {
		os.Exit(4)
	}
	xo := parseXferOpts(Op(o["opt"].(map[string]interface{})))
	parseFault(Op(o["fault"].(map[string]interface{})), &xo, mfs)
	xo.fault.teardown = 5 * time.Second
	runXfer(fs, dest, xo, log)
}

var _ = types.PACKET_STAT
