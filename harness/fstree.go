package main

import (
	"encoding/json"
	"fmt"
	"math/big"
	"os"
	"path/filepath"
	"sort"
	"syscall"
	"time"

	"golang.org/x/sys/unix"
)

// TreeEntry describes one entry to materialise. Paths are relative, '/'-separated.
type TreeEntry struct {
	Path      string
	Type      string // dir file symlink fifo chr blk hardlink sock
	Mode      uint32 // unix permission bits incl. 04000/02000/01000
	UID       int
	GID       int
	Mtime     int64 // ns
	Data      []byte
	Hole      int
	OpenErr   bool
	DirSize   int
	MtSec     int64 // with HasMtSec: a time stamp outside the range of int64 nanoseconds (before 1677 / after 2262), as seconds + MtNsec
	MtNsec    int64
	HasMtSec  bool
	LinkMtime int64 // (in-memory sources) a hard-link entry announced with a time stamp of its own
	ASize     int   // announced size of a regular file when HasASize (in-memory sources): the FS reports it, the readers deliver Data
	HasASize  bool
	Link      string // symlink target, or hard-link source path (relative to the tree root)
	Maj       uint32
	Min       uint32
	Xattr     [][2]string
}

func treeFromJSON(xs []interface{}) []TreeEntry {
	out := make([]TreeEntry, 0, len(xs))
	for _, x := range xs {
		m := Op(x.(map[string]interface{}))
		e := TreeEntry{Path: m.hex("p"), Type: m.str("t"), Mode: uint32(m.num("mode")), UID: m.num("uid"), GID: m.num("gid"),
			Mtime: num64(m["mt"]), Link: m.hex("ln"), Maj: uint32(m.num("maj")), Min: uint32(m.num("min"))}
		if d, ok := m["data"].(string); ok {
			e.Data = []byte(unhex(d))
		} else if n := m.num("size"); n > 0 {
			e.Data = patternData(e.Path, n)
		}
		// "hole": the file ends in that many bytes that were never written (a sparse tail); an in-memory source sees them as zeros
		e.Hole = m.num("hole")
		// "openerr": (in-memory sources) a regular entry of size 0 whose Open fails with ENXIO - what a unix socket in a real tree is
		// to the sender (announced as a regular file, cannot be opened)
		e.OpenErr = m.boolean("openerr")
		if e.Type == "dir" {
			e.DirSize = m.num("size")
		}
		if n, ok := m["mt"].(json.Number); ok {
			if _, err := n.Int64(); err != nil {
				if b, ok := new(big.Int).SetString(n.String(), 10); ok {
					sec, nsec := new(big.Int).DivMod(b, big.NewInt(1000000000), new(big.Int))
					e.MtSec, e.MtNsec, e.HasMtSec, e.Mtime = sec.Int64(), nsec.Int64(), true, 0
				}
			}
		}
		if e.Type == "hardlink" {
			e.LinkMtime = num64(m["lmt"])
		}
		if _, ok := m["asize"]; ok {
			e.ASize, e.HasASize = m.num("asize"), true
		}
		for _, kv := range m.arr("x") {
			a := kv.([]interface{})
			e.Xattr = append(e.Xattr, [2]string{unhex(a[0].(string)), unhex(a[1].(string))})
		}
		out = append(out, e)
	}
	return out
}

// patternData: deterministic content derived from the path (so that model/python can predict it: byte i = (seed+i*7) mod 251)
func patternData(path string, n int) []byte {
	seed := 0
	for i := 0; i < len(path); i++ {
		seed = (seed*31 + int(path[i])) % 251
	}
	b := make([]byte, n)
	for i := range b {
		b[i] = byte((seed + i*7) % 251)
	}
	return b
}

// mktree creates the entries below root (which must exist). Entries must list parents before children.
func mktree(root string, ents []TreeEntry) error {
	for _, e := range ents {
		p := filepath.Join(root, e.Path)
		switch e.Type {
		case "dir":
			if err := os.Mkdir(p, 0700); err != nil {
				return err
			}
		case "file":
			if err := os.WriteFile(p, e.Data, 0600); err != nil {
				return err
			}
			if e.Hole > 0 {
				if err := os.Truncate(p, int64(len(e.Data)+e.Hole)); err != nil {
					return err
				}
			}
		case "symlink":
			if err := os.Symlink(e.Link, p); err != nil {
				return err
			}
		case "hardlink":
			if err := os.Link(filepath.Join(root, e.Link), p); err != nil {
				return err
			}
			continue
		case "fifo":
			if err := syscall.Mkfifo(p, 0600); err != nil {
				return err
			}
		case "chr":
			if err := syscall.Mknod(p, syscall.S_IFCHR|0600, int(unix.Mkdev(e.Maj, e.Min))); err != nil {
				return err
			}
		case "blk":
			if err := syscall.Mknod(p, syscall.S_IFBLK|0600, int(unix.Mkdev(e.Maj, e.Min))); err != nil {
				return err
			}
		case "sock":
			if err := syscall.Mknod(p, syscall.S_IFSOCK|0600, 0); err != nil {
				return err
			}
		default:
			return fmt.Errorf("bad type %q", e.Type)
		}
	}
	// metadata: xattrs, owner, mode; then times deepest-first so directory mtimes stick
	for _, e := range ents {
		if e.Type == "hardlink" {
			continue
		}
		p := filepath.Join(root, e.Path)
		if err := os.Lchown(p, e.UID, e.GID); err != nil {
			return err
		}
		if e.Type != "symlink" {
			if err := syscall.Chmod(p, e.Mode); err != nil {
				return err
			}
		}
		// xattrs last: chown drops security.capability
		for _, kv := range e.Xattr {
			if err := unix.Lsetxattr(p, kv[0], []byte(kv[1]), 0); err != nil {
				return fmt.Errorf("setxattr %q %q: %w", e.Path, kv[0], err)
			}
		}
	}
	for i := len(ents) - 1; i >= 0; i-- {
		e := ents[i]
		if e.Type == "hardlink" {
			continue
		}
		p := filepath.Join(root, e.Path)
		ts := []unix.Timespec{unix.NsecToTimespec(e.Mtime), unix.NsecToTimespec(e.Mtime)}
		if e.HasMtSec {
			ts = []unix.Timespec{{Sec: e.MtSec, Nsec: e.MtNsec}, {Sec: e.MtSec, Nsec: e.MtNsec}}
		}
		if err := unix.UtimesNanoAt(unix.AT_FDCWD, p, ts, unix.AT_SYMLINK_NOFOLLOW); err != nil {
			return err
		}
	}
	return nil
}

// SnapEntry: independent lstat/readlink/listxattr view of one entry (no fsutil code involved).
type SnapEntry struct {
	Path    string
	Mode    uint32 // Go os.FileMode bits, computed here from st_mode
	Size    int64
	UID     uint32
	GID     uint32
	Mtime   int64
	MtBig   string // exact decimal nanoseconds when the time stamp does not fit int64 nanoseconds
	Link    string
	Maj     int64
	Min     int64
	Ino     uint64
	Nlink   uint64
	Xattr   [][2]string
	Content []byte // only when requested
}

func goMode(m uint32) uint32 {
	out := m & 0777
	switch m & syscall.S_IFMT {
	case syscall.S_IFDIR:
		out |= uint32(os.ModeDir)
	case syscall.S_IFLNK:
		out |= uint32(os.ModeSymlink)
	case syscall.S_IFIFO:
		out |= uint32(os.ModeNamedPipe)
	case syscall.S_IFSOCK:
		out |= uint32(os.ModeSocket)
	case syscall.S_IFCHR:
		out |= uint32(os.ModeDevice | os.ModeCharDevice)
	case syscall.S_IFBLK:
		out |= uint32(os.ModeDevice)
	}
	if m&syscall.S_ISUID != 0 {
		out |= uint32(os.ModeSetuid)
	}
	if m&syscall.S_ISGID != 0 {
		out |= uint32(os.ModeSetgid)
	}
	if m&syscall.S_ISVTX != 0 {
		out |= uint32(os.ModeSticky)
	}
	return out
}

// snapshot lists everything below root (not root itself), sorted bytewise by path, using raw syscalls.
func snapshot(root string, withContent bool) ([]SnapEntry, error) {
	var out []SnapEntry
	var rec func(rel string) error
	rec = func(rel string) error {
		dir := filepath.Join(root, rel)
		// never open anything but a directory (what is snapshotted may have been replaced by a FIFO, whose open would block)
		f, err := os.OpenFile(dir, os.O_RDONLY|syscall.O_DIRECTORY|syscall.O_NONBLOCK|syscall.O_NOFOLLOW, 0)
		if err != nil {
			return err
		}
		names, err := f.Readdirnames(-1)
		f.Close()
		if err != nil {
			return err
		}
		sort.Strings(names)
		for _, n := range names {
			r := n
			if rel != "" {
				r = rel + "/" + n
			}
			full := filepath.Join(root, r)
			var st syscall.Stat_t
			if err := syscall.Lstat(full, &st); err != nil {
				return err
			}
			e := SnapEntry{Path: r, Mode: goMode(st.Mode), Size: st.Size, UID: st.Uid, GID: st.Gid,
				Mtime: time.Unix(st.Mtim.Sec, st.Mtim.Nsec).UnixNano(), Ino: st.Ino, Nlink: uint64(st.Nlink)}
			if st.Mtim.Sec > 9223372035 || st.Mtim.Sec < -9223372035 {
				// outside the range of int64 nanoseconds: reported exactly, as a decimal number
				b := new(big.Int).Mul(big.NewInt(st.Mtim.Sec), big.NewInt(1000000000))
				e.MtBig = b.Add(b, big.NewInt(st.Mtim.Nsec)).String()
			}
			typ := st.Mode & syscall.S_IFMT
			if typ == syscall.S_IFCHR || typ == syscall.S_IFBLK {
				e.Maj = int64(unix.Major(uint64(st.Rdev)))
				e.Min = int64(unix.Minor(uint64(st.Rdev)))
			}
			if typ == syscall.S_IFLNK {
				l, err := os.Readlink(full)
				if err != nil {
					return err
				}
				e.Link = l
			}
			if typ == syscall.S_IFDIR {
				e.Size = 0
			}
			e.Xattr = listXattrs(full)
			if withContent && typ == syscall.S_IFREG {
				b, err := os.ReadFile(full)
				if err != nil {
					return err
				}
				e.Content = b
			}
			out = append(out, e)
			if typ == syscall.S_IFDIR {
				if err := rec(r); err != nil {
					return err
				}
			}
		}
		return nil
	}
	if err := rec(""); err != nil {
		return nil, err
	}
	return out, nil
}

func listXattrs(p string) [][2]string {
	sz, err := unix.Llistxattr(p, nil)
	if err != nil || sz <= 0 {
		return nil
	}
	buf := make([]byte, sz)
	sz, err = unix.Llistxattr(p, buf)
	if err != nil {
		return nil
	}
	var out [][2]string
	start := 0
	for i := 0; i < sz; i++ {
		if buf[i] == 0 {
			k := string(buf[start:i])
			start = i + 1
			vs, err := unix.Lgetxattr(p, k, nil)
			if err != nil {
				continue
			}
			v := make([]byte, vs)
			if vs > 0 {
				n, err := unix.Lgetxattr(p, k, v)
				if err != nil {
					continue
				}
				v = v[:n]
			}
			out = append(out, [2]string{k, string(v)})
		}
	}
	sort.Slice(out, func(i, j int) bool { return out[i][0] < out[j][0] })
	return out
}

func snapToJSON(s SnapEntry) map[string]interface{} {
	m := map[string]interface{}{"p": hx(s.Path), "mode": s.Mode, "size": s.Size, "uid": s.UID, "gid": s.GID, "mt": s.Mtime,
		"ln": hx(s.Link), "dmaj": s.Maj, "dmin": s.Min, "ino": s.Ino, "nlink": s.Nlink}
	if s.MtBig != "" {
		m["mt"] = json.Number(s.MtBig)
	}
	if len(s.Xattr) > 0 {
		xs := []interface{}{}
		for _, kv := range s.Xattr {
			xs = append(xs, []interface{}{hx(kv[0]), hx(kv[1])})
		}
		m["x"] = xs
	}
	if s.Content != nil {
		m["sha"] = shaShort(s.Content)
	}
	return m
}

func snapsToJSON(ss []SnapEntry) []interface{} {
	out := make([]interface{}, 0, len(ss))
	for _, s := range ss {
		out = append(out, snapToJSON(s))
	}
	return out
}

var scratchSeq int

func newScratch(prefix string) string {
	base := os.Getenv("VERIF_SCRATCH")
	if base == "" {
		base = os.TempDir()
	}
	d, err := os.MkdirTemp(base, prefix)
	if err != nil {
		panic(err)
	}
	return d
}
