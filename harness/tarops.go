package main

import (
	"archive/tar"
	"bytes"
	"context"
	"io"
	"os"
	"os/exec"
	"path/filepath"
	"sort"
	"strings"
	"syscall"

	"github.com/tonistiigi/fsutil"
)

func init() {
	handlers["tar"] = hTar
}

func tfName(b byte) string {
	switch b {
	case tar.TypeReg, tar.TypeRegA:
		return "reg"
	case tar.TypeDir:
		return "dir"
	case tar.TypeSymlink:
		return "symlink"
	case tar.TypeLink:
		return "link"
	case tar.TypeChar:
		return "chr"
	case tar.TypeBlock:
		return "blk"
	case tar.TypeFifo:
		return "fifo"
	}
	return "other"
}

// hTar: WriteTar over a view; the archive is read back with archive/tar
func hTar(o Op) map[string]interface{} {
	dir := ""
	src := Op(o["src"].(map[string]interface{}))
	if src.str("kind") == "disk" {
		dir = newScratch("tar")
		defer os.RemoveAll(dir)
	}
	fs, _, view, err := buildSource(o, dir, nil)
	if err != nil {
		return map[string]interface{}{"err": "source: " + err.Error()}
	}
	var buf bytes.Buffer
	werr := fsutil.WriteTar(context.Background(), fs, &buf)
	res := map[string]interface{}{"view": view}
	if werr != nil {
		res["werr"] = werr.Error()
		return res
	}
	if so, ok := o["sink"].(map[string]interface{}); ok {
		// the same export into a sink that fails after a given number of bytes (counted from the end of the complete archive, or as
		// a share of it): an archive that was cut short must never be reported as written
		sf := Op(so)
		total := buf.Len()
		limit := total - sf.num("from_end")
		if _, ok := so["permille"]; ok {
			limit = total * sf.num("permille") / 1000
		}
		if limit < 0 {
			limit = 0
		}
		if limit < total {
			lw := &limitWriter{left: limit, chunk: sf.num("chunk")}
			err2 := fsutil.WriteTar(context.Background(), fs, lw)
			m := map[string]interface{}{"limit": limit, "total": total, "err": ""}
			if err2 != nil {
				m["err"] = err2.Error()
			}
			res["sink"] = m
		}
	}
	tr := tar.NewReader(bytes.NewReader(buf.Bytes()))
	members := []interface{}{}
	for {
		h, err := tr.Next()
		if err == io.EOF {
			break
		}
		if err != nil {
			res["readerr"] = err.Error()
			break
		}
		payload, err := io.ReadAll(tr)
		if err != nil {
			res["readerr"] = err.Error()
			break
		}
		xs := [][2]string{}
		for k, v := range h.PAXRecords {
			if strings.HasPrefix(k, "SCHILY.xattr.") {
				xs = append(xs, [2]string{strings.TrimPrefix(k, "SCHILY.xattr."), v})
			}
		}
		sort.Slice(xs, func(i, j int) bool { return xs[i][0] < xs[j][0] })
		xj := []interface{}{}
		for _, kv := range xs {
			xj = append(xj, []interface{}{hx(kv[0]), hx(kv[1])})
		}
		m := map[string]interface{}{"name": hx(h.Name), "tf": tfName(h.Typeflag), "size": h.Size, "perm": h.Mode & 07777, "uid": h.Uid, "gid": h.Gid,
			"mt": h.ModTime.Unix(), "mtns": h.ModTime.Nanosecond(), "ln": hx(h.Linkname), "dmaj": h.Devmajor, "dmin": h.Devminor, "x": xj, "sha": ""}
		if len(payload) > 0 {
			m["sha"] = shaShort(payload)
		}
		m["paylen"] = len(payload)
		members = append(members, m)
	}
	res["members"] = members
	if o.boolean("extract") {
		// "extracting it reproduces the view": hand the archive to an independent extractor (GNU tar, as root) and snapshot the result
		xdir := newScratch("untar")
		defer func() { exec.Command("rm", "-rf", xdir).Run() }()
		arch := filepath.Join(xdir, "a.tar")
		out := filepath.Join(xdir, "out")
		if err := os.WriteFile(arch, buf.Bytes(), 0600); err != nil {
			res["xerr"] = err.Error()
			return res
		}
		os.Mkdir(out, 0755)
		cmd := exec.Command("tar", "-x", "-p", "--same-owner", "--numeric-owner", "--xattrs", "--xattrs-include=*", "--delay-directory-restore", "-f", arch, "-C", out)
		cmd.Env = append(os.Environ(), "LC_ALL=C")
		if b, err := cmd.CombinedOutput(); err != nil {
			res["xerr"] = err.Error() + ": " + string(b)
			return res
		}
		snap, err := snapshot(out, true)
		if err != nil {
			res["xerr"] = "snapshot: " + err.Error()
			return res
		}
		res["extracted"] = snapsToJSON(snap)
	}
	return res
}

// limitWriter accepts `left` bytes and fails from then on (a full disk, a closed pipe); with chunk > 0 it also accepts at most
// that many bytes per call (a short write is an error for the caller as well: io.ErrShortWrite)
type limitWriter struct {
	left  int
	chunk int
}

func (w *limitWriter) Write(p []byte) (int, error) {
	if w.left <= 0 {
		return 0, syscall.ENOSPC
	}
	n := len(p)
	if n > w.left {
		n = w.left
	}
	w.left -= n
	if n < len(p) {
		return n, syscall.ENOSPC
	}
	return n, nil
}
