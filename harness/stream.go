package main

import (
	"context"
	"crypto/sha256"
	"encoding/hex"
	"errors"
	"io"
	"math/rand"
	"runtime"
	"sync"
	"sync/atomic"
	"time"

	"github.com/tonistiigi/fsutil/types"
)

// ---------------------------------------------------------------- event log (boundary events)

type logEv struct {
	Seq  int                    `json:"seq"`
	End  string                 `json:"end"`  // "S" sender side, "R" receiver side
	Kind string                 `json:"kind"` // send recv(delivered) senderr recverr open read close notify hasher return cancel teardown
	Typ  string                 `json:"typ,omitempty"`
	ID   uint32                 `json:"id"`
	Path string                 `json:"path,omitempty"` // hex
	N    int                    `json:"n,omitempty"`    // payload length
	Sha  string                 `json:"sha,omitempty"`  // payload sha256 (hex, first 16 bytes)
	Stat map[string]interface{} `json:"stat,omitempty"`
}

type evLog struct {
	mu   sync.Mutex
	evs  []logEv
	last int64 // time of the latest event (unix ns): the progress watchdog looks at it
	reqs int32 // REQ packets handed to the stream so far
}

func (l *evLog) idleFor() time.Duration {
	t := atomic.LoadInt64(&l.last)
	if t == 0 {
		return 0
	}
	return time.Since(time.Unix(0, t))
}

func (l *evLog) add(e logEv) int {
	atomic.StoreInt64(&l.last, time.Now().UnixNano())
	if e.Typ == "REQ" && e.Kind == "send" {
		atomic.AddInt32(&l.reqs, 1)
	}
	l.mu.Lock()
	e.Seq = len(l.evs)
	l.evs = append(l.evs, e)
	l.mu.Unlock()
	return e.Seq
}

func (l *evLog) snapshot() []logEv {
	l.mu.Lock()
	defer l.mu.Unlock()
	out := make([]logEv, len(l.evs))
	copy(out, l.evs)
	return out
}

func shaShort(b []byte) string {
	h := sha256.Sum256(b)
	return hex.EncodeToString(h[:16])
}

func pktEv(end, kind string, p *types.Packet) logEv {
	e := logEv{End: end, Kind: kind, Typ: p.Type.String()[7:], ID: p.ID}
	if p.Stat != nil {
		e.Stat = statToJSON(p.Stat)
	}
	if p.Type == types.PACKET_DATA {
		e.N = len(p.Data)
		e.Sha = shaShort(p.Data)
	} else if len(p.Data) > 0 {
		e.N = len(p.Data)
	}
	return e
}

// ---------------------------------------------------------------- stream

var errTorn = errors.New("verif: stream torn down")
var errPeerGone = errors.New("verif: peer has gone away")
var errInjected = errors.New("verif: injected stream fault")

type streamCfg struct {
	Cap       int // channel capacity per direction
	DelayUS   int // max random delay per call (microseconds); 0 = none
	Window    int // overlap-detector hold window: number of Gosched yields while "in call"
	LingerUS  int // a SendMsg that delivered a REQ or a STAT returns only after this many microseconds (the peer may answer meanwhile)
	Seed      int64
	FailSendS int // n-th SendMsg on the sender end fails (1-based; 0 = never)
	FailRecvS int
	FailSendR int
	FailRecvR int
	DieRecvR  int // the receiver's process "dies" at its n-th RecvMsg: nothing it sends afterwards is delivered, the peer reads EOF
	DieSendS  int // the sender's process "dies" at its n-th SendMsg
}

type pipeShared struct {
	torn     chan struct{}
	tornOnce sync.Once
	log      *evLog
}

func (s *pipeShared) teardown() {
	s.tornOnce.Do(func() {
		s.log.add(logEv{End: "-", Kind: "teardown"})
		close(s.torn)
	})
}

type endpoint struct {
	name     string
	ctx      context.Context
	in       chan []byte
	out      chan []byte
	sh       *pipeShared
	cfg      *streamCfg
	failSend int
	failRecv int
	dieSend  int
	dieRecv  int
	dead     int32
	sendN    int32
	recvN    int32
	inSend   int32
	inRecv   int32
	overlapS int32
	overlapR int32
	rngMu    sync.Mutex
	rng      *rand.Rand
	outOnce  sync.Once
	peer     *endpoint
	returned int32
	late     int32         // stream calls made after the function using this end returned
	gone     chan struct{} // closed when the function using this end has returned: the peer's sends fail from then on
	// hook called with every packet delivered to this end (after unmarshal), may block (gates)
	onRecv func(*types.Packet)
	onSend func(*types.Packet)
}

func newPipe(ctx context.Context, cfg *streamCfg, log *evLog) (*endpoint, *endpoint, *pipeShared) {
	c1 := make(chan []byte, cfg.Cap)
	c2 := make(chan []byte, cfg.Cap)
	sh := &pipeShared{torn: make(chan struct{}), log: log}
	s := &endpoint{name: "S", ctx: ctx, in: c2, out: c1, sh: sh, cfg: cfg, failSend: cfg.FailSendS, failRecv: cfg.FailRecvS, dieSend: cfg.DieSendS, rng: rand.New(rand.NewSource(cfg.Seed*2 + 1))}
	r := &endpoint{name: "R", ctx: ctx, in: c1, out: c2, sh: sh, cfg: cfg, failSend: cfg.FailSendR, failRecv: cfg.FailRecvR, dieRecv: cfg.DieRecvR, rng: rand.New(rand.NewSource(cfg.Seed*2 + 2))}
	s.gone = make(chan struct{})
	r.gone = make(chan struct{})
	s.peer, r.peer = r, s
	return s, r, sh
}

func (e *endpoint) Context() context.Context { return e.ctx }

// closeSend marks the function using this end as returned: the peer reads EOF once the buffered packets
// are drained, the peer's sends fail, and any later call on this end is counted as a late call (a goroutine
// of the returned function is still alive).
func (e *endpoint) closeSend() {
	e.outOnce.Do(func() { atomic.StoreInt32(&e.returned, 1); close(e.gone) })
}

// die: the process using this end is gone (killed): whatever it still tries to send is lost, its calls fail, and the peer
// reads end-of-stream once the packets already in flight are drained
func (e *endpoint) die() {
	if atomic.CompareAndSwapInt32(&e.dead, 0, 1) {
		e.sh.log.add(logEv{End: e.name, Kind: "died"})
		e.outOnce.Do(func() { close(e.gone) })
	}
}

func (e *endpoint) pause() {
	if e.cfg.DelayUS > 0 {
		e.rngMu.Lock()
		d := e.rng.Intn(e.cfg.DelayUS + 1)
		e.rngMu.Unlock()
		if d > 0 {
			time.Sleep(time.Duration(d) * time.Microsecond)
		}
	}
	for i := 0; i < e.cfg.Window; i++ {
		runtime.Gosched()
	}
}

func (e *endpoint) SendMsg(m interface{}) error {
	p, ok := m.(*types.Packet)
	if !ok {
		return errors.New("invalid msg")
	}
	if atomic.AddInt32(&e.inSend, 1) > 1 {
		atomic.AddInt32(&e.overlapS, 1)
	}
	defer atomic.AddInt32(&e.inSend, -1)
	n := int(atomic.AddInt32(&e.sendN, 1))
	if atomic.LoadInt32(&e.returned) != 0 {
		atomic.AddInt32(&e.late, 1)
		return errTorn
	}
	if e.dieSend != 0 && n >= e.dieSend {
		e.die()
	}
	if atomic.LoadInt32(&e.dead) != 0 {
		return errTorn
	}
	e.pause()
	select {
	case <-e.sh.torn:
		return errTorn
	default:
	}
	if e.failSend != 0 && n >= e.failSend {
		e.sh.log.add(logEv{End: e.name, Kind: "senderr", N: n})
		return errInjected
	}
	dt, err := p.Marshal()
	if err != nil {
		return err
	}
	if e.onSend != nil {
		e.onSend(p)
	}
	e.sh.log.add(pktEv(e.name, "send", p))
	select {
	case e.out <- dt:
		if e.cfg.LingerUS > 0 && (p.Type == types.PACKET_REQ || p.Type == types.PACKET_STAT) {
			// the packet is on its way, the caller has not got control back yet: whatever the caller does "after sending"
			// now races with the peer's answer
			time.Sleep(time.Duration(e.cfg.LingerUS) * time.Microsecond)
		}
		return nil
	case <-e.sh.torn:
		return errTorn
	case <-e.peer.gone:
		return errPeerGone
	}
}

func (e *endpoint) RecvMsg(m interface{}) error {
	p, ok := m.(*types.Packet)
	if !ok {
		return errors.New("invalid msg")
	}
	if atomic.AddInt32(&e.inRecv, 1) > 1 {
		atomic.AddInt32(&e.overlapR, 1)
	}
	defer atomic.AddInt32(&e.inRecv, -1)
	n := int(atomic.AddInt32(&e.recvN, 1))
	if atomic.LoadInt32(&e.returned) != 0 {
		atomic.AddInt32(&e.late, 1)
		return errTorn
	}
	if e.dieRecv != 0 && n >= e.dieRecv {
		e.die()
	}
	if atomic.LoadInt32(&e.dead) != 0 {
		return errTorn
	}
	e.pause()
	if e.failRecv != 0 && n >= e.failRecv {
		e.sh.log.add(logEv{End: e.name, Kind: "recverr", N: n})
		return errInjected
	}
	var dt []byte
	select {
	case <-e.sh.torn:
		return errTorn
	case dt = <-e.in:
	case <-e.peer.gone:
		// peer returned: deliver what is still buffered, then EOF
		select {
		case dt = <-e.in:
		default:
			return io.EOF
		}
	}
	if err := p.Unmarshal(dt); err != nil {
		return err
	}
	e.sh.log.add(pktEv(e.name, "recv", p))
	if e.onRecv != nil {
		e.onRecv(p)
	}
	return nil
}
