package main

import (
	"context"
	"encoding/json"
	"io"
	"os"
	"os/exec"
	"path/filepath"
	"sync"
	"syscall"
	"time"

	"github.com/tonistiigi/fsutil"
	"github.com/tonistiigi/fsutil/types"
	"strconv"
	"sync/atomic"
)

func init() {
	handlers["recvproto"] = hRecvProto
	handlers["hostile"] = hHostile
	childCmds["hostile"] = childHostile
}

func receiveOptFrom(o xferOpts, res *xferResult, mu *sync.Mutex) fsutil.ReceiveOpt {
	ropt := fsutil.ReceiveOpt{Merge: o.merge}
	if o.differNone {
		ropt.Differ = fsutil.DiffNone
	}
	if o.metaOnly != nil {
		ropt.MetadataOnly = func(p string, st *types.Stat) bool { return o.metaOnly[p] }
	}
	return ropt
}

// hRecvProto: real fsutil.Receive into an on-disk destination against the independent reference sender.
func hRecvProto(o Op) map[string]interface{} {
	dir := newScratch("recvp")
	defer os.RemoveAll(dir)
	dest := filepath.Join(dir, "dest")
	if err := os.MkdirAll(dest, 0755); err != nil {
		return map[string]interface{}{"err": err.Error()}
	}
	if err := mktree(dest, treeFromJSON(o.arr("dst"))); err != nil {
		return map[string]interface{}{"err": "mktree dst: " + err.Error()}
	}
	log := &evLog{}
	src := Op(o["src"].(map[string]interface{}))
	mfs := newMemFS(treeFromJSON(src.arr("tree")), nil)
	// optional payload override: id -> length of the payload actually sent (pattern bytes), to decouple payload from stat.Size
	files := make([]refFile, 0, len(mfs.ents))
	for _, e := range mfs.ents {
		d := e.data
		if e.st.Linkname != "" && os.FileMode(e.st.Mode)&os.ModeType == 0 {
			d = memBytes(mfs, e.st.Path)
		}
		files = append(files, refFile{st: e.st, data: d})
	}
	for _, ov := range o.arr("payload") {
		a := ov.([]interface{})
		id := int(num64(a[0]))
		if id < len(files) {
			files[id].data = patternData("override", int(num64(a[1])))
		}
	}
	before, err := snapshot(dest, true)
	if err != nil {
		return map[string]interface{}{"err": "snapshot: " + err.Error()}
	}
	opt := Op(o["opt"].(map[string]interface{}))
	xo := parseXferOpts(opt)
	ref := Op(o["ref"].(map[string]interface{}))
	rcfg := refSenderCfg{Chunk: intList(ref.arr("chunk")), Interleave: ref.str("interleave"), Eager: ref.boolean("eager"),
		Seed: int64(ref.num("seed")), EOFBeforeFin: ref.boolean("eof_before_fin")}
	ctx, cancel := context.WithCancel(context.Background())
	defer cancel()
	s, r, sh := newPipe(ctx, &xo.cfg, log)
	// snapshot the destination at the moment FIN reaches the sender: all content must be on disk by then
	var atFin []SnapEntry
	s.onRecv = func(p *types.Packet) {
		if p.Type == types.PACKET_FIN && atFin == nil {
			atFin, _ = snapshot(dest, true)
			if atFin == nil {
				atFin = []SnapEntry{}
			}
		}
	}
	var recvErr, sendErr error
	recvRet := false
	done := make(chan int, 2)
	var mu sync.Mutex
	res := &xferResult{}
	go func() {
		sendErr = runRefSender(s, files, rcfg)
		log.add(logEv{End: "S", Kind: "return", N: b2i(sendErr != nil)})
		s.closeSend()
		done <- 1
	}()
	go func() {
		recvErr = fsutil.Receive(ctx, r, dest, receiveOptFrom(xo, res, &mu))
		recvRet = true
		log.add(logEv{End: "R", Kind: "return", N: b2i(recvErr != nil)})
		r.closeSend()
		done <- 2
	}()
	blocked := waitBoth(done, sh, 20*time.Second)
	alive, aliveAt := waitQuiesce(300 * time.Millisecond)
	after, err := snapshot(dest, true)
	if err != nil {
		return map[string]interface{}{"err": "snapshot after: " + err.Error()}
	}
	view := mfs.view()
	// content actually sent per id (sha), for ids whose payload was overridden or not
	sentSha := map[string]interface{}{}
	for i, f := range files {
		if os.FileMode(f.st.Mode)&os.ModeType == 0 {
			sentSha[itoa(i)] = shaShort(f.data)
		}
	}
	out := map[string]interface{}{"recv": errClass(recvErr, recvRet), "view": view, "before": snapsToJSON(before), "after": snapsToJSON(after),
		"log": logJSON(log, false), "blocked": blocked, "sentsha": sentSha, "late": []int32{s.late, r.late}, "alive": alive, "alive_at": aliveAt,
		"overlaps": []int32{s.overlapS, s.overlapR, r.overlapS, r.overlapR}}
	if atFin != nil {
		out["atfin"] = snapsToJSON(atFin)
	}
	if recvErr != nil {
		out["recverr"] = recvErr.Error()
	}
	if sendErr != nil {
		out["refsender"] = sendErr.Error()
	}
	return out
}

func waitBoth(done chan int, sh *pipeShared, to time.Duration) bool {
	timer := time.NewTimer(to)
	n := 0
	blocked := false
	for n < 2 {
		select {
		case <-done:
			n++
		case <-timer.C:
			blocked = true
			sh.teardown()
			t2 := time.NewTimer(5 * time.Second)
			for n < 2 {
				select {
				case <-done:
					n++
				case <-t2.C:
					n = 2
				}
			}
		}
	}
	return blocked
}

// ---------------------------------------------------------------- hostile sender, in a chroot'ed child process

// layout of the jail:  /outside/... (sentinels)  /x/sent (sentinel file)  /x/y/dest (destination)  /x/y/sib (sentinel)
func hHostile(o Op) map[string]interface{} {
	dir := newScratch("host")
	defer func() {
		exec.Command("rm", "-rf", dir).Run()
	}()
	jail := filepath.Join(dir, "jail")
	dest := filepath.Join(jail, "x", "y", "dest")
	for _, d := range []string{filepath.Join(jail, "outside", "d"), filepath.Join(jail, "x", "y", "sib"), dest} {
		if err := os.MkdirAll(d, 0755); err != nil {
			return map[string]interface{}{"err": err.Error()}
		}
	}
	os.WriteFile(filepath.Join(jail, "outside", "f"), []byte("sentinel"), 0644)
	os.WriteFile(filepath.Join(jail, "outside", "d", "g"), []byte("sentinel2"), 0600)
	os.WriteFile(filepath.Join(jail, "x", "sent"), []byte("s"), 0644)
	os.WriteFile(filepath.Join(jail, "x", "y", "sib", "h"), []byte("sib"), 0644)
	os.Symlink("outside/f", filepath.Join(jail, "lnk"))
	if err := mktree(dest, treeFromJSON(o.arr("dst"))); err != nil {
		return map[string]interface{}{"err": "mktree dst: " + err.Error()}
	}
	t0 := int64(1500000000_000000000)
	// fix all times outside dest so that any touch shows
	filepath.Walk(jail, func(p string, fi os.FileInfo, err error) error {
		if err == nil && (len(p) < len(dest) || p[:len(dest)] != dest) {
			chtimesNoFollow(p, t0)
		}
		return nil
	})
	chtimesNoFollow(dest, t0)
	outsideBefore := snapshotOutside(jail, "x/y/dest")
	destEntryBefore := lstatJSON(dest)
	before, _ := snapshot(dest, true)
	b, _ := json.Marshal(map[string]interface{}(o))
	cmd := exec.Command("/proc/self/exe", "child", "hostile", jail)
	cmd.Stdin = bytesReader(b)
	cmd.Env = append(os.Environ(), "GOMEMLIMIT=1GiB")
	outb, err := cmd.Output()
	res := map[string]interface{}{}
	if err != nil || json.Unmarshal(outb, &res) != nil {
		msg := ""
		if ee, ok := err.(*exec.ExitError); ok {
			msg = string(ee.Stderr)
			if len(msg) > 400 {
				msg = msg[len(msg)-400:]
			}
		}
		res = map[string]interface{}{"recv": "panic", "crash": msg}
	}
	after, _ := snapshot(dest, true)
	res["before"] = snapsToJSON(before)
	res["after"] = snapsToJSON(after)
	outsideAfter := snapshotOutside(jail, "x/y/dest")
	res["outside_changed"] = diffOutside(outsideBefore, outsideAfter)
	// the destination directory's own entry: type/owner/mode/inode must stay (its mtime may change: entries are created in it)
	da := lstatJSON(dest)
	for _, k := range []string{"mode", "uid", "gid", "ino"} {
		if destEntryBefore[k] != da[k] {
			res["outside_changed"] = append(res["outside_changed"].([]string), "dest entry "+k)
		}
	}
	return res
}

func lstatJSON(p string) map[string]interface{} {
	var st syscall.Stat_t
	if err := syscall.Lstat(p, &st); err != nil {
		return map[string]interface{}{"missing": true}
	}
	return map[string]interface{}{"mode": st.Mode, "uid": st.Uid, "gid": st.Gid, "ino": st.Ino}
}

func chtimesNoFollow(p string, ns int64) {
	ts := []syscall.Timespec{syscall.NsecToTimespec(ns), syscall.NsecToTimespec(ns)}
	utimensat(p, ts)
}

type outsideEnt struct {
	Mode  uint32
	UID   uint32
	GID   uint32
	Ino   uint64
	Mtime int64
	Ctime int64
	Size  int64
	Link  string
	Xattr string
	Sha   string
}

func snapshotOutside(jail, skipRel string) map[string]outsideEnt {
	out := map[string]outsideEnt{}
	skip := filepath.Join(jail, skipRel)
	filepath.Walk(jail, func(p string, fi os.FileInfo, err error) error {
		if err != nil {
			return nil
		}
		if p == skip {
			return filepath.SkipDir
		}
		var st syscall.Stat_t
		if syscall.Lstat(p, &st) != nil {
			return nil
		}
		rel, _ := filepath.Rel(jail, p)
		e := outsideEnt{Mode: st.Mode, UID: st.Uid, GID: st.Gid, Ino: st.Ino, Mtime: st.Mtim.Nano(), Ctime: st.Ctim.Nano(), Size: st.Size}
		// the directory that contains dest: its entry list is compared separately (names), its times may not change either
		if st.Mode&syscall.S_IFMT == syscall.S_IFLNK {
			e.Link, _ = os.Readlink(p)
		}
		if st.Mode&syscall.S_IFMT == syscall.S_IFREG {
			b, _ := os.ReadFile(p)
			e.Sha = shaShort(b)
		}
		xs := listXattrs(p)
		xb, _ := json.Marshal(xs)
		e.Xattr = string(xb)
		out[rel] = e
		return nil
	})
	return out
}

func diffOutside(a, b map[string]outsideEnt) []string {
	out := []string{}
	for k, v := range a {
		w, ok := b[k]
		if !ok {
			out = append(out, "removed "+k)
		} else if v != w {
			out = append(out, "changed "+k)
		}
	}
	for k := range b {
		if _, ok := a[k]; !ok {
			out = append(out, "created "+k)
		}
	}
	return out
}

type scriptPkt struct {
	p *types.Packet
}

func parseScript(xs []interface{}) []*types.Packet {
	var out []*types.Packet
	for _, x := range xs {
		m := Op(x.(map[string]interface{}))
		switch m.str("t") {
		case "STAT":
			if st, ok := m["stat"]; ok && st != nil {
				out = append(out, &types.Packet{Type: types.PACKET_STAT, Stat: statFromJSON(st)})
			} else {
				out = append(out, &types.Packet{Type: types.PACKET_STAT})
			}
		case "DATA":
			var d []byte
			if h, ok := m["data"].(string); ok {
				d = []byte(unhex(h))
			} else if n := m.num("n"); n > 0 {
				d = patternData("script", n)
			}
			out = append(out, &types.Packet{Type: types.PACKET_DATA, ID: uint32(m.num("id")), Data: d})
		case "FIN":
			out = append(out, &types.Packet{Type: types.PACKET_FIN})
		case "ERR":
			out = append(out, &types.Packet{Type: types.PACKET_ERR, Data: []byte("boom")})
		case "REQ":
			out = append(out, &types.Packet{Type: types.PACKET_REQ, ID: uint32(m.num("id"))})
		}
	}
	return out
}

// childHostile: chroot into the jail, then run Receive("/x/y/dest") against the scripted peer.
func childHostile(args []string) {
	jail := args[0]
	var o Op
	dec := json.NewDecoder(os.Stdin)
	dec.UseNumber()
	if err := dec.Decode(&o); err != nil {
		os.Exit(3)
	}
	if err := syscall.Chroot(jail); err != nil {
		os.Exit(4)
	}
	os.Chdir("/")
	log := &evLog{}
	opt := Op(o["opt"].(map[string]interface{}))
	xo := parseXferOpts(opt)
	script := parseScript(o.arr("script"))
	answer := o.boolean("answer") // answer REQs for regular files with pattern data of stat.Size, then FIN handshake
	// after_eof: {id: n} - once the request for id has been answered and terminated, n more content bytes are sent for the same id
	afterEOF := map[uint32]int{}
	if m, ok := o["after_eof"].(map[string]interface{}); ok {
		for k, v := range m {
			if id, err := strconv.Atoi(k); err == nil {
				afterEOF[uint32(id)] = int(num64(v))
			}
		}
	}
	var afterEOFSent int32
	ctx, cancel := context.WithCancel(context.Background())
	defer cancel()
	s, r, sh := newPipe(ctx, &xo.cfg, log)
	var recvErr error
	recvRet := false
	done := make(chan int, 2)
	go func() {
		defer func() { s.closeSend(); done <- 1 }()
		// reader for REQ/FIN coming back
		type back struct {
			p   types.Packet
			err error
		}
		backC := make(chan back, 1024)
		go func() {
			for {
				var p types.Packet
				err := s.RecvMsg(&p)
				backC <- back{p, err}
				if err != nil {
					return
				}
			}
		}()
		sizes := map[uint32]int{}
		idx := uint32(0)
		for _, p := range script {
			if p.Type == types.PACKET_STAT && p.Stat != nil {
				sizes[idx] = int(p.Stat.Size)
				idx++
			}
			if err := s.SendMsg(p); err != nil {
				return
			}
		}
		if !answer {
			// give the receiver time to process, then hang up
			deadline := time.After(300 * time.Millisecond)
			for {
				select {
				case b := <-backC:
					if b.err != nil {
						return
					}
				case <-deadline:
					return
				}
			}
		}
		for {
			select {
			case b := <-backC:
				if b.err != nil {
					return
				}
				switch b.p.Type {
				case types.PACKET_REQ:
					n := sizes[b.p.ID]
					if n > 0 && n < 1<<20 {
						if s.SendMsg(&types.Packet{Type: types.PACKET_DATA, ID: b.p.ID, Data: patternData("script", n)}) != nil {
							return
						}
					}
					if s.SendMsg(&types.Packet{Type: types.PACKET_DATA, ID: b.p.ID}) != nil {
						return
					}
					if n, ok := afterEOF[b.p.ID]; ok {
						delete(afterEOF, b.p.ID)
						atomic.AddInt32(&afterEOFSent, 1)
						if s.SendMsg(&types.Packet{Type: types.PACKET_DATA, ID: b.p.ID, Data: patternData("late", n)}) != nil {
							return
						}
						s.SendMsg(&types.Packet{Type: types.PACKET_DATA, ID: b.p.ID})
					}
				case types.PACKET_FIN:
					s.SendMsg(&types.Packet{Type: types.PACKET_FIN})
					return
				case types.PACKET_ERR:
					return
				}
			case <-time.After(3 * time.Second):
				return
			}
		}
	}()
	go func() {
		recvErr = fsutil.Receive(ctx, r, "/x/y/dest", receiveOptFrom(xo, nil, nil))
		recvRet = true
		r.closeSend()
		done <- 2
	}()
	blocked := waitBoth(done, sh, 15*time.Second)
	alive, aliveAt := waitQuiesce(300 * time.Millisecond)
	out := map[string]interface{}{"recv": errClass(recvErr, recvRet), "blocked": blocked, "log": logJSON(log, false),
		"late": []int32{s.late, r.late}, "alive": alive, "alive_at": aliveAt, "after_eof_sent": atomic.LoadInt32(&afterEOFSent)}
	if recvErr != nil {
		out["recverr"] = recvErr.Error()
	}
	b, _ := json.Marshal(out)
	os.Stdout.Write(b)
}

var _ = io.EOF
