package main

import (
	"context"
	"errors"
	"io"
	gofs "io/fs"
	"os"
	"path/filepath"
	"strings"
	"sync"
	"syscall"
	"time"

	"github.com/tonistiigi/fsutil"
	"github.com/tonistiigi/fsutil/types"
)

// memFS: synthetic in-memory fsutil.FS (a listing of stats in protocol order + contents).
type memEntry struct {
	st      *types.Stat
	data    []byte
	openErr bool
}

type memFS struct {
	ents []memEntry
	idx  map[string]int
	log  *evLog
	// fault/gating
	mu            sync.Mutex
	walkFailAt    int           // fail the walk at entry k (1-based; 0 = never)
	walkFailErrno syscall.Errno // 0: the walk itself returns an error; else: entry k is handed to the callback with this errno
	readFailKey   string        // path whose read fails ...
	readFailOff   int           // ... after this many bytes
	readSizes     []int         // cyclic schedule of read sizes (0 = whatever fits)
	readN         int
	eofWithData   bool         // readers return their last bytes together with io.EOF
	walkHookAt    int          // call walkHook when the walk reaches entry k (1-based; 0 = never)
	walkHook      func()       // e.g. cancels the context of the Send call only
	openGate      func(string) // called in Open (may block)
	readDelay     time.Duration
}

func unixTypeBits(t string) uint32 {
	switch t {
	case "dir":
		return syscall.S_IFDIR
	case "symlink":
		return syscall.S_IFLNK
	case "fifo":
		return syscall.S_IFIFO
	case "chr":
		return syscall.S_IFCHR
	case "blk":
		return syscall.S_IFBLK
	case "sock":
		return syscall.S_IFSOCK
	}
	return syscall.S_IFREG
}

func newMemFS(ents []TreeEntry, log *evLog) *memFS {
	fs := &memFS{idx: map[string]int{}, log: log}
	byPath := map[string]*memEntry{}
	for _, e := range ents {
		st := &types.Stat{Path: e.Path, Uid: uint32(e.UID), Gid: uint32(e.GID), ModTime: e.Mtime}
		var data []byte
		if e.Type == "hardlink" {
			src := byPath[e.Link]
			if src == nil {
				continue
			}
			st = src.st.Clone()
			st.Path = e.Path
			if e.LinkMtime != 0 {
				// a walk is not atomic: the inode was touched between the lstat of its first name and the lstat of this one
				st.ModTime = e.LinkMtime
			}
			if os.FileMode(st.Mode)&os.ModeSymlink == 0 {
				st.Linkname = e.Link
			}
			// (a second name of a symlink is announced as a symlink with the same target, as fs.Walk does: the link-name
			// field of a symlink entry is its target, the protocol has no way to announce a hard link between symlinks)
		} else {
			st.Mode = goMode(unixTypeBits(e.Type) | e.Mode)
			switch e.Type {
			case "file":
				data = e.Data
				if e.Hole > 0 {
					data = append(append([]byte{}, e.Data...), make([]byte, e.Hole)...)
				}
				st.Size = int64(len(data))
				if e.OpenErr {
					data, st.Size = nil, 0
				}
				if e.HasASize {
					// the size the FS reports is not the length its reader delivers (a file that grew after it was listed,
					// procfs-style entries of size 0)
					st.Size = int64(e.ASize)
				}
			case "dir":
				// a synthetic source may announce directories with a size (a caller-built FS often copies os.FileInfo.Size: 4096)
				st.Size = int64(e.DirSize)
			case "symlink":
				st.Mode = uint32(os.ModeSymlink) | 0777
				st.Linkname = e.Link
				st.Size = int64(len(e.Link))
			case "chr", "blk":
				st.Devmajor = int64(e.Maj)
				st.Devminor = int64(e.Min)
			}
			if len(e.Xattr) > 0 {
				st.Xattrs = map[string][]byte{}
				for _, kv := range e.Xattr {
					st.Xattrs[kv[0]] = []byte(kv[1])
				}
			}
		}
		fs.ents = append(fs.ents, memEntry{st: st, data: data, openErr: e.OpenErr})
		byPath[e.Path] = &fs.ents[len(fs.ents)-1]
		fs.idx[e.Path] = len(fs.ents) - 1
	}
	return fs
}

func (fs *memFS) Walk(ctx context.Context, target string, fn gofs.WalkDirFunc) error {
	target = filepath.Clean(strings.TrimPrefix(filepath.Clean("/"+target), "/"))
	if target == "" {
		target = "."
	}
	skipPrefix := ""    // skipping everything under this dir
	skipDirOf := "\x00" // skipping the rest of this directory ("" = root)
	for k, e := range fs.ents {
		p := e.st.Path
		if target != "." && p != target && !strings.HasPrefix(p, target+"/") {
			continue
		}
		if skipPrefix != "" {
			if strings.HasPrefix(p, skipPrefix) {
				continue
			}
			skipPrefix = ""
		}
		if skipDirOf != "\x00" {
			d := filepath.Dir(p)
			if d == "." {
				d = ""
			}
			if d == skipDirOf || strings.HasPrefix(d, skipDirOf+"/") || skipDirOf == "" {
				continue
			}
			skipDirOf = "\x00"
		}
		select {
		case <-ctx.Done():
			return ctx.Err()
		default:
		}
		if fs.walkHookAt != 0 && k+1 == fs.walkHookAt && fs.walkHook != nil {
			fs.walkHook()
		}
		var walkErr error
		if fs.walkFailAt != 0 && k+1 >= fs.walkFailAt {
			if fs.walkFailErrno == 0 {
				return errors.New("verif: injected walk failure")
			}
			if k+1 == fs.walkFailAt {
				// as filepath.WalkDir reports a failing lstat / readdir: through the callback, with the entry and an errno
				walkErr = &os.PathError{Op: "lstat", Path: p, Err: fs.walkFailErrno}
			}
		}
		err := fn(p, &fsutil.DirEntryInfo{Stat: e.st.Clone()}, walkErr)
		if err == filepath.SkipDir {
			if e.st.IsDir() {
				skipPrefix = p + "/"
			} else {
				d := filepath.Dir(p)
				if d == "." {
					d = ""
				}
				if d == "" || (target != "." && d == filepath.Dir(target)) {
					return nil
				}
				skipDirOf = d
			}
			continue
		}
		if err != nil {
			return err
		}
	}
	return nil
}

type memReader struct {
	fs   *memFS
	path string
	data []byte
	off  int
}

func (r *memReader) Read(b []byte) (int, error) {
	fs := r.fs
	fs.mu.Lock()
	failKey, failOff := fs.readFailKey, fs.readFailOff
	want := 0
	if len(fs.readSizes) > 0 {
		want = fs.readSizes[fs.readN%len(fs.readSizes)]
		fs.readN++
	}
	fs.mu.Unlock()
	if fs.readDelay > 0 && r.off == 0 {
		time.Sleep(fs.readDelay) // a slow medium: requests pile up in the sender while its workers wait for the first bytes
	}
	if failKey == r.path && r.off >= failOff {
		return 0, errors.New("verif: injected read failure")
	}
	if r.off >= len(r.data) {
		return 0, io.EOF
	}
	n := len(b)
	if want > 0 && want < n {
		n = want
	}
	if failKey == r.path && r.off+n > failOff {
		n = failOff - r.off
	}
	if n > len(r.data)-r.off {
		n = len(r.data) - r.off
	}
	copy(b, r.data[r.off:r.off+n])
	r.off += n
	if fs.log != nil {
		fs.log.add(logEv{End: "S", Kind: "read", Path: hx(r.path), N: n})
	}
	if fs.eofWithData && r.off >= len(r.data) {
		// legal for an io.Reader: the last bytes are delivered together with io.EOF (tar / gzip entry readers do this)
		return n, io.EOF
	}
	return n, nil
}

func (r *memReader) Close() error { return nil }

func (fs *memFS) Open(p string) (io.ReadCloser, error) {
	p = filepath.Clean(p)
	if fs.openGate != nil {
		fs.openGate(p)
	}
	i, ok := fs.idx[p]
	if !ok {
		return nil, &os.PathError{Op: "open", Path: p, Err: os.ErrNotExist}
	}
	e := fs.ents[i]
	if fs.log != nil {
		fs.log.add(logEv{End: "S", Kind: "open", Path: hx(p)})
	}
	if e.st.Linkname != "" && os.FileMode(e.st.Mode)&os.ModeType == 0 {
		if j, ok := fs.idx[e.st.Linkname]; ok {
			e = fs.ents[j]
		}
	}
	if e.openErr {
		return nil, &os.PathError{Op: "open", Path: p, Err: syscall.ENXIO}
	}
	return &memReader{fs: fs, path: p, data: e.data}, nil
}

func (fs *memFS) view() []interface{} {
	out := make([]interface{}, 0, len(fs.ents))
	for _, e := range fs.ents {
		m := statToJSON(e.st)
		if os.FileMode(e.st.Mode)&os.ModeType == 0 && e.st.Linkname == "" {
			m["sha"] = shaShort(e.data)
			if int64(len(e.data)) != e.st.Size {
				m["rsize"] = len(e.data) // what the reader yields, when the announced size says something else
			}
		} else if os.FileMode(e.st.Mode)&os.ModeType == 0 {
			// a further name of a regular file: its reader is the reader of the first name
			if j, ok := fs.idx[e.st.Linkname]; ok && int64(len(fs.ents[j].data)) != e.st.Size {
				m["rsize"] = len(fs.ents[j].data)
			}
		}
		out = append(out, m)
	}
	return out
}
