package main

import (
	"os"
	"time"

	"github.com/tonistiigi/fsutil"
)

func init() {
	handlers["followlinks"] = hFollowLinks
	handlers["dedupe"] = hDedupe
}

func hFollowLinks(o Op) map[string]interface{} {
	dir := ""
	src := Op(o["src"].(map[string]interface{}))
	if src.str("kind") == "disk" {
		dir = newScratch("follow")
		defer os.RemoveAll(dir)
	}
	base, _, _, err := buildSource(o, dir, nil)
	if err != nil {
		return map[string]interface{}{"err": "source: " + err.Error()}
	}
	full, _ := walkStats(base, "")
	res := map[string]interface{}{"listing": full}
	type ret struct {
		out []string
		err error
	}
	ch := make(chan ret, 1)
	go func() {
		out, err := fsutil.FollowLinks(base, hexList(o.arr("paths")))
		ch <- ret{out, err}
	}()
	select {
	case r := <-ch:
		if r.err != nil {
			res["ferr"] = r.err.Error()
		} else if r.out == nil {
			res["out"] = nil
		} else {
			xs := []interface{}{}
			for _, p := range r.out {
				xs = append(xs, hx(p))
			}
			res["out"] = xs
		}
	case <-time.After(5 * time.Second):
		res["timeout"] = true
	}
	return res
}

func hDedupe(o Op) map[string]interface{} {
	out := fsutil.VerifDedupePaths(hexList(o.arr("paths")))
	if out == nil {
		return map[string]interface{}{"m": nil}
	}
	xs := []interface{}{}
	for _, p := range out {
		xs = append(xs, hx(p))
	}
	return map[string]interface{}{"m": xs}
}
