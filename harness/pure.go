package main

import (
	"fmt"
	"os"
	"path/filepath"
	"time"

	"github.com/tonistiigi/fsutil"
	"github.com/tonistiigi/fsutil/types"
)

func init() {
	handlers["cmp"] = hCmp
	handlers["pathfn"] = hPathFn
	handlers["validate"] = hValidate
}

func sign(x int) int {
	if x < 0 {
		return -1
	}
	if x > 0 {
		return 1
	}
	return 0
}

func hCmp(o Op) map[string]interface{} {
	return map[string]interface{}{"r": sign(fsutil.ComparePath(o.hex("a"), o.hex("b")))}
}

func hPathFn(o Op) map[string]interface{} {
	p, q := o.hex("p"), o.hex("q")
	return map[string]interface{}{
		"clean": hx(filepath.Clean(p)), "dir": hx(filepath.Dir(p)), "base": hx(filepath.Base(p)),
		"abs": filepath.IsAbs(p), "join": hx(filepath.Join(p, q)),
	}
}

type fakeInfo struct {
	name string
	dir  bool
	st   *types.Stat
}

func (f *fakeInfo) Name() string { return f.name }
func (f *fakeInfo) Size() int64  { return 0 }
func (f *fakeInfo) Mode() os.FileMode {
	if f.dir {
		return os.ModeDir | 0755
	}
	return 0644
}
func (f *fakeInfo) ModTime() time.Time { return time.Time{} }
func (f *fakeInfo) IsDir() bool        { return f.dir }
func (f *fakeInfo) Sys() interface{}   { return f.st }

func kindOf(s string) fsutil.ChangeKind {
	switch s {
	case "add":
		return fsutil.ChangeKindAdd
	case "modify":
		return fsutil.ChangeKindModify
	case "delete":
		return fsutil.ChangeKindDelete
	}
	panic("bad kind " + s)
}

func hValidate(o Op) map[string]interface{} {
	v := &fsutil.Validator{}
	for i, x := range o.arr("seq") {
		a := x.([]interface{})
		p := unhex(a[1].(string))
		var err error
		func() {
			defer func() {
				if r := recover(); r != nil {
					err = fmt.Errorf("PANIC")
				}
			}()
			err = v.HandleChange(kindOf(a[0].(string)), p, &fakeInfo{name: filepath.Base(p), dir: a[2].(bool)}, nil)
		}()
		if err != nil {
			if err.Error() == "PANIC" {
				return map[string]interface{}{"m": fmt.Sprintf("panic@%d", i)}
			}
			return map[string]interface{}{"m": fmt.Sprintf("reject@%d", i)}
		}
	}
	return map[string]interface{}{"m": "accept"}
}
