package main

import (
	"context"
	"crypto/sha256"
	"encoding/binary"
	"encoding/hex"
	"errors"
	"google.golang.org/protobuf/proto"
	"hash"
	"os"
	"path/filepath"
	"runtime"
	"sort"
	"sync"
	"sync/atomic"
	"syscall"
	"time"

	"github.com/opencontainers/go-digest"
	"github.com/tonistiigi/fsutil"
	"github.com/tonistiigi/fsutil/types"
)

func init() {
	handlers["sync"] = hSync
}

// canonical header for the recording content hasher: every field of the stat, deterministic
func statHeader(st *types.Stat) []byte {
	c := st.Clone()
	keys := make([]string, 0, len(c.Xattrs))
	for k := range c.Xattrs {
		keys = append(keys, k)
	}
	sort.Strings(keys)
	h := sha256.New()
	dt, _ := (&types.Stat{Path: c.Path, Mode: c.Mode, Uid: c.Uid, Gid: c.Gid, Size: c.Size, ModTime: c.ModTime, Linkname: c.Linkname, Devmajor: c.Devmajor, Devminor: c.Devminor}).Marshal()
	h.Write(dt)
	for _, k := range keys {
		h.Write([]byte(k))
		h.Write([]byte{0})
		h.Write(c.Xattrs[k])
		h.Write([]byte{0})
	}
	return h.Sum(nil)
}

type notifRec struct {
	Kind   string
	Path   string
	Digest string
	Stat   *types.Stat // stat carried by the FileInfo of the notification
}

type xferResult struct {
	sendErr, recvErr error
	sendRet, recvRet bool
	notifs           []notifRec
	hasherStats      map[string][]*types.Stat
	log              *evLog
	overlaps         [4]int32
	late             [2]int32
	alive            int
	aliveAt          string
	stacks           string
	held             int32
	progCalls        int
	progPrev         int
	progNonMono      int
	progLast         int
	hasherN          int
	tornDown         bool
	sendAfterTear    float64
	recvAfterTear    float64
	leaked           int
}

type xferOpts struct {
	merge      bool
	differNone bool
	notify     bool
	rfUID      int // receive filter rewrites uid/gid when >= 0
	rfGID      int
	rfDrop     map[string]bool // receive filter returns false for these paths
	metaOnly   map[string]bool // metadata-only selector (nil = off)
	cfg        streamCfg
	timeout    time.Duration
	progress   bool
	holdHasher int
	cancelSend *func() // set by runXfer: cancels the context handed to Send (and nothing else)
	fault      *faultPlan
}

// faultPlan: one injected fault (C04). Stream faults are in cfg.Fail*; the others are here.
type faultPlan struct {
	kind     string // cancel | walk | read | hasher | notify | kill | (stream faults are configured in cfg)
	at       int
	path     string
	off      int
	teardown time.Duration // the stream is torn down this long after the start if the calls have not returned
	errno    syscall.Errno // walk faults: 0 = the walk returns a plain error, else entry `at` is reported to the callback with this errno
}

// runXfer runs fsutil.Send(src) against fsutil.Receive(dest) over the instrumented pipe.
func runXfer(src fsutil.FS, dest string, o xferOpts, log *evLog) *xferResult {
	res := &xferResult{log: log, hasherStats: map[string][]*types.Stat{}}
	ctx, cancel := context.WithCancel(context.Background())
	defer cancel()
	s, r, sh := newPipe(ctx, &o.cfg, log)
	var mu sync.Mutex
	ropt := fsutil.ReceiveOpt{Merge: o.merge}
	if o.differNone {
		ropt.Differ = fsutil.DiffNone
	}
	if o.notify {
		ropt.ContentHasher = func(st *types.Stat) (hash.Hash, error) {
			mu.Lock()
			res.hasherStats[st.Path] = append(res.hasherStats[st.Path], st.Clone())
			res.hasherN++
			hn := res.hasherN
			mu.Unlock()
			if o.fault != nil && o.fault.kind == "hasher" && hn >= o.fault.at {
				return nil, errInjected
			}
			if o.holdHasher > 0 && os.FileMode(st.Mode)&os.ModeType == 0 && st.Linkname == "" && atomic.CompareAndSwapInt32(&res.held, 0, 1) {
				// a slow user callback: the first file's hasher returns only after many later requests have been handed to the
				// stream (its own request then arrives long after requests for much higher ids)
				limit := 3 * time.Second
				if o.holdHasher < 50 {
					limit = 300 * time.Millisecond
				}
				for t0 := time.Now(); int(atomic.LoadInt32(&log.reqs)) < o.holdHasher && time.Since(t0) < limit; {
					time.Sleep(time.Millisecond)
				}
			}
			h := sha256.New()
			h.Write(statHeader(st))
			return h, nil
		}
		ropt.NotifyHashed = func(kind fsutil.ChangeKind, p string, fi os.FileInfo, err error) error {
			rec := notifRec{Kind: kind.String(), Path: p}
			if fi != nil {
				if d, ok := fi.(interface{ Digest() digest.Digest }); ok {
					rec.Digest = d.Digest().Encoded()
				}
				if st, ok := fi.Sys().(*types.Stat); ok {
					rec.Stat = st.Clone()
				}
			}
			mu.Lock()
			res.notifs = append(res.notifs, rec)
			nn := len(res.notifs)
			mu.Unlock()
			if o.fault != nil && o.fault.kind == "notify" && nn >= o.fault.at {
				return errInjected
			}
			return nil
		}
	}
	if o.rfUID >= 0 || o.rfDrop != nil {
		ropt.Filter = func(p string, st *types.Stat) bool {
			if o.rfDrop != nil && o.rfDrop[p] {
				return false
			}
			if o.rfUID >= 0 {
				st.Uid = uint32(o.rfUID)
				st.Gid = uint32(o.rfGID)
			}
			return true
		}
	}
	if o.metaOnly != nil {
		ropt.MetadataOnly = func(p string, st *types.Stat) bool { return o.metaOnly[p] }
	}
	if o.fault != nil && (o.fault.kind == "cancel" || o.fault.kind == "kill") {
		var delivered int32
		hook := func(p *types.Packet) {
			if int(atomic.AddInt32(&delivered, 1)) == o.fault.at {
				if o.fault.kind == "kill" {
					syscall.Kill(syscall.Getpid(), syscall.SIGKILL)
				}
				log.add(logEv{End: "-", Kind: "cancel"})
				cancel()
			}
		}
		s.onRecv = hook
		r.onRecv = hook
	}
	var sendRetAt, recvRetAt time.Time
	done := make(chan struct{}, 2)
	go func() {
		var cb func(int, bool)
		if o.progress {
			// plain variables on purpose: the callback is documented to be called with non-decreasing totals and one final call,
			// which requires the calls to be serialised (the race detector sees it if they are not)
			cb = func(n int, last bool) {
				res.progCalls++
				if n < res.progPrev {
					res.progNonMono++
				}
				res.progPrev = n
				if last {
					res.progLast++
				}
			}
		}
		sendCtx, cancelS := context.WithCancel(ctx)
		defer cancelS()
		if o.cancelSend != nil {
			*o.cancelSend = func() {
				log.add(logEv{End: "S", Kind: "cancel"})
				cancelS()
			}
		}
		res.sendErr = fsutil.Send(sendCtx, s, src, cb)
		sendRetAt = time.Now()
		res.sendRet = true
		log.add(logEv{End: "S", Kind: "return", N: b2i(res.sendErr != nil)})
		s.closeSend()
		done <- struct{}{}
	}()
	go func() {
		res.recvErr = fsutil.Receive(ctx, r, dest, ropt)
		recvRetAt = time.Now()
		res.recvRet = true
		log.add(logEv{End: "R", Kind: "return", N: b2i(res.recvErr != nil)})
		r.closeSend()
		done <- struct{}{}
	}()
	to := o.timeout
	if to == 0 {
		to = 20 * time.Second
	}
	if o.fault != nil && o.fault.teardown > 0 {
		to = o.fault.teardown
	}
	// a fault-free transfer is torn down when NOTHING has crossed the stream for `to` (a big case on a loaded machine may
	// need longer than that in total), or after the hard limit; a planned teardown happens at its fixed time
	fixed := o.fault != nil && o.fault.teardown > 0
	hard := time.Now().Add(15 * to)
	atomic.StoreInt64(&log.last, time.Now().UnixNano())
	tick := time.NewTicker(50 * time.Millisecond)
	defer tick.Stop()
	start := time.Now()
	n := 0
	var tornAt time.Time
	for n < 2 {
		select {
		case <-done:
			n++
		case <-tick.C:
			if fixed && time.Since(start) < to {
				continue
			}
			if !fixed && log.idleFor() < to && time.Now().Before(hard) {
				continue
			}
			// tear the stream down: from now on every pending and later stream call fails; both calls must return
			sh.teardown()
			tornAt = time.Now()
			res.tornDown = true
			t2 := time.NewTimer(3 * time.Second)
			for n < 2 {
				select {
				case <-done:
					n++
				case <-t2.C:
					res.leaked = 2 - n
					n = 2
				}
			}
		}
	}
	if res.tornDown {
		if res.sendRet {
			res.sendAfterTear = sendRetAt.Sub(tornAt).Seconds()
		}
		if res.recvRet {
			res.recvAfterTear = recvRetAt.Sub(tornAt).Seconds()
		}
	}
	res.overlaps = [4]int32{s.overlapS, s.overlapR, r.overlapS, r.overlapR}
	res.alive, res.aliveAt = waitQuiesce(500 * time.Millisecond)
	if res.leaked > 0 {
		res.stacks = fsutilStacks()
	}
	res.late = [2]int32{atomic.LoadInt32(&s.late), atomic.LoadInt32(&r.late)}
	return res
}

func b2i(b bool) int {
	if b {
		return 1
	}
	return 0
}

func errClass(err error, returned bool) string {
	if !returned {
		return "blocked"
	}
	if err == nil {
		return "ok"
	}
	return "err"
}

func parseXferOpts(m Op) xferOpts {
	o := xferOpts{merge: m.boolean("merge"), differNone: m.str("differ") == "none", notify: m.boolean("notify"), rfUID: -1, rfGID: -1}
	if v, ok := m["rfilter"].(map[string]interface{}); ok {
		o.rfUID = Op(v).num("uid")
		o.rfGID = Op(v).num("gid")
	}
	if v, ok := m["rdrop"].([]interface{}); ok {
		o.rfDrop = map[string]bool{}
		for _, x := range v {
			o.rfDrop[unhex(x.(string))] = true
		}
	}
	if v, ok := m["metaonly"].([]interface{}); ok {
		o.metaOnly = map[string]bool{}
		for _, x := range v {
			o.metaOnly[unhex(x.(string))] = true
		}
	}
	o.cfg = streamCfg{Cap: m.num("cap"), DelayUS: m.num("delay"), LingerUS: m.num("linger"), Window: m.num("window"), Seed: int64(m.num("seed"))}
	if _, ok := m["cap"]; !ok {
		o.cfg.Cap = 32
	}
	o.progress = m.boolean("progress")
	o.holdHasher = m.num("hold_hasher")
	o.cancelSend = new(func())
	if ms := m.num("timeout_ms"); ms > 0 {
		o.timeout = time.Duration(ms) * time.Millisecond
	}
	return o
}

func hexList(xs []interface{}) []string {
	out := []string{}
	for _, x := range xs {
		out = append(out, unhex(x.(string)))
	}
	return out
}

// buildSource creates the sending FS: in-memory, or on disk below dir/src
func buildSource(o Op, dir string, log *evLog) (fsutil.FS, *memFS, []interface{}, error) {
	src := Op(o["src"].(map[string]interface{}))
	tree := treeFromJSON(src.arr("tree"))
	var fs fsutil.FS
	var mfs *memFS
	var view []interface{}
	if src.str("kind") == "disk" {
		root := filepath.Join(dir, "src")
		if err := os.Mkdir(root, 0755); err != nil {
			return nil, nil, nil, err
		}
		if err := mktree(root, tree); err != nil {
			return nil, nil, nil, err
		}
		snap, err := snapshot(root, true)
		if err != nil {
			return nil, nil, nil, err
		}
		view = snapsToJSON(snap)
		if src.boolean("root_symlink") {
			// the caller names the tree through a symlink (the last component of the root path is a link to the directory)
			link := filepath.Join(dir, "srclink")
			if err := os.Symlink("src", link); err != nil {
				return nil, nil, nil, err
			}
			root = link
		}
		f, err := fsutil.NewFS(root)
		if err != nil {
			return nil, nil, nil, err
		}
		fs = f
	} else {
		mfs = newMemFS(tree, log)
		mfs.eofWithData = src.boolean("eof_with_data")
		mfs.readDelay = time.Duration(src.num("read_delay_us")) * time.Microsecond
		fs = mfs
		view = mfs.view()
	}
	if fo, ok := o["sfilter"].(map[string]interface{}); ok {
		f := Op(fo)
		opt := &fsutil.FilterOpt{}
		if _, ok := fo["include"]; ok {
			opt.IncludePatterns = hexList(f.arr("include"))
		}
		if _, ok := fo["exclude"]; ok {
			opt.ExcludePatterns = hexList(f.arr("exclude"))
		}
		if _, ok := fo["follow"]; ok {
			opt.FollowPaths = hexList(f.arr("follow"))
		}
		// NewFilterFS resolves the follow paths: it has to terminate whatever the links look like (watchdog: 5 s)
		type nfRes struct {
			fs  fsutil.FS
			err error
		}
		ch := make(chan nfRes, 1)
		inner := fs
		go func() {
			ffs, err := fsutil.NewFilterFS(inner, opt)
			ch <- nfRes{ffs, err}
		}()
		select {
		case r := <-ch:
			if r.err != nil {
				return nil, nil, nil, r.err
			}
			fs = r.fs
		case <-time.After(5 * time.Second):
			return nil, nil, nil, errors.New("verif-timeout: NewFilterFS (FollowLinks) did not return within 5 s")
		}
	}
	if fo, ok := o["sfilter2"].(map[string]interface{}); ok {
		// a second filter stacked on the first one
		f := Op(fo)
		opt := &fsutil.FilterOpt{}
		if _, ok := fo["include"]; ok {
			opt.IncludePatterns = hexList(f.arr("include"))
		}
		if _, ok := fo["exclude"]; ok {
			opt.ExcludePatterns = hexList(f.arr("exclude"))
		}
		if _, ok := fo["follow"]; ok {
			// (resolved by NewFilterFS in the view of the filter below)
			opt.FollowPaths = hexList(f.arr("follow"))
		}
		ffs, err := fsutil.NewFilterFS(fs, opt)
		if err != nil {
			return nil, nil, nil, err
		}
		fs = ffs
	}
	return fs, mfs, view, nil
}

func notifsJSON(res *xferResult, sent map[string]*types.Stat, dest string) []interface{} {
	out := []interface{}{}
	for _, n := range res.notifs {
		m := map[string]interface{}{"kind": n.Kind, "p": hx(n.Path)}
		if n.Kind != "delete" {
			// expected digest, computed independently: header of the stat AS SENT + bytes now stored
			st := sent[n.Path]
			if st != nil {
				h := sha256.New()
				h.Write(statHeader(st))
				if os.FileMode(st.Mode)&os.ModeType == 0 && st.Linkname == "" {
					b, _ := os.ReadFile(filepath.Join(dest, n.Path))
					h.Write(b)
				}
				m["digest_ok"] = hex.EncodeToString(h.Sum(nil)) == n.Digest
			} else {
				m["digest_ok"] = false
				m["nosent"] = true
			}
			if n.Stat != nil {
				m["stat"] = statToJSON(n.Stat)
			}
		}
		out = append(out, m)
	}
	return out
}

func logJSON(l *evLog, full bool) []interface{} {
	out := []interface{}{}
	for _, e := range l.snapshot() {
		if !full && (e.Kind == "read" || e.Kind == "open") {
			continue
		}
		m := map[string]interface{}{"e": e.End, "k": e.Kind}
		if e.Typ != "" {
			m["t"] = e.Typ
			m["id"] = e.ID
		}
		if e.Path != "" {
			m["p"] = e.Path
		}
		if e.N != 0 || e.Typ == "DATA" {
			m["n"] = e.N
		}
		if e.Sha != "" && e.N > 0 {
			m["sha"] = e.Sha
		}
		if e.Stat != nil {
			m["stat"] = e.Stat
		}
		out = append(out, m)
	}
	return out
}

// hSync: a transfer of the source into the destination; with "schedules" the same transfer is repeated from the
// same prior destination under each schedule (stream capacity, delays, overlap window, GOMAXPROCS).
func hSync(o Op) map[string]interface{} {
	scheds := o.arr("schedules")
	if opt, ok := o["opt"].(map[string]interface{}); ok && Op(opt).boolean("unpriv") {
		return runUnprivSync(o)
	}
	if len(scheds) == 0 {
		return syncOnce(o, nil)
	}
	runs := []interface{}{}
	var first map[string]interface{}
	for _, sc := range scheds {
		r := syncOnce(o, Op(sc.(map[string]interface{})))
		if first == nil {
			first = r
		}
		runs = append(runs, r)
	}
	out := map[string]interface{}{"runs": runs}
	for _, k := range []string{"view", "before", "err"} {
		if v, ok := first[k]; ok {
			out[k] = v
		}
	}
	return out
}

func syncOnce(o Op, sched Op) map[string]interface{} {
	dir := newScratch("sync")
	defer os.RemoveAll(dir)
	dest := filepath.Join(dir, "x", "y", "dest")
	if err := os.MkdirAll(dest, 0755); err != nil {
		return map[string]interface{}{"err": err.Error()}
	}
	if err := mktree(dest, treeFromJSON(o.arr("dst"))); err != nil {
		return map[string]interface{}{"err": "mktree dst: " + err.Error()}
	}
	log := &evLog{}
	fs, mfs, view, err := buildSource(o, dir, log)
	if err != nil {
		return map[string]interface{}{"err": "source: " + err.Error()}
	}
	before, err := snapshot(dest, true)
	if err != nil {
		return map[string]interface{}{"err": "snapshot: " + err.Error()}
	}
	xo := parseXferOpts(Op(o["opt"].(map[string]interface{})))
	if rs := Op(o["opt"].(map[string]interface{})).arr("readsizes"); mfs != nil && len(rs) > 0 {
		// the synthetic source hands out file bytes in short reads (legal for an io.Reader)
		mfs.readSizes = intList(rs)
	}
	if sched != nil {
		xo.cfg = streamCfg{Cap: sched.num("cap"), DelayUS: sched.num("delay"), LingerUS: sched.num("linger"), Window: sched.num("window"), Seed: int64(sched.num("seed"))}
		if p := sched.num("procs"); p > 0 {
			defer runtime.GOMAXPROCS(runtime.GOMAXPROCS(p))
		}
		if mfs != nil {
			mfs.readSizes = intList(sched.arr("readsizes"))
		}
	}
	res := runXfer(fs, dest, xo, log)
	after, err := snapshot(dest, true)
	if err != nil {
		return map[string]interface{}{"err": "snapshot after: " + err.Error()}
	}
	sent := map[string]*types.Stat{}
	for _, e := range log.snapshot() {
		if e.End == "S" && e.Kind == "send" && e.Typ == "STAT" && e.Stat != nil {
			st := statFromJSON(e.Stat)
			sent[st.Path] = st
		}
	}
	out := map[string]interface{}{
		"send": errClass(res.sendErr, res.sendRet), "recv": errClass(res.recvErr, res.recvRet),
		"view": view, "before": snapsToJSON(before), "after": snapsToJSON(after),
		"log": logJSON(log, false), "notif": notifsJSON(res, sent, dest),
		"overlaps": []int32{res.overlaps[0], res.overlaps[1], res.overlaps[2], res.overlaps[3]}, "leaked": res.leaked,
		"late": []int32{res.late[0], res.late[1]}, "alive": res.alive, "alive_at": res.aliveAt, "stacks": res.stacks, "prog": []int{res.progCalls, res.progNonMono, res.progLast},
	}
	if res.recvErr != nil {
		out["recverr"] = res.recvErr.Error()
	}
	if res.sendErr != nil {
		out["senderr"] = res.sendErr.Error()
	}
	if xo.metaOnly != nil {
		lst, err := decodeListing(filepath.Join(dest, ".fsutil-metadata"))
		if err != nil {
			out["listing_err"] = err.Error()
		} else {
			out["listing"] = lst
		}
	}
	if Op(o["opt"].(map[string]interface{})).boolean("again") && res.sendErr == nil && res.recvErr == nil {
		// the same (unchanged) source transferred once more into the destination the first transfer produced
		log2 := &evLog{}
		fs2, mfs2, _, err := buildSource(o, filepath.Join(dir, "again"), log2)
		if dirSrc := Op(o["src"].(map[string]interface{})).str("kind") == "disk"; dirSrc {
			// an on-disk source is still there: reuse it instead of materialising a second copy
			fs2, mfs2, err = fs, mfs, nil
		}
		if err == nil {
			if mfs2 != nil {
				mfs2.log = log2
			}
			res2 := runXfer(fs2, dest, xo, log2)
			after2, _ := snapshot(dest, true)
			nreq := 0
			for _, e := range log2.snapshot() {
				if e.End == "R" && e.Kind == "send" && e.Typ == "REQ" {
					nreq++
				}
			}
			ag := map[string]interface{}{
				"send": errClass(res2.sendErr, res2.sendRet), "recv": errClass(res2.recvErr, res2.recvRet),
				"reqs": nreq, "notifs": len(res2.notifs), "after": snapsToJSON(after2),
			}
			if res2.recvErr != nil {
				ag["recverr"] = res2.recvErr.Error()
			}
			if res2.sendErr != nil {
				ag["senderr"] = res2.sendErr.Error()
			}
			out["again"] = ag
		}
	}
	return out
}

// decodeListing reads the metadata listing with the GENERIC protobuf runtime (not fsutil's hand-written codec)
func decodeListing(p string) ([]interface{}, error) {
	fi, err := os.Lstat(p)
	if err != nil {
		return nil, err
	}
	if !fi.Mode().IsRegular() {
		return nil, errors.New("listing is not a regular file")
	}
	b, err := os.ReadFile(p)
	if err != nil {
		return nil, err
	}
	out := []interface{}{}
	for len(b) > 0 {
		if len(b) < 4 {
			return nil, errors.New("truncated frame header")
		}
		n := int(binary.LittleEndian.Uint32(b[:4]))
		b = b[4:]
		if n > len(b) {
			return nil, errors.New("truncated frame")
		}
		var st types.Stat
		if err := proto.Unmarshal(b[:n], &st); err != nil {
			// the generic runtime refuses strings that are not valid UTF-8 (file names are arbitrary bytes; see C20):
			// fall back to the library's own decoder for those records
			st = types.Stat{}
			if err2 := st.Unmarshal(b[:n]); err2 != nil {
				return nil, err
			}
		}
		out = append(out, statToJSON(&st))
		b = b[n:]
	}
	return out, nil
}
