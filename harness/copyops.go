package main

import (
	"context"
	"encoding/json"
	"os"
	"os/exec"
	"path/filepath"
	"sync"
	"time"

	"github.com/tonistiigi/fsutil"
	fscopy "github.com/tonistiigi/fsutil/copy"
)

func init() {
	handlers["copy"] = hCopy
	childCmds["copy"] = childCopy
}

// jail layout:  /srcroot  /dstroot  /outside/{f,d/g}  /srcout/secret   (sentinels)
func hCopy(o Op) map[string]interface{} {
	dir := newScratch("copy")
	defer func() { exec.Command("rm", "-rf", dir).Run() }()
	jail := filepath.Join(dir, "jail")
	srcRoot := filepath.Join(jail, "srcroot")
	dstRoot := filepath.Join(jail, "dstroot")
	for _, d := range []string{srcRoot, dstRoot, filepath.Join(jail, "outside", "d"), filepath.Join(jail, "srcout")} {
		if err := os.MkdirAll(d, 0755); err != nil {
			return map[string]interface{}{"err": err.Error()}
		}
	}
	os.WriteFile(filepath.Join(jail, "outside", "f"), []byte("sentinel"), 0644)
	os.WriteFile(filepath.Join(jail, "outside", "d", "g"), []byte("sentinel2"), 0600)
	os.WriteFile(filepath.Join(jail, "srcout", "secret"), []byte("SECRET-OUTSIDE-SOURCE-ROOT"), 0644)
	if err := mktree(srcRoot, treeFromJSON(o.arr("src"))); err != nil {
		return map[string]interface{}{"err": "mktree src: " + err.Error()}
	}
	if err := mktree(dstRoot, treeFromJSON(o.arr("dst"))); err != nil {
		return map[string]interface{}{"err": "mktree dst: " + err.Error()}
	}
	t0 := int64(1500000000_000000000)
	for _, p := range []string{"outside", "outside/f", "outside/d", "outside/d/g", "srcout", "srcout/secret"} {
		chtimesNoFollow(filepath.Join(jail, p), t0)
	}
	// root directories get a fixed old mtime so that "NOW" is recognisable
	chtimesNoFollow(dstRoot, t0)
	chtimesNoFollow(srcRoot, t0)
	srcBefore, _ := snapshot(srcRoot, true)
	dstBefore, _ := snapshot(dstRoot, true)
	outsideBefore := snapshotOutsideMulti(jail, []string{"srcroot", "dstroot"})
	res := map[string]interface{}{"src": snapsToJSON(srcBefore), "before": snapsToJSON(dstBefore)}
	reps := o.num("repeat")
	if reps < 1 {
		reps = 1
	}
	runs := []interface{}{}
	for k := 0; k < reps; k++ {
		b, _ := json.Marshal(map[string]interface{}(o))
		cmd := exec.Command("/proc/self/exe", "child", "copy", jail)
		cmd.Stdin = bytesReader(b)
		outb, err := cmd.Output()
		r := map[string]interface{}{}
		if err != nil || json.Unmarshal(outb, &r) != nil {
			msg := ""
			if ee, ok := err.(*exec.ExitError); ok {
				msg = string(ee.Stderr)
				if len(msg) > 400 {
					msg = msg[len(msg)-400:]
				}
			}
			r = map[string]interface{}{"res": "panic", "crash": msg}
		}
		after, serr := snapshot(dstRoot, true)
		if serr != nil {
			r["snaperr"] = serr.Error()
		}
		r["after"] = snapsToJSON(after)
		st := lstatJSON(dstRoot)
		r["dstroot"] = st
		runs = append(runs, r)
	}
	res["runs"] = runs
	srcAfter, _ := snapshot(srcRoot, true)
	sb, _ := json.Marshal(snapsToJSON(srcBefore))
	sa, _ := json.Marshal(snapsToJSON(srcAfter))
	res["src_changed"] = string(sb) != string(sa)
	res["outside_changed"] = diffOutside(outsideBefore, snapshotOutsideMulti(jail, []string{"srcroot", "dstroot"}))
	return res
}

func snapshotOutsideMulti(jail string, skip []string) map[string]outsideEnt {
	out := map[string]outsideEnt{}
	ents, _ := os.ReadDir(jail)
	for _, e := range ents {
		sk := false
		for _, s := range skip {
			if e.Name() == s {
				sk = true
			}
		}
		if sk {
			continue
		}
		for k, v := range snapshotOutside(filepath.Join(jail, e.Name()), "\x00none") {
			out[e.Name()+"/"+k] = v
		}
	}
	return out
}

func childCopy(args []string) {
	jail := args[0]
	var o Op
	dec := json.NewDecoder(os.Stdin)
	dec.UseNumber()
	if err := dec.Decode(&o); err != nil {
		os.Exit(3)
	}
	if err := chrootTo(jail); err != nil {
		os.Exit(4)
	}
	a := Op(o["args"].(map[string]interface{}))
	var opts []fscopy.Opt
	ci := fscopy.CopyInfo{CopyDirContents: a.boolean("cdc"), FollowLinks: a.boolean("follow"), AlwaysReplaceExistingDestPaths: a.boolean("replace"),
		AllowWildcards: a.boolean("wild")}
	if _, ok := a["include"]; ok {
		ci.IncludePatterns = hexList(a.arr("include"))
	}
	if _, ok := a["exclude"]; ok {
		ci.ExcludePatterns = hexList(a.arr("exclude"))
	}
	if ch := a.arr("chown"); len(ch) == 2 {
		uid, gid := int(num64(ch[0])), int(num64(ch[1]))
		ci.Chown = func(*fscopy.User) (*fscopy.User, error) { return &fscopy.User{UID: uid, GID: gid}, nil }
	}
	if _, ok := a["mode"]; ok {
		m := a.num("mode")
		ci.Mode = &m
	}
	if s := a.str("modestr"); s != "" {
		ci.ModeStr = s
	}
	if _, ok := a["utime"]; ok {
		t := time.Unix(0, num64(a["utime"]))
		ci.Utime = &t
	}
	var mu sync.Mutex
	notifs := []interface{}{}
	ci.ChangeFunc = func(kind fsutil.ChangeKind, p string, fi os.FileInfo, err error) error {
		mu.Lock()
		notifs = append(notifs, []interface{}{kind.String(), hx(p), fi != nil && fi.IsDir()})
		mu.Unlock()
		return nil
	}
	xerrs := 0
	if a.boolean("xattrerr_ignore") {
		ci.XAttrErrorHandler = func(dst, src, key string, err error) error { xerrs++; return nil }
	}
	opts = append(opts, fscopy.WithCopyInfo(ci))
	err := fscopy.Copy(context.Background(), "/srcroot", a.hex("src"), "/dstroot", a.hex("dst"), opts...)
	out := map[string]interface{}{"res": "ok", "notif": notifs, "xerrs": xerrs}
	if err != nil {
		out["res"] = "err"
		out["errmsg"] = err.Error()
	}
	b, _ := json.Marshal(out)
	os.Stdout.Write(b)
}
