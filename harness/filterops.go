package main

import (
	"context"
	"errors"
	gofs "io/fs"
	"os"
	"path/filepath"
	"strings"

	"github.com/moby/patternmatcher"
	"github.com/tonistiigi/fsutil"
	"github.com/tonistiigi/fsutil/types"
)

func init() {
	handlers["filter"] = hFilter
	handlers["patmatch"] = hPatMatch
}

func mapFnFromJSON(xs []interface{}) fsutil.MapFunc {
	if len(xs) == 0 {
		return nil
	}
	tbl := map[string][]interface{}{}
	for _, x := range xs {
		a := x.([]interface{})
		tbl[unhex(a[0].(string))] = a
	}
	return func(p string, st *types.Stat) fsutil.MapResult {
		a, ok := tbl[p]
		if !ok {
			return fsutil.MapResultKeep
		}
		switch a[1].(string) {
		case "exclude":
			return fsutil.MapResultExclude
		case "skipdir":
			return fsutil.MapResultSkipDir
		case "chown":
			st.Uid = uint32(num64(a[2]))
		}
		return fsutil.MapResultKeep
	}
}

// hFilter: NewFilterFS(view, opt).Walk over a synthetic or on-disk view; Open on every regular file of the full view
func hFilter(o Op) map[string]interface{} {
	dir := ""
	src := Op(o["src"].(map[string]interface{}))
	if src.str("kind") == "disk" {
		dir = newScratch("filter")
		defer os.RemoveAll(dir)
	}
	base, _, view, err := buildSource(o, dir, nil)
	if err != nil {
		return map[string]interface{}{"err": "source: " + err.Error()}
	}
	opt := &fsutil.FilterOpt{Map: mapFnFromJSON(o.arr("map"))}
	if _, ok := o["include"]; ok {
		opt.IncludePatterns = hexList(o.arr("include"))
	}
	if _, ok := o["exclude"]; ok {
		opt.ExcludePatterns = hexList(o.arr("exclude"))
	}
	ffs, err := fsutil.NewFilterFS(base, opt)
	if err != nil {
		return map[string]interface{}{"view": view, "newerr": true}
	}
	out, werr := walkStats(ffs, o.hex("target"))
	res := map[string]interface{}{"view": view, "out": out}
	if werr != nil {
		res["walkerr"] = werr.Error()
	}
	// full (unfiltered) listing for the model
	full, _ := walkStats(base, "")
	res["listing"] = full
	opens := []interface{}{}
	for _, x := range full {
		m := x.(map[string]interface{})
		st := statFromJSON(m)
		if os.FileMode(st.Mode)&os.ModeType != 0 {
			continue
		}
		rc, err := ffs.Open(st.Path)
		ok := err == nil
		if ok {
			rc.Close()
		} else if !errors.Is(err, os.ErrNotExist) {
			opens = append(opens, []interface{}{hx(st.Path), "error"})
			continue
		}
		opens = append(opens, []interface{}{hx(st.Path), ok})
	}
	res["open"] = opens
	return res
}

func hPatMatch(o Op) (res map[string]interface{}) {
	defer func() {
		if r := recover(); r != nil {
			res = map[string]interface{}{"panic": true}
		}
	}()
	pats := hexList(o.arr("patterns"))
	path := o.hex("path")
	pm, err := patternmatcher.New(pats)
	if err != nil {
		return map[string]interface{}{"newerr": true}
	}
	// single-pattern match, only for the non-negated patterns (a negated pattern cannot be re-created from its
	// cleaned text without cleaning it a second time)
	single := []interface{}{}
	for _, orig := range pats {
		t := strings.TrimSpace(orig)
		if t == "" {
			continue
		}
		if strings.HasPrefix(filepath.Clean(t), "!") {
			single = append(single, nil)
			continue
		}
		one, err := patternmatcher.New([]string{orig})
		if err != nil {
			return map[string]interface{}{"newerr": true}
		}
		m, err := one.MatchesUsingParentResult(path, false)
		if err != nil {
			return map[string]interface{}{"matcherr": true}
		}
		single = append(single, m)
	}
	mopm, err := pm.MatchesOrParentMatches(path)
	if err != nil {
		return map[string]interface{}{"matcherr": true}
	}
	// chained parent results along the ancestors, as a walk computes them
	parts := strings.Split(path, "/")
	var info patternmatcher.MatchInfo
	upr := false
	for i := range parts {
		q := strings.Join(parts[:i+1], "/")
		var mi patternmatcher.MatchInfo
		upr, mi, err = pm.MatchesUsingParentResults(q, info)
		if err != nil {
			return map[string]interface{}{"matcherr": true}
		}
		info = mi
	}
	return map[string]interface{}{"single": single, "mopm": mopm, "upr": upr}
}

var _ = context.Background
var _ gofs.DirEntry
