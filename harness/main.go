// verifharness: runs the real fsutil code (built from $VERIF_REPO with -tags verif) on ops read
// as JSON lines from stdin and writes one JSON answer line per op to stdout.
package main

import (
	"bufio"
	"encoding/hex"
	"encoding/json"
	"fmt"
	"os"
	"time"
)

type Op map[string]interface{}

func (o Op) str(k string) string {
	if v, ok := o[k].(string); ok {
		return v
	}
	return ""
}
func (o Op) hex(k string) string {
	b, err := hex.DecodeString(o.str(k))
	if err != nil {
		panic("bad hex in " + k)
	}
	return string(b)
}
func (o Op) boolean(k string) bool      { v, _ := o[k].(bool); return v }
func (o Op) num(k string) int           { return int(num64(o[k])) }
func (o Op) arr(k string) []interface{} { v, _ := o[k].([]interface{}); return v }

func unhex(s string) string {
	b, err := hex.DecodeString(s)
	if err != nil {
		panic("bad hex")
	}
	return string(b)
}
func hx(s string) string { return hex.EncodeToString([]byte(s)) }

type handler func(Op) map[string]interface{}

var handlers = map[string]handler{}

func main() {
	if len(os.Args) > 1 && os.Args[1] == "child" {
		childMain(os.Args[2:])
		return
	}
	in := bufio.NewReaderSize(os.Stdin, 1<<20)
	out := bufio.NewWriterSize(os.Stdout, 1<<20)
	defer out.Flush()
	dec := json.NewDecoder(in)
	dec.UseNumber()
	for {
		var op Op
		if err := dec.Decode(&op); err != nil {
			break
		}
		// every op has its own watchdogs; this one is the last resort for a call that blocks in the kernel (an open of a FIFO ...):
		// the op is answered as hung and the process ends (the runner re-runs the remaining ops in a fresh process)
		ch := make(chan map[string]interface{}, 1)
		go func(op Op) { ch <- runOp(op) }(op)
		var res map[string]interface{}
		hung := false
		select {
		case res = <-ch:
		case <-time.After(opDeadline):
			res = map[string]interface{}{"hung": "the operation did not return within " + opDeadline.String(), "stacks": fsutilStacks()}
			hung = true
		}
		b, _ := json.Marshal(res)
		out.Write(b)
		out.WriteByte('\n')
		out.Flush()
		if hung {
			os.Exit(71)
		}
	}
}

// opDeadline: far above what the slowest generated op needs (the widest schedule cases take tens of seconds under load)
const opDeadline = 10 * time.Minute

func runOp(op Op) (res map[string]interface{}) {
	defer func() {
		if r := recover(); r != nil {
			res = map[string]interface{}{"panic": fmt.Sprint(r)}
		}
	}()
	h, ok := handlers[op.str("op")]
	if !ok {
		return map[string]interface{}{"err": "bad-op " + op.str("op")}
	}
	return h(op)
}
