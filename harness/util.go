package main

import (
	"bytes"
	"io"
	"runtime"
	"strings"
	"syscall"
	"time"

	"golang.org/x/sys/unix"
)

func bytesReader(b []byte) io.Reader { return bytes.NewReader(b) }

func utimensat(p string, ts []syscall.Timespec) {
	uts := []unix.Timespec{{Sec: ts[0].Sec, Nsec: ts[0].Nsec}, {Sec: ts[1].Sec, Nsec: ts[1].Nsec}}
	unix.UtimesNanoAt(unix.AT_FDCWD, p, uts, unix.AT_SYMLINK_NOFOLLOW)
}

// fsutilGoroutines counts goroutines that currently have an fsutil frame on their stack.
func fsutilGoroutines() (int, string) {
	buf := make([]byte, 1<<20)
	n := runtime.Stack(buf, true)
	stacks := strings.Split(string(buf[:n]), "\n\n")
	cnt := 0
	sample := ""
	for _, st := range stacks {
		if strings.Contains(st, "github.com/tonistiigi/fsutil.") || strings.Contains(st, "github.com/tonistiigi/fsutil/") && strings.Contains(st, "/repo/") {
			if strings.Contains(st, "main.fsutilGoroutines") {
				continue
			}
			cnt++
			if sample == "" {
				lines := strings.Split(st, "\n")
				for _, l := range lines {
					if strings.Contains(l, "tonistiigi/fsutil.") {
						sample = strings.TrimSpace(l)
						break
					}
				}
			}
		}
	}
	return cnt, sample
}

// fsutilStacks returns the stacks of the goroutines that have an fsutil frame (bounded), for a call that never returned.
func fsutilStacks() string {
	buf := make([]byte, 1<<20)
	n := runtime.Stack(buf, true)
	out := ""
	for _, st := range strings.Split(string(buf[:n]), "\n\n") {
		if strings.Contains(st, "github.com/tonistiigi/fsutil") && !strings.Contains(st, "main.fsutilStacks") {
			if len(st) > 1500 {
				st = st[:1500]
			}
			out += st + "\n\n"
		}
	}
	if len(out) > 12000 {
		out = out[:12000]
	}
	return out
}

// waitQuiesce polls until no goroutine with an fsutil frame is left (or the grace period is over).
func waitQuiesce(grace time.Duration) (int, string) {
	deadline := time.Now().Add(grace)
	for {
		n, s := fsutilGoroutines()
		if n == 0 || time.Now().After(deadline) {
			return n, s
		}
		time.Sleep(2 * time.Millisecond)
	}
}

func chrootTo(dir string) error {
	if err := syscall.Chroot(dir); err != nil {
		return err
	}
	return syscall.Chdir("/")
}
