package main

// childMain is the entry for sub-processes (chroot'ed disk suites); filled in by the suites that need it.
var childCmds = map[string]func([]string){}

func childMain(args []string) {
	if len(args) == 0 {
		return
	}
	if f, ok := childCmds[args[0]]; ok {
		f(args[1:])
	}
}
