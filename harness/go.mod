module verifharness

go 1.21

require (
	github.com/moby/patternmatcher v0.5.0
	github.com/opencontainers/go-digest v1.0.0
	github.com/tonistiigi/fsutil v0.0.0
	golang.org/x/sys v0.11.0
	google.golang.org/protobuf v1.31.0
)

require (
	github.com/containerd/continuity v0.4.1 // indirect
	github.com/pkg/errors v0.9.1 // indirect
	github.com/planetscale/vtprotobuf v0.6.0 // indirect
	github.com/sirupsen/logrus v1.8.1 // indirect
	github.com/tonistiigi/dchapes-mode v0.0.0-20250318174251-73d941a28323 // indirect
	golang.org/x/sync v0.1.0 // indirect
)

replace github.com/tonistiigi/fsutil => /repo
