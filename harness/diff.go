package main

import (
	"github.com/tonistiigi/fsutil"
)

func init() {
	handlers["diff"] = hDiff
}

func hDiff(o Op) map[string]interface{} {
	lower := statsFromJSON(o.arr("lower"))
	upper := statsFromJSON(o.arr("upper"))
	differ := fsutil.DiffMetadata
	if o.boolean("none") {
		differ = fsutil.DiffNone
	}
	chs, err := fsutil.VerifDiff(lower, upper, differ)
	if err != nil {
		return map[string]interface{}{"err": "error"}
	}
	evs := make([]interface{}, 0, len(chs))
	for _, c := range chs {
		if c.Kind == fsutil.ChangeKindDelete {
			evs = append(evs, []interface{}{"delete", hx(c.Path)})
		} else {
			// the path argument of the callback is what the property talks about; the stat is the source entry
			st := statToJSON(c.Stat)
			if c.Stat != nil && c.Stat.Path != c.Path {
				st["p"] = hx(c.Path)
				st["statpath"] = hx(c.Stat.Path)
			}
			evs = append(evs, []interface{}{c.Kind.String(), st})
		}
	}
	return map[string]interface{}{"evs": evs}
}
