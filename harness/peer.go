package main

import (
	"io"
	"math/rand"
	"sync"

	"github.com/tonistiigi/fsutil/types"
)

// ---------------------------------------------------------------- reference SENDER (for testing Receive)
// Written from the protocol description at the top of receive.go; shares no code with fsutil's sender.

type refFile struct {
	st   *types.Stat
	data []byte
}

type refSenderCfg struct {
	Chunk      []int  // cyclic chunk-size schedule (>=1)
	Interleave string // "fifo" | "rr" | "random" | "reverse"
	Eager      bool   // answer requests while STATs are still flowing
	Seed       int64
	// deviations (for negative scripts)
	EOFBeforeFin bool // close the stream instead of waiting for FIN
}

// runRefSender speaks the sender side of the protocol on ep. Returns nil when FIN was exchanged.
func runRefSender(ep *endpoint, files []refFile, cfg refSenderCfg) error {
	rng := rand.New(rand.NewSource(cfg.Seed))
	var mu sync.Mutex
	cond := sync.NewCond(&mu)
	type job struct {
		id  uint32
		off int
	}
	var pending []*job
	finSeen := false
	var recvErr error
	statsDone := false
	// receive loop
	go func() {
		for {
			var p types.Packet
			err := ep.RecvMsg(&p)
			mu.Lock()
			if err != nil {
				recvErr = err
				cond.Broadcast()
				mu.Unlock()
				return
			}
			switch p.Type {
			case types.PACKET_REQ:
				pending = append(pending, &job{id: p.ID})
			case types.PACKET_FIN:
				finSeen = true
			case types.PACKET_ERR:
				recvErr = io.ErrUnexpectedEOF
			}
			cond.Broadcast()
			fin := finSeen || recvErr != nil
			mu.Unlock()
			if fin {
				return
			}
		}
	}()
	chunkN := 0
	nextChunk := func() int {
		c := 32 * 1024
		if len(cfg.Chunk) > 0 {
			c = cfg.Chunk[chunkN%len(cfg.Chunk)]
			chunkN++
		}
		if c < 1 {
			c = 1
		}
		return c
	}
	// serve one DATA step for some pending job; returns false if nothing pending
	step := func() (bool, error) {
		mu.Lock()
		if len(pending) == 0 {
			mu.Unlock()
			return false, nil
		}
		k := 0
		switch cfg.Interleave {
		case "random":
			k = rng.Intn(len(pending))
		case "reverse":
			k = len(pending) - 1
		case "rr":
			k = 0
		}
		j := pending[k]
		mu.Unlock()
		var data []byte
		if int(j.id) < len(files) {
			data = files[j.id].data
		}
		if j.off >= len(data) {
			// terminator
			mu.Lock()
			for i, x := range pending {
				if x == j {
					pending = append(pending[:i], pending[i+1:]...)
					break
				}
			}
			mu.Unlock()
			return true, ep.SendMsg(&types.Packet{Type: types.PACKET_DATA, ID: j.id})
		}
		n := nextChunk()
		if n > len(data)-j.off {
			n = len(data) - j.off
		}
		err := ep.SendMsg(&types.Packet{Type: types.PACKET_DATA, ID: j.id, Data: data[j.off : j.off+n]})
		j.off += n
		if cfg.Interleave == "rr" {
			mu.Lock()
			for i, x := range pending {
				if x == j {
					pending = append(append(pending[:i:i], pending[i+1:]...), j)
					break
				}
			}
			mu.Unlock()
		}
		return true, err
	}
	for _, f := range files {
		if err := ep.SendMsg(&types.Packet{Type: types.PACKET_STAT, Stat: f.st}); err != nil {
			return err
		}
		if cfg.Eager {
			for rng.Intn(2) == 0 {
				ok, err := step()
				if err != nil {
					return err
				}
				if !ok {
					break
				}
			}
		}
	}
	if err := ep.SendMsg(&types.Packet{Type: types.PACKET_STAT}); err != nil {
		return err
	}
	statsDone = true
	_ = statsDone
	if cfg.EOFBeforeFin {
		// serve what is pending right now, then hang up
		for {
			ok, err := step()
			if err != nil || !ok {
				break
			}
		}
		return nil
	}
	for {
		ok, err := step()
		if err != nil {
			return err
		}
		if ok {
			continue
		}
		mu.Lock()
		for len(pending) == 0 && !finSeen && recvErr == nil {
			cond.Wait()
		}
		fin, rerr, np := finSeen, recvErr, len(pending)
		mu.Unlock()
		if np > 0 {
			continue
		}
		if rerr != nil {
			return rerr
		}
		if fin {
			return ep.SendMsg(&types.Packet{Type: types.PACKET_FIN})
		}
	}
}

// ---------------------------------------------------------------- reference RECEIVER (for testing Send)

type refRecvCfg struct {
	// request script: ids to request; "when" says at which point: after seeing STAT index k (k>=0), or -1 = after the end marker
	Reqs [][2]int // [id, afterStat]
	Seed int64
	// Stall: after the end marker was seen and every request was handed to the stream, stop reading
	// (a blocked/slow peer) until the stream is torn down
	Stall bool
	// Inline: requests and FIN are sent from the reading loop itself (a single-threaded peer: nothing is read while a send is pending)
	Inline bool
}

type refRecvResult struct {
	Stats         []*types.Stat
	EndSeen       int // number of end markers
	Data          map[uint32][]byte
	Term          map[uint32]int
	Order         []string
	FinEcho       bool
	Err           string
	AfterFin      int // packets after FIN echo
	DataBeforeReq int
}

func runRefReceiver(ep *endpoint, cfg refRecvCfg) *refRecvResult {
	res := &refRecvResult{Data: map[uint32][]byte{}, Term: map[uint32]int{}}
	requested := map[uint32]bool{}
	var mu sync.Mutex
	cond := sync.NewCond(&mu)
	var outq []*types.Packet // unbounded queue of packets to send; a conforming receiver never stops reading
	closed := false
	sendFailed := false
	done := make(chan struct{})
	go func() {
		defer close(done)
		for {
			mu.Lock()
			for len(outq) == 0 && !closed {
				cond.Wait()
			}
			if len(outq) == 0 && closed {
				mu.Unlock()
				return
			}
			p := outq[0]
			outq = outq[1:]
			mu.Unlock()
			if err := ep.SendMsg(p); err != nil {
				mu.Lock()
				sendFailed = true
				mu.Unlock()
				return
			}
		}
	}()
	enqueue := func(p *types.Packet) {
		if cfg.Inline {
			if err := ep.SendMsg(p); err != nil {
				mu.Lock()
				sendFailed = true
				mu.Unlock()
			}
			return
		}
		mu.Lock()
		outq = append(outq, p)
		cond.Broadcast()
		mu.Unlock()
	}
	defer func() {
		if res.Err != "" {
			// the reading loop gave up: from now on the peer's sends fail (as on a transport whose stream has ended);
			// otherwise the writer goroutine below and the peer's blocked senders would wait for each other
			ep.closeSend()
		}
		mu.Lock()
		closed = true
		cond.Broadcast()
		mu.Unlock()
		<-done
		if sendFailed && res.Err == "" {
			res.Err = "send"
		}
	}()
	outstanding := 0
	sendReqsFor := func(k int) {
		for _, r := range cfg.Reqs {
			if r[1] == k {
				requested[uint32(r[0])] = true
				outstanding++
				enqueue(&types.Packet{Type: types.PACKET_REQ, ID: uint32(r[0])})
			}
		}
	}
	finSent := false
	maybeFin := func() {
		if res.EndSeen > 0 && outstanding == 0 && !finSent {
			finSent = true
			enqueue(&types.Packet{Type: types.PACKET_FIN})
		}
	}
	for {
		var p types.Packet
		err := ep.RecvMsg(&p)
		if err != nil {
			if err != io.EOF {
				res.Err = "recv"
			} else if !res.FinEcho {
				res.Err = "eof"
			}
			return res
		}
		if res.FinEcho {
			res.AfterFin++
			continue
		}
		switch p.Type {
		case types.PACKET_STAT:
			if p.Stat == nil {
				res.EndSeen++
				sendReqsFor(-1)
				if cfg.Stall {
					<-ep.sh.torn
					res.Err = "stalled"
					return res
				}
			} else {
				if res.EndSeen > 0 {
					res.Err = "stat-after-end"
				}
				res.Stats = append(res.Stats, p.Stat.Clone())
				sendReqsFor(len(res.Stats) - 1)
			}
		case types.PACKET_DATA:
			if !requested[p.ID] {
				res.DataBeforeReq++
			}
			if len(p.Data) == 0 {
				res.Term[p.ID]++
				outstanding--
			} else {
				if res.Term[p.ID] > 0 {
					res.Err = "data-after-terminator"
				}
				res.Data[p.ID] = append(res.Data[p.ID], p.Data...)
			}
		case types.PACKET_FIN:
			res.FinEcho = true
		case types.PACKET_ERR:
			res.Err = "err-packet"
			return res
		}
		maybeFin()
	}
}
