package main

import (
	"encoding/json"
	"os"
	"os/exec"
	"syscall"
)

// Unprivileged receiver: the whole transfer (prior destination, Send from the synthetic source, Receive, snapshots)
// runs in a child process that chroots into a fresh directory owned by uid/gid 1000 and then drops to that user.
// Code paths that root never takes (EACCES on read-only files, EPERM on chown) are exercised this way.

func init() {
	childCmds["usync"] = childUsync
}

const unprivID = 1000

func runUnprivSync(o Op) map[string]interface{} {
	dir := newScratch("usync")
	defer func() { exec.Command("rm", "-rf", dir).Run() }()
	if err := os.Chmod(dir, 0755); err != nil {
		return map[string]interface{}{"err": err.Error()}
	}
	if err := os.Chown(dir, unprivID, unprivID); err != nil {
		return map[string]interface{}{"err": err.Error()}
	}
	b, _ := json.Marshal(map[string]interface{}(o))
	cmd := exec.Command("/proc/self/exe", "child", "usync", dir)
	cmd.Stdin = bytesReader(b)
	outb, err := cmd.Output()
	r := map[string]interface{}{}
	dec := json.NewDecoder(bytesReader(outb))
	dec.UseNumber()
	if err != nil || dec.Decode(&r) != nil {
		msg := ""
		if ee, ok := err.(*exec.ExitError); ok {
			msg = string(ee.Stderr)
			if len(msg) > 600 {
				msg = msg[len(msg)-600:]
			}
		}
		return map[string]interface{}{"err": "unprivileged child failed: " + msg}
	}
	return r
}

func childUsync(args []string) {
	var o Op
	dec := json.NewDecoder(os.Stdin)
	dec.UseNumber()
	if err := dec.Decode(&o); err != nil {
		os.Exit(3)
	}
	if err := chrootTo(args[0]); err != nil {
		os.Exit(4)
	}
	if err := syscall.Setgroups([]int{}); err != nil {
		os.Exit(5)
	}
	if err := syscall.Setgid(unprivID); err != nil {
		os.Exit(5)
	}
	if err := syscall.Setuid(unprivID); err != nil {
		os.Exit(5)
	}
	os.Setenv("VERIF_SCRATCH", "/")
	os.Setenv("TMPDIR", "/")
	opt := Op(o["opt"].(map[string]interface{}))
	delete(opt, "unpriv")
	res := syncOnce(o, nil)
	res["euid"] = os.Geteuid()
	json.NewEncoder(os.Stdout).Encode(res)
}
