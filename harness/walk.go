package main

import (
	"context"
	gofs "io/fs"
	"os"
	"path/filepath"

	"github.com/tonistiigi/fsutil"
	"github.com/tonistiigi/fsutil/types"
)

func init() {
	handlers["walk"] = hWalk
}

// walkStats runs fs.Walk and collects (callback path, stat)
func walkStats(fs fsutil.FS, target string) ([]interface{}, error) {
	var out []interface{}
	err := fs.Walk(context.Background(), target, func(p string, e gofs.DirEntry, err error) error {
		if err != nil {
			return err
		}
		fi, err := e.Info()
		if err != nil {
			return err
		}
		st, ok := fi.Sys().(*types.Stat)
		if !ok {
			return os.ErrInvalid
		}
		m := statToJSON(st)
		m["cb"] = hx(p)
		out = append(out, m)
		return nil
	})
	return out, err
}

func hWalk(o Op) map[string]interface{} {
	dir := newScratch("walk")
	defer os.RemoveAll(dir)
	root := filepath.Join(dir, "root")
	if err := os.Mkdir(root, 0755); err != nil {
		return map[string]interface{}{"err": err.Error()}
	}
	if err := mktree(root, treeFromJSON(o.arr("tree"))); err != nil {
		return map[string]interface{}{"err": "mktree: " + err.Error()}
	}
	snap, err := snapshot(root, false)
	if err != nil {
		return map[string]interface{}{"err": "snapshot: " + err.Error()}
	}
	fs, err := fsutil.NewFS(root)
	if err != nil {
		return map[string]interface{}{"err": "newfs: " + err.Error()}
	}
	res := map[string]interface{}{"snap": snapsToJSON(snap)}
	out, err := walkStats(fs, o.hex("target"))
	if err != nil {
		res["walkerr"] = "error"
	}
	res["out"] = out
	return res
}
