package main

import (
	"context"
	gofs "io/fs"
	"os"
	"path/filepath"

	"github.com/tonistiigi/fsutil"
	"github.com/tonistiigi/fsutil/types"
)

func init() {
	handlers["walk"] = hWalk
	handlers["subwalk"] = hSubWalk
}

// hSubWalk: SubDirFS over several materialised trees
func hSubWalk(o Op) map[string]interface{} {
	dir := newScratch("subwalk")
	defer os.RemoveAll(dir)
	var dirs []fsutil.Dir
	outDirs := []interface{}{}
	for k, d := range o.arr("dirs") {
		dm := Op(d.(map[string]interface{}))
		root := filepath.Join(dir, itoa(k))
		if err := os.Mkdir(root, 0755); err != nil {
			return map[string]interface{}{"err": err.Error()}
		}
		if err := mktree(root, treeFromJSON(dm.arr("tree"))); err != nil {
			return map[string]interface{}{"err": "mktree: " + err.Error()}
		}
		snap, err := snapshot(root, false)
		if err != nil {
			return map[string]interface{}{"err": "snapshot: " + err.Error()}
		}
		f, err := fsutil.NewFS(root)
		if err != nil {
			return map[string]interface{}{"err": "newfs: " + err.Error()}
		}
		st := &types.Stat{Path: dm.hex("name"), Mode: uint32(os.ModeDir) | 0755, Uid: uint32(dm.num("uid")), ModTime: 1600000000000000000}
		dirs = append(dirs, fsutil.Dir{Stat: st, FS: f})
		outDirs = append(outDirs, map[string]interface{}{"root": statToJSON(st), "snap": snapsToJSON(snap)})
	}
	res := map[string]interface{}{"dirs": outDirs}
	sfs, err := fsutil.SubDirFS(dirs)
	if err != nil {
		res["newerr"] = err.Error()
		return res
	}
	out, err := walkStats(sfs, "")
	if err != nil {
		res["walkerr"] = err.Error()
	}
	res["out"] = out
	return res
}

// walkStats runs fs.Walk and collects (callback path, stat)
func walkStats(fs fsutil.FS, target string) ([]interface{}, error) {
	var out []interface{}
	err := fs.Walk(context.Background(), target, func(p string, e gofs.DirEntry, err error) error {
		if err != nil {
			return err
		}
		fi, err := e.Info()
		if err != nil {
			return err
		}
		st, ok := fi.Sys().(*types.Stat)
		if !ok {
			return os.ErrInvalid
		}
		m := statToJSON(st)
		m["cb"] = hx(p)
		// the stat of an entry is a fact about the entry: asking again (as wrappers such as the hard-link reset do) must give the same answer
		if fi2, err2 := e.Info(); err2 != nil {
			m["info2"] = "error: " + err2.Error()
		} else if st2, ok := fi2.Sys().(*types.Stat); !ok {
			m["info2"] = "no stat"
		} else if !st.EqualVT(st2) {
			m["info2"] = statToJSON(st2)
		}
		out = append(out, m)
		return nil
	})
	return out, err
}

func hWalk(o Op) map[string]interface{} {
	dir := newScratch("walk")
	defer os.RemoveAll(dir)
	root := filepath.Join(dir, "root")
	if err := os.Mkdir(root, 0755); err != nil {
		return map[string]interface{}{"err": err.Error()}
	}
	if err := mktree(root, treeFromJSON(o.arr("tree"))); err != nil {
		return map[string]interface{}{"err": "mktree: " + err.Error()}
	}
	snap, err := snapshot(root, false)
	if err != nil {
		return map[string]interface{}{"err": "snapshot: " + err.Error()}
	}
	if o.boolean("root_symlink") {
		// the caller names the tree through a symlink (the last component of the root path is a link to the directory)
		link := filepath.Join(dir, "rootlink")
		if err := os.Symlink("root", link); err != nil {
			return map[string]interface{}{"err": err.Error()}
		}
		root = link
	}
	fs, err := fsutil.NewFS(root)
	if err != nil {
		return map[string]interface{}{"err": "newfs: " + err.Error()}
	}
	res := map[string]interface{}{"snap": snapsToJSON(snap)}
	out, err := walkStats(fs, o.hex("target"))
	if err != nil {
		res["walkerr"] = "error"
	}
	res["out"] = out
	return res
}
