package main

import (
	"bytes"
	"context"
	"os"
	"sync"
	"time"

	"github.com/tonistiigi/fsutil"
	"github.com/tonistiigi/fsutil/types"
)

func init() {
	handlers["sendproto"] = hSendProto
}

func intList(xs []interface{}) []int {
	out := make([]int, 0, len(xs))
	for _, x := range xs {
		out = append(out, int(num64(x)))
	}
	return out
}

// hSendProto: real fsutil.Send over a synthetic view against the independent reference receiver.
func hSendProto(o Op) map[string]interface{} {
	log := &evLog{}
	fs, mfs, view, err := buildSource(o, "", log)
	if err != nil {
		return map[string]interface{}{"err": "source: " + err.Error()}
	}
	opt := Op(o["opt"].(map[string]interface{}))
	cfg := streamCfg{Cap: opt.num("cap"), DelayUS: opt.num("delay"), LingerUS: opt.num("linger"), Window: opt.num("window"), Seed: int64(opt.num("seed"))}
	if mfs != nil {
		mfs.readSizes = intList(opt.arr("readsizes"))
	}
	var reqs [][2]int
	for _, r := range o.arr("reqs") {
		a := r.([]interface{})
		reqs = append(reqs, [2]int{int(num64(a[0])), int(num64(a[1]))})
	}
	ctx, cancel := context.WithCancel(context.Background())
	defer cancel()
	s, r, sh := newPipe(ctx, &cfg, log)
	var pmu sync.Mutex
	var progress [][2]int
	var sendErr error
	sendRet := false
	var rres *refRecvResult
	var sendRetAt time.Time
	done := make(chan int, 2)
	go func() {
		sendErr = fsutil.Send(ctx, s, fs, func(n int, last bool) {
			pmu.Lock()
			progress = append(progress, [2]int{n, b2i(last)})
			pmu.Unlock()
		})
		sendRetAt = time.Now()
		sendRet = true
		log.add(logEv{End: "S", Kind: "return", N: b2i(sendErr != nil)})
		s.closeSend()
		done <- 1
	}()
	go func() {
		rres = runRefReceiver(r, refRecvCfg{Reqs: reqs, Seed: cfg.Seed, Stall: opt.boolean("stall"), Inline: opt.boolean("inline")})
		r.closeSend()
		done <- 2
	}()
	to := 20 * time.Second
	if opt.boolean("stall") {
		to = 300 * time.Millisecond
	}
	// (torn down after `to` WITHOUT stream traffic, hard limit 15x: a run of tens of thousands of one-byte packets on a loaded
	// machine is slow, not blocked)
	timer := time.NewTicker(to / 4)
	defer timer.Stop()
	started := time.Now()
	n := 0
	blocked := false
	var tornAt time.Time
	for n < 2 {
		select {
		case <-done:
			n++
		case <-timer.C:
			if !opt.boolean("stall") && log.idleFor() < to && time.Since(started) < 15*to {
				continue
			}
			if opt.boolean("stall") && time.Since(started) < to {
				continue
			}
			blocked = !opt.boolean("stall")
			sh.teardown()
			tornAt = time.Now()
			t2 := time.NewTimer(3 * time.Second)
			for n < 2 {
				select {
				case <-done:
					n++
				case <-t2.C:
					n = 2
				}
			}
		}
	}
	alive, aliveAt := waitQuiesce(500 * time.Millisecond)
	out := map[string]interface{}{"send": errClass(sendErr, sendRet), "view": view, "log": logJSON(log, false), "alive": alive, "alive_at": aliveAt,
		"overlaps": []int32{s.overlapS, s.overlapR, r.overlapS, r.overlapR}, "blocked": blocked}
	if sendErr != nil {
		out["senderr"] = sendErr.Error()
	}
	if !tornAt.IsZero() {
		out["torn"] = true
		if sendRet {
			out["send_after_tear"] = sendRetAt.Sub(tornAt).Seconds()
		}
	}
	pmu.Lock()
	out["progress"] = progress
	pmu.Unlock()
	if rres != nil {
		// independent byte check: payloads received for an id concatenate to the bytes of the entry at STAT index id
		dataOK := map[string]interface{}{}
		full := map[string]interface{}{}
		for id, got := range rres.Data {
			want := []byte(nil)
			if mfs != nil && int(id) < len(rres.Stats) {
				want = memBytes(mfs, rres.Stats[id].Path)
			}
			k := itoa(int(id))
			dataOK[k] = bytes.HasPrefix(want, got)
			full[k] = bytes.Equal(want, got)
		}
		for id := range rres.Term {
			k := itoa(int(id))
			if _, ok := dataOK[k]; !ok {
				want := []byte(nil)
				if mfs != nil && int(id) < len(rres.Stats) {
					want = memBytes(mfs, rres.Stats[id].Path)
				}
				dataOK[k] = true
				full[k] = len(want) == 0
			}
		}
		terms := map[string]interface{}{}
		for id, c := range rres.Term {
			terms[itoa(int(id))] = c
		}
		stats := []interface{}{}
		for _, st := range rres.Stats {
			stats = append(stats, statToJSON(st))
		}
		out["ref"] = map[string]interface{}{"stats": stats, "ends": rres.EndSeen, "prefix_ok": dataOK, "full": full, "terms": terms,
			"fin_echo": rres.FinEcho, "err": rres.Err, "after_fin": rres.AfterFin, "data_before_req": rres.DataBeforeReq}
	}
	return out
}

func memBytes(fs *memFS, p string) []byte {
	i, ok := fs.idx[p]
	if !ok {
		return nil
	}
	e := fs.ents[i]
	if e.st.Linkname != "" && os.FileMode(e.st.Mode)&os.ModeType == 0 {
		if j, ok := fs.idx[e.st.Linkname]; ok {
			e = fs.ents[j]
		}
	}
	return e.data
}

func itoa(n int) string {
	if n == 0 {
		return "0"
	}
	neg := n < 0
	if neg {
		n = -n
	}
	var b []byte
	for n > 0 {
		b = append([]byte{byte('0' + n%10)}, b...)
		n /= 10
	}
	if neg {
		b = append([]byte{'-'}, b...)
	}
	return string(b)
}

var _ = types.PACKET_STAT
