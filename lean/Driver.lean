import Drv.Pure
import Drv.Stat
import Drv.Walk
import Drv.Sync
import Drv.Proto
import Drv.Meta
import Drv.Wire
import Drv.Filter
import Drv.Follow
import Drv.Copy
import Drv.Tar
open Lean Drv

/-- which repairs (`fix:` commits) the model follows; the driver always runs the repaired model,
the legacy variants stay available for the witness theorems -/
def handle (j : Json) : Except String Json := do
  let op ← getStr j "op"
  match op with
  | "cmp" => hCmp j
  | "pathfn" => hPathFn j
  | "validate" => hValidate j
  | "diff" => hDiff j
  | "walk" => hWalk j
  | "subwalk" => hSubWalk j
  | "sync" => hSync j
  | "fault" => hFault j
  | "metaonly" => hMetaOnly j
  | "wire_dec" => hWireDec j
  | "wire_enc" => hWireEnc j
  | "frames" => hFrames j
  | "filter" => hFilter j
  | "patmatch" => hPatMatch j
  | "followlinks" => hFollow j
  | "dedupe" => hDedupe j
  | "copy" => hCopy j
  | "tar" => hTar j
  | "metasync" => hMetaSync j
  | "sendproto" => hSendProto j
  | "recvproto" => hRecvProto j
  | "hostile" => hHostile j
  | _ => throw s!"bad-op {op}"

partial def loop (h : IO.FS.Stream) (out : IO.FS.Stream) : IO Unit := do
  let line ← h.getLine
  if line.isEmpty then return ()
  match Json.parse line with
  | .ok j =>
    match handle j with
    | .ok r => out.putStrLn r.compress
    | .error e => out.putStrLn (Json.mkObj [("err", e)]).compress
  | .error e => out.putStrLn (Json.mkObj [("err", e)]).compress
  loop h out

def main : IO Unit := do
  loop (← IO.getStdin) (← IO.getStdout)
