import Drv.Sync
import FsutilModel.Model.MetaOnlyB
import FsutilModel.Lemmas.C19Fwd
open Lean Fsm

namespace Drv

def hMetaOnly (j : Json) : Except String Json := do
  let view ← (← getArr j "view").toList.mapM parseVEnt
  let sel ← getHexArr j "selected"
  -- (nothing can be created below the name of the listing file: entries there are listed, never materialised - F33)
  let selected := fun p => sel.contains p && !underB metaNameB p
  let stats := view.map (·.st)
  let r := metaRun Fix.f2 selected stats
  let spec := specForwarded selected stats
  let fwd := dedupAdj r.forwarded
  return jobj [("files", Json.arr (r.files.map fun (p, n) => Json.arr #[jhex p, toJson n]).toArray),
               ("forwarded", Json.arr (fwd.map (fun s => jhex s.path)).toArray),
               ("listing", Json.arr (r.listing.map statJ).toArray),
               ("spec_forwarded", Json.arr (spec.map (fun s => jhex s.path)).toArray),
               ("spec_ids", Json.arr ((stats.zipIdx.filter fun (s, _) => s.path != metaNameB && selected s.path && s.canRequestData).map
                   fun (s, i) => Json.arr #[jhex s.path, toJson i]).toArray)]

end Drv

namespace Drv
open Fsm

/-- end-to-end metadata-only transfer: ids, listing file, destination -/
def hMetaSync (j : Json) : Except String Json := do
  let view ← (← getArr j "view").toList.mapM parseVEnt
  let sel ← getHexArr j "selected"
  -- (nothing can be created below the name of the listing file: entries there are listed, never materialised - F33)
  let selected := fun p => sel.contains p && !underB metaNameB p
  let before ← (← getArr j "before").toList.mapM parseSnap
  let afterAll ← (← getArr j "after").toList.mapM parseSnap
  let after := afterAll.filter (·.st.path ≠ metaNameB)
  let o := parseSyncOpt ((j.getObjVal? "opt").toOption.getD (jobj []))
  let stats := view.map (·.st)
  let r := metaRun Fix.f2 selected stats
  let fwd := dedupAdj r.forwarded
  let fview : List VEnt := fwd.map fun s => { st := s, sha := ((view.find? (·.st.path = s.path)).map (·.sha)).getD [] }
  -- ids the model expects to be requested: the registered id of every forwarded regular entry that needs its content
  let needPaths := (syncEvents o before after fview).filterMap fun ev => match ev with
    | .add e | .modify e => (match fview.find? (·.st.path = e.path) with
        | some v => if v.st.canRequestData && v.st.linkname = [] then some e.path else none
        | none => none)
    | .delete _ => none
  let reqs := needPaths.filterMap fun p => (r.files.find? (·.1 = p)).map (·.2)
  -- the property's own words: ids are positions in the full STAT sequence
  let specIds := needPaths.filterMap fun p => indexOfPath view p
  let specFwd := specForwarded selected stats
  let specView : List VEnt := specFwd.map fun s => { st := s, sha := ((view.find? (·.st.path = s.path)).map (·.sha)).getD [] }
  let mut out := [("reqs", toJson reqs), ("spec_reqs", toJson specIds),
                  ("listing", Json.arr (r.listing.map statJ).toArray),
                  ("spec_listing", Json.arr ((stats.filter (·.path ≠ metaNameB)).map statJ).toArray),
                  ("forwarded", Json.arr (fwd.map (fun s => jhex s.path)).toArray),
                  ("spec_forwarded", Json.arr (specFwd.map (fun s => jhex s.path)).toArray),
                  -- premise of C19.forwarded_is_selected_plus_ancestors, evaluated on the stream the real sender produced
                  ("canon", toJson (C19F.mcanonB (stats.filter (fun e => e.path ≠ metaNameB)))),
                  ("fwd_is_spec", toJson (r.forwarded.map (·.path) == specFwd.map (·.path)))]
  out := out ++ verdictJ "c01" (specSync o before after specView)
  out := out ++ verdictJ "c01_m" (specSync o before after fview)
  return jobj out

end Drv
