import Drv.Util
import FsutilModel.Model.DiffB
open Lean Fsm

namespace Drv

/-- stat as JSON: {"p":hex,"mode":n,"uid":n,"gid":n,"size":n,"mt":n,"ln":hex,"dmaj":n,"dmin":n,"x":[[hexk,hexv],..]} -/
def parseXattrs (j : Json) : List (Path × Path) :=
  match j.getObjVal? "x" with
  | .ok (.arr a) => a.toList.filterMap fun kv =>
      match kv with
      | .arr #[.str k, .str v] => some (unhex k, unhex v)
      | _ => none
  | _ => []

def xattrsJ (xs : List (Path × Path)) : Json :=
  Json.arr (xs.map fun (k, v) => Json.arr #[jhex k, jhex v]).toArray

def statJ (s : StatE) : Json :=
  jobj ([("p", jhex s.path), ("mode", toJson s.mode), ("uid", toJson s.uid), ("gid", toJson s.gid),
        ("size", toJson s.size), ("mt", toJson s.mtime), ("ln", jhex s.linkname),
        ("dmaj", toJson s.devmajor), ("dmin", toJson s.devminor)] ++
        (if s.xattrs.isEmpty then [] else [("x", xattrsJ s.xattrs)]))

def parseStat (j : Json) : Except String StatE := do
  return { xattrs := parseXattrs j, path := getHexD j "p", mode := getNatD j "mode" 0, uid := getNatD j "uid" 0, gid := getNatD j "gid" 0,
           size := (getInt j "size").toOption.getD 0, mtime := (getInt j "mt").toOption.getD 0,
           linkname := getHexD j "ln", devmajor := (getInt j "dmaj").toOption.getD 0,
           devminor := (getInt j "dmin").toOption.getD 0 }

def parseStats (j : Json) (k : String) : Except String (List StatE) := do
  (← getArr j k).toList.mapM parseStat

def evJ : BEv → Json
  | .add e => Json.arr #["add", jhex e.path]
  | .modify e => Json.arr #["modify", jhex e.path]
  | .delete p => Json.arr #["delete", jhex p]

/-- impl event: ["add"|"modify", stat] or ["delete", hexpath] -/
def parseImplEv (x : Json) : Except String BEv := do
  let a ← asArr x
  if a.size != 2 then throw "ev: want [kind, arg]"
  match (← asStr a[0]!) with
  | "delete" => return .delete (unhex (← asStr a[1]!))
  | "add" => return .add (← parseStat a[1]!).toEnt
  | "modify" => return .modify (← parseStat a[1]!).toEnt
  | k => throw s!"ev kind {k}"

def hDiff (j : Json) : Except String Json := do
  let lower ← parseStats j "lower"
  let upper ← parseStats j "upper"
  let none := getBoolD j "none" false
  let m := diffB none lower upper
  let le := lower.map StatE.toEnt
  let ue := upper.map StatE.toEnt
  let sm := specDiff none le ue m
  let base := [("m", Json.arr (m.map evJ).toArray), ("spec_m", toJson sm.ok), ("spec_m_why", toJson sm.why)]
  match j.getObjVal? "impl" with
  | .ok (.arr evs) =>
    let ievs ← evs.toList.mapM parseImplEv
    let si := specDiff none le ue ievs
    return jobj (base ++ [("spec_i", toJson si.ok), ("spec_i_why", toJson si.why)])
  | _ => return jobj base

end Drv
