import Drv.Stat
import FsutilModel.Model.Filter
import FsutilModel.Lemmas.C16Walk
open Lean Fsm Fsm.F Fsm.P

namespace Drv

def parseMap (j : Json) : List (Path × MapRes) :=
  match j.getObjVal? "map" with
  | .ok (.arr a) => a.toList.filterMap fun x =>
      match x with
      | .arr #[.str p, .str "exclude"] => some (unhex p, MapRes.exclude)
      | .arr #[.str p, .str "skipdir"] => some (unhex p, MapRes.skipDir)
      | .arr #[.str p, .str "keep"] => some (unhex p, MapRes.keep)
      | .arr #[.str p, .str "chown", n] => some (unhex p, MapRes.chown ((fromJson? n : Except String Nat).toOption.getD 0))
      | _ => none
  | _ => []

def parseCfg (j : Json) : Except String Cfg := do
  let inc ← getHexArr j "include"
  let exc ← getHexArr j "exclude"
  -- (a non-empty include list of blank entries only = a matcher without patterns = nothing matches; see `incOf` in Drv/Copy)
  let incP := parsePatterns inc
  let incP := if !inc.isEmpty && incP.isEmpty then parsePatterns [[0]] else incP
  return { inc := incP, exc := parsePatterns exc, map := parseMap j }

def hFilter (j : Json) : Except String Json := do
  let listing ← parseStats j "listing"
  let cfg ← parseCfg j
  let m := filterWalk Fix.f9 cfg listing
  let np := filterWalk Fix.f9 { cfg with prune := false } listing
  let r := reference { cfg with map := [] } listing
  let opens := listing.filter (fun s => s.isRegular) |>.map fun s => Json.arr #[jhex s.path, toJson (canOpen cfg s.path)]
  let raw := (getHexArr j "include").toOption.getD [] ++ (getHexArr j "exclude").toOption.getD []
  return jobj [("m", Json.arr (m.map statJ).toArray), ("noprune", Json.arr (np.map (fun s => jhex s.path)).toArray),
               ("ref", Json.arr (r.map (fun s => jhex s.path)).toArray), ("open", Json.arr opens.toArray),
               ("illegal", toJson (raw.any illegalBang)),
               -- premise of C16.filtered_walk_reports_copier_selection, evaluated on the listing the real walk produced
               ("canon", toJson (C16W.canonB listing))]

def hPatMatch (j : Json) : Except String Json := do
  let pats ← getHexArr j "patterns"
  let path ← getHex j "path"
  let ps := parsePatterns pats
  let single := ps.map fun p => patMatch p path
  -- chained parent results along the path's ancestors (as a walk would compute them)
  let pref := parentPrefixes path ++ [path]
  let (m, _) := pref.foldl (fun (acc : Bool × List Bool) q => matchesUPR ps q acc.2) (false, [])
  return jobj [("single", toJson single), ("mopm", toJson (matchesOrParent ps path)), ("upr", toJson m),
               ("illegal", toJson (pats.any illegalBang))]

end Drv
