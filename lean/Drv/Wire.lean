import Drv.Util
import FsutilModel.Model.Wire
open Lean Fsm Fsm.W

namespace Drv

def pstatJ (s : PStat) : Json :=
  jobj [("p", jhex s.path), ("mode", toJson s.mode), ("uid", toJson s.uid), ("gid", toJson s.gid), ("size", toJson s.size),
        ("mt", toJson s.mtime), ("ln", jhex s.linkname), ("dmaj", toJson s.devmajor), ("dmin", toJson s.devminor),
        ("x", Json.arr (s.xattrs.map fun (k, v) => Json.arr #[jhex k, jhex v]).toArray), ("unk", jhex s.unknown)]

def parsePStat (j : Json) : PStat :=
  let xs := match j.getObjVal? "x" with
    | .ok (.arr a) => a.toList.filterMap fun kv => match kv with
        | .arr #[.str k, .str v] => some (unhex k, unhex v)
        | _ => none
    | _ => []
  { path := getHexD j "p", mode := getNatD j "mode" 0, uid := getNatD j "uid" 0, gid := getNatD j "gid" 0,
    size := (getInt j "size").toOption.getD 0, mtime := (getInt j "mt").toOption.getD 0, linkname := getHexD j "ln",
    devmajor := (getInt j "dmaj").toOption.getD 0, devminor := (getInt j "dmin").toOption.getD 0, xattrs := xs,
    unknown := getHexD j "unk" }

def ppacketJ (p : PPacket) : Json :=
  jobj [("type", toJson p.type), ("id", toJson p.id), ("stat", match p.stat with | some s => pstatJ s | none => Json.null),
        ("data", match p.data with | some d => jhex d | none => Json.null), ("unk", jhex p.unknown)]

def parsePPacket (j : Json) : PPacket :=
  { type := (getInt j "type").toOption.getD 0, id := getNatD j "id" 0,
    stat := match j.getObjVal? "stat" with | .ok (.obj o) => some (parsePStat (.obj o)) | _ => none,
    data := match j.getObjVal? "data" with | .ok (.str s) => some (unhex s) | _ => none,
    unknown := getHexD j "unk" }

def hWireDec (j : Json) : Except String Json := do
  let bs ← getHex j "bytes"
  if getStrD j "kind" "stat" == "stat" then
    match unmarshalStat bs with
    | .ok s => return jobj [("ok", true), ("v", pstatJ s), ("reenc", jhex (marshalStat s))]
    | .error e => return jobj [("ok", false), ("err", toString (repr e))]
  else
    match unmarshalPacket bs with
    | .ok p => return jobj [("ok", true), ("v", ppacketJ p), ("reenc", jhex (marshalPacket p))]
    | .error e => return jobj [("ok", false), ("err", toString (repr e))]

def hWireEnc (j : Json) : Except String Json := do
  let v ← j.getObjVal? "v"
  if getStrD j "kind" "stat" == "stat" then
    let s := parsePStat v
    let b := marshalStat s
    return jobj [("bytes", jhex b), ("rt", toJson (match unmarshalStat b with | .ok s2 => decide (s2 = s) | .error _ => false)), ("size", toJson b.length)]
  else
    let p := parsePPacket v
    let b := marshalPacket p
    return jobj [("bytes", jhex b), ("rt", toJson (match unmarshalPacket b with | .ok p2 => decide (p2 = p) | .error _ => false)), ("size", toJson b.length)]

def hFrames (j : Json) : Except String Json := do
  let msgs ← getHexArr j "msgs"
  let stream := sendAll msgs
  match recvAll (stream.length + 1) stream with
  | some out => return jobj [("stream", jhex stream), ("ok", toJson (out == msgs))]
  | none => return jobj [("stream", jhex stream), ("ok", false)]

end Drv
