import Drv.Walk
import FsutilModel.Model.SyncB
import FsutilModel.Model.Filter
import FsutilModel.Model.FollowLinks
import FsutilModel.Lemmas.C18Fuel
open Lean Fsm

namespace Drv

def parseVEnt (j : Json) : Except String VEnt := do
  return { st := (← parseStat j), sha := getHexD j "sha" }

def parseSyncOpt (j : Json) : SyncOpt :=
  let rf := match j.getObjVal? "rfilter" with
    | .ok r => some (getNatD r "uid" 0, getNatD r "gid" 0)
    | _ => none
  { merge := getBoolD j "merge" false, differNone := getStrD j "differ" "" == "none", rfilter := rf }

/-- the sender's view: given directly (synthetic source) or derived from an on-disk snapshot by the walk model -/
def parseView (j : Json) : Except String (List VEnt) := do
  let arr ← getArr j "view"
  if getStrD j "viewkind" "mem" == "disk" then
    let snap ← arr.toList.mapM parseSnap
    let stats := walkHL snap []
    return stats.map fun s => { st := s, sha := ((snap.find? (·.st.path = s.path)).map (·.sha)).getD [] }
  else arr.toList.mapM parseVEnt

def parseNotif (x : Json) : Except String BEv := do
  let k := getStrD x "kind" ""
  let p := getHexD x "p"
  match k with
  | "delete" => return .delete p
  | "add" => return .add (← parseStat ((x.getObjVal? "stat").toOption.getD (jobj [("p", jhex p)]))).toEnt
  | "modify" => return .modify (← parseStat ((x.getObjVal? "stat").toOption.getD (jobj [("p", jhex p)]))).toEnt
  | _ => throw s!"notif kind {k}"

def viewToFL (full : List VEnt) : List FL.Ent :=
  full.map fun v => ⟨v.st.path, v.st.isDir, if v.st.isSymlink then some v.st.linkname else none⟩

/-- FilterOpt as NewFilterFS builds its matchers: FollowPaths are resolved against the unfiltered view and appended to the
include patterns, then de-duplicated (filter.go) -/
def parseSFilterKey (key : String) (j : Json) (full : List VEnt) : Except String (Option F.Cfg) := do
  match j.getObjVal? key with
  | .ok f =>
    let inc := (getHexArr f "include").toOption.getD []
    let exc := (getHexArr f "exclude").toOption.getD []
    let inc' ← match getHexArr f "follow" with
      | .ok paths =>
        let l := viewToFL full
        match FL.followLinks Fix.f4 l paths (8 * (l.length + 2) + 64) with
        | some ts => pure ((FL.dedupePaths Fix.f4 (inc ++ ts)).getD (inc ++ ts))
        | none => pure (if Fix.f25 then [] else inc)
      | .error _ => pure inc
    return some { inc := P.parsePatterns inc', exc := P.parsePatterns exc }
  | .error _ => return none

def parseSFilterWith (j : Json) (full : List VEnt) : Except String (Option F.Cfg) := parseSFilterKey "sfilter" j full

def parseSFilter (j : Json) : Except String (Option F.Cfg) := parseSFilterWith j []

/-- C18, last clause: every requested path (without wildcards) resolves in the transferred tree to the same location, entry kind
and bytes as in the source -/
def followResolves (full : List VEnt) (after : List Snap) (paths : List Path) : SpecVerdict := Id.run do
  let ls := viewToFL full
  let ld : List FL.Ent := after.map fun a => ⟨a.st.path, a.st.isDir, if a.st.isSymlink then some a.st.linkname else none⟩
  for q in paths do
    if q.any fun b => b == 42 || b == 63 || b == 91 then continue
    let pc := clean (([47] : Path) ++ q)
    let qq := joinSep ((comps pc).filter (· ≠ []))
    let (_, fs) := FL.resolve ls qq
    let (_, fd) := FL.resolve ld qq
    match fs with
    | none => continue            -- does not resolve in the source (cycle): nothing is demanded
    | some f =>
      if fd != some f then return ⟨false, "a requested path resolves to a different location in the transferred tree"⟩
      match full.find? (·.st.path = f), after.find? (·.st.path = f) with
      | some v, some a =>
        if v.st.isDir != a.st.isDir || v.st.isSymlink != a.st.isSymlink then return ⟨false, "a requested path resolves to an entry of another kind"⟩
        if v.st.canRequestData && v.st.linkname = [] && v.sha != a.sha then return ⟨false, "a requested path resolves to a file with other bytes"⟩
      | some _, none => if f ≠ [] then return ⟨false, "the entry a requested path resolves to was not transferred"⟩
      | none, some _ => return ⟨false, "a requested path resolves to an entry the source does not have"⟩
      | none, none => pure ()
  return ⟨true, ""⟩

def hSync (j : Json) : Except String Json := do
  let full ← parseView j
  let sf ← parseSFilterWith j full
  -- an optional second filter stacked on top of the first (NewFilterFS(NewFilterFS(fs, sfilter), sfilter2))
  -- (its follow paths are resolved in the view of the filter below it, not in the raw tree)
  let below := match sf with
    | some cfg => F.senderView Fix.f9 cfg full
    | none => full
  let sf2 ← parseSFilterKey "sfilter2" j below
  let view := match sf, sf2 with
    | some cfg, some cfg2 => F.senderViewN Fix.f9 [cfg, cfg2] full
    | some cfg, none => F.senderView Fix.f9 cfg full
    | none, some cfg2 => F.senderView Fix.f9 cfg2 full
    | none, none => F.senderView Fix.f9 { inc := [], exc := [] } full
  let before ← (← getArr j "before").toList.mapM parseSnap
  let after ← (← getArr j "after").toList.mapM parseSnap
  let o := parseSyncOpt ((j.getObjVal? "opt").toOption.getD (jobj []))
  let evs := syncEvents o before after view
  let reqs := expectedReqs o before after view
  let mut out := [("events", Json.arr (evs.map evJ).toArray), ("reqs", toJson reqs),
                  ("sent", Json.arr (view.map (fun v => statJ v.st)).toArray),
                  ("links_closed", toJson (F.linksClosed [] (view.map (·.st))))]
  out := out ++ verdictJ "c01" (specSync o before after view)
  out := out ++ verdictJ "untouched" (specUntouched o before after view)
  match (j.getObjVal? "sfilter").toOption.bind (fun f => (getHexArr f "follow").toOption) with
  | some paths =>
    out := out ++ verdictJ "follow" (followResolves full after paths)
    -- is the include set FollowLinks computed closed for these requests (C18 reference)? (known findings F12/F19 make it open)
    let l := viewToFL full
    let r := FL.followLinks Fix.f4 l paths (8 * (l.length + 2) + 64)
    out := out ++ [("follow_spec", toJson (FL.specFollow l paths r).ok), ("follow_metalink", toJson (FL.metaLink l)),
                   ("follow_fuel_ok", toJson (!(FL.resolveAllX l (8 * (l.length + 2) + 64) paths).2))]
  | none => pure ()
  -- C05: the notifications the implementation made, judged by the listing-level spec
  match j.getObjVal? "notif" with
  | .ok (.arr ns) =>
    let ievs ← ns.toList.mapM parseNotif
    let lower := (lowerObs o before after view).map StatE.toEnt
    let upperF := view.map fun v => (applyRFilter o v.st).toEnt
    -- notifications carry the stat as sent (unfiltered); compare on the filtered listing by path
    -- add and modify are both read as "the path now carries this entry" (the code reports every regular
    -- file with kind add): the kind is normalised by whether the path existed
    let up (e : BEnt) : BEv :=
      let u := (upperF.find? (·.path = e.path)).getD e
      if (lower.find? (·.path = e.path)).isSome then .modify u else .add u
    let ievsF := ievs.map fun ev => match ev with
      | .add e => up e
      | .modify e => up e
      | .delete p => .delete p
    out := out ++ verdictJ "notif" (specDiff o.differNone lower upperF ievsF)
  | _ => pure ()
  return jobj out

end Drv

namespace Drv
open Fsm

/-- C04: a faulty run (before → mid) followed by a fault-free run (mid → after) -/
def hFault (j : Json) : Except String Json := do
  let view ← parseView j
  let before ← (← getArr j "before").toList.mapM parseSnap
  let mid ← (← getArr j "mid").toList.mapM parseSnap
  let after ← (← getArr j "after").toList.mapM parseSnap
  let o := parseSyncOpt ((j.getObjVal? "opt").toOption.getD (jobj []))
  return jobj (verdictJ "c01_mid" (specSync o before mid view) ++ verdictJ "c01_after" (specSync o mid after view))

end Drv
