import Drv.Walk
import FsutilModel.Model.SyncB
import FsutilModel.Model.Filter
open Lean Fsm

namespace Drv

def parseVEnt (j : Json) : Except String VEnt := do
  return { st := (← parseStat j), sha := getHexD j "sha" }

def parseSyncOpt (j : Json) : SyncOpt :=
  let rf := match j.getObjVal? "rfilter" with
    | .ok r => some (getNatD r "uid" 0, getNatD r "gid" 0)
    | _ => none
  { merge := getBoolD j "merge" false, differNone := getStrD j "differ" "" == "none", rfilter := rf }

/-- the sender's view: given directly (synthetic source) or derived from an on-disk snapshot by the walk model -/
def parseView (j : Json) : Except String (List VEnt) := do
  let arr ← getArr j "view"
  if getStrD j "viewkind" "mem" == "disk" then
    let snap ← arr.toList.mapM parseSnap
    let stats := walkHL snap []
    return stats.map fun s => { st := s, sha := ((snap.find? (·.st.path = s.path)).map (·.sha)).getD [] }
  else arr.toList.mapM parseVEnt

def parseNotif (x : Json) : Except String BEv := do
  let k := getStrD x "kind" ""
  let p := getHexD x "p"
  match k with
  | "delete" => return .delete p
  | "add" => return .add (← parseStat ((x.getObjVal? "stat").toOption.getD (jobj [("p", jhex p)]))).toEnt
  | "modify" => return .modify (← parseStat ((x.getObjVal? "stat").toOption.getD (jobj [("p", jhex p)]))).toEnt
  | _ => throw s!"notif kind {k}"

def parseSFilter (j : Json) : Except String (Option F.Cfg) := do
  match j.getObjVal? "sfilter" with
  | .ok f =>
    let inc := (getHexArr f "include").toOption.getD []
    let exc := (getHexArr f "exclude").toOption.getD []
    return some { inc := P.parsePatterns inc, exc := P.parsePatterns exc }
  | .error _ => return none

def hSync (j : Json) : Except String Json := do
  let full ← parseView j
  let sf ← parseSFilter j
  let view := match sf with
    | some cfg => F.senderView Fix.f9 cfg full
    | none => F.senderView Fix.f9 { inc := [], exc := [] } full
  let before ← (← getArr j "before").toList.mapM parseSnap
  let after ← (← getArr j "after").toList.mapM parseSnap
  let o := parseSyncOpt ((j.getObjVal? "opt").toOption.getD (jobj []))
  let evs := syncEvents o before after view
  let reqs := expectedReqs o before after view
  let mut out := [("events", Json.arr (evs.map evJ).toArray), ("reqs", toJson reqs),
                  ("sent", Json.arr (view.map (fun v => statJ v.st)).toArray),
                  ("links_closed", toJson (F.linksClosed [] (view.map (·.st))))]
  out := out ++ verdictJ "c01" (specSync o before after view)
  out := out ++ verdictJ "untouched" (specUntouched o before after view)
  -- C05: the notifications the implementation made, judged by the listing-level spec
  match j.getObjVal? "notif" with
  | .ok (.arr ns) =>
    let ievs ← ns.toList.mapM parseNotif
    let lower := (lowerObs o before after view).map StatE.toEnt
    let upperF := view.map fun v => (applyRFilter o v.st).toEnt
    -- notifications carry the stat as sent (unfiltered); compare on the filtered listing by path
    -- add and modify are both read as "the path now carries this entry" (the code reports every regular
    -- file with kind add): the kind is normalised by whether the path existed
    let up (e : BEnt) : BEv :=
      let u := (upperF.find? (·.path = e.path)).getD e
      if (lower.find? (·.path = e.path)).isSome then .modify u else .add u
    let ievsF := ievs.map fun ev => match ev with
      | .add e => up e
      | .modify e => up e
      | .delete p => .delete p
    out := out ++ verdictJ "notif" (specDiff o.differNone lower upperF ievsF)
  | _ => pure ()
  return jobj out

end Drv

namespace Drv
open Fsm

/-- C04: a faulty run (before → mid) followed by a fault-free run (mid → after) -/
def hFault (j : Json) : Except String Json := do
  let view ← parseView j
  let before ← (← getArr j "before").toList.mapM parseSnap
  let mid ← (← getArr j "mid").toList.mapM parseSnap
  let after ← (← getArr j "after").toList.mapM parseSnap
  let o := parseSyncOpt ((j.getObjVal? "opt").toOption.getD (jobj []))
  return jobj (verdictJ "c01_mid" (specSync o before mid view) ++ verdictJ "c01_after" (specSync o mid after view))

end Drv
