import Drv.Stat
import FsutilModel.Model.SendProto
import FsutilModel.Model.RecvProto
import Drv.Sync
open Lean Fsm

namespace Drv

/-- log event: {"e":"S"|"R","k":"send"|"recv"|"return",...} as produced by the harness -/
def parseSenderLog (log : Array Json) : List SP.LEv :=
  log.toList.filterMap fun x =>
    let e := getStrD x "e" ""
    let k := getStrD x "k" ""
    let t := getStrD x "t" ""
    let id := getNatD x "id" 0
    let n := getNatD x "n" 0
    if e != "S" then none else
    match k, t with
    | "send", "STAT" => if (x.getObjVal? "stat").isOk then some .sStat else some .sEnd
    | "send", "DATA" => if n == 0 then some (.sTerm id) else some (.sData id n)
    | "send", "FIN" => some .sFin
    | "send", "ERR" => some .sErr
    | "recv", "REQ" => some (.rReq id)
    | "recv", "FIN" => some .rFin
    | "return", _ => some (.ret (n == 0))
    | _, _ => none

def hSendProto (j : Json) : Except String Json := do
  let view ← parseStats j "view"
  let log ← getArr j "log"
  -- the length of a file is what its reader yields (`rsize`, when the view says so: a source may announce another size)
  let raw ← getArr j "view"
  let rs : List (Option Nat) := raw.toList.map fun x => match x.getObjVal? "rsize" with
    | .ok y => (y.getNat?).toOption
    | .error _ => none
  let v := (view.zip rs).map fun (s, r) => (s.isRegular, if s.isRegular then r.getD s.size.toNat else 0)
  let vd := SP.accept v (parseSenderLog log)
  return jobj [("accept", toJson vd.ok), ("at", toJson vd.at_), ("why", toJson vd.why)]

end Drv

namespace Drv
open Fsm

def parseReceiverLog (log : Array Json) : List R.Ev :=
  log.toList.filterMap fun x =>
    let e := getStrD x "e" ""
    let k := getStrD x "k" ""
    let t := getStrD x "t" ""
    let id := getNatD x "id" 0
    let n := getNatD x "n" 0
    if e != "R" then none else
    match k, t with
    | "recv", "STAT" => if (x.getObjVal? "stat").isOk then some .rStat else some .rEnd
    | "recv", "DATA" => if n == 0 then some (.rTerm id) else some (.rData id (List.replicate n 0))
    | "send", "REQ" => some (.sReq id)
    | "send", "FIN" => some .sFin
    | _, _ => none

def accRunR (s : R.St) (i : Nat) : List R.Ev → (Bool × Nat × R.St)
  | [] => (true, i, s)
  | e :: es => match R.step s e with
    | some s' => accRunR s' (i+1) es
    | none => (false, i, s)

def hRecvProto (j : Json) : Except String Json := do
  let view ← (← getArr j "view").toList.mapM parseVEnt
  let before ← (← getArr j "before").toList.mapM parseSnap
  let after ← (← getArr j "after").toList.mapM parseSnap
  let o := parseSyncOpt ((j.getObjVal? "opt").toOption.getD (jobj []))
  let need := expectedReqs o before after view
  let evs := parseReceiverLog (← getArr j "log")
  let (ok, at_, s) := accRunR { need := need } 0 evs
  let mut out := [("accept", toJson ok), ("at", toJson at_), ("need", toJson need), ("reqd", toJson s.reqd.reverse),
                  ("fin", toJson s.finSent)]
  out := out ++ verdictJ "c01" (specSync o before after view)
  match j.getObjVal? "atfin" with
  | .ok (.arr a) =>
    let atfin ← a.toList.mapM parseSnap
    out := out ++ verdictJ "atfin" (specSync o before atfin view)
  | _ => pure ()
  return jobj out

def parsePkt (x : Json) : Except String R.Pkt := do
  match getStrD x "t" "" with
  | "STAT" =>
    match x.getObjVal? "stat" with
    | .ok (.obj _) => return .stat (← parseStat ((x.getObjVal? "stat").toOption.getD .null))
    | _ => return .endStats
  | "DATA" => return .data (getNatD x "id" 0) ((getNatD x "n" 0 == 0) && (getStrD x "data" "" == ""))
  | "FIN" => return .fin
  | "ERR" => return .err
  | t => throw s!"pkt {t}"

def hHostile (j : Json) : Except String Json := do
  let ps ← (← getArr j "script").toList.mapM parsePkt
  let stats := ps.filterMap fun p => match p with | .stat s => some s | _ => none
  let requestable := fun (id : Nat) => match stats[id]? with
    | some s => s.canRequestData && s.linkname == []
    | none => false
  match R.admission requestable ps with
  | .allOk => return jobj [("offender", Json.null)]
  | .offender i why => return jobj [("offender", toJson i), ("why", toJson why)]

end Drv
