import Drv.Stat
import FsutilModel.Model.SendProto
open Lean Fsm

namespace Drv

/-- log event: {"e":"S"|"R","k":"send"|"recv"|"return",...} as produced by the harness -/
def parseSenderLog (log : Array Json) : List SP.LEv :=
  log.toList.filterMap fun x =>
    let e := getStrD x "e" ""
    let k := getStrD x "k" ""
    let t := getStrD x "t" ""
    let id := getNatD x "id" 0
    let n := getNatD x "n" 0
    if e != "S" then none else
    match k, t with
    | "send", "STAT" => if (x.getObjVal? "stat").isOk then some .sStat else some .sEnd
    | "send", "DATA" => if n == 0 then some (.sTerm id) else some (.sData id n)
    | "send", "FIN" => some .sFin
    | "send", "ERR" => some .sErr
    | "recv", "REQ" => some (.rReq id)
    | "recv", "FIN" => some .rFin
    | "return", _ => some (.ret (n == 0))
    | _, _ => none

def hSendProto (j : Json) : Except String Json := do
  let view ← parseStats j "view"
  let log ← getArr j "log"
  let v := view.map fun s => (s.isRegular, if s.isRegular then s.size.toNat else 0)
  let vd := SP.accept v (parseSenderLog log)
  return jobj [("accept", toJson vd.ok), ("at", toJson vd.at_), ("why", toJson vd.why)]

end Drv
