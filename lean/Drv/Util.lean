import Lean.Data.Json
import FsutilModel.Path
open Lean

namespace Drv

def hexVal (c : Char) : Nat :=
  if '0' ≤ c ∧ c ≤ '9' then c.toNat - 48
  else if 'a' ≤ c ∧ c ≤ 'f' then c.toNat - 87
  else if 'A' ≤ c ∧ c ≤ 'F' then c.toNat - 55 else 0

def unhex (s : String) : List Nat :=
  let rec go : List Char → List Nat
    | a :: b :: rest => (hexVal a * 16 + hexVal b) :: go rest
    | _ => []
  go s.toList

def hexDigit (n : Nat) : Char := if n < 10 then Char.ofNat (48 + n) else Char.ofNat (87 + n)

def hex (bs : List Nat) : String :=
  String.ofList (bs.flatMap fun b => [hexDigit ((b / 16) % 16), hexDigit (b % 16)])

def getStr (j : Json) (k : String) : Except String String := j.getObjValAs? String k
def getHex (j : Json) (k : String) : Except String (List Nat) := do return unhex (← getStr j k)
def getNat (j : Json) (k : String) : Except String Nat := j.getObjValAs? Nat k
def getInt (j : Json) (k : String) : Except String Int := j.getObjValAs? Int k
def getBool (j : Json) (k : String) : Except String Bool := j.getObjValAs? Bool k
def getArr (j : Json) (k : String) : Except String (Array Json) := do
  match (← j.getObjVal? k) with
  | .arr a => pure a
  | _ => throw s!"{k}: not an array"
def getHexArr (j : Json) (k : String) : Except String (List (List Nat)) := do
  let a ← getArr j k
  a.toList.mapM fun x => match x with
    | .str s => pure (unhex s)
    | _ => throw s!"{k}: not a string"
def getBoolD (j : Json) (k : String) (d : Bool) : Bool := (j.getObjValAs? Bool k).toOption.getD d
def getNatD (j : Json) (k : String) (d : Nat) : Nat := (j.getObjValAs? Nat k).toOption.getD d
def getStrD (j : Json) (k : String) (d : String) : String := (j.getObjValAs? String k).toOption.getD d
def getHexD (j : Json) (k : String) : List Nat := unhex (getStrD j k "")

def asStr : Json → Except String String
  | .str s => pure s
  | _ => throw "not a string"
def asNat (j : Json) : Except String Nat := fromJson? j
def asInt (j : Json) : Except String Int := fromJson? j
def asBool : Json → Except String Bool
  | .bool b => pure b
  | _ => throw "not a bool"
def asArr : Json → Except String (Array Json)
  | .arr a => pure a
  | _ => throw "not an array"

def jhex (bs : List Nat) : Json := Json.str (hex bs)
def jobj (kvs : List (String × Json)) : Json := Json.mkObj kvs

end Drv
