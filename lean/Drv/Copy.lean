import Drv.Walk
import FsutilModel.Model.CopyB
import FsutilModel.Lemmas.C16Walk
open Lean Fsm Fsm.C

namespace Drv

def toFLs (s : Snap) : FL.Ent := ⟨s.st.path, s.st.isDir, if s.st.isSymlink then some s.st.linkname else none⟩

/-- chroot-style resolution of `p` inside a tree; `followFinal` = also follow a symlink in the last component -/
def resolveIn (tree : List Snap) (p : Path) (followFinal : Bool) : Option Path :=
  let l := tree.map toFLs
  let pc := clean (([47] : Path) ++ p)
  let cs := (comps pc).filter (· ≠ [])
  if followFinal then (FL.resolve l (joinSep cs)).2
  else
    match cs.reverse with
    | [] => some []
    | last :: revInit =>
      match (FL.resolve l (joinSep revInit.reverse)).2 with
      | some d => some (if d = [] then last else d ++ [47] ++ last)
      | none => none

/-- include patterns as `copy.go` / `filter.go` compile them: a NON-EMPTY list whose entries are all blank compiles to a matcher
without patterns, which matches nothing (an absent or empty list means "no include filter"). The pattern lists of the model
cannot tell the two apart, so the blank-only list is represented by one pattern that no path can match (a NUL byte). -/
def incOf (raw : List (List Nat)) : List P.Pat :=
  let ps := P.parsePatterns raw
  if !raw.isEmpty && ps.isEmpty then P.parsePatterns [[0]] else ps

def parseArgs (j : Json) : Except String Args := do
  let a ← j.getObjVal? "args"
  let inc := (getHexArr a "include").toOption.getD []
  let exc := (getHexArr a "exclude").toOption.getD []
  let chown := match a.getObjVal? "chown" with
    | .ok (.arr #[u, g]) => some ((fromJson? u : Except String Nat).toOption.getD 0, (fromJson? g : Except String Nat).toOption.getD 0)
    | _ => none
  return { src := getHexD a "src", dst := getHexD a "dst", cdc := getBoolD a "cdc" false, follow := getBoolD a "follow" false,
           replace := getBoolD a "replace" false, inc := incOf inc, exc := P.parsePatterns exc, chown := chown,
           mode := (a.getObjValAs? Nat "mode").toOption, utime := (getInt a "utime").toOption,
           modeStr := match a.getObjValAs? String "modestr" with | .ok m => some (m.toUTF8.toList.map (·.toNat)) | .error _ => none }

def nodeJ (n : C.Node) : Json :=
  jobj [("p", jhex n.path), ("mode", toJson n.st.mode), ("uid", toJson n.st.uid), ("gid", toJson n.st.gid),
        ("mt", match n.mtime with | some t => toJson t | none => Json.null), ("sha", jhex n.sha), ("grp", jhex n.grp),
        ("keep", toJson n.keepIno.isSome)]

def hCopy (j : Json) : Except String Json := do
  let a ← parseArgs j
  let rawPats := match j.getObjVal? "args" with
    | .ok aj => (getHexArr aj "include").toOption.getD [] ++ (getHexArr aj "exclude").toOption.getD []
    | .error _ => []
  if rawPats.any P.illegalBang then
    return jobj [("res", Json.str "err"), ("why", "illegal exclusion pattern")]
  let src ← (← getArr j "src").toList.mapM parseSnap
  let before ← (← getArr j "before").toList.mapM parseSnap
  let srcRel := resolveIn src a.src a.follow
  let dstRel := resolveIn before a.dst true
  -- filepath.Split(dst): does the string have a non-empty last element other than "."?
  let lastElem := (a.dst.reverse.takeWhile (· ≠ 47)).reverse
  let hasBase := lastElem ≠ [] && lastElem ≠ [46]
  -- where would a repetition of the same call land, given the destination after the first / second run?
  let srcIsDir := match srcRel with
    | some s => s = [] || ((src.find? (·.st.path = s)).map (·.st.isDir)).getD false
    | none => false
  let landOn (tree : List Snap) : Json := match resolveIn tree a.dst true with
    | some d => (match landing a srcIsDir tree d hasBase with | some l => jhex l | none => Json.null)
    | none => Json.null
  let lands ← do
    let l1 := landOn before
    let l2 ← match j.getObjVal? "after" with
      | .ok (.arr af) => do let t ← af.toList.mapM parseSnap; pure (landOn t)
      | _ => pure Json.null
    let l3 ← match j.getObjVal? "after2" with
      | .ok (.arr af) => do let t ← af.toList.mapM parseSnap; pure (landOn t)
      | _ => pure Json.null
    pure [("land1", l1), ("land2", l2), ("land3", l3)]
  let wild := getBoolD ((j.getObjVal? "args").toOption.getD .null) "wild" false
  -- wildcard sources: the literal prefix is resolved, the rest is matched below it
  let srcsOpt : Option (List (Path × Path)) :=
    if wild && FL.containsWildcards a.src then
      let (d1, d2) := splitWild a.src
      match resolveIn src d1 a.follow with
      | some base =>
        let ms := wildMatches src base d2
        -- each match goes through rootPath again (final component followed iff follow-links)
        some (ms.filterMap fun m => (resolveIn src m a.follow).map fun r => (r, m))
      | none => none
    else srcRel.map fun s => [(s, a.src)]
  match srcsOpt, dstRel with
  | some [], some _ => return jobj ([("res", Json.str "err"), ("why", "no matches found")] ++ lands)
  | some srcs, some d =>
    let reres (t : List C.Node) : Option Path :=
      let l : List FL.Ent := t.map fun n => ⟨n.path, n.st.isDir, if n.st.isSymlink then some n.st.linkname else none⟩
      let pc := clean (([47] : Path) ++ a.dst)
      (FL.resolve l (joinSep ((comps pc).filter (· ≠ [])))).2
    match expectedCopyMulti a src before srcs d hasBase reres with
    | .err w => return jobj ([("res", Json.str "err"), ("why", toJson w)] ++ lands)
    | .ok tree notif =>
      -- C16: the reference filter of C10 (stateless matcher) on the source tree vs the parent-result walk the copy follows
      let listing := src.map (·.st)
      let cfg : F.Cfg := { inc := a.inc, exc := a.exc }
      let naiveEq := (F.reference cfg listing).map (·.path) == (F.filterWalk true { cfg with prune := false } listing).map (·.path)
      let base := [("res", Json.str "ok"), ("tree", Json.arr (tree.map nodeJ).toArray), ("notif", Json.arr (notif.map fun (p, d) => Json.arr #[jhex p, toJson d]).toArray),
                   ("naive_eq", toJson naiveEq), ("src_canon", toJson (C16W.canonB listing))] ++ lands
      match j.getObjVal? "after" with
      | .ok (.arr af) =>
        let after ← af.toList.mapM parseSnap
        return jobj (base ++ verdictJ "cmp" (cmpTree tree after))
      | _ => return jobj base
  | _, _ => return jobj ([("res", Json.str "err"), ("why", "path resolution loops")] ++ lands)

end Drv
