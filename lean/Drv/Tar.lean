import Drv.Sync
import FsutilModel.Model.Tar
open Lean Fsm Fsm.T

namespace Drv

def tfName : TF → String
  | .reg => "reg" | .dir => "dir" | .symlink => "symlink" | .link => "link" | .chr => "chr" | .blk => "blk" | .fifo => "fifo"
  | .unsupported => "unsupported"

def memberJ (m : Member) : Json :=
  jobj [("name", jhex m.name), ("tf", tfName m.tf), ("size", toJson m.size), ("perm", toJson m.perm), ("uid", toJson m.uid), ("gid", toJson m.gid),
        ("mt", toJson m.mtimeSec), ("ln", jhex m.linkname), ("dmaj", toJson m.devmajor), ("dmin", toJson m.devminor),
        ("x", xattrsJ m.xattrs), ("sha", jhex m.sha)]

def hTar (j : Json) : Except String Json := do
  let full ← parseView j
  let sf ← parseSFilter j
  -- WriteTar walks the view it is given (no hard-link reset): filter only. For an on-disk view the stat of an entry (and with
  -- it the hard-link canonicalisation of fs.Walk) happens only for the entries the filter lets through.
  let view : List VEnt ← match sf with
    | some cfg =>
      let kept := (F.filterWalk Fix.f9 cfg (full.map (·.st))).map (·.path)
      if getStrD j "viewkind" "mem" == "disk" then do
        let snap ← (← getArr j "view").toList.mapM parseSnap
        let snap' := snap.filter fun e => kept.contains e.st.path
        let stats := walkHL snap' []
        pure (stats.map fun s => ({ st := s, sha := ((snap.find? (·.st.path = s.path)).map (·.sha)).getD [] } : VEnt))
      else pure (kept.filterMap fun p => full.find? (·.st.path = p))
    | none => pure full
  -- content token of a regular non-link entry; for on-disk views hard links carry the leader's bytes but no payload anyway
  return jobj [("members", Json.arr ((members view).map memberJ).toArray),
               ("unsupported", toJson ((members view).any (·.tf = .unsupported)))]

end Drv
