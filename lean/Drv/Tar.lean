import Drv.Sync
import FsutilModel.Model.Tar
open Lean Fsm Fsm.T

namespace Drv

def tfName : TF → String
  | .reg => "reg" | .dir => "dir" | .symlink => "symlink" | .link => "link" | .chr => "chr" | .blk => "blk" | .fifo => "fifo"
  | .unsupported => "unsupported"

def memberJ (m : Member) : Json :=
  jobj [("name", jhex m.name), ("tf", tfName m.tf), ("size", toJson m.size), ("perm", toJson m.perm), ("uid", toJson m.uid), ("gid", toJson m.gid),
        ("mt", toJson m.mtimeSec), ("ln", jhex m.linkname), ("dmaj", toJson m.devmajor), ("dmin", toJson m.devminor),
        ("x", xattrsJ m.xattrs), ("sha", jhex m.sha)]

def hTar (j : Json) : Except String Json := do
  let full ← parseView j
  let sf ← parseSFilter j
  -- WriteTar walks the view it is given (no hard-link reset): filter only. For an on-disk view the stat of an entry (and with
  -- it the hard-link canonicalisation of fs.Walk) happens only for the entries the filter lets through.
  let view : List VEnt ← match sf with
    | some cfg =>
      let kept := (F.filterWalk Fix.f9 cfg (full.map (·.st))).map (·.path)
      if getStrD j "viewkind" "mem" == "disk" then do
        let snap ← (← getArr j "view").toList.mapM parseSnap
        let snap' := snap.filter fun e => kept.contains e.st.path
        let stats := walkHL snap' []
        pure (stats.map fun s => ({ st := s, sha := ((snap.find? (·.st.path = s.path)).map (·.sha)).getD [] } : VEnt))
      else pure (kept.filterMap fun p => full.find? (·.st.path = p))
    | none => pure full
  -- an optional second filter stacked on the first: it sees the entries (and the stats, incl. the hard-link naming) of the first stage
  let view : List VEnt := match j.getObjVal? "sfilter2" with
    | .ok f =>
      let cfg2 : F.Cfg := { inc := P.parsePatterns ((getHexArr f "include").toOption.getD []),
                            exc := P.parsePatterns ((getHexArr f "exclude").toOption.getD []) }
      let kept2 := (F.filterWalk Fix.f9 cfg2 (view.map (·.st))).map (·.path)
      kept2.filterMap fun p => view.find? (·.st.path = p)
    | .error _ => view
  -- F24 (repaired): the hard-link reset is applied to the view; a promoted entry carries the bytes of its original link source
  let view : List VEnt := if Fix.f24 then
      let stats := F.hardlinkReset (view.map (·.st))
      stats.map fun s =>
        let orig := view.find? (·.st.path = s.path)
        let srcSha := match orig with
          | some o =>
            if o.st.canRequestData && o.st.linkname ≠ [] then
              ((full.find? (·.st.path = o.st.linkname)).map (·.sha)).getD o.sha
            else o.sha
          | none => []
        { st := s, sha := if s.canRequestData && s.linkname = [] then srcSha else [] }
    else view
  -- content token of a regular non-link entry; for on-disk views hard links carry the leader's bytes but no payload anyway
  let mut out := [("members", Json.arr ((members view).map memberJ).toArray),
               ("unsupported", toJson ((members view).any (·.tf = .unsupported)))]
  -- "extracting it reproduces the view": the tree an independent extractor produced, judged by the C01 tree specification
  -- against the view with mtimes to the second (what the archive can carry)
  match j.getObjVal? "extracted" with
  | .ok (.arr a) =>
    let ex ← a.toList.mapM parseSnap
    let viewSec := view.map fun v => { v with st := { v.st with mtime := roundSec v.st.mtime * 1000000000 } }
    out := out ++ verdictJ "extract" (specSync {} [] ex viewSec)
  | _ => pure ()
  return jobj out

end Drv
