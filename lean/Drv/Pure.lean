import Drv.Util
import FsutilModel.Model.ValidatorB
import FsutilModel.Model.Fixes
open Lean Fsm

namespace Drv

def hCmp (j : Json) : Except String Json := do
  let a ← getHex j "a"; let b ← getHex j "b"
  return jobj [("r", toJson (cmpSign a b)),
               -- spec: lexicographic comparison component by component
               ("s", toJson (if comps a = comps b then (0:Int) else if compsLt (comps a) (comps b) then -1 else 1))]

def hPathFn (j : Json) : Except String Json := do
  let p ← getHex j "p"; let q ← getHex j "q"
  return jobj [("clean", jhex (clean p)), ("dir", jhex (dirB p)), ("base", jhex (baseB p)),
               ("abs", toJson (isAbs p)), ("join", jhex (joinB [p, q]))]

def parseChg (x : Json) : Except String Chg := do
  let a ← asArr x
  if a.size != 3 then throw "chg: want [kind,path,isDir]"
  let k ← asStr a[0]!
  let p ← asStr a[1]!
  let d ← asBool a[2]!
  return { isDel := k == "delete", path := unhex p, isDir := d }

def runResJ : RunRes → Json
  | .accept => "accept"
  | .rejectAt i => Json.str s!"reject@{i}"
  | .panicAt i => Json.str s!"panic@{i}"

def hValidate (j : Json) : Except String Json := do
  let seq ← getArr j "seq"
  let cs ← seq.toList.mapM parseChg
  let fixed := getBoolD j "fixed" Fix.f1
  return jobj [("m", runResJ (vrun fixed cs)), ("s", runResJ (specRun cs))]

end Drv
