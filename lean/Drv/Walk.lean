import Drv.Stat
import FsutilModel.Model.WalkB
open Lean Fsm

namespace Drv

def parseSnap (j : Json) : Except String Snap := do
  return { st := (← parseStat j), ino := getNatD j "ino" 0, nlink := getNatD j "nlink" 1, sha := getHexD j "sha" }

def verdictJ (pre : String) (v : SpecVerdict) : List (String × Json) :=
  [(pre, toJson v.ok), (pre ++ "_why", toJson v.why)]

def hWalk (j : Json) : Except String Json := do
  let snap ← (← getArr j "snap").toList.mapM parseSnap
  let target := getHexD j "target"
  let m := walkHL snap target
  let base := [("m", Json.arr (m.map statJ).toArray)] ++ verdictJ "spec_m" (specWalk snap target m)
  match j.getObjVal? "impl" with
  | .ok (.arr out) =>
    let io ← out.toList.mapM parseStat
    return jobj (base ++ verdictJ "spec_i" (specWalk snap target io))
  | _ => return jobj base

def hSubWalk (j : Json) : Except String Json := do
  let dirs ← (← getArr j "dirs").toList.mapM fun d => do
    let root ← parseStat ((d.getObjVal? "root").toOption.getD .null)
    let snap ← (← getArr d "snap").toList.mapM parseSnap
    pure (root, snap)
  let m := subDirWalk dirs
  let paths := m.map (·.path)
  return jobj [("m", Json.arr (m.map statJ).toArray), ("ascending", toJson (ascendingC paths))]

end Drv
