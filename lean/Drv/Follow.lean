import Drv.Stat
import FsutilModel.Model.FollowLinks
import FsutilModel.Lemmas.C18Fuel
open Lean Fsm Fsm.FL

namespace Drv

def toFL (s : StatE) : FL.Ent := ⟨s.path, s.isDir, if s.isSymlink then some s.linkname else none⟩

def hFollow (j : Json) : Except String Json := do
  let listing ← parseStats j "listing"
  let paths ← getHexArr j "paths"
  let l := listing.map toFL
  let fuel := 8 * (l.length + 2) + 64
  let m := followLinks Fix.f4 l paths fuel
  let pj (r : Option (List Path)) : Json := match r with | some x => Json.arr (x.map jhex).toArray | none => Json.null
  let sm := specFollow l paths m
  let sep := followLinksSeparately Fix.f4 l paths fuel
  let nomid := paths.filter (fun p => !middleWildcard p)
  let mut out := [("m", pj m), ("spec_m", toJson sm.ok), ("spec_m_why", toJson sm.why),
                  ("spec_sep", toJson (specFollow l paths sep).ok),
                  ("spec_keyed", toJson (specFollow l paths (followLinksKeyed Fix.f4 l paths (4 * fuel))).ok),
                  ("spec_keyed_nomid", toJson (specFollow l nomid (followLinksKeyed Fix.f4 l nomid (4 * fuel))).ok),
                  ("spec_sep_nomid", toJson (specFollow l nomid (followLinksSeparately Fix.f4 l nomid fuel)).ok),
                  ("spec_nomid", toJson (specFollow l nomid (followLinks Fix.f4 l nomid fuel)).ok),
                  ("midwild", toJson (paths.any middleWildcard)),
                  ("metalink", toJson (metaLink l)),
                  -- premise of C18.model_run_is_the_unbounded_run: the fuel of this run did not run out
                  ("fuel_ok", toJson (!(resolveAllX l fuel paths).2)),
                  ("spec_lit", toJson ([(false, false), (true, false), (false, true)].any fun (k, s) =>
                      (specFollow l paths (followLinksLit Fix.f4 l paths (4 * fuel) k s)).ok)),
                  ("spec_lit_nomid", toJson ([(false, false), (true, false), (false, true)].any fun (k, s) =>
                      (specFollow l nomid (followLinksLit Fix.f4 l nomid (4 * fuel) k s)).ok))]
  match j.getObjVal? "impl" with
  | .ok (.arr a) =>
    let r := a.toList.filterMap fun x => match x with | .str h => some (unhex h) | _ => none
    let si := specFollow l paths (some r)
    out := out ++ [("spec_i", toJson si.ok), ("spec_i_why", toJson si.why)]
  | .ok .null =>
    let si := specFollow l paths none
    out := out ++ [("spec_i", toJson si.ok), ("spec_i_why", toJson si.why)]
  | _ => pure ()
  return jobj out

def hDedupe (j : Json) : Except String Json := do
  let paths ← getHexArr j "paths"
  match dedupePaths Fix.f4 paths with
  | some r => return jobj [("m", Json.arr (r.map jhex).toArray)]
  | none => return jobj [("m", Json.null)]

end Drv
