import FsutilModel.DiffPopU
namespace Fsm.D

variable {P : Type} [DecidableEq P] {I : Type} [DecidableEq I]

/-- step that consumes both heads (same path): modify, or nothing when same -/
theorem inv_popB {O : PathOrd P} {tU : TMap P I} {l u : Ent P I} {ls us : List (Ent P I)} {rm rm' : Option P}
    {t t' : TMap P I} (hi : Inv O tU (l :: ls) (u :: us) rm t)
    (hp : l.path = u.path)
    (ha : ∀ q, O.lt q u.path = true → t' q = t q)
    (hb : t' u.path = some u)
    (hc : ∀ q, t q = none → q ≠ u.path → t' q = none)
    (hd : ∀ l' ∈ ls, t' l'.path = t l'.path ∨
        (t' l'.path = none ∧ O.under u.path l'.path = true ∧ l.isDir ≠ u.isDir))
    (he : ∀ d', rm' = some d' → ∀ l' ∈ ls, O.under d' l'.path = true → t' l'.path = none) :
    Inv O tU ls us rm' t' := by
  have hsl := sorted_head hi.sL
  have hsu := sorted_head hi.sU
  have hpB : Before O u.path ls us := ⟨fun x hx => by rw [← hp]; exact hsl x hx, hsu⟩
  have hnotBold : ¬ Before O u.path (l :: ls) (u :: us) := by
    intro h; have := h.2 u (by simp); rw [O.lt_irrefl] at this; cases this
  have hmono : ∀ q, Before O q (l :: ls) (u :: us) → Before O q ls us :=
    fun q h => h.mono (fun x hx => by simp [hx]) (fun x hx => by simp [hx])
  refine ⟨?_, ?_, ?_, he, sorted_tail hi.sL, sorted_tail hi.sU, ?_, ?_, ?_, ?_⟩
  · intro q hq
    rcases O.lt_total q u.path with h | h | h
    · subst h; rw [hb]; exact (hi.tUus u (by simp)).symm
    · have hold : Before O q (l :: ls) (u :: us) := by
        refine ⟨?_, ?_⟩
        · intro x hx; simp at hx; rcases hx with hx | hx
          · subst hx; rw [hp]; exact h
          · exact hq.1 x hx
        · intro x hx; simp at hx; rcases hx with hx | hx
          · subst hx; exact h
          · exact hq.2 x hx
      rw [ha q h]; exact hi.done_ q hold
    · have hne : q ≠ u.path := fun e => lt_ne O h e.symm
      have hnb : ¬ Before O q (l :: ls) (u :: us) := by
        intro hB; have := hB.2 u (by simp); rw [lt_asymm O h] at this; cases this
      have hnl : ∀ x ∈ l :: ls, x.path ≠ q := by
        intro x hx e; simp at hx; rcases hx with hx | hx
        · subst hx; exact hne (by rw [← e, hp])
        · have := hq.1 x hx; rw [e, O.lt_irrefl] at this; cases this
      rw [hc q (hi.pnone q hnb hnl) hne]
      symm; apply tU_none hi q _ hnb
      intro x hx e; simp at hx; rcases hx with hx | hx
      · subst hx; exact hne e.symm
      · have := hq.2 x hx; rw [e, O.lt_irrefl] at this; cases this
  · intro q hnb hnl
    have hne : q ≠ u.path := by intro e; subst e; exact hnb hpB
    apply hc q _ hne
    apply hi.pnone q (fun h => hnb (hmono q h))
    intro x hx e; simp at hx; rcases hx with hx | hx
    · subst hx; exact hne (by rw [← e, hp])
    · exact hnl x hx e
  · intro l' hl'
    rcases hd l' hl' with h | ⟨h1, h2, h3⟩
    · rw [h]
      rcases hi.pl l' (by simp [hl']) with h | ⟨h1, h2⟩
      · left; exact h
      · right; exact ⟨h1, fun x hx => h2 x (by simp [hx])⟩
    · right; refine ⟨h1, ?_⟩
      intro x hx e
      -- an upper entry below p forces p to be an upper directory; a lower entry below p forces l to be one
      have hudir : u.isDir = true := by
        rcases hi.cU x (by simp [hx]) u.path (by rw [e]; exact h2) with ⟨d, hdm, hdp, hdd⟩ | hB
        · simp at hdm; rcases hdm with hdm | hdm
          · subst hdm; exact hdd
          · have := hsu d hdm; rw [hdp, O.lt_irrefl] at this; cases this
        · exact absurd hB hnotBold
      have hldir : l.isDir = true := by
        rcases hi.cL l' (by simp [hl']) u.path h2 with ⟨d, hdm, hdp, hdd⟩ | hB
        · simp at hdm; rcases hdm with hdm | hdm
          · subst hdm; exact hdd
          · have := hsl d hdm; rw [hp, hdp, O.lt_irrefl] at this; cases this
        · exact absurd hB hnotBold
      exact h3 (by rw [hudir, hldir])
  · intro x hx; exact hi.tUus x (by simp [hx])
  · intro q e hq
    rcases hi.tUdom q e hq with ⟨x, hx, hxq⟩ | h
    · simp at hx; rcases hx with hx | hx
      · subst hx; right; rw [← hxq]; exact hpB
      · left; exact ⟨x, hx, hxq⟩
    · right; exact hmono q h
  · intro x hx p hp'
    rcases hi.cU x (by simp [hx]) p hp' with ⟨d, hdm, hdp, hdd⟩ | h
    · simp at hdm; rcases hdm with hdm | hdm
      · subst hdm; right; rw [← hdp]; exact hpB
      · left; exact ⟨d, hdm, hdp, hdd⟩
    · right; exact hmono p h
  · intro x hx p hp'
    rcases hi.cL x (by simp [hx]) p hp' with ⟨d, hdm, hdp, hdd⟩ | h
    · simp at hdm; rcases hdm with hdm | hdm
      · subst hdm; right; rw [← hdp, hp]; exact hpB
      · left; exact ⟨d, hdm, hdp, hdd⟩
    · right; exact hmono p h

end Fsm.D
