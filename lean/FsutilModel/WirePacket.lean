import FsutilModel.WireStat
/-! Round trip of the transcribed `types.Packet` codec (with the nested Stat message). -/
namespace Fsm.W

def DecP (d : Bytes) (l i : Nat) (m : PPacket) (R : Except Err PPacket) : Prop :=
  ∀ fuel, l - i + 1 ≤ fuel → unmarshalPacketLoop d l fuel i m = R

theorem DecP.done (d : Bytes) (l : Nat) (m : PPacket) : DecP d l l m (.ok m) := by
  intro fuel hf
  cases fuel with
  | zero => omega
  | succ fuel => rw [unmarshalPacketLoop]; simp

theorem step_ptype (d : Bytes) (l fuel i v : Nat) (m : PPacket) (hv : v < two64)
    (hat : At d i (8 :: encVar v)) (hl : i + 1 + (encVar v).length ≤ l) :
    unmarshalPacketLoop d l (fuel + 1) i m
      = unmarshalPacketLoop d l fuel (i + 1 + (encVar v).length) { m with type := toInt32 v } := by
  obtain ⟨hd, hat'⟩ := At.cons.mp hat
  have hp := encVar_len_pos v
  have htag := readTag d l i 8 (by omega) hd (by omega)
  have hval := readVar_enc d l (i + 1) v hv hat' (by omega)
  have hil : ¬ i ≥ l := by omega
  rw [unmarshalPacketLoop]
  simp only [hil, if_false, htag, hval, packetField, varintFieldG, bind, Except.bind, pure, Except.pure]
  simp [toInt32, two32]

theorem step_pid (d : Bytes) (l fuel i v : Nat) (m : PPacket) (hv : v < two64)
    (hat : At d i (24 :: encVar v)) (hl : i + 1 + (encVar v).length ≤ l) :
    unmarshalPacketLoop d l (fuel + 1) i m
      = unmarshalPacketLoop d l fuel (i + 1 + (encVar v).length) { m with id := v % two32 } := by
  obtain ⟨hd, hat'⟩ := At.cons.mp hat
  have hp := encVar_len_pos v
  have htag := readTag d l i 24 (by omega) hd (by omega)
  have hval := readVar_enc d l (i + 1) v hv hat' (by omega)
  have hil : ¬ i ≥ l := by omega
  rw [unmarshalPacketLoop]
  simp only [hil, if_false, htag, hval, packetField, varintFieldG, bind, Except.bind, pure, Except.pure]
  simp [toInt32, two32]

theorem step_pdata (d : Bytes) (l fuel i : Nat) (bs : List Nat) (m : PPacket) (hl63 : l < two63) (hld : l ≤ d.size)
    (hat : At d i (34 :: (encVar bs.length ++ bs))) (hl : i + 1 + (encVar bs.length).length + bs.length ≤ l) :
    unmarshalPacketLoop d l (fuel + 1) i m
      = unmarshalPacketLoop d l fuel (i + 1 + (encVar bs.length).length + bs.length) { m with data := some bs } := by
  obtain ⟨hd, hat'⟩ := At.cons.mp hat
  obtain ⟨hat1, hat2⟩ := At.append.mp hat'
  have hp := encVar_len_pos bs.length
  have htag := readTag d l i 34 (by omega) hd (by omega)
  have hlen := readLen_enc d l (i + 1) bs hl63 hat1 (by omega)
  have hsl := sliceC_at hat2 (by omega)
  have hil : ¬ i ≥ l := by omega
  rw [unmarshalPacketLoop]
  simp only [hil, if_false, htag, hlen, packetField, bytesFieldG, bind, Except.bind, pure, Except.pure]
  simp [toInt32, two32, hsl]

theorem At_of_toList (d : Bytes) (bs : List Nat) (h : d.toList = bs) : At d 0 bs := by
  intro j hj
  subst h
  simp only [Nat.zero_add]
  rw [← Array.getElem?_toList]
  exact List.getElem?_eq_getElem hj

theorem step_pstat (d : Bytes) (l fuel i : Nat) (st : PStat) (m : PPacket) (hl63 : l < two63) (hld : l ≤ d.size) (hwf : st.WF)
    (hm : m.stat = none)
    (hat : At d i (18 :: (encVar (marshalStat st).length ++ marshalStat st)))
    (hl : i + 1 + (encVar (marshalStat st).length).length + (marshalStat st).length ≤ l) :
    unmarshalPacketLoop d l (fuel + 1) i m
      = unmarshalPacketLoop d l fuel (i + 1 + (encVar (marshalStat st).length).length + (marshalStat st).length)
          { m with stat := some st } := by
  obtain ⟨hd, hat'⟩ := At.cons.mp hat
  obtain ⟨hat1, hat2⟩ := At.append.mp hat'
  have hp := encVar_len_pos (marshalStat st).length
  have htag := readTag d l i 18 (by omega) hd (by omega)
  have hlen := readLen_enc d l (i + 1) (marshalStat st) hl63 hat1 (by omega)
  have hsl := sliceC_at hat2 (by omega)
  have hsub := stat_roundtrip_buf st hwf (marshalStat st).toArray (At_of_toList _ _ (by simp)) (by simp) (by simp; omega)
  have hil : ¬ i ≥ l := by omega
  rw [unmarshalPacketLoop]
  simp only [hil, if_false, htag, hlen, hsl, packetField, nestedStatField, bind, Except.bind, pure, Except.pure, hm, Option.getD_none, hsub]
  simp [toInt32, two32]

theorem toInt32_ofInt64 (x : Int) (h1 : -2147483648 ≤ x) (h2 : x < 2147483648) : toInt32 (ofInt64 x) = x := by
  have hT : two64 = 4294967296 * two32 := by decide
  have h32 : two32 = 4294967296 := by decide
  unfold toInt32 ofInt64
  by_cases hx : 0 ≤ x
  · have e : x % (two64 : Int) = x := Int.emod_eq_of_lt hx (by omega)
    rw [e]
    have e2 : x.toNat % two32 = x.toNat := Nat.mod_eq_of_lt (by omega)
    simp only [e2]
    split <;> omega
  · have e : x % (two64 : Int) = x + two64 := by
      rw [← Int.add_emod_right]; exact Int.emod_eq_of_lt (by omega) (by omega)
    rw [e]
    have e2 : (x + (two64 : Int)).toNat % two32 = (x + (two32 : Int)).toNat := by
      have : (x + (two64 : Int)).toNat = (x + (two32 : Int)).toNat + 4294967295 * two32 := by omega
      rw [this, Nat.add_mul_mod_self_right]
      exact Nat.mod_eq_of_lt (by omega)
    simp only [e2]
    split <;> omega

structure PPacket.WF (p : PPacket) : Prop where
  type : -2147483648 ≤ p.type ∧ p.type < 2147483648
  stat : ∀ st, p.stat = some st → st.WF
  id : p.id < two32
  data : p.data ≠ some []
  unknown : p.unknown = []

theorem toInt32_zero : toInt32 0 = 0 := by decide

def encStatField (o : Option PStat) : List Nat :=
  match o with
  | some s => 18 :: (encVar (marshalStat s).length ++ marshalStat s)
  | none => []

theorem marshalPacket_eq (p : PPacket) :
    marshalPacket p = encVarField 8 (ofInt64 p.type) ++ (encStatField p.stat ++ (encVarField 24 p.id ++
      (encBytesField 34 (p.data.getD []) ++ p.unknown))) := by
  unfold marshalPacket encStatField
  cases p.stat <;> simp [List.append_assoc]

section
variable (d : Bytes) (h63 : d.size < two63) (ptype : Int) (pstat : Option PStat) (pid : Nat) (pdata : Option (List Nat))
include h63

theorem pk3 (hdt : pdata ≠ some []) (i : Nat) (hat : At d i (encBytesField 34 (pdata.getD [])))
    (hl : i + (encBytesField 34 (pdata.getD [])).length = d.size) :
    DecP d d.size i { type := ptype, stat := pstat, id := pid }
      (.ok { type := ptype, stat := pstat, id := pid, data := pdata, unknown := [] }) := by
  cases pdata with
  | none =>
    simp [encBytesField] at hl
    rw [hl]; exact DecP.done _ _ _
  | some bs =>
    have hne : bs ≠ [] := fun e => hdt (by rw [e])
    have he : encBytesField 34 ((some bs).getD []) = 34 :: (encVar bs.length ++ bs) := by
      simp [encBytesField, hne]
    rw [he] at hat hl
    simp only [List.length_cons, List.length_append] at hl
    intro fuel hf
    cases fuel with
    | zero => omega
    | succ fuel =>
      rw [step_pdata d d.size fuel i bs _ h63 (Nat.le_refl _) hat (by omega)]
      have : i + 1 + (encVar bs.length).length + bs.length = d.size := by omega
      rw [this]
      exact DecP.done _ _ _ fuel (by omega)

theorem pk2 (hdt : pdata ≠ some []) (hi : pid < two32) (i : Nat)
    (hat : At d i (encVarField 24 pid ++ encBytesField 34 (pdata.getD [])))
    (hl : i + (encVarField 24 pid ++ encBytesField 34 (pdata.getD [])).length = d.size) :
    DecP d d.size i { type := ptype, stat := pstat }
      (.ok { type := ptype, stat := pstat, id := pid, data := pdata, unknown := [] }) := by
  by_cases h0 : pid = 0
  · subst h0
    simp only [encVarField, if_true, List.nil_append] at hat hl
    exact pk3 d h63 ptype pstat 0 pdata hdt i hat hl
  · have he : encVarField 24 pid = 24 :: encVar pid := by simp [encVarField, h0]
    rw [he] at hat hl
    obtain ⟨hat1, hat2⟩ := At.append.mp hat
    simp only [List.length_append, List.length_cons] at hl hat2
    intro fuel hf
    have hp := encVar_len_pos pid
    cases fuel with
    | zero => omega
    | succ fuel =>
      rw [step_pid d d.size fuel i pid _ (lt64_of_lt32 hi) hat1 (by omega)]
      have := pk3 d h63 ptype pstat pid pdata hdt (i + 1 + (encVar pid).length)
        (by rw [show i + 1 + (encVar pid).length = i + ((encVar pid).length + 1) by omega]; exact hat2)
        (by omega) fuel (by omega)
      simpa [Nat.mod_eq_of_lt hi] using this

theorem pk1 (hdt : pdata ≠ some []) (hi : pid < two32) (hs : ∀ st, pstat = some st → st.WF) (i : Nat)
    (hat : At d i (encStatField pstat ++ (encVarField 24 pid ++ encBytesField 34 (pdata.getD []))))
    (hl : i + (encStatField pstat ++ (encVarField 24 pid ++ encBytesField 34 (pdata.getD []))).length = d.size) :
    DecP d d.size i { type := ptype }
      (.ok { type := ptype, stat := pstat, id := pid, data := pdata, unknown := [] }) := by
  cases pstat with
  | none =>
    simp only [encStatField, List.nil_append] at hat hl
    exact pk2 d h63 ptype none pid pdata hdt hi i hat hl
  | some st =>
    simp only [encStatField] at hat hl
    obtain ⟨hat1, hat2⟩ := At.append.mp hat
    simp only [List.length_append, List.length_cons] at hl hat2
    intro fuel hf
    have hp := encVar_len_pos (marshalStat st).length
    cases fuel with
    | zero => omega
    | succ fuel =>
      rw [step_pstat d d.size fuel i st _ h63 (Nat.le_refl _) (hs st rfl) rfl hat1 (by omega)]
      exact pk2 d h63 ptype (some st) pid pdata hdt hi
        (i + 1 + (encVar (marshalStat st).length).length + (marshalStat st).length)
        (by rw [show i + 1 + (encVar (marshalStat st).length).length + (marshalStat st).length
              = i + ((encVar (marshalStat st).length).length + (marshalStat st).length + 1) by omega]; exact hat2)
        (by simp only [List.length_append]; omega) fuel (by omega)

end

/-- **Round trip of the Packet codec** -/
theorem packet_roundtrip (p : PPacket) (hwf : p.WF) (hlen : (marshalPacket p).length < two63) :
    unmarshalPacket (marshalPacket p) = .ok p := by
  unfold unmarshalPacket
  have hat0 : At (marshalPacket p).toArray 0 (marshalPacket p) := by
    have := At.of_append [] (marshalPacket p) []
    simpa using this
  generalize hd : (marshalPacket p).toArray = d at hat0 ⊢
  have hsz : d.size = (marshalPacket p).length := by rw [← hd]; simp
  have h63 : d.size < two63 := by omega
  obtain ⟨ptype, pstat, pid, pdata, punk⟩ := p
  obtain ⟨ht, hs, hi, hdt, hu⟩ := hwf
  simp only at ht hs hi hdt hu
  subst hu
  rw [marshalPacket_eq] at hat0 hsz
  simp only [List.append_nil] at hat0 hsz
  have main : DecP d d.size 0 {} (.ok { type := ptype, stat := pstat, id := pid, data := pdata, unknown := [] }) := by
    by_cases h0 : ofInt64 ptype = 0
    · have hz : ptype = 0 := by
        have := toInt32_ofInt64 ptype ht.1 ht.2
        rw [h0, toInt32_zero] at this; exact this.symm
      have he : encVarField 8 (ofInt64 ptype) = [] := by simp [encVarField, h0]
      rw [he] at hat0 hsz
      simp only [List.nil_append] at hat0 hsz
      subst hz
      exact pk1 d h63 0 pstat pid pdata hdt hi hs 0 hat0 (by omega)
    · have he : encVarField 8 (ofInt64 ptype) = 8 :: encVar (ofInt64 ptype) := by simp [encVarField, h0]
      rw [he] at hat0 hsz
      obtain ⟨hat1, hat2⟩ := At.append.mp hat0
      simp only [List.length_append, List.length_cons] at hsz hat2
      intro fuel hf
      have hp := encVar_len_pos (ofInt64 ptype)
      cases fuel with
      | zero => omega
      | succ fuel =>
        rw [step_ptype d d.size fuel 0 (ofInt64 ptype) {} (ofInt64_lt _) hat1 (by omega)]
        have := pk1 d h63 ptype pstat pid pdata hdt hi hs (0 + 1 + (encVar (ofInt64 ptype)).length)
          (by rw [show 0 + 1 + (encVar (ofInt64 ptype)).length = 0 + ((encVar (ofInt64 ptype)).length + 1) by omega]; exact hat2)
          (by simp only [List.length_append]; omega) fuel (by omega)
        simpa [toInt32_ofInt64 ptype ht.1 ht.2] using this
  exact main (d.size + 1) (by omega)

end Fsm.W
