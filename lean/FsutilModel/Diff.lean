/-! Spike: two-way diff (doubleWalkDiff) over an abstract path order, and convergence. -/
namespace Fsm.D

/-- abstract path algebra: what the diff proof needs -/
structure PathOrd (P : Type) [DecidableEq P] where
  lt : P → P → Bool
  under : P → P → Bool            -- `under d q` : q is a strict descendant of d
  lt_irrefl : ∀ a, lt a a = false
  lt_trans : ∀ a b c, lt a b = true → lt b c = true → lt a c = true
  lt_total : ∀ a b, a = b ∨ lt a b = true ∨ lt b a = true
  under_lt : ∀ d q, under d q = true → lt d q = true
  under_trans : ∀ a b c, under a b = true → under b c = true → under a c = true
  /-- descendants of d are contiguous right after d -/
  interval : ∀ d x y, lt d x = true → lt x y = true → under d y = true → under d x = true

variable {P : Type} [DecidableEq P] {I : Type} [DecidableEq I]

structure Ent (P I : Type) where
  path : P
  isDir : Bool
  id : I              -- the identity tuple (mode, uid, …) as `sameFile` sees it; `same` compares it
deriving DecidableEq

inductive Ev (P I : Type)
  | add (e : Ent P I)
  | modify (e : Ent P I)
  | delete (p : P)

def same (a b : Ent P I) : Bool := a.isDir == b.isDir && a.id == b.id

/-- the merge loop of doubleWalkDiff; `rm` is the `rmdir` variable (none = "");
`fc` ("force") = differ is DiffNone: `sameFile` answers false for every pair -/
def diff (O : PathOrd P) (fc : Bool) : Nat → List (Ent P I) → List (Ent P I) → Option P → List (Ev P I)
  | 0, _, _, _ => []
  | _+1, [], [], _ => []
  | n+1, [], u :: us, _ => .add u :: diff O fc n [] us none
  | n+1, l :: ls, [], rm =>
    match rm with
    | some d => if O.under d l.path then diff O fc n ls [] rm
                else .delete l.path :: diff O fc n ls [] none
    | none => .delete l.path :: diff O fc n ls [] (if l.isDir then some l.path else none)
  | n+1, l :: ls, u :: us, rm =>
    if O.lt l.path u.path then
      match rm with
      | some d => if O.under d l.path then diff O fc n ls (u :: us) rm
                  else .delete l.path :: diff O fc n ls (u :: us) none
      | none => .delete l.path :: diff O fc n ls (u :: us) (if l.isDir then some l.path else none)
    else if O.lt u.path l.path then
      .add u :: diff O fc n (l :: ls) us none
    else
      let rm' := if l.isDir && !u.isDir then some l.path else none
      if !fc && same l u then diff O fc n ls us rm' else .modify u :: diff O fc n ls us rm'

abbrev TMap (P I : Type) := P → Option (Ent P I)

def applyEv (O : PathOrd P) (t : TMap P I) : Ev P I → TMap P I
  | .delete p => fun q => if q = p ∨ O.under p q then none else t q
  | .add e | .modify e => fun q =>
      if q = e.path then some e
      else if O.under e.path q && (match t e.path with | some o => o.isDir != e.isDir | none => false) then none
      else t q

def toMap (l : List (Ent P I)) : TMap P I := fun q => l.find? (·.path = q)

end Fsm.D
