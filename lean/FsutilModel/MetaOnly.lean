/-! Spike: the STAT branch of receiver.run in metadata-only mode — id bookkeeping (C19-T4, C07-T1). -/
namespace Fsm.M

abbrev Path := List (List Nat)      -- components

structure E where
  path : Path
  isDir : Bool
  isReg : Bool
  selected : Bool
deriving DecidableEq, Repr

structure St where
  i : Nat := 0
  files : List (Path × Nat) := []
  stack : List E := []               -- top first
  forwarded : List E := []
  listing : List E := []

def metaName : Path := [[46, 102]]   -- stands for ".fsutil-metadata"

/-- the stack is kept top-first -/
def popTo (parent : Path) : List E → List E
  | [] => []
  | t :: rest => if parent = t.path then t :: rest else popTo parent rest

/-- `fixed = false` is the code as it stands (the listing name is skipped *before* the counter advances);
    `fixed = true` advances the counter first -/
def step (fixed : Bool) (s : St) (e : E) : St :=
  if e.path = metaName then (if fixed then { s with i := s.i + 1 } else s)
  else
    let s := { s with listing := s.listing ++ [e] }
    let metaOnly := !e.selected
    let s := if !metaOnly && e.isReg then { s with files := s.files ++ [(e.path, s.i)] } else s
    let s := { s with i := s.i + 1 }
    let st := popTo e.path.dropLast s.stack
    let st := if e.isDir then e :: st else st
    if metaOnly then { s with stack := st }
    else { s with forwarded := s.forwarded ++ st.reverse ++ [e], stack := [] }

def run (fixed : Bool) (es : List E) : St := es.foldl (step fixed) {}

/-- the property: every registered id is the zero-based position of that entry in the stream -/
def idsOK (es : List E) (s : St) : Prop :=
  ∀ p n, (p, n) ∈ s.files → ∃ e, es[n]? = some e ∧ e.path = p

def f (p : Path) : E := ⟨p, false, true, true⟩

/-- F2, kernel-checked: with the listing name in the stream the next file gets the wrong id -/
theorem ids_shifted_witness :
    (run false [f metaName, f [[97]]]).files = [([[97]], 0)] := by decide

theorem ids_fixed_witness :
    (run true [f metaName, f [[97]]]).files = [([[97]], 1)] := by decide

end Fsm.M

namespace Fsm.M

structure IdInv (pre : List E) (s : St) : Prop where
  count : s.i = pre.length
  ok : ∀ p n, (p, n) ∈ s.files → ∃ e, pre[n]? = some e ∧ e.path = p

theorem getElem?_append_left' {α} (pre : List α) (x : α) (n : Nat) (e : α) (h : pre[n]? = some e) :
    (pre ++ [x])[n]? = some e := by
  have hlt : n < pre.length := by
    rcases Nat.lt_or_ge n pre.length with h' | h'
    · exact h'
    · rw [List.getElem?_eq_none h'] at h; cases h
  rw [List.getElem?_append_left hlt]; exact h

/-- one step preserves the id invariant, provided the counter is advanced for this entry -/
theorem step_idInv (fixed : Bool) (pre : List E) (s : St) (e : E) (hi : IdInv pre s)
    (hadv : fixed = true ∨ e.path ≠ metaName) : IdInv (pre ++ [e]) (step fixed s e) := by
  unfold step
  by_cases hm : e.path = metaName
  · have hf : fixed = true := by rcases hadv with h | h; exact h; exact absurd hm h
    simp only [hm, if_true, hf]
    exact ⟨by simp [hi.count], fun p n h => by
      obtain ⟨e', h1, h2⟩ := hi.ok p n h; exact ⟨e', getElem?_append_left' _ _ _ _ h1, h2⟩⟩
  · simp only [hm, if_false]
    -- the files / counter components do not depend on the stack part
    have key : ∀ (s' : St), s'.i = s.i + 1 →
        s'.files = (if (!(!e.selected) && e.isReg) = true then s.files ++ [(e.path, s.i)] else s.files) →
        IdInv (pre ++ [e]) s' := by
      intro s' hi' hf'
      refine ⟨by simp [hi', hi.count], ?_⟩
      intro p n hmem
      rw [hf'] at hmem
      split at hmem
      · simp at hmem
        rcases hmem with hmem | ⟨hp, hn⟩
        · obtain ⟨e', h1, h2⟩ := hi.ok p n hmem; exact ⟨e', getElem?_append_left' _ _ _ _ h1, h2⟩
        · subst hp; subst hn; exact ⟨e, by simp [hi.count], rfl⟩
      · obtain ⟨e', h1, h2⟩ := hi.ok p n hmem; exact ⟨e', getElem?_append_left' _ _ _ _ h1, h2⟩
    split
    · apply key <;> (split <;> simp)
    · apply key <;> (split <;> simp)

theorem run_idInv (fixed : Bool) : ∀ (es pre : List E) (s : St), IdInv pre s →
    (∀ e ∈ es, fixed = true ∨ e.path ≠ metaName) → IdInv (pre ++ es) (es.foldl (step fixed) s)
  | [], pre, s, hi, _ => by simpa using hi
  | e :: es, pre, s, hi, h => by
    have := run_idInv fixed es (pre ++ [e]) (step fixed s e)
      (step_idInv fixed pre s e hi (h e (by simp))) (fun x hx => h x (by simp [hx]))
    simpa using this

/-- C19-T4 for the repaired code: every registered id is the entry's position in the STAT sequence -/
theorem ids_are_stat_indices_fixed (es : List E) : idsOK es (run true es) := by
  have := run_idInv true es [] {} ⟨rfl, by intro p n h; simp at h⟩ (fun _ _ => Or.inl rfl)
  simpa [run, idsOK] using this.ok

/-- C19-T4 partial, for the code as it stands: holds when the stream has no entry named like the listing -/
theorem ids_are_stat_indices_partial (es : List E) (h : ∀ e ∈ es, e.path ≠ metaName) :
    idsOK es (run false es) := by
  have := run_idInv false es [] {} ⟨rfl, by intro p n h; simp at h⟩ (fun e he => Or.inr (h e he))
  simpa [run, idsOK] using this.ok

end Fsm.M
