import FsutilModel.ValidatorBridge3
/-! Bridge, part 3b: one `HandleChange` (byte level, binary search over the stack) simulates one component-level step. -/
namespace Fsm

theorem compsLeB_of_prefix_le (g f d : List Path) (x : Path) (t : List Path) (hf : f = g ++ x :: t)
    (h : compsLeB f d = true) : compsLeB g d = true := by
  have hgf : compsLt g f = true := by rw [hf]; exact compsLt_prefix g x t
  unfold compsLeB at h ⊢
  simp only [Bool.or_eq_true, decide_eq_true_eq] at h ⊢
  rcases h with h | h
  · right; rw [← h]; exact hgf
  · right; exact compsLt_trans hgf h

theorem chain_mono (d : List Path) : ∀ (cst : List Frame), Chain cst → ∀ a b, a ≤ b → b < cst.length →
    compsLeB ((cst.getD a ⟨[], []⟩).dir) d = true → compsLeB ((cst.getD b ⟨[], []⟩).dir) d = true := by
  intro cst
  induction cst with
  | nil => intro _ a b _ hb; simp at hb
  | cons f rest ih =>
    intro hc a b hab hb h
    cases a with
    | zero =>
      cases b with
      | zero => exact h
      | succ b =>
        simp only [List.getD_cons_zero] at h
        simp only [List.getD_cons_succ]
        have hbl : b < rest.length := by simpa using hb
        have hmem : rest.getD b ⟨[], []⟩ ∈ rest := by
          rw [List.getD_eq_getElem?_getD, List.getElem?_eq_getElem hbl]; simp
        obtain ⟨x, t, hx⟩ := hc.proper_prefix _ hmem
        exact compsLeB_of_prefix_le _ _ d x t hx h
    | succ a =>
      cases b with
      | zero => omega
      | succ b =>
        have hbl : b < rest.length := by simpa using hb
        have hr : rest ≠ [] := by intro e; simp [e] at hbl
        simp only [List.getD_cons_succ] at h ⊢
        exact ih (hc.tail hr) a b (by omega) hbl h

theorem joinB_dir_base (init : List Path) (b : Path) (hp : PlainComps (init ++ [b])) :
    joinB [joinSep init, b] = joinSep (init ++ [b]) := by
  have hb := hp b (by simp)
  have hinit : PlainComps init := fun c hc => hp c (by simp [hc])
  have hcl := (lexical_pass (init ++ [b]) hp (by simp)).1
  unfold joinB
  by_cases hi : init = []
  · subst hi
    simp only [joinSep, List.nil_append] at hcl ⊢
    have : ([([] : Path), b].filter (· ≠ [])) = [b] := by simp [hb.1.1]
    simp only [this, joinSep]
    exact hcl
  · have hj := joinSep_ne_nil hinit hi
    have : ([joinSep init, b].filter (· ≠ [])) = [joinSep init, b] := by simp [hj, hb.1.1]
    simp only [this]
    have hjoin : joinSep [joinSep init, b] = joinSep (init ++ [b]) := by
      rw [joinSep_snoc, joinSep_cons_cons]
      simp [joinPre, hi, joinSep]
    rw [hjoin]; exact hcl

end Fsm

namespace Fsm

/-- the part of `HandleChange` after the lexical tests -/
def vsearch (st : List VFrame) (dir base : Path) (isDel isDir : Bool) : VRes :=
  let n := st.length
  let k := goSearch n (fun i => decide (comparePath ((st.getD (n-1-i) ⟨[], []⟩).dir) dir ≤ 0))
  if k ≥ n then .panic else
  let i := n - 1 - k
  let st1 := if i ≠ n - 1 then st.take (i+1) else st
  match st1.getLast? with
  | none => .panic
  | some top =>
    if dir ≠ top.dir || strGe top.last base then .reject else
    let st2 := st1.dropLast ++ [{ top with last := base }]
    if !isDel && isDir then .ok (st2 ++ [⟨joinB [dir, base], []⟩]) else .ok st2

theorem vstep_eq_vsearch (st : List VFrame) (hst : st ≠ []) (init : List Path) (b : Path) (hp : PlainComps (init ++ [b]))
    (isDel isDir : Bool) :
    vstep true st isDel (joinSep (init ++ [b])) isDir = vsearch st (joinSep init) b isDel isDir := by
  obtain ⟨hcl, habs, hnd, hndd, hnpre⟩ := lexical_pass (init ++ [b]) hp (by simp)
  have hb := hp b (by simp)
  have hinit : PlainComps init := fun c hc => hp c (by simp [hc])
  have hdir0 := dirB_snoc init b (fun c hc => (hinit c hc).1) hinit.sepfree hb.2
  have hbase := baseB_snoc init b hb.1.1 hb.2
  have hdir : (if dirB (joinSep (init ++ [b])) = [dot] then [] else dirB (joinSep (init ++ [b]))) = joinSep init := by
    rw [hdir0]
    by_cases hi : init = []
    · simp [hi, joinSep]
    · have := (lexical_pass init hinit hi).2.2.1
      simp [hi, this]
  have hdirdd : joinSep init ≠ dd := by
    by_cases hi : init = []
    · subst hi; simp [joinSep, dd]
    · exact (lexical_pass init hinit hi).2.2.2.1
  have hcl' : ¬ (joinSep (init ++ [b]) ≠ clean (joinSep (init ++ [b]))) := by simp [hcl]
  unfold vstep vsearch
  simp only [hst, if_false, hcl', habs, Bool.false_eq_true, hbase, hdir, hdirdd, hnpre, hnd, hndd,
    Bool.true_and, Bool.or_self, Bool.or_false, decide_false, decide_eq_true_eq, false_or, or_false]
  rfl

end Fsm
