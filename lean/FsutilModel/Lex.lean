import FsutilModel.Order
namespace Fsm

/-! lexicographic facts on component lists -/

theorem strLt_irrefl (a : Path) : strLt a a = false := by
  induction a with
  | nil => rfl
  | cons x a ih => simp [strLt, ih]

theorem strLt_trans {a b c : Path} (h1 : strLt a b = true) (h2 : strLt b c = true) : strLt a c = true := by
  induction a generalizing b c with
  | nil =>
    cases b with
    | nil => simp [strLt] at h1
    | cons y b => cases c with
      | nil => simp [strLt] at h2
      | cons z c => simp [strLt]
  | cons x a ih =>
    cases b with
    | nil => simp [strLt] at h1
    | cons y b =>
      cases c with
      | nil => simp [strLt] at h2
      | cons z c =>
        simp only [strLt] at h1 h2 ⊢
        by_cases hxy : x = y
        · subst hxy
          by_cases hxz : x = z
          · subst hxz; simp at h1 h2 ⊢; exact ih h1 h2
          · simp [hxz] at h2 ⊢; exact h2
        · simp [hxy] at h1
          by_cases hyz : y = z
          · subst hyz; simp [hxy]; exact h1
          · simp [hyz] at h2
            have : x ≠ z := by omega
            simp [this]; omega

theorem strLt_asymm {a b : Path} (h : strLt a b = true) : strLt b a = false := by
  cases hb : strLt b a with
  | false => rfl
  | true => have := strLt_trans h hb; simp [strLt_irrefl] at this

theorem strLt_total (a b : Path) : a = b ∨ strLt a b = true ∨ strLt b a = true := by
  induction a generalizing b with
  | nil => cases b <;> simp [strLt]
  | cons x a ih =>
    cases b with
    | nil => simp [strLt]
    | cons y b =>
      simp only [strLt]
      by_cases hxy : x = y
      · subst hxy; simp; rcases ih b with h | h | h <;> simp [h]
      · have hyx : y ≠ x := fun e => hxy e.symm
        simp [hxy, hyx]; omega

theorem compsLt_irrefl (a : List Path) : compsLt a a = false := by
  induction a with
  | nil => rfl
  | cons x a ih => simp [compsLt, ih]

theorem compsLt_trans {a b c : List Path} (h1 : compsLt a b = true) (h2 : compsLt b c = true) :
    compsLt a c = true := by
  induction a generalizing b c with
  | nil =>
    cases b with
    | nil => simp [compsLt] at h1
    | cons y b => cases c with
      | nil => simp [compsLt] at h2
      | cons z c => simp [compsLt]
  | cons x a ih =>
    cases b with
    | nil => simp [compsLt] at h1
    | cons y b =>
      cases c with
      | nil => simp [compsLt] at h2
      | cons z c =>
        simp only [compsLt] at h1 h2 ⊢
        by_cases hxy : x = y
        · subst hxy
          by_cases hxz : x = z
          · subst hxz; simp at h1 h2 ⊢; exact ih h1 h2
          · simp [hxz] at h2 ⊢; exact h2
        · simp [hxy] at h1
          by_cases hyz : y = z
          · subst hyz; simp [hxy]; exact h1
          · simp [hyz] at h2
            have hlt := strLt_trans h1 h2
            have : x ≠ z := by intro e; subst e; simp [strLt_irrefl] at hlt
            simp [this]; exact hlt

theorem compsLt_asymm {a b : List Path} (h : compsLt a b = true) : compsLt b a = false := by
  cases hb : compsLt b a with
  | false => rfl
  | true => have := compsLt_trans h hb; simp [compsLt_irrefl] at this

/-- a proper prefix is smaller -/
theorem compsLt_prefix (a : List Path) (x : Path) (t : List Path) : compsLt a (a ++ x :: t) = true := by
  induction a with
  | nil => simp [compsLt]
  | cons y a ih => simp [compsLt, ih]

/-- interval lemma: d ≤ l < d ++ [b]  ⇒  d is a prefix of l -/
theorem prefix_of_between (d l : List Path) (b : Path)
    (h1 : d = l ∨ compsLt d l = true) (h2 : compsLt l (d ++ [b]) = true) : d <+: l := by
  induction d generalizing l with
  | nil => exact List.nil_prefix
  | cons x d ih =>
    cases l with
    | nil => rcases h1 with h1 | h1 <;> simp [compsLt] at h1
    | cons y l =>
      by_cases hxy : x = y
      · subst hxy
        have h1' : d = l ∨ compsLt d l = true := by
          rcases h1 with h1 | h1
          · left; simpa using h1
          · right; simpa [compsLt] using h1
        have h2' : compsLt l (d ++ [b]) = true := by simpa [compsLt] using h2
        have := ih l h1' h2'
        exact (List.cons_prefix_cons).mpr ⟨rfl, this⟩
      · exfalso
        have hyx : y ≠ x := fun e => hxy e.symm
        rcases h1 with h1 | h1
        · simp at h1; exact hxy h1.1
        · simp [compsLt, hxy] at h1
          simp [compsLt, hyx] at h2
          have := strLt_asymm h1
          simp [this] at h2

end Fsm
