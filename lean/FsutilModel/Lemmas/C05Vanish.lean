import FsutilModel.Diff
/-! C05: a path that is present before a sequence of change events and absent after it was removed by
one of them: a delete of the path or of a directory above it, or an add/modify that replaces an entry
above it. -/
namespace Fsm.D
variable {P : Type} [DecidableEq P] {I : Type} [DecidableEq I]

def Removes (O : PathOrd P) (ev : Ev P I) (p : P) : Prop :=
  (∃ q, ev = .delete q ∧ (p = q ∨ O.under q p = true)) ∨
  (∃ e, (ev = .add e ∨ ev = .modify e) ∧ O.under e.path p = true)

theorem applyEv_none (O : PathOrd P) (t : TMap P I) (ev : Ev P I) (p : P) (h0 : t p ≠ none)
    (h : applyEv O t ev p = none) : Removes O ev p := by
  cases ev with
  | delete q =>
    simp only [applyEv] at h
    split at h
    · rename_i hc
      left
      refine ⟨q, rfl, ?_⟩
      simpa using hc
    · exact absurd h h0
  | add e =>
    simp only [applyEv] at h
    by_cases hp : p = e.path
    · simp [hp] at h
    · by_cases hu : O.under e.path p = true
      · exact Or.inr ⟨e, Or.inl rfl, hu⟩
      · simp [hp, hu] at h
        exact absurd h h0
  | modify e =>
    simp only [applyEv] at h
    by_cases hp : p = e.path
    · simp [hp] at h
    · by_cases hu : O.under e.path p = true
      · exact Or.inr ⟨e, Or.inr rfl, hu⟩
      · simp [hp, hu] at h
        exact absurd h h0

theorem vanish_cause (O : PathOrd P) : ∀ (evs : List (Ev P I)) (t : TMap P I) (p : P), t p ≠ none →
    evs.foldl (applyEv O) t p = none → ∃ ev ∈ evs, Removes O ev p
  | [], t, p, h0, h => absurd (by simpa using h) h0
  | ev :: rest, t, p, h0, h => by
    simp only [List.foldl_cons] at h
    by_cases h1 : applyEv O t ev p = none
    · exact ⟨ev, by simp, applyEv_none O t ev p h0 h1⟩
    · obtain ⟨ev', hm, hr⟩ := vanish_cause O rest _ p h1 h
      exact ⟨ev', by simp [hm], hr⟩

end Fsm.D
