import FsutilModel.Model.Tar
import FsutilModel.Model.CopyB
/-! C17: the tar mode bits WriteTar writes determine the permission and special bits of the entry (and are what the copy option `mode` means by unix bits). -/
namespace Fsm

theorem and_two_pow' (m k : Nat) : m &&& 2 ^ k = if m.testBit k then 2 ^ k else 0 := by
  apply Nat.eq_of_testBit_eq; intro i
  rw [Nat.testBit_and, Nat.testBit_two_pow]
  by_cases hk : k = i
  · subst hk; cases h : m.testBit k <;> simp [Nat.testBit_two_pow]
  · cases h : m.testBit k <;> simp [hk, Nat.testBit_two_pow]

theorem and_pow_ne_zero (u k : Nat) : (u &&& 2 ^ k != 0) = u.testBit k := by
  rw [and_two_pow']
  cases h : u.testBit k <;> simp [Nat.pos_iff_ne_zero.mp (Nat.two_pow_pos k)]

theorem and_pow_ite (m k : Nat) : m &&& 2 ^ k = if m &&& 2 ^ k != 0 then 2 ^ k else 0 := by
  rw [and_pow_ne_zero]; exact and_two_pow' m k

theorem testBit_div (u k : Nat) : u.testBit k = decide ((u / 2 ^ k) % 2 = 1) := Nat.testBit_eq_decide_div_mod_eq ..

theorem unixPerm_facts (m : Nat) :
    T.unixPerm m &&& 511 = m &&& 511 ∧
    (T.unixPerm m &&& 2048 != 0) = (m &&& modeSetuid != 0) ∧
    (T.unixPerm m &&& 1024 != 0) = (m &&& modeSetgid != 0) ∧
    (T.unixPerm m &&& 512 != 0) = (m &&& modeSticky != 0) := by
  have h511 : (511 : Nat) = 2 ^ 9 - 1 := by decide
  have h2048 : (2048 : Nat) = 2 ^ 11 := by decide
  have h1024 : (1024 : Nat) = 2 ^ 10 := by decide
  have h512 : (512 : Nat) = 2 ^ 9 := by decide
  have ha : m &&& 511 < 512 := by rw [h511, Nat.and_two_pow_sub_one_eq_mod]; exact Nat.mod_lt _ (by decide)
  unfold T.unixPerm
  generalize m &&& 511 = a at ha ⊢
  generalize (m &&& modeSetuid != 0) = bs
  generalize (m &&& modeSetgid != 0) = bg
  generalize (m &&& modeSticky != 0) = bt
  rw [h511, Nat.and_two_pow_sub_one_eq_mod]
  conv => rhs; rw [h2048, h1024, h512]
  simp only [and_pow_ne_zero, testBit_div]
  cases bs <;> cases bg <;> cases bt <;> simp <;> omega

theorem perm_round_trip (m : Nat) : C.goPermOfUnix (T.unixPerm m) = m &&& C.permMask := by
  obtain ⟨h1, h2, h3, h4⟩ := unixPerm_facts m
  unfold C.goPermOfUnix C.permMask
  rw [h1, h2, h3, h4, Nat.and_or_distrib_left, Nat.and_or_distrib_left, Nat.and_or_distrib_left]
  have hs : modeSetuid = 2 ^ 23 := by decide
  have hg : modeSetgid = 2 ^ 22 := by decide
  have ht : modeSticky = 2 ^ 20 := by decide
  rw [hs, hg, ht]
  rw [← and_pow_ite m 23, ← and_pow_ite m 22, ← and_pow_ite m 20]

end Fsm
