import FsutilModel.Model.FollowLinks
/-! C18: the transcription of `symlinkResolver.append` recurses on a fuel argument (the code itself terminates because every link
is recorded in `resolved` before it is followed).  `appendLoopX` is the same function with a flag that is raised when the fuel
runs out; when the flag stays down, the result is the same for every larger fuel - it is the result of the unbounded recursion.
The driver reports the flag for every case, so a model answer that was cut short is never compared with the code. -/
namespace Fsm.FL

/-- `appendLoop` with an "ran out of fuel" flag -/
def appendLoopX (l : List Ent) : Nat → List Path × Bool → Path → Path → List Path × Bool
  | 0, (resolved, _), _, _ => (resolved, true)
  | fuel+1, (resolved, ex), current0, p =>
    let (first, rest) := splitFirst p
    let current := joinB [current0, first]
    let targets := readSymlink l current true
    let p' := rest
    if (p' = [] ∨ targets.isSome) ∧ resolved.contains current then (resolved, ex)
    else match targets with
      | some ts =>
        ts.foldl (fun res t => appendLoopX l fuel res [dot] (joinB [[dot], joinB [t, p']])) (current :: resolved, ex)
      | none =>
        if p' = [] then (current :: resolved, ex)
        else appendLoopX l fuel (resolved, ex) current p'

/-- the instrumented function computes what `appendLoop` computes -/
theorem appendLoopX_fst (l : List Ent) : ∀ (n : Nat) (r : List Path) (e : Bool) (c p : Path),
    (appendLoopX l n (r, e) c p).1 = appendLoop l n r c p := by
  intro n
  induction n with
  | zero => intro r e c p; rfl
  | succ n ih =>
    intro r e c p
    have hfold : ∀ (q : Path) (ts : List Path) (r0 : List Path) (e : Bool),
        (ts.foldl (fun res t => appendLoopX l n res [dot] (joinB [[dot], joinB [t, q]])) (r0, e)).1 =
          ts.foldl (fun res t => appendLoop l n res [dot] (joinB [[dot], joinB [t, q]])) r0 := by
      intro q ts
      induction ts with
      | nil => intro r0 e; rfl
      | cons t ts iht =>
        intro r0 e
        simp only [List.foldl_cons]
        rw [← ih r0 e]
        generalize appendLoopX l n (r0, e) [dot] (joinB [[dot], joinB [t, q]]) = x
        obtain ⟨x1, x2⟩ := x
        exact iht x1 x2
    simp only [appendLoopX, appendLoop]
    generalize readSymlink l (joinB [c, (splitFirst p).1]) true = tg
    by_cases hc : ((splitFirst p).2 = [] ∨ tg.isSome = true) ∧ r.contains (joinB [c, (splitFirst p).1]) = true
    · simp only [hc, and_self, if_true]
    · simp only [hc, if_false]
      cases tg with
      | some ts => exact hfold _ ts _ e
      | none =>
        by_cases hp : (splitFirst p).2 = []
        · simp only [hp, if_true]
        · simp only [hp, if_false]; exact ih _ _ _ _

/-- the flag is never lowered -/
theorem flag_mono (l : List Ent) : ∀ (n : Nat) (r : List Path) (c p : Path), (appendLoopX l n (r, true) c p).2 = true := by
  intro n
  induction n with
  | zero => intro r c p; rfl
  | succ n ih =>
    intro r c p
    have hfold : ∀ (q : Path) (ts : List Path) (r0 : List Path),
        (ts.foldl (fun res t => appendLoopX l n res [dot] (joinB [[dot], joinB [t, q]])) (r0, true)).2 = true := by
      intro q ts
      induction ts with
      | nil => intro r0; rfl
      | cons t ts iht =>
        intro r0
        simp only [List.foldl_cons]
        have := ih r0 [dot] (joinB [[dot], joinB [t, q]])
        generalize appendLoopX l n (r0, true) [dot] (joinB [[dot], joinB [t, q]]) = x at this
        obtain ⟨x1, x2⟩ := x
        simp only at this
        subst this
        exact iht x1
    simp only [appendLoopX]
    generalize readSymlink l (joinB [c, (splitFirst p).1]) true = tg
    by_cases hc : ((splitFirst p).2 = [] ∨ tg.isSome = true) ∧ r.contains (joinB [c, (splitFirst p).1]) = true
    · simp only [hc, and_self, if_true]
    · simp only [hc, if_false]
      cases tg with
      | some ts => exact hfold _ ts _
      | none =>
        by_cases hp : (splitFirst p).2 = []
        · simp only [hp, if_true]
        · simp only [hp, if_false]; exact ih _ _ _

theorem flag_false_init (l : List Ent) (n : Nat) (r : List Path) (e : Bool) (c p : Path)
    (h : (appendLoopX l n (r, e) c p).2 = false) : e = false := by
  cases e with
  | false => rfl
  | true => rw [flag_mono] at h; cases h

theorem fold_flag_true (l : List Ent) (n : Nat) (q : Path) : ∀ (ts : List Path) (r : List Path),
    (ts.foldl (fun res t => appendLoopX l n res [dot] (joinB [[dot], joinB [t, q]])) (r, true)).2 = true := by
  intro ts
  induction ts with
  | nil => intro r; rfl
  | cons t ts ih =>
    intro r
    simp only [List.foldl_cons]
    have := flag_mono l n r [dot] (joinB [[dot], joinB [t, q]])
    generalize appendLoopX l n (r, true) [dot] (joinB [[dot], joinB [t, q]]) = x at this
    obtain ⟨x1, x2⟩ := x
    simp only at this
    subst this
    exact ih x1

/-- when the fuel did not run out, more fuel changes nothing -/
theorem fuel_stable (l : List Ent) (k : Nat) : ∀ (n : Nat) (r : List Path) (e : Bool) (c p : Path),
    (appendLoopX l n (r, e) c p).2 = false → appendLoopX l (n + k) (r, e) c p = appendLoopX l n (r, e) c p := by
  intro n
  induction n with
  | zero => intro r e c p h; simp [appendLoopX] at h
  | succ n ih =>
    intro r e c p h
    have hfold : ∀ (q : Path) (ts : List Path) (r0 : List Path) (e : Bool),
        (ts.foldl (fun res t => appendLoopX l n res [dot] (joinB [[dot], joinB [t, q]])) (r0, e)).2 = false →
        ts.foldl (fun res t => appendLoopX l (n + k) res [dot] (joinB [[dot], joinB [t, q]])) (r0, e) =
          ts.foldl (fun res t => appendLoopX l n res [dot] (joinB [[dot], joinB [t, q]])) (r0, e) := by
      intro q ts
      induction ts with
      | nil => intro r0 e _; rfl
      | cons t ts iht =>
        intro r0 e h
        simp only [List.foldl_cons] at h ⊢
        -- the flag after the first target is down, otherwise it would be up at the end
        have h1 : (appendLoopX l n (r0, e) [dot] (joinB [[dot], joinB [t, q]])).2 = false := by
          generalize appendLoopX l n (r0, e) [dot] (joinB [[dot], joinB [t, q]]) = x at h
          obtain ⟨x1, x2⟩ := x
          cases x2 with
          | false => rfl
          | true => rw [fold_flag_true] at h; cases h
        rw [ih r0 e _ _ h1]
        generalize appendLoopX l n (r0, e) [dot] (joinB [[dot], joinB [t, q]]) = x at h ⊢
        obtain ⟨x1, x2⟩ := x
        exact iht x1 x2 h
    rw [show n + 1 + k = (n + k) + 1 by omega]
    simp only [appendLoopX] at h ⊢
    generalize readSymlink l (joinB [c, (splitFirst p).1]) true = tg at h ⊢
    by_cases hc : ((splitFirst p).2 = [] ∨ tg.isSome = true) ∧ r.contains (joinB [c, (splitFirst p).1]) = true
    · simp only [hc, and_self, if_true]
    · simp only [hc, if_false] at h ⊢
      cases tg with
      | some ts => exact hfold _ ts _ e h
      | none =>
        by_cases hp : (splitFirst p).2 = []
        · simp only [hp, if_true]
        · simp only [hp, if_false] at h ⊢; exact ih _ _ _ _ h

theorem foldX_fst (l : List Ent) (n : Nat) (g : Path → Path) : ∀ (ts : List Path) (r0 : List Path) (e : Bool),
    (ts.foldl (fun res t => appendLoopX l n res [dot] (g t)) (r0, e)).1 =
      ts.foldl (fun res t => appendLoop l n res [dot] (g t)) r0 := by
  intro ts
  induction ts with
  | nil => intro r0 e; rfl
  | cons t ts iht =>
    intro r0 e
    simp only [List.foldl_cons]
    rw [← appendLoopX_fst l n r0 e]
    generalize appendLoopX l n (r0, e) [dot] (g t) = x
    obtain ⟨x1, x2⟩ := x
    exact iht x1 x2

theorem foldX_flag_true (l : List Ent) (n : Nat) (g : Path → Path) : ∀ (ts : List Path) (r : List Path),
    (ts.foldl (fun res t => appendLoopX l n res [dot] (g t)) (r, true)).2 = true := by
  intro ts
  induction ts with
  | nil => intro r; rfl
  | cons t ts ih =>
    intro r
    simp only [List.foldl_cons]
    have := flag_mono l n r [dot] (g t)
    generalize appendLoopX l n (r, true) [dot] (g t) = x at this
    obtain ⟨x1, x2⟩ := x
    simp only at this
    subst this
    exact ih x1

theorem foldX_stable (l : List Ent) (n k : Nat) (g : Path → Path) : ∀ (ts : List Path) (r0 : List Path) (e : Bool),
    (ts.foldl (fun res t => appendLoopX l n res [dot] (g t)) (r0, e)).2 = false →
    ts.foldl (fun res t => appendLoopX l (n + k) res [dot] (g t)) (r0, e) =
      ts.foldl (fun res t => appendLoopX l n res [dot] (g t)) (r0, e) := by
  intro ts
  induction ts with
  | nil => intro r0 e _; rfl
  | cons t ts iht =>
    intro r0 e h
    simp only [List.foldl_cons] at h ⊢
    have h1 : (appendLoopX l n (r0, e) [dot] (g t)).2 = false := by
      generalize appendLoopX l n (r0, e) [dot] (g t) = x at h
      obtain ⟨x1, x2⟩ := x
      cases x2 with
      | false => rfl
      | true => rw [foldX_flag_true] at h; cases h
    rw [fuel_stable l k n r0 e _ _ h1]
    generalize appendLoopX l n (r0, e) [dot] (g t) = x at h ⊢
    obtain ⟨x1, x2⟩ := x
    exact iht x1 x2 h

/-- all requests of one call, with the flag -/
def resolveAllX (l : List Ent) (fuel : Nat) (paths : List Path) : List Path × Bool :=
  paths.foldl (fun acc p => appendLoopX l fuel acc [dot] (normReq Fix.f18 p)) ([], false)

/-- a run of the transcription that did not run out of fuel is the unbounded run: every larger fuel gives the same answer -/
theorem followLinks_fuel_independent (fixed : Bool) (l : List Ent) (paths : List Path) (fuel k : Nat)
    (h : (resolveAllX l fuel paths).2 = false) :
    followLinks fixed l paths (fuel + k) = followLinks fixed l paths fuel := by
  unfold followLinks
  have h1 := foldX_fst l (fuel + k) (normReq Fix.f18) paths [] false
  have h2 := foldX_fst l fuel (normReq Fix.f18) paths [] false
  have h3 := foldX_stable l fuel k (normReq Fix.f18) paths [] false h
  rw [← h1, ← h2, h3]

end Fsm.FL
