import FsutilModel.Sender
/-! C06: content and terminators are only ever sent for ids the receiver asked for. -/
namespace Fsm.S

def post : Phase → Bool
  | .queued => true
  | .active _ => true
  | .finished => true
  | _ => false

theorem post_step {s s' : St} {e : Ev} (id : Nat) (hs : step s e = some s') (hp : post (s'.phase id) = true) :
    post (s.phase id) = true ∨ e = .recvReq id := by
  cases e with
  | sendStat =>
    simp only [step] at hs
    split at hs; · cases hs
    split at hs
    · by_cases hreg : isReg s s.sent = true
      · simp only [hreg, if_true] at hs; cases hs
        dsimp only at hp
        by_cases h : id = s.sent
        · subst h; rw [upd_same] at hp; simp [post] at hp
        · rw [upd_other _ _ _ _ h] at hp; exact Or.inl hp
      · simp only [hreg] at hs; cases hs; exact Or.inl hp
    · cases hs
  | sendEnd =>
    simp only [step] at hs
    split at hs; · cases hs
    split at hs
    · cases hs; exact Or.inl hp
    · cases hs
  | recvReq id' =>
    simp only [step] at hs
    split at hs; · cases hs
    split at hs
    · cases hs
      dsimp only at hp
      by_cases h : id = id'
      · subst h; exact Or.inr rfl
      · rw [upd_other _ _ _ _ h] at hp; exact Or.inl hp
    · cases hs; exact Or.inl hp
  | open_ id' =>
    simp only [step] at hs
    split at hs
    · rename_i hph; cases hs
      dsimp only at hp
      by_cases h : id = id'
      · subst h; rw [hph]; exact Or.inl rfl
      · rw [upd_other _ _ _ _ h] at hp; exact Or.inl hp
    · cases hs
  | data id' k =>
    simp only [step] at hs
    split at hs
    · rename_i off hph
      split at hs
      · cases hs
        dsimp only at hp
        by_cases h : id = id'
        · subst h; rw [hph]; exact Or.inl rfl
        · rw [upd_other _ _ _ _ h] at hp; exact Or.inl hp
      · cases hs
    · cases hs
  | term id' =>
    simp only [step] at hs
    split at hs
    · rename_i off hph
      split at hs
      · cases hs
        dsimp only at hp
        by_cases h : id = id'
        · subst h; rw [hph]; exact Or.inl rfl
        · rw [upd_other _ _ _ _ h] at hp; exact Or.inl hp
      · cases hs
    · cases hs

theorem post_run (id : Nat) : ∀ (es : List Ev) (s0 s : St), run s0 es = some s → post (s.phase id) = true →
    post (s0.phase id) = true ∨ Ev.recvReq id ∈ es
  | [], s0, s, h, hp => by simp [run] at h; subst h; exact Or.inl hp
  | e :: es, s0, s, h, hp => by
    simp only [run] at h
    cases hs : step s0 e with
    | none => rw [hs] at h; cases h
    | some s1 =>
      rw [hs] at h
      rcases post_run id es s1 s h hp with h1 | h1
      · rcases post_step id hs h1 with h2 | h2
        · exact Or.inl h2
        · exact Or.inr (by simp [h2])
      · exact Or.inr (by simp [h1])

end Fsm.S
