import FsutilModel.Model.CopyB
/-! C13: the mode option replaces exactly the permission/special bits and leaves the type bits alone. -/
namespace Fsm.C

theorem goPerm_within_mask (m : Nat) : goPermOfUnix m &&& permMask = goPermOfUnix m := by
  have e1 : (511 : Nat) &&& permMask = 511 := by decide
  have e2 : modeSetuid &&& permMask = modeSetuid := by decide
  have e3 : modeSetgid &&& permMask = modeSetgid := by decide
  have e4 : modeSticky &&& permMask = modeSticky := by decide
  unfold goPermOfUnix
  generalize (m &&& 2048 != 0) = b1
  generalize (m &&& 1024 != 0) = b2
  generalize (m &&& 512 != 0) = b3
  rw [Nat.and_or_distrib_right, Nat.and_or_distrib_right, Nat.and_or_distrib_right, Nat.and_assoc, e1]
  cases b1 <;> cases b2 <;> cases b3 <;> simp [e2, e3, e4]

def typeMask : Nat := 4294967295 - permMask

theorem masks_disjoint : typeMask &&& permMask = 0 := by decide

theorem set_perm_bits (a g : Nat) (hg : g &&& permMask = g) :
    ((a &&& typeMask) ||| g) &&& permMask = g ∧ ((a &&& typeMask) ||| g) &&& typeMask = a &&& typeMask := by
  constructor
  · rw [Nat.and_or_distrib_right, Nat.and_assoc, masks_disjoint, Nat.and_zero, Nat.zero_or, hg]
  · have hz : g &&& typeMask = 0 := by
      rw [← hg, Nat.and_assoc, Nat.and_comm permMask, masks_disjoint, Nat.and_zero]
    rw [Nat.and_or_distrib_right, Nat.and_assoc, Nat.and_self, hz, Nat.or_zero]

end Fsm.C
