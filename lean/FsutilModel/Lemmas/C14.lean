import FsutilModel.Model.CopyB
import FsutilModel.ValidatorBridge1
/-! Helper lemmas for the theorems of Props/C14.lean (kept apart from the property statements). -/
namespace Fsm.C14
open FL
open C

/-- a component that can be part of a resolved location -/
def PlainComp (c : Path) : Prop := c ≠ [] ∧ c ≠ [dot] ∧ c ≠ dd

theorem cleanComps_rooted (cs : List Path) : ∀ acc : List Path, (∀ c ∈ acc, PlainC' c ∧ sep ∉ c) → (∀ c ∈ cs, sep ∉ c) →
    ∀ c ∈ cleanComps true acc cs, PlainC' c ∧ sep ∉ c := by
  induction cs with
  | nil => intro acc h _ c hc; simp [cleanComps] at hc; exact h c hc
  | cons x xs ih =>
    intro acc hacc hs
    have hsx := hs x (by simp)
    have hsxs : ∀ c ∈ xs, sep ∉ c := fun c hc => hs c (by simp [hc])
    simp only [cleanComps]
    by_cases h1 : x = [] ∨ x = [dot]
    · simp only [h1, if_true]; exact ih acc hacc hsxs
    · simp only [h1, if_false]
      by_cases h2 : x = dd
      · simp only [h2, if_true]
        cases acc with
        | nil => simp only [if_true]; exact ih [] (by simp) hsxs
        | cons top rest =>
          simp only []
          have htop := hacc top (by simp)
          have hne : top ≠ dd := htop.1.2.2
          simp only [hne, if_false]
          exact ih rest (fun c hc => hacc c (by simp [hc])) hsxs
      · simp only [h2, if_false]
        refine ih (x :: acc) ?_ hsxs
        intro c hc
        simp only [List.mem_cons] at hc
        rcases hc with rfl | hc
        · exact ⟨⟨fun e => h1 (Or.inl e), fun e => h1 (Or.inr e), h2⟩, hsx⟩
        · exact hacc c hc

/-- Clean of a rooted path is "/" followed by plain components -/
theorem clean_rooted (a : Path) : ∃ cs : List Path, clean (sep :: a) = sep :: joinSep cs ∧ ∀ c ∈ cs, PlainC' c ∧ sep ∉ c := by
  refine ⟨cleanComps true [] (comps (sep :: a)), ?_, ?_⟩
  · simp [clean, isAbs]
  · exact cleanComps_rooted _ [] (by simp) (comps_all_sepfree _)

end Fsm.C14
