import FsutilModel.Model.Filter
/-! Helper lemmas for the theorems of Props/C11.lean (kept apart from the property statements). -/
namespace Fsm.C11
open F

def NonDir (e : StatE) : Prop := (e.isDir || e.isSymlink) = false

/-- paths of the entries that the source listing announces as hard links -/
def linkPaths (l : List StatE) : List Path :=
  (l.filter fun e => !(e.isDir || e.isSymlink) && e.linkname != []).map (·.path)

theorem step_dir (seen : List (Path × Path)) (e : StatE) (rest : List StatE) (hd : (e.isDir || e.isSymlink) = true) :
    hardlinkResetGo seen (e :: rest) = e :: hardlinkResetGo seen rest := by
  rw [hardlinkResetGo]; simp [hd]

theorem step_plain (seen : List (Path × Path)) (e : StatE) (rest : List StatE) (hd : NonDir e) (hl : e.linkname = []) :
    hardlinkResetGo seen (e :: rest) = e :: hardlinkResetGo ((e.path, e.path) :: seen) rest := by
  rw [hardlinkResetGo]; simp [show (e.isDir || e.isSymlink) = false from hd, hl]

theorem step_promote (seen : List (Path × Path)) (e : StatE) (rest : List StatE) (hd : NonDir e) (hl : e.linkname ≠ [])
    (hf : seen.find? (·.1 = e.linkname) = none) :
    hardlinkResetGo seen (e :: rest)
      = { e with linkname := [] } :: hardlinkResetGo ((e.path, e.path) :: (e.linkname, e.path) :: seen) rest := by
  rw [hardlinkResetGo]; simp [show (e.isDir || e.isSymlink) = false from hd, hl, hf]

theorem step_relink (seen : List (Path × Path)) (e : StatE) (rest : List StatE) (k v : Path) (hd : NonDir e)
    (hl : e.linkname ≠ []) (hf : seen.find? (·.1 = e.linkname) = some (k, v)) (hv : v ≠ e.path) :
    hardlinkResetGo seen (e :: rest)
      = { e with linkname := v } :: hardlinkResetGo ((e.path, e.path) :: seen) rest := by
  rw [hardlinkResetGo]; simp [show (e.isDir || e.isSymlink) = false from hd, hl, hf, hv]

theorem step_same (seen : List (Path × Path)) (e : StatE) (rest : List StatE) (k : Path) (hd : NonDir e)
    (hl : e.linkname ≠ []) (hf : seen.find? (·.1 = e.linkname) = some (k, e.path)) :
    hardlinkResetGo seen (e :: rest) = e :: hardlinkResetGo ((e.path, e.path) :: seen) rest := by
  rw [hardlinkResetGo]; simp [show (e.isDir || e.isSymlink) = false from hd, hl, hf]

theorem reset_closed_go (all : List StatE) : ∀ (rest : List StatE) (seen : List (Path × Path)) (P : List Path),
    (∀ kv ∈ seen, kv.2 ∈ P ∨ (kv.1 = kv.2 ∧ kv.1 ∈ linkPaths all)) →
    (∀ e ∈ rest, NonDir e → e.linkname ≠ [] → e.linkname ∉ linkPaths all ∧ e.path ∈ linkPaths all) →
    (∀ e ∈ rest, e.path ∉ P ∧ e.path ≠ []) →
    (∀ x ∈ P, x ≠ []) →
    (rest.map (·.path)).Nodup →
    linksClosed P (hardlinkResetGo seen rest) = true := by
  intro rest
  induction rest with
  | nil => intro seen P _ _ _ _ _; simp [hardlinkResetGo, linksClosed]
  | cons e rest ih =>
    intro seen P hinv hcan hfresh hPne hnd
    have hnd' := (List.nodup_cons.mp hnd)
    have hep := hfresh e (by simp)
    have hfreshP : ∀ f ∈ rest, f.path ∉ P ∧ f.path ≠ [] := fun f hf => hfresh f (by simp [hf])
    have hfreshP' : ∀ f ∈ rest, f.path ∉ (e.path :: P) ∧ f.path ≠ [] := by
      intro f hf
      refine ⟨?_, (hfreshP f hf).2⟩
      intro hm
      simp only [List.mem_cons] at hm
      rcases hm with h | h
      · exact hnd'.1 (List.mem_map.mpr ⟨f, hf, h⟩)
      · exact (hfreshP f hf).1 h
    have hPne' : ∀ x ∈ e.path :: P, x ≠ [] := by
      intro x hx; simp only [List.mem_cons] at hx
      rcases hx with h | h
      · rw [h]; exact hep.2
      · exact hPne x h
    have hcan' : ∀ f ∈ rest, NonDir f → f.linkname ≠ [] → f.linkname ∉ linkPaths all ∧ f.path ∈ linkPaths all :=
      fun f hf => hcan f (by simp [hf])
    have hinvP' : ∀ kv ∈ seen, kv.2 ∈ e.path :: P ∨ (kv.1 = kv.2 ∧ kv.1 ∈ linkPaths all) := by
      intro kv hkv
      rcases hinv kv hkv with h | h
      · left; simp [h]
      · right; exact h
    by_cases hd : (e.isDir || e.isSymlink) = true
    · rw [step_dir seen e rest hd]
      simp only [linksClosed, hd, if_true]
      exact ih seen P hinv hcan' hfreshP hPne hnd'.2
    · have hn : NonDir e := by simpa [NonDir] using hd
      have hdf : (e.isDir || e.isSymlink) = false := hn
      by_cases hl : e.linkname = []
      · rw [step_plain seen e rest hn hl]
        simp only [linksClosed, hdf, hl]
        simp only [Bool.false_eq_true, if_false, ne_eq, not_true_eq_false]
        refine ih _ (e.path :: P) ?_ hcan' hfreshP' hPne' hnd'.2
        intro kv hkv
        simp only [List.mem_cons] at hkv
        rcases hkv with rfl | hkv
        · left; simp
        · exact hinvP' kv hkv
      · obtain ⟨hnotlink, hislink⟩ := hcan e (by simp) hn hl
        cases hf : seen.find? (·.1 = e.linkname) with
        | none =>
          rw [step_promote seen e rest hn hl hf]
          simp only [linksClosed, StatE.isDir, StatE.isSymlink] at hdf ⊢
          simp only [hdf, Bool.false_eq_true, if_false, ne_eq, not_true_eq_false]
          refine ih _ (e.path :: P) ?_ hcan' hfreshP' hPne' hnd'.2
          intro kv hkv
          simp only [List.mem_cons] at hkv
          rcases hkv with rfl | rfl | hkv
          · left; simp
          · left; simp
          · exact hinvP' kv hkv
        | some kv =>
          obtain ⟨k, v⟩ := kv
          have hmem := List.mem_of_find?_eq_some hf
          have hk : k = e.linkname := by simpa using List.find?_some hf
          have hvP : v ∈ P := by
            rcases hinv (k, v) hmem with h | h
            · exact h
            · exact absurd (hk ▸ h.2) hnotlink
          have hvne : v ≠ e.path := fun h => hep.1 (h ▸ hvP)
          have hv0 : v ≠ [] := hPne v hvP
          rw [step_relink seen e rest k v hn hl hf hvne]
          simp only [linksClosed, StatE.isDir, StatE.isSymlink] at hdf ⊢
          simp only [hdf, Bool.false_eq_true, if_false, ne_eq, hv0, not_false_eq_true, if_true, Bool.and_eq_true]
          refine ⟨by simpa using hvP, ?_⟩
          refine ih _ P ?_ hcan' hfreshP hPne hnd'.2
          intro kv hkv
          simp only [List.mem_cons] at hkv
          rcases hkv with rfl | hkv
          · right; exact ⟨rfl, hislink⟩
          · exact hinv kv hkv

end Fsm.C11
