import FsutilModel.Model.RecvProto
/-! Helper lemmas for C07: terminators are accepted once per id; FIN is the last thing the receiver sends. -/
namespace Fsm.R

theorem termNodup_step {s s' : St} {e : Ev} (hn : s.termd.Nodup) (hs : step s e = some s') : s'.termd.Nodup := by
  cases e with
  | rTerm id =>
    simp only [step] at hs
    split at hs
    · rename_i hc; cases hs; exact List.nodup_cons.mpr ⟨hc.2, hn⟩
    · cases hs
  | rStat => simp only [step] at hs; split at hs <;> cases hs; exact hn
  | rEnd => simp only [step] at hs; split at hs <;> cases hs; exact hn
  | sReq id => simp only [step] at hs; split at hs <;> cases hs; exact hn
  | rData id b => simp only [step] at hs; split at hs <;> cases hs; exact hn
  | sFin => simp only [step] at hs; split at hs <;> cases hs; exact hn

theorem termNodup_run : ∀ (es : List Ev) (s s' : St), s.termd.Nodup → run s es = some s' → s'.termd.Nodup
  | [], s, s', hn, h => by simp [run] at h; subst h; exact hn
  | e :: es, s, s', hn, h => by
    simp only [run] at h
    cases hs : step s e with
    | none => rw [hs] at h; cases h
    | some s1 => rw [hs] at h; exact termNodup_run es s1 s' (termNodup_step hn hs) h

/-- once FIN has been sent, an accepted event is neither a request nor a second FIN, and the flag stays up -/
theorem afterFin_step {s s' : St} {e : Ev} (hf : s.finSent = true) (hs : step s e = some s') :
    s'.finSent = true ∧ (∀ id, e ≠ .sReq id) ∧ e ≠ .sFin := by
  cases e with
  | rTerm id => simp only [step] at hs; split at hs <;> cases hs; exact ⟨hf, fun _ h => (by cases h), fun h => (by cases h)⟩
  | rStat => simp only [step] at hs; split at hs <;> cases hs; exact ⟨hf, fun _ h => (by cases h), fun h => (by cases h)⟩
  | rEnd => simp only [step] at hs; split at hs <;> cases hs; exact ⟨hf, fun _ h => (by cases h), fun h => (by cases h)⟩
  | rData id b => simp only [step] at hs; split at hs <;> cases hs; exact ⟨hf, fun _ h => (by cases h), fun h => (by cases h)⟩
  | sReq id =>
    simp only [step] at hs
    split at hs
    · rename_i hc; rw [hf] at hc; exact absurd hc.2.2.2 (by simp)
    · cases hs
  | sFin =>
    simp only [step] at hs
    split at hs
    · rename_i hc; rw [hf] at hc; exact absurd hc.2.1 (by simp)
    · cases hs

theorem afterFin_run : ∀ (es : List Ev) (s s' : St), s.finSent = true → run s es = some s' →
    s'.finSent = true ∧ ∀ e ∈ es, (∀ id, e ≠ .sReq id) ∧ e ≠ .sFin
  | [], s, s', hf, h => by simp [run] at h; subst h; exact ⟨hf, by simp⟩
  | e :: es, s, s', hf, h => by
    simp only [run] at h
    cases hs : step s e with
    | none => rw [hs] at h; cases h
    | some s1 =>
      rw [hs] at h
      obtain ⟨hf1, he⟩ := afterFin_step hf hs
      obtain ⟨hf2, hes⟩ := afterFin_run es s1 s' hf1 h
      refine ⟨hf2, fun x hx => ?_⟩
      simp only [List.mem_cons] at hx
      rcases hx with rfl | hx
      · exact he
      · exact hes x hx

theorem run_append : ∀ (es1 es2 : List Ev) (s s' : St), run s (es1 ++ es2) = some s' →
    ∃ m, run s es1 = some m ∧ run m es2 = some s'
  | [], es2, s, s', h => ⟨s, rfl, h⟩
  | e :: es1, es2, s, s', h => by
    simp only [List.cons_append, run] at h ⊢
    cases hs : step s e with
    | none => rw [hs] at h; cases h
    | some s1 => rw [hs] at h; exact run_append es1 es2 s1 s' h

end Fsm.R

namespace Fsm.R

theorem step_need {s s' : St} {e : Ev} (hs : step s e = some s') : s'.need = s.need := by
  cases e <;> simp only [step] at hs <;> split at hs <;> cases hs <;> rfl

theorem run_need : ∀ (s : St) (es : List Ev) (s' : St), run s es = some s' → s'.need = s.need
  | s, [], s', h => by simp [run] at h; subst h; rfl
  | s, e :: es, s', h => by
    simp only [run] at h
    cases hs : step s e with
    | none => rw [hs] at h; cases h
    | some s1 => rw [hs] at h; rw [run_need s1 es s' h, step_need hs]

end Fsm.R

namespace Fsm.R

def StoredReq (s : St) : Prop := ∀ x ∈ s.stored, x.1 ∈ s.reqd

theorem storedReq_step {s s' : St} {e : Ev} (hi : StoredReq s) (hs : step s e = some s') : StoredReq s' := by
  cases e with
  | rStat => simp only [step] at hs; split at hs <;> cases hs; exact hi
  | rEnd => simp only [step] at hs; split at hs <;> cases hs; exact hi
  | rTerm id => simp only [step] at hs; split at hs <;> cases hs; exact hi
  | sFin => simp only [step] at hs; split at hs <;> cases hs; exact hi
  | sReq id =>
    simp only [step] at hs
    split at hs
    · cases hs; intro x hx; exact List.mem_cons_of_mem _ (hi x hx)
    · cases hs
  | rData id b =>
    simp only [step] at hs
    split at hs
    · rename_i hc
      cases hs
      intro x hx
      simp only [List.mem_append, List.mem_singleton] at hx
      rcases hx with hx | rfl
      · exact hi x hx
      · exact hc.1
    · cases hs

theorem storedReq_run : ∀ (es : List Ev) (s s' : St), StoredReq s → run s es = some s' → StoredReq s'
  | [], s, s', hi, h => by simp [run] at h; subst h; exact hi
  | e :: es, s, s', hi, h => by
    simp only [run] at h
    cases hs : step s e with
    | none => rw [hs] at h; cases h
    | some s1 => rw [hs] at h; exact storedReq_run es s1 s' (storedReq_step hi hs) h

end Fsm.R
