import FsutilModel.Model.Tar
import FsutilModel.Props.C11
/-! Helper lemmas for the theorems of Props/C17.lean (kept apart from the property statements). -/
namespace Fsm.C17
open T
open F

/-- every hard-link member names an earlier member that is written as the file itself -/
def memLinksClosed : List Path → List Member → Bool
  | _, [] => true
  | seen, m :: rest =>
    match m.tf with
    | .dir | .symlink => memLinksClosed seen rest
    | .link => seen.contains m.linkname && memLinksClosed seen rest
    | _ => memLinksClosed (m.name :: seen) rest

theorem typeOf_not_dir_symlink (s : StatE) (h : (s.isDir || s.isSymlink) = false) : typeOf s ≠ .dir ∧ typeOf s ≠ .symlink ∧ typeOf s ≠ .link := by
  have hd : s.isDir = false := by cases hh : s.isDir <;> simp [hh] at h ⊢
  have hs : s.isSymlink = false := by cases hh : s.isSymlink <;> simp [hh, hd] at h ⊢
  unfold typeOf
  simp only [hd, hs, Bool.false_eq_true, if_false]
  refine ⟨?_, ?_, ?_⟩ <;> (repeat' split) <;> simp

theorem members_closed (sha : StatE → Path) : ∀ (stats : List StatE) (seen : List Path),
    (∀ s ∈ stats, s.isDir = true → s.linkname = []) →
    linksClosed seen stats = true →
    memLinksClosed seen (members (stats.map fun s => { st := s, sha := sha s })) = true := by
  intro stats
  induction stats with
  | nil => intro seen _ _; simp [members, memLinksClosed]
  | cons s rest ih =>
    intro seen hdir h
    have hdir' : ∀ x ∈ rest, x.isDir = true → x.linkname = [] := fun x hx => hdir x (by simp [hx])
    simp only [members, List.map_cons] at ih ⊢
    unfold linksClosed at h
    by_cases hds : (s.isDir || s.isSymlink) = true
    · simp only [hds, if_true] at h
      have hrec := ih seen hdir' h
      by_cases hd : s.isDir = true
      · have hl := hdir s (by simp) hd
        have : (memberOf { st := s, sha := sha s }).tf = .dir := by simp [memberOf, hl, typeOf, hd]
        simp only [memLinksClosed, this]; exact hrec
      · have hs : s.isSymlink = true := by
          cases hh : s.isSymlink with
          | true => rfl
          | false => simp [hh, hd] at hds
        have hd' : s.isDir = false := by simpa using hd
        have : (memberOf { st := s, sha := sha s }).tf = .symlink := by
          by_cases hl : s.linkname = []
          · simp [memberOf, hl, typeOf, hd', hs]
          · simp [memberOf, hl, hs]
        simp only [memLinksClosed, this]; exact hrec
    · have hds' : (s.isDir || s.isSymlink) = false := by simpa using hds
      have hs : s.isSymlink = false := by cases hh : s.isSymlink <;> simp [hh] at hds' ⊢
      have hd : s.isDir = false := by cases hh : s.isDir <;> simp [hh] at hds' ⊢
      simp only [hds', Bool.false_eq_true, if_false] at h
      by_cases hl : s.linkname = []
      · simp only [hl, ne_eq, not_true_eq_false, if_false] at h
        have hrec := ih (s.path :: seen) hdir' h
        obtain ⟨t1, t2, t3⟩ := typeOf_not_dir_symlink s hds'
        have htf : (memberOf { st := s, sha := sha s }).tf = typeOf s := by simp [memberOf, hl]
        have hname : (memberOf { st := s, sha := sha s }).name = s.path := by simp [memberOf, hd]
        unfold memLinksClosed
        rw [htf, hname]
        cases ht : typeOf s <;> simp_all
      · simp only [hl, ne_eq, not_false_eq_true, if_true, Bool.and_eq_true] at h
        have hrec := ih seen hdir' h.2
        have htf : (memberOf { st := s, sha := sha s }).tf = .link := by simp [memberOf, hl, hs]
        have hln : (memberOf { st := s, sha := sha s }).linkname = s.linkname := by simp [memberOf]
        simp only [memLinksClosed, htf, hln, Bool.and_eq_true]
        exact ⟨h.1, hrec⟩

theorem reset_dirs_unchanged : ∀ (l : List StatE) (seen : List (Path × Path)) (s : StatE),
    s ∈ hardlinkResetGo seen l → s.isDir = true → s ∈ l := by
  intro l
  induction l with
  | nil => intro seen s h; simp [hardlinkResetGo] at h
  | cons e rest ih =>
    intro seen s h hd
    by_cases hde : (e.isDir || e.isSymlink) = true
    · rw [C11.step_dir seen e rest hde] at h
      simp only [List.mem_cons] at h ⊢
      rcases h with h | h
      · exact Or.inl h
      · exact Or.inr (ih _ s h hd)
    · have hn : C11.NonDir e := by simpa [C11.NonDir] using hde
      have hed : e.isDir = false := by
        have : (e.isDir || e.isSymlink) = false := hn
        cases hh : e.isDir <;> simp [hh] at this ⊢
      have key : ∀ (e' : StatE) (seen' : List (Path × Path)), e'.isDir = false →
          s ∈ e' :: hardlinkResetGo seen' rest → s ∈ e :: rest := by
        intro e' seen' he' hm
        simp only [List.mem_cons] at hm ⊢
        rcases hm with hm | hm
        · rw [hm] at hd; rw [he'] at hd; cases hd
        · exact Or.inr (ih _ s hm hd)
      by_cases hl : e.linkname = []
      · rw [C11.step_plain seen e rest hn hl] at h; exact key e _ hed h
      · cases hf : seen.find? (·.1 = e.linkname) with
        | none =>
          rw [C11.step_promote seen e rest hn hl hf] at h
          exact key _ _ (by simpa [StatE.isDir] using hed) h
        | some kv =>
          obtain ⟨k, v⟩ := kv
          by_cases hv : v = e.path
          · subst hv; rw [C11.step_same seen e rest k hn hl hf] at h; exact key e _ hed h
          · rw [C11.step_relink seen e rest k v hn hl hf hv] at h
            exact key _ _ (by simpa [StatE.isDir] using hed) h

end Fsm.C17
