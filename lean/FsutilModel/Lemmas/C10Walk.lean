import FsutilModel.Lemmas.C10Chain
import FsutilModel.Lemmas.C16Walk
/-! For negation-free pattern lists the filtered walk of a canonical listing reports exactly what the naive reference filter
of C10 keeps (pruning off, no map function). -/
namespace Fsm.C10W
open P F C16L C16W C10C

/-- in a canonical listing the first parent prefix of every entry is a top-level path -/
theorem first_top (l : List StatE) (hC : Canon l) :
    ∀ (n : Nat) (pre : List StatE) (e : StatE) (post : List StatE), pre.length = n → l = pre ++ e :: post →
      ∀ q rest, parentPrefixes e.path ++ [e.path] = q :: rest → parentPrefixes q = [] := by
  intro n
  induction n using Nat.strongRecOn with
  | _ n ih =>
    intro pre e post hn hl q rest hq
    have hS := hC pre e post hl
    have hpp := hS.pp
    cases hlast : (pre.filter (fun x => anc x.path e.path)).getLast? with
    | none =>
      rw [hlast] at hpp
      simp only at hpp
      rw [hpp] at hq
      simp only [List.nil_append, List.cons.injEq] at hq
      rw [← hq.1]; exact hpp
    | some t =>
      rw [hlast] at hpp
      simp only at hpp
      have ht : t ∈ pre := (List.mem_filter.mp (List.mem_of_getLast? hlast)).1
      obtain ⟨pre1, post1, hsplit⟩ := List.append_of_mem ht
      have hlen : pre1.length < n := by rw [← hn, hsplit]; simp
      have hl' : l = pre1 ++ t :: (post1 ++ e :: post) := by rw [hl, hsplit]; simp [List.append_assoc]
      -- the chain of `e` starts like the chain of `t`
      cases hc : parentPrefixes t.path ++ [t.path] with
      | nil => simp at hc
      | cons q' rest' =>
        have := ih pre1.length hlen pre1 t (post1 ++ e :: post) rfl hl' q' rest' hc
        rw [hpp, hc] at hq
        simp only [List.cons_append, List.cons.injEq] at hq
        rw [← hq.1]; exact this

end Fsm.C10W

namespace Fsm.C10W
open P F C16L C16W C10C

/-- for negation-free lists the chain selection of an entry of a canonical listing is the stateless `refKept` of C10 -/
theorem selected_eq_refKept (cfg : Cfg) (hni : ∀ p ∈ cfg.inc, p.neg = false) (hnx : ∀ p ∈ cfg.exc, p.neg = false)
    (l : List StatE) (hC : Canon l) (e : StatE) (he : e ∈ l) :
    selected cfg.inc cfg.exc e.path = refKept cfg e := by
  obtain ⟨pre, post, hl⟩ := List.append_of_mem he
  have hft := first_top l hC pre.length pre e post rfl hl
  have hi := chain_eq_stateless cfg.inc hni e.path hft
  have hx := chain_eq_stateless cfg.exc hnx e.path hft
  rw [uprChain_eq] at hi hx
  simp only [selected, refKept, hi, hx]

/-- **C10 for negation-free pattern lists, pruning off**: the filtered walk of a canonical listing reports exactly the entries
the naive reference filter keeps (every entry tested with the stateless matcher, plus the directories above kept entries). -/
theorem filterWalk_eq_reference (cfg : Cfg) (hp : cfg.prune = false) (hm : cfg.map = [])
    (hf : (!cfg.inc.isEmpty || !cfg.exc.isEmpty) = true)
    (hni : ∀ p ∈ cfg.inc, p.neg = false) (hnx : ∀ p ∈ cfg.exc, p.neg = false)
    (l : List StatE) (hC : Canon l) :
    ∀ e, e ∈ filterWalk true cfg l ↔ e ∈ reference cfg l := by
  intro e
  rw [filterWalk_mem cfg hp hm hf l hC e]
  unfold reference
  simp only [List.mem_filter]
  constructor
  · intro ⟨he, hk⟩
    refine ⟨he, ?_⟩
    simp only [keepIn, Bool.or_eq_true, Bool.and_eq_true, List.any_eq_true] at hk ⊢
    rcases hk with h | ⟨hd, d, hdl, hda, hds⟩
    · left; rw [← selected_eq_refKept cfg hni hnx l hC e he]; exact h
    · right
      refine ⟨hd, d, List.mem_filter.mpr ⟨hdl, ?_⟩, hda⟩
      rw [← selected_eq_refKept cfg hni hnx l hC d hdl]; exact hds
  · intro ⟨he, hk⟩
    refine ⟨he, ?_⟩
    simp only [keepIn, Bool.or_eq_true, Bool.and_eq_true, List.any_eq_true] at hk ⊢
    rcases hk with h | ⟨hd, d, hdk, hda⟩
    · left; rw [selected_eq_refKept cfg hni hnx l hC e he]; exact h
    · right
      obtain ⟨hdl, hdr⟩ := List.mem_filter.mp hdk
      exact ⟨hd, d, hdl, hda, by rw [selected_eq_refKept cfg hni hnx l hC d hdl]; exact hdr⟩

end Fsm.C10W
