import FsutilModel.Props.C12
/-! C03: what acceptance by the validator means for the components of a path.  In a sequence the (repaired) validator
accepts, every ancestor path of every entry was announced earlier as a directory, and no path is announced twice: the
directory standing at a component of an accepted path is the only thing the peer ever announced there, so no component of a
path handed to the disk writer is a symlink (or a file) of the peer's making. -/
namespace Fsm.C03A

/-- `q` is a proper ancestor path of `p` (iterating `filepath.Dir`; the root is not counted) -/
inductive Anc : Path → Path → Prop
  | parent (p : Path) : parentOf p ≠ [] → Anc (parentOf p) p
  | up (q p : Path) : parentOf p ≠ [] → Anc q (parentOf p) → Anc q p

/-- every position of an accepted sequence meets the specification's condition for one element -/
theorem accepted_positions (cs : List Chg) (h : vrun true cs = .accept) :
    ∀ pre x post, cs = pre ++ x :: post → specOk pre x = true := by
  rw [C12.validator_eq_spec] at h
  suffices H : ∀ (cs pre0 : List Chg) (k : Nat), specRunFrom pre0 k cs = .accept →
      ∀ pre x post, cs = pre ++ x :: post → specOk (pre0 ++ pre) x = true by
    intro pre x post hs
    simpa using H cs [] 0 h pre x post hs
  intro cs
  induction cs with
  | nil => intro _ _ _ pre x post hs; cases pre <;> cases hs
  | cons c cs ih =>
    intro pre0 k hacc pre x post hs
    unfold specRunFrom at hacc
    by_cases hok : specOk pre0 c = true
    · simp only [hok, if_true] at hacc
      cases pre with
      | nil =>
        simp only [List.nil_append, List.cons.injEq] at hs
        obtain ⟨rfl, _⟩ := hs
        simpa using hok
      | cons a pre =>
        simp only [List.cons_append, List.cons.injEq] at hs
        obtain ⟨rfl, hrest⟩ := hs
        have := ih (pre0 ++ [c]) (k + 1) hacc pre x post hrest
        simpa [List.append_assoc] using this
    · simp only [hok, Bool.false_eq_true, if_false] at hacc
      cases hacc

/-- the parent of an accepted entry was announced earlier, as a directory that was not deleted -/
theorem parent_announced (cs : List Chg) (h : vrun true cs = .accept) (pre : List Chg) (x : Chg) (post : List Chg)
    (hs : cs = pre ++ x :: post) (hp : parentOf x.path ≠ []) :
    ∃ y ∈ pre, y.path = parentOf x.path ∧ y.isDir = true ∧ y.isDel = false := by
  have := accepted_positions cs h pre x post hs
  simp only [specOk, Bool.and_eq_true, Bool.or_eq_true, decide_eq_true_eq, List.any_eq_true] at this
  rcases this.2 with h1 | ⟨y, hy, hyp⟩
  · exact absurd h1 hp
  · simp only [Bool.not_eq_true'] at hyp
    exact ⟨y, hy, hyp.1.1, hyp.1.2, hyp.2⟩

/-- **every ancestor path of an accepted entry was announced earlier as a directory** -/
theorem ancestors_announced (cs : List Chg) (h : vrun true cs = .accept) :
    ∀ (n : Nat) (pre : List Chg) (x : Chg) (post : List Chg), pre.length = n → cs = pre ++ x :: post →
      ∀ q, Anc q x.path → ∃ y ∈ pre, y.path = q ∧ y.isDir = true ∧ y.isDel = false := by
  intro n
  induction n using Nat.strongRecOn with
  | _ n ih =>
    intro pre x post hn hs q hq
    cases hq with
    | parent _ hp => exact parent_announced cs h pre x post hs hp
    | up _ _ hp hq' =>
      obtain ⟨y, hy, hyp, _, _⟩ := parent_announced cs h pre x post hs hp
      obtain ⟨pre1, pre2, hsplit⟩ := List.append_of_mem hy
      have hs' : cs = pre1 ++ y :: (pre2 ++ x :: post) := by rw [hs, hsplit]; simp
      have hlen : pre1.length < n := by rw [← hn, hsplit]; simp
      rw [← hyp] at hq'
      obtain ⟨z, hz, hzq⟩ := ih pre1.length hlen pre1 y (pre2 ++ x :: post) rfl hs' q hq'
      exact ⟨z, by rw [hsplit]; exact List.mem_append_left _ hz, hzq⟩

/-- an accepted sequence is strictly ascending: everything announced before `x` is smaller than `x` -/
theorem earlier_is_smaller (cs : List Chg) (h : vrun true cs = .accept) :
    ∀ (pre : List Chg) (x : Chg) (post : List Chg), cs = pre ++ x :: post → ∀ y ∈ pre, comparePath y.path x.path < 0 := by
  intro pre
  generalize hn : pre.length = n
  induction n generalizing pre with
  | zero =>
    intro x post _ y hy
    have : pre = [] := List.length_eq_zero_iff.mp hn
    subst this; cases hy
  | succ n ih =>
    intro x post hs y hy
    rcases List.eq_nil_or_concat pre with hnil | ⟨pre', l, hpre⟩
    · subst hnil; cases hy
    · rw [List.concat_eq_append] at hpre
      subst hpre
      have hx := accepted_positions cs h (pre' ++ [l]) x post hs
      simp only [specOk, Bool.and_eq_true, decide_eq_true_eq, List.getLast?_append, List.getLast?_singleton, Option.some_or] at hx
      have hl : comparePath l.path x.path < 0 := hx.1.2
      rcases List.mem_append.mp hy with hy' | hy'
      · have hs' : cs = pre' ++ l :: (x :: post) := by rw [hs]; simp
        have hlen : pre'.length = n := by simp at hn; omega
        exact C12.cmp_trans _ _ _ (ih pre' hlen l (x :: post) hs' y hy') hl
      · simp only [List.mem_singleton] at hy'; subst hy'; exact hl

/-- … so no path is announced twice -/
theorem announced_once (cs : List Chg) (h : vrun true cs = .accept) (pre : List Chg) (x : Chg) (post : List Chg)
    (hs : cs = pre ++ x :: post) : ∀ y ∈ pre, y.path ≠ x.path := by
  intro y hy heq
  have := earlier_is_smaller cs h pre x post hs y hy
  rw [heq] at this
  exact C12.cmp_irrefl _ this

end Fsm.C03A
