import FsutilModel.Model.FollowLinks
import FsutilModel.Lex
/-! Helper lemmas for the theorems of Props/C18.lean (kept apart from the property statements). -/
namespace Fsm.C18
open FL

theorem strLt_of_sep_prefix (s b : Path) (h : (s ++ [47]) <+: b) : strLt s b = true := by
  obtain ⟨t, ht⟩ := h
  subst ht
  induction s with
  | nil => simp [strLt]
  | cons a s ih => simpa [strLt] using ih

/-- For every bytewise-sorted input list, the repaired de-duplication returns a list in which no
element is inside another (`x/` is never a prefix of another kept element) — or nothing when the root
is among them. -/
theorem dedupe_go_prefix_free : ∀ (l : List Path) (last : Path) (out : List Path) (r : List Path),
    l.Pairwise (fun a b => strLt a b = true) →
    (∀ o ∈ out, ∀ x ∈ l, strLt o x = true) →
    (∀ a ∈ out, ∀ b ∈ out, ¬ (a ++ [47]) <+: b) →
    dedupePaths.go true l last out = some r →
    ∀ a ∈ r, ∀ b ∈ r, ¬ (a ++ [47]) <+: b := by
  intro l
  induction l with
  | nil =>
    intro last out r _ _ hinv h
    simp only [dedupePaths.go, Option.some.injEq] at h
    subst h
    intro a ha b hb
    exact hinv a (by simpa using ha) b (by simpa using hb)
  | cons s rest ih =>
    intro last out r hsort hlt hinv h
    have hsr := List.pairwise_cons.mp hsort
    have hlt' : ∀ o ∈ out, ∀ x ∈ rest, strLt o x = true := fun o ho x hx => hlt o ho x (List.mem_cons_of_mem _ hx)
    simp only [dedupePaths.go] at h
    split at h
    · cases h
    · simp only [if_true] at h
      split at h
      · exact ih last out r hsr.2 hlt' hinv h
      · rename_i hnone
        refine ih s (s :: out) r hsr.2 ?_ ?_ h
        · intro o ho x hx
          simp only [List.mem_cons] at ho
          rcases ho with rfl | ho
          · exact hsr.1 x hx
          · exact hlt' o ho x hx
        · intro a ha b hb
          simp only [List.mem_cons] at ha hb
          simp only [List.any_eq_true, not_exists, not_and, Bool.not_eq_true] at hnone
          rcases ha with rfl | ha <;> rcases hb with rfl | hb
          · intro hp
            have := List.IsPrefix.length_le hp
            simp only [List.length_append, List.length_cons, List.length_nil] at this
            omega
          · intro hp
            -- b was kept earlier, so b < a; but a/ prefix of b gives a < b
            have h1 := strLt_of_sep_prefix _ _ hp
            have h2 := hlt b hb _ (List.mem_cons_self ..)
            have := strLt_asymm h1
            rw [h2] at this; cases this
          · intro hp
            have := hnone a ha
            have hp' : (a ++ [47]).isPrefixOf b = true := List.isPrefixOf_iff_prefix.mpr hp
            rw [hp'] at this; cases this
          · exact hinv a ha b hb

abbrev SortedB (l : List Path) : Prop := l.Pairwise (fun a b => strLt a b = true)

theorem insertSortedB_mem (x : Path) : ∀ (ys : List Path) (z : Path), z ∈ insertSortedB x ys → z = x ∨ z ∈ ys := by
  intro ys
  induction ys with
  | nil => intro z h; simp [insertSortedB] at h; exact Or.inl h
  | cons y ys ih =>
    intro z h
    simp only [insertSortedB, lexLtBytes] at h
    by_cases hxy : strLt x y = true
    · simp only [hxy, if_true] at h
      simp at h; rcases h with h | h | h
      · exact Or.inl h
      · exact Or.inr (by simp [h])
      · exact Or.inr (by simp [h])
    · simp only [hxy, if_false] at h
      by_cases he : x = y
      · simp only [he, if_true] at h
        exact Or.inr h
      · simp only [he, if_false] at h
        simp at h; rcases h with h | h
        · exact Or.inr (by simp [h])
        · rcases ih z h with h | h
          · exact Or.inl h
          · exact Or.inr (by simp [h])

theorem insertSortedB_sorted (x : Path) : ∀ ys : List Path, SortedB ys → SortedB (insertSortedB x ys) := by
  intro ys
  induction ys with
  | nil => intro _; simp [insertSortedB, SortedB]
  | cons y ys ih =>
    intro hs
    have hc := List.pairwise_cons.mp hs
    simp only [insertSortedB, lexLtBytes]
    by_cases hxy : strLt x y = true
    · simp only [hxy, if_true]
      refine List.pairwise_cons.mpr ⟨?_, hs⟩
      intro z hz
      simp at hz
      rcases hz with rfl | hz
      · exact hxy
      · exact strLt_trans hxy (hc.1 z hz)
    · simp only [hxy, if_false]
      by_cases hne : x = y
      · simp only [hne, if_true]; exact hs
      · simp only [hne, if_false]
        have hyx : strLt y x = true := by
          rcases strLt_total x y with h | h | h
          · exact absurd h hne
          · exact absurd h hxy
          · exact h
        refine List.pairwise_cons.mpr ⟨?_, ih hc.2⟩
        intro z hz
        rcases insertSortedB_mem x ys z hz with rfl | hz
        · exact hyx
        · exact hc.1 z hz

/-- the kept elements are a sublist of the input (in order) -/
theorem dedupe_go_sublist (fixed : Bool) : ∀ (l : List Path) (last : Path) (out r : List Path),
    dedupePaths.go fixed l last out = some r → ∃ k, r = out.reverse ++ k ∧ k.Sublist l := by
  intro l
  induction l with
  | nil =>
    intro last out r h
    simp only [dedupePaths.go, Option.some.injEq] at h
    exact ⟨[], by simp [h], List.Sublist.refl _⟩
  | cons s rest ih =>
    intro last out r h
    simp only [dedupePaths.go] at h
    split at h
    · cases h
    · split at h
      · split at h
        · obtain ⟨k, hk, hsub⟩ := ih _ _ _ h
          exact ⟨k, hk, hsub.cons _⟩
        · obtain ⟨k, hk, hsub⟩ := ih _ _ _ h
          exact ⟨s :: k, by simp [hk], hsub.cons_cons _⟩
      · split at h
        · obtain ⟨k, hk, hsub⟩ := ih _ _ _ h
          exact ⟨k, hk, hsub.cons _⟩
        · obtain ⟨k, hk, hsub⟩ := ih _ _ _ h
          exact ⟨s :: k, by simp [hk], hsub.cons_cons _⟩

end Fsm.C18
