import FsutilModel.Prune
import FsutilModel.PruneSyn
import FsutilModel.Model.Filter
/-! Helper lemmas for the theorems of Props/C10.lean (kept apart from the property statements). -/
namespace Fsm.C10
open P
open F

/-- the executable pattern as an abstract (negation, match predicate) pair -/
def toAbs (p : P.Pat) : Pr.Pat := ⟨p.neg, fun x => patMatch p x⟩

theorem go_bridge (path : List Nat) (parent : List Bool) (hne : parent ≠ []) :
    ∀ (ps : List P.Pat) (par : List Bool) (matched : Bool) (acc : List Bool), par.length = ps.length →
      matchesUPR.go path parent ps par matched acc =
        ((Pr.go (ps.map toAbs) par path matched).1, acc.reverse ++ (Pr.go (ps.map toAbs) par path matched).2) := by
  intro ps
  induction ps with
  | nil => intro par matched acc _; simp [matchesUPR.go, Pr.go]
  | cons p rest ih =>
    intro par matched acc hlen
    cases par with
    | nil => simp at hlen
    | cons b bs =>
      have hl : bs.length = rest.length := by simpa using hlen
      have hpe : parent.isEmpty = false := by cases parent <;> simp_all
      simp only [matchesUPR.go, List.drop_one, List.tail_cons, List.map_cons, Pr.go, List.headD_cons]
      by_cases hb : b = true
      · subst hb
        simp only [if_true]
        rw [ih bs _ _ hl]
        simp [toAbs]
      · have hb' : b = false := by simpa using hb
        subst hb'
        simp only [Bool.false_eq_true, if_false]
        by_cases hn : (p.neg != matched) = true
        · simp only [hn, if_true]
          rw [ih bs _ _ hl]
          simp [toAbs, hn]
        · simp only [hn, Bool.false_eq_true, if_false, hpe, Bool.false_and, Bool.or_false]
          rw [ih bs _ _ hl]
          simp [toAbs, hn]

theorem Rel_refl (d : Pr.Path) : ∀ (ps : List Pr.Pat) (I : List Bool), I.length = ps.length → Pr.Rel d ps I I
  | [], [], _ => trivial
  | [], _ :: _, h => by simp at h
  | _ :: _, [], h => by simp at h
  | p :: ps, a :: as, h => ⟨fun ha => Or.inl ha, Rel_refl d ps as (by simpa using h)⟩

theorem prefix_of_append_left {α : Type} [DecidableEq α] (a b c : List α) (h : a <+: b) : a <+: b ++ c :=
  h.trans (List.prefix_append b c)

/-- a proper prefix of `d ++ [x]` is a prefix of `d` -/
theorem prefix_of_proper_prefix_snoc {α : Type} (a d : List α) (x : α) (h : a <+: d ++ [x]) (hne : a ≠ d ++ [x]) : a <+: d := by
  obtain ⟨t, ht⟩ := h
  cases t.eq_nil_or_concat with
  | inl h0 => subst h0; simp at ht; exact absurd ht hne
  | inr h1 =>
    obtain ⟨t', y, rfl⟩ := h1
    have : a ++ t' ++ [y] = d ++ [x] := by simpa [List.append_assoc] using ht
    have := List.append_inj_left' this rfl
    exact ⟨t', this⟩

end Fsm.C10
