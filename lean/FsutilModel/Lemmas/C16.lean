import FsutilModel.Model.CopyB
/-! Helper lemmas for `Props/C16.lean`: the copier's selection (`C.included`, which recomputes the parent-result chain
along the ancestors of every entry) against the decision `filterFS.Walk`'s callback takes with the match infos it keeps
on its directory stack. -/
namespace Fsm.C16L
open P F

/-- match info of the last element of an ancestor chain, computed as a walk does: every directory is matched with the
info of its parent (the first one with the zero info) -/
def chainInfo (ps : List Pat) (l : List Path) : List Bool :=
  (l.foldl (fun (acc : Bool × List Bool) q => matchesUPR ps q acc.2) (false, [])).2

theorem chainInfo_nil (ps : List Pat) : chainInfo ps [] = [] := rfl

theorem chainInfo_snoc (ps : List Pat) (l : List Path) (q : Path) :
    chainInfo ps (l ++ [q]) = (matchesUPR ps q (chainInfo ps l)).2 := by
  simp [chainInfo, List.foldl_append]

/-- the copier's chained verdict is one more step of the same chain -/
theorem uprChain_eq (ps : List Pat) (rel : Path) :
    C.uprChain ps rel = (matchesUPR ps rel (chainInfo ps (parentPrefixes rel))).1 := by
  simp [C.uprChain, chainInfo, List.foldl_append]

end Fsm.C16L

namespace Fsm.C16L
open P F

/-- the directory stack as the callback sees it for `e`: entries that are not ancestors of `e` popped -/
def stackFor (cfg : Cfg) (pd0 : List VDir) (e : StatE) : List VDir :=
  if !cfg.inc.isEmpty || !cfg.exc.isEmpty then (callback.pop e pd0.reverse).reverse else pd0

/-- the selection of the copier for a path relative to the copied source, written with the chain infos -/
def selected (inc exc : List Pat) (rel : Path) : Bool :=
  (inc.isEmpty || (matchesUPR inc rel (chainInfo inc (parentPrefixes rel))).1) &&
  !(!exc.isEmpty && (matchesUPR exc rel (chainInfo exc (parentPrefixes rel))).1)

theorem included_eq_selected (a : C.Args) (rel : Path) (h : rel ≠ []) : C.included a rel = selected a.inc a.exc rel := by
  simp [C.included, selected, uprChain_eq, h]

theorem emitParents_noskip (cfg : Cfg) (hm : cfg.map = []) :
    ∀ (pd done : List VDir) (out : List StatE), (∀ d ∈ pd, d.skipFn = false) → (emitParents cfg pd done out).2.2 = false := by
  intro pd
  induction pd with
  | nil => intro done out _; simp [emitParents]
  | cons d rest ih =>
    intro done out h
    have hd : d.skipFn = false := h d (List.mem_cons_self ..)
    have hr : ∀ x ∈ rest, x.skipFn = false := fun x hx => h x (List.mem_cons_of_mem _ hx)
    unfold emitParents
    simp only [hd, Bool.false_eq_true, if_false]
    split
    · exact ih _ _ hr
    · have : mapOf cfg d.st.path = .keep := by simp [mapOf, hm]
      simp only [this]
      exact ih _ _ hr

end Fsm.C16L

namespace Fsm.C16L
open P F

theorem chainInfo_empty (l : List Path) : chainInfo [] l = [] := by
  have : ∀ (l : List Path) (acc : Bool × List Bool), acc.2 = [] →
      (l.foldl (fun (acc : Bool × List Bool) q => matchesUPR [] q acc.2) acc).2 = [] := by
    intro l
    induction l with
    | nil => intro acc h; exact h
    | cons q rest ih => intro acc _; exact ih _ (by simp [matchesUPR, matchesUPR.go])
  exact this l (false, []) rfl

/-- **One step of `filterFS.Walk` decides as the copier does.** With pruning off and no map function: if the stack the
callback sees for `e` is topped by the chain infos of `e`'s ancestors (nothing recorded when `e` is at the top level), the
callback never asks to skip, reports `e` exactly when the copier selects `e.path`, reports nothing at all when it does
not, and the directory it pushes carries the chain infos of `e` itself. -/
theorem callback_decision (cfg : Cfg) (hp : cfg.prune = false) (hm : cfg.map = []) (pd0 : List VDir) (e : StatE)
    (hsk : ∀ d ∈ stackFor cfg pd0 e, d.skipFn = false)
    (hinc : (((stackFor cfg pd0 e).getLast?).map (·.inc)).getD [] = chainInfo cfg.inc (parentPrefixes e.path))
    (hexc : (((stackFor cfg pd0 e).getLast?).map (·.exc)).getD [] = chainInfo cfg.exc (parentPrefixes e.path)) :
    (callback true cfg pd0 e).2.2 = .cont ∧
    ((callback true cfg pd0 e).2.1.getLast? = some e ↔ selected cfg.inc cfg.exc e.path = true) ∧
    (selected cfg.inc cfg.exc e.path = false → (callback true cfg pd0 e).2.1 = []) := by
  have hkeep : mapOf cfg e.path = .keep := by simp [mapOf, hm]
  have hns := emitParents_noskip cfg hm (stackFor cfg pd0 e) [] [] hsk
  unfold callback
  simp only [hp, Bool.and_false, Bool.false_and, Bool.false_eq_true, if_false, hkeep]
  rw [show (if (!cfg.inc.isEmpty || !cfg.exc.isEmpty) = true then (callback.pop e pd0.reverse).reverse else pd0) = stackFor cfg pd0 e from rfl]
  rw [hinc, hexc]
  simp only [hns, Bool.false_eq_true, if_false, applyMap, selected]
  by_cases hi : cfg.inc.isEmpty = true <;> by_cases hx : cfg.exc.isEmpty = true <;>
    simp only [hi, hx, if_true, if_false, Bool.not_true, Bool.not_false, Bool.true_or, Bool.false_or, Bool.or_false, Bool.true_and,
      Bool.false_and, Bool.and_true, Bool.not_eq_true, Bool.false_eq_true]
  · simp
  · cases hX : (matchesUPR cfg.exc e.path (chainInfo cfg.exc (parentPrefixes e.path))).1 <;> simp
  · cases hI : (matchesUPR cfg.inc e.path (chainInfo cfg.inc (parentPrefixes e.path))).1 <;> simp
  · cases hI : (matchesUPR cfg.inc e.path (chainInfo cfg.inc (parentPrefixes e.path))).1 <;>
      cases hX : (matchesUPR cfg.exc e.path (chainInfo cfg.exc (parentPrefixes e.path))).1 <;> simp

end Fsm.C16L

namespace Fsm.C16L
open P F

/-- … and the directory the callback pushes for `e` carries the chain infos of `e` itself: the hypothesis of
`callback_decision` for the entries directly below `e` -/
theorem callback_pushes_chain (cfg : Cfg) (hp : cfg.prune = false) (hm : cfg.map = []) (pd0 : List VDir) (e : StatE)
    (hsk : ∀ d ∈ stackFor cfg pd0 e, d.skipFn = false)
    (hinc : (((stackFor cfg pd0 e).getLast?).map (·.inc)).getD [] = chainInfo cfg.inc (parentPrefixes e.path))
    (hexc : (((stackFor cfg pd0 e).getLast?).map (·.exc)).getD [] = chainInfo cfg.exc (parentPrefixes e.path))
    (hd : e.isDir = true) (hf : (!cfg.inc.isEmpty || !cfg.exc.isEmpty) = true) :
    ∃ d, (callback true cfg pd0 e).1.getLast? = some d ∧ d.skipFn = false ∧ d.pathSep = e.path ++ [47] ∧
      d.inc = chainInfo cfg.inc (parentPrefixes e.path ++ [e.path]) ∧
      d.exc = chainInfo cfg.exc (parentPrefixes e.path ++ [e.path]) := by
  have hkeep : mapOf cfg e.path = .keep := by simp [mapOf, hm]
  have hns := emitParents_noskip cfg hm (stackFor cfg pd0 e) [] [] hsk
  have hI : (if cfg.inc.isEmpty = true then ((true, []) : Bool × List Bool) else
      matchesUPR cfg.inc e.path (chainInfo cfg.inc (parentPrefixes e.path))).2 = chainInfo cfg.inc (parentPrefixes e.path ++ [e.path]) := by
    by_cases hi : cfg.inc.isEmpty = true
    · have : cfg.inc = [] := by simpa using hi
      rw [if_pos hi, this, chainInfo_empty]
    · rw [if_neg hi, chainInfo_snoc]
  have hX : (if cfg.exc.isEmpty = true then ((false, []) : Bool × List Bool) else
      matchesUPR cfg.exc e.path (chainInfo cfg.exc (parentPrefixes e.path))).2 = chainInfo cfg.exc (parentPrefixes e.path ++ [e.path]) := by
    by_cases hi : cfg.exc.isEmpty = true
    · have : cfg.exc = [] := by simpa using hi
      rw [if_pos hi, this, chainInfo_empty]
    · rw [if_neg hi, chainInfo_snoc]
  unfold callback
  simp only [hp, Bool.and_false, Bool.false_and, Bool.false_eq_true, if_false, hkeep]
  rw [show (if (!cfg.inc.isEmpty || !cfg.exc.isEmpty) = true then (callback.pop e pd0.reverse).reverse else pd0) = stackFor cfg pd0 e from rfl]
  rw [hinc, hexc]
  simp only [hns, Bool.false_eq_true, if_false, hd, hf, Bool.and_true, if_true, hI, hX]
  split <;> (try split) <;> (try split) <;> simp

end Fsm.C16L
