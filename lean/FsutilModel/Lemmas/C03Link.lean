import FsutilModel.Model.RecvProto
/-! C03: the hard-link admission check over a whole stream.  A stream passes only if every hard-link entry names an entry that
was announced STRICTLY EARLIER as a plain file (not a directory, not a symlink, itself without link name). -/
namespace Fsm.C03L

/-- the hard-link validator over a stream (what `Receive` does with every STAT, in order) -/
def hlRun : List Path → List StatE → Option (List Path)
  | seen, [] => some seen
  | seen, s :: rest =>
    match R.hardlinkStep seen s with
    | some seen' => hlRun seen' rest
    | none => none

def Plain (y : StatE) : Prop := y.isDir = false ∧ y.isSymlink = false ∧ y.linkname = []

theorem step_inv (pre : List StatE) (seen seen' : List Path) (s : StatE)
    (hI : ∀ p ∈ seen, ∃ y ∈ pre, y.path = p ∧ Plain y) (h : R.hardlinkStep seen s = some seen') :
    ∀ p ∈ seen', ∃ y ∈ pre ++ [s], y.path = p ∧ Plain y := by
  unfold R.hardlinkStep at h
  intro p hp
  have old : ∀ p ∈ seen, ∃ y ∈ pre ++ [s], y.path = p ∧ Plain y := by
    intro p hp
    obtain ⟨y, hy, h1, h2⟩ := hI p hp
    exact ⟨y, List.mem_append_left _ hy, h1, h2⟩
  by_cases hds : (s.isDir || s.isSymlink) = true
  · simp only [hds, if_true, Option.some.injEq] at h
    subst h; exact old p hp
  · simp only [hds, Bool.false_eq_true, if_false] at h
    by_cases hl : s.linkname ≠ []
    · rw [if_pos hl] at h
      by_cases hc : seen.contains s.linkname = true
      · simp only [hc, if_true, Option.some.injEq] at h
        subst h; exact old p hp
      · simp only [hc, Bool.false_eq_true, if_false] at h
        cases h
    · rw [if_neg hl] at h
      simp only [Option.some.injEq] at h
      subst h
      rcases List.mem_cons.mp hp with rfl | hp'
      · simp only [Bool.or_eq_true, not_or, Bool.not_eq_true] at hds
        exact ⟨s, by simp, rfl, hds.1, hds.2, by simpa using hl⟩
      · exact old p hp'

/-- **a stream that passes names, in every hard-link entry, a plain file announced strictly earlier** -/
theorem link_source_strictly_earlier : ∀ (post pre : List StatE) (seen r : List Path),
    (∀ p ∈ seen, ∃ y ∈ pre, y.path = p ∧ Plain y) → hlRun seen post = some r →
    ∀ mid s rest, post = mid ++ s :: rest → s.isDir = false → s.isSymlink = false → s.linkname ≠ [] →
      ∃ y ∈ pre ++ mid, y.path = s.linkname ∧ Plain y := by
  intro post
  induction post with
  | nil => intro _ _ _ _ _ mid s rest h; cases mid <;> cases h
  | cons x post ih =>
    intro pre seen r hI hrun mid s rest hsplit hd hs hl
    unfold hlRun at hrun
    cases hstep : R.hardlinkStep seen x with
    | none => rw [hstep] at hrun; cases hrun
    | some seen' =>
      rw [hstep] at hrun
      simp only at hrun
      cases mid with
      | nil =>
        simp only [List.nil_append, List.cons.injEq] at hsplit
        obtain ⟨rfl, _⟩ := hsplit
        unfold R.hardlinkStep at hstep
        simp only [hd, hs, Bool.or_self, Bool.false_eq_true, if_false, hl, ne_eq, not_false_eq_true, if_true] at hstep
        by_cases hc : seen.contains x.linkname = true
        · have : x.linkname ∈ seen := by simpa using hc
          simpa using hI _ this
        · simp only [hc, Bool.false_eq_true, if_false] at hstep
          cases hstep
      | cons a mid =>
        simp only [List.cons_append, List.cons.injEq] at hsplit
        obtain ⟨rfl, hrest⟩ := hsplit
        have := ih (pre ++ [x]) seen' r (step_inv pre seen seen' x hI hstep) hrun mid s rest hrest hd hs hl
        simpa [List.append_assoc] using this

end Fsm.C03L
