import FsutilModel.Lemmas.C16
/-! The lift of `C16L.callback_decision` over a whole walk: for a listing that is canonical with respect to the walk's own
ancestor test (`d.pathSep.isPrefixOf e.path`), the filtered walk (pruning off, no map function) reports exactly the entries
the chain verdict selects and the directories above them. -/
namespace Fsm.C16W
open P F C16L

/-- the ancestor test of `filterFS.Walk`: `x/` is a prefix of `y` -/
def anc (x y : Path) : Bool := (x ++ [47]).isPrefixOf y

theorem anc_trans {x y z : Path} (h1 : anc x y = true) (h2 : anc y z = true) : anc x z = true := by
  simp only [anc, List.isPrefixOf_iff_prefix] at *
  obtain ⟨t1, ht1⟩ := h1
  obtain ⟨t2, ht2⟩ := h2
  exact ⟨t1 ++ [47] ++ t2, by rw [← ht2, ← ht1]; simp [List.append_assoc]⟩

/-- `pop` drops the top entries that are not ancestors -/
theorem pop_eq_dropWhile (e : StatE) (l : List VDir) :
    callback.pop e l = l.dropWhile (fun d => !d.pathSep.isPrefixOf e.path) := by
  induction l with
  | nil => simp [callback.pop]
  | cons d r ih =>
    simp only [callback.pop, List.dropWhile_cons]
    by_cases h : d.pathSep.isPrefixOf e.path = true
    · simp [h]
    · simp [h, ih]

/-- on a stack (top first) where everything below an ancestor is an ancestor, dropping = filtering -/
theorem dropWhile_eq_filter {α : Type} (p : α → Bool) : ∀ (l : List α),
    l.Pairwise (fun a b => p a = true → p b = true) → l.dropWhile (fun a => !p a) = l.filter p := by
  intro l
  induction l with
  | nil => intro _; rfl
  | cons a r ih =>
    intro h
    obtain ⟨ha, hr⟩ := List.pairwise_cons.mp h
    by_cases hp : p a = true
    · simp only [List.dropWhile_cons, hp, Bool.not_true, Bool.false_eq_true, if_false, List.filter_cons, if_true]
      congr 1
      symm
      exact List.filter_eq_self.mpr (fun b hb => ha b hb hp)
    · simp only [Bool.not_eq_true] at hp
      simp only [List.dropWhile_cons, hp, Bool.not_false, if_true, List.filter_cons, Bool.false_eq_true, if_false]
      exact ih hr

/-- on a nested stack (every entry an ancestor of the ones above it) the callback sees exactly the ancestors of `e` -/
theorem stackFor_eq_filter (cfg : Cfg) (hf : (!cfg.inc.isEmpty || !cfg.exc.isEmpty) = true) (pd : List VDir) (e : StatE)
    (hps : ∀ d ∈ pd, d.pathSep = d.st.path ++ [47])
    (hnest : pd.Pairwise (fun a b => anc a.st.path b.st.path = true)) :
    stackFor cfg pd e = pd.filter (fun d => anc d.st.path e.path) := by
  unfold stackFor
  rw [if_pos hf, pop_eq_dropWhile]
  have hfun : ∀ d ∈ pd.reverse, (d.pathSep.isPrefixOf e.path) = anc d.st.path e.path := by
    intro d hd
    rw [hps d (List.mem_reverse.mp hd)]; rfl
  have h1 : ∀ (l : List VDir), (∀ d ∈ l, (d.pathSep.isPrefixOf e.path) = anc d.st.path e.path) →
      l.dropWhile (fun d => !d.pathSep.isPrefixOf e.path) = l.dropWhile (fun d => !anc d.st.path e.path) := by
    intro l
    induction l with
    | nil => intro _; rfl
    | cons a r ih =>
      intro h
      simp only [List.dropWhile_cons, h a (List.mem_cons_self ..)]
      rw [ih (fun d hd => h d (List.mem_cons_of_mem _ hd))]
  rw [h1 _ hfun, dropWhile_eq_filter (fun (d : VDir) => anc d.st.path e.path)]
  · rw [← List.filter_reverse, List.reverse_reverse]
  · rw [List.pairwise_reverse]
    refine hnest.imp ?_
    intro a b hab hb
    exact anc_trans hab hb

def called (d : VDir) : VDir := { d with calledFn := true }

/-- without a map function, `emitParents` reports every not yet reported ancestor and marks them all reported -/
theorem emitParents_spec (cfg : Cfg) (hm : cfg.map = []) :
    ∀ (pd done : List VDir) (out : List StatE), (∀ d ∈ pd, d.skipFn = false) →
      emitParents cfg pd done out =
        (done.reverse ++ pd.map called, out.reverse ++ (pd.filter (fun d => !d.calledFn)).map (·.st), false) := by
  intro pd
  induction pd with
  | nil => intro done out _; simp [emitParents]
  | cons d rest ih =>
    intro done out h
    have hd : d.skipFn = false := h d (List.mem_cons_self ..)
    have hr : ∀ x ∈ rest, x.skipFn = false := fun x hx => h x (List.mem_cons_of_mem _ hx)
    unfold emitParents
    simp only [hd, Bool.false_eq_true, if_false]
    by_cases hc : d.calledFn = true
    · simp only [hc, if_true]
      rw [ih _ _ hr]
      have : called d = d := by cases d; simp_all [called]
      simp [this, hc]
    · simp only [hc, Bool.false_eq_true, if_false]
      have hk : mapOf cfg d.st.path = .keep := by simp [mapOf, hm]
      simp only [hk]
      rw [ih _ _ hr]
      simp only [Bool.not_eq_true] at hc
      simp [called, applyMap, hc, hd]

/-- the directory record the callback pushes for `e` -/
def vdirOf (cfg : Cfg) (e : StatE) (c : Bool) : VDir :=
  ⟨e, e.path ++ [47], chainInfo cfg.inc (parentPrefixes e.path ++ [e.path]), chainInfo cfg.exc (parentPrefixes e.path ++ [e.path]), c, false⟩

/-- **the callback in full** (pruning off, no map function, at least one pattern list): with `S` the stack it sees for `e`,
topped by the chain infos of `e`'s ancestors — not selected: nothing is reported, `e` is pushed if it is a directory;
selected: the not yet reported entries of `S` are reported (and marked), then `e`. -/
theorem callback_full (cfg : Cfg) (hp : cfg.prune = false) (hm : cfg.map = []) (hf : (!cfg.inc.isEmpty || !cfg.exc.isEmpty) = true)
    (pd0 : List VDir) (e : StatE)
    (hsk : ∀ d ∈ stackFor cfg pd0 e, d.skipFn = false)
    (hinc : (((stackFor cfg pd0 e).getLast?).map (·.inc)).getD [] = chainInfo cfg.inc (parentPrefixes e.path))
    (hexc : (((stackFor cfg pd0 e).getLast?).map (·.exc)).getD [] = chainInfo cfg.exc (parentPrefixes e.path)) :
    callback true cfg pd0 e =
      if selected cfg.inc cfg.exc e.path then
        ((stackFor cfg pd0 e).map called ++ (if e.isDir then [vdirOf cfg e true] else []),
         ((stackFor cfg pd0 e).filter (fun d => !d.calledFn)).map (·.st) ++ [e], .cont)
      else
        (stackFor cfg pd0 e ++ (if e.isDir then [vdirOf cfg e false] else []), [], .cont) := by
  have hkeep : mapOf cfg e.path = .keep := by simp [mapOf, hm]
  have hem := emitParents_spec cfg hm (stackFor cfg pd0 e) [] [] hsk
  have hI : (if cfg.inc.isEmpty = true then ((true, []) : Bool × List Bool) else
      matchesUPR cfg.inc e.path (chainInfo cfg.inc (parentPrefixes e.path))).2 = chainInfo cfg.inc (parentPrefixes e.path ++ [e.path]) := by
    by_cases hi : cfg.inc.isEmpty = true
    · have : cfg.inc = [] := by simpa using hi
      rw [if_pos hi, this, chainInfo_empty]
    · rw [if_neg hi, chainInfo_snoc]
  have hX : (if cfg.exc.isEmpty = true then ((false, []) : Bool × List Bool) else
      matchesUPR cfg.exc e.path (chainInfo cfg.exc (parentPrefixes e.path))).2 = chainInfo cfg.exc (parentPrefixes e.path ++ [e.path]) := by
    by_cases hi : cfg.exc.isEmpty = true
    · have : cfg.exc = [] := by simpa using hi
      rw [if_pos hi, this, chainInfo_empty]
    · rw [if_neg hi, chainInfo_snoc]
  unfold callback
  simp only [hp, Bool.and_false, Bool.false_and, Bool.false_eq_true, if_false, hkeep]
  rw [show (if (!cfg.inc.isEmpty || !cfg.exc.isEmpty) = true then (callback.pop e pd0.reverse).reverse else pd0) = stackFor cfg pd0 e from rfl]
  rw [hinc, hexc, hem]
  simp only [Bool.false_eq_true, if_false, hf, Bool.true_and, hI, hX, applyMap, selected, List.reverse_nil, List.nil_append, vdirOf]
  by_cases hi : cfg.inc.isEmpty = true <;> by_cases hx : cfg.exc.isEmpty = true <;>
    simp only [hi, hx, if_true, if_false, Bool.not_true, Bool.not_false, Bool.true_or, Bool.false_or, Bool.or_false, Bool.true_and,
      Bool.false_and, Bool.and_true, Bool.not_eq_true, Bool.false_eq_true]
  · simp [hi, hx] at hf
  · cases hXv : (matchesUPR cfg.exc e.path (chainInfo cfg.exc (parentPrefixes e.path))).1 <;> cases hd : e.isDir <;> simp
  · cases hIv : (matchesUPR cfg.inc e.path (chainInfo cfg.inc (parentPrefixes e.path))).1 <;> cases hd : e.isDir <;> simp
  · cases hIv : (matchesUPR cfg.inc e.path (chainInfo cfg.inc (parentPrefixes e.path))).1 <;>
      cases hXv : (matchesUPR cfg.exc e.path (chainInfo cfg.exc (parentPrefixes e.path))).1 <;> cases hd : e.isDir <;> simp

end Fsm.C16W

namespace Fsm.C16W
open P F C16L

/-- what makes a listing canonical at the point where `z` follows the entries `pre` — stated with the walk's own ancestor test -/
structure Step (pre : List StatE) (z : StatE) : Prop where
  /-- whatever tests as an ancestor is a directory -/
  dirs : ∀ x ∈ pre, anc x.path z.path = true → x.isDir = true
  /-- the parent prefixes of `z` are those of its nearest ancestor plus that ancestor (none at the top level) -/
  pp : parentPrefixes z.path =
    match (pre.filter (fun x => anc x.path z.path)).getLast? with
    | none => []
    | some t => parentPrefixes t.path ++ [t.path]
  /-- depth first: an ancestor of `z` that was listed before `z`'s predecessor is an ancestor of that predecessor -/
  dfs : ∀ pre' y, pre = pre' ++ [y] → ∀ x ∈ pre', anc x.path z.path = true → anc x.path y.path = true
  /-- `z` is new, and nothing listed before it lies below it -/
  fresh : z ∉ pre
  later : ∀ x ∈ pre, anc z.path x.path = false

/-- a listing is canonical when every position is -/
def Canon (l : List StatE) : Prop := ∀ pre z post, l = pre ++ z :: post → Step pre z

/-- the entries a filtered walk has to report once the entries `pre` have been seen -/
def keepIn (cfg : Cfg) (pre : List StatE) (e : StatE) : Bool :=
  selected cfg.inc cfg.exc e.path ||
    (e.isDir && pre.any fun d => anc e.path d.path && selected cfg.inc cfg.exc d.path)

/-- the shape of the directory stack after `y` (preceded by `pre'`) has been processed -/
def stackShape (pre' : List StatE) (y : StatE) : List StatE :=
  pre'.filter (fun x => anc x.path y.path) ++ (if y.isDir then [y] else [])

structure Inv (cfg : Cfg) (pre' : List StatE) (y : StatE) (pd : List VDir) (out : List StatE) : Prop where
  fields : ∀ d ∈ pd, d.skipFn = false ∧ d.pathSep = d.st.path ++ [47] ∧
    d.inc = chainInfo cfg.inc (parentPrefixes d.st.path ++ [d.st.path]) ∧
    d.exc = chainInfo cfg.exc (parentPrefixes d.st.path ++ [d.st.path])
  shape : pd.map (·.st) = stackShape pre' y
  nested : pd.Pairwise (fun a b => anc a.st.path b.st.path = true)
  calledIff : ∀ d ∈ pd, d.calledFn = true ↔ d.st ∈ out
  outIff : ∀ e, e ∈ out ↔ e ∈ pre' ++ [y] ∧ keepIn cfg (pre' ++ [y]) e = true

theorem anc_irrefl (x : Path) : anc x x = false := by
  cases h : anc x x with
  | false => rfl
  | true =>
    simp only [anc, List.isPrefixOf_iff_prefix] at h
    have := h.length_le
    simp at this
    omega

end Fsm.C16W

namespace Fsm.C16W
open P F C16L

/-- the stack the callback sees for the next entry holds exactly its ancestors among the entries seen so far -/
theorem seen_stack (cfg : Cfg) (hf : (!cfg.inc.isEmpty || !cfg.exc.isEmpty) = true) (pre' : List StatE) (y z : StatE)
    (pd : List VDir) (out : List StatE) (hI : Inv cfg pre' y pd out) (hS : Step (pre' ++ [y]) z) :
    stackFor cfg pd z = pd.filter (fun d => anc d.st.path z.path) ∧
    (stackFor cfg pd z).map (·.st) = (pre' ++ [y]).filter (fun x => anc x.path z.path) := by
  have h1 := stackFor_eq_filter cfg hf pd z (fun d hd => (hI.fields d hd).2.1) hI.nested
  refine ⟨h1, ?_⟩
  rw [h1]
  have : (pd.filter (fun d => anc d.st.path z.path)).map (·.st) = (pd.map (·.st)).filter (fun x => anc x.path z.path) := by
    rw [List.filter_map]; rfl
  rw [this, hI.shape, stackShape, List.filter_append, List.filter_append, List.filter_filter]
  congr 1
  · apply List.filter_congr
    intro x hx
    cases hz : anc x.path z.path with
    | false => simp
    | true => simp [hS.dfs pre' y rfl x hx hz]
  · by_cases hd : y.isDir = true
    · simp [hd]
    · simp only [hd, Bool.false_eq_true, if_false, List.filter_nil]
      cases hz : anc y.path z.path with
      | false => simp [hz]
      | true => exact absurd (hS.dirs y (by simp) hz) hd

end Fsm.C16W

namespace Fsm.C16W
open P F C16L

/-- … and it is topped by the chain infos of the next entry's ancestors -/
theorem top_infos (cfg : Cfg) (hf : (!cfg.inc.isEmpty || !cfg.exc.isEmpty) = true) (pre' : List StatE) (y z : StatE)
    (pd : List VDir) (out : List StatE) (hI : Inv cfg pre' y pd out) (hS : Step (pre' ++ [y]) z) :
    (((stackFor cfg pd z).getLast?).map (·.inc)).getD [] = chainInfo cfg.inc (parentPrefixes z.path) ∧
    (((stackFor cfg pd z).getLast?).map (·.exc)).getD [] = chainInfo cfg.exc (parentPrefixes z.path) := by
  obtain ⟨hfil, hmap⟩ := seen_stack cfg hf pre' y z pd out hI hS
  have hpp := hS.pp
  rw [← hmap, List.getLast?_map] at hpp
  cases hl : (stackFor cfg pd z).getLast? with
  | none =>
    rw [hl] at hpp
    simp only [Option.map_none] at hpp
    simp [hpp, chainInfo_nil]
  | some d =>
    rw [hl] at hpp
    simp only [Option.map_some] at hpp
    have hd : d ∈ pd := by
      have : d ∈ stackFor cfg pd z := List.mem_of_getLast? hl
      rw [hfil] at this
      exact (List.mem_filter.mp this).1
    obtain ⟨_, _, hi, hx⟩ := hI.fields d hd
    simp [hpp, hi, hx]

end Fsm.C16W

namespace Fsm.C16W
open P F C16L

theorem keepIn_snoc (cfg : Cfg) (pre : List StatE) (z e : StatE) :
    keepIn cfg (pre ++ [z]) e = (keepIn cfg pre e || (e.isDir && (anc e.path z.path && selected cfg.inc cfg.exc z.path))) := by
  simp only [keepIn, List.any_append, List.any_cons, List.any_nil, Bool.or_false]
  cases selected cfg.inc cfg.exc e.path <;> cases e.isDir <;> simp

theorem called_st (d : VDir) : (called d).st = d.st := rfl

/-- one entry of a canonical listing: the invariant moves on, the callback continues -/
theorem inv_step (cfg : Cfg) (hp : cfg.prune = false) (hm : cfg.map = []) (hf : (!cfg.inc.isEmpty || !cfg.exc.isEmpty) = true)
    (pre' : List StatE) (y z : StatE) (pd : List VDir) (out : List StatE)
    (hI : Inv cfg pre' y pd out) (hS : Step (pre' ++ [y]) z) :
    ∃ pd' outs, callback true cfg pd z = (pd', outs, .cont) ∧ Inv cfg (pre' ++ [y]) z pd' (outs.reverse ++ out) := by
  obtain ⟨hfil, hmap⟩ := seen_stack cfg hf pre' y z pd out hI hS
  obtain ⟨hti, hte⟩ := top_infos cfg hf pre' y z pd out hI hS
  have hsub : ∀ d ∈ stackFor cfg pd z, d ∈ pd ∧ anc d.st.path z.path = true := by
    intro d hd; rw [hfil] at hd; exact List.mem_filter.mp hd
  have hcb := callback_full cfg hp hm hf pd z (fun d hd => (hI.fields d (hsub d hd).1).1) hti hte
  have hnestS : (stackFor cfg pd z).Pairwise (fun a b => anc a.st.path b.st.path = true) := by
    rw [hfil]; exact hI.nested.sublist List.filter_sublist
  have hzout : z ∉ out := fun h => hS.fresh ((hI.outIff z).mp h).1
  have hlater : (pre' ++ [y]).any (fun d => anc z.path d.path && selected cfg.inc cfg.exc d.path) = false := by
    rw [List.any_eq_false]
    intro d hd
    simp [hS.later d hd]
  cases hsel : selected cfg.inc cfg.exc z.path with
  | false =>
    rw [hsel] at hcb
    simp only [Bool.false_eq_true, if_false] at hcb
    refine ⟨_, _, hcb, ?_⟩
    simp only [List.reverse_nil, List.nil_append]
    refine ⟨?_, ?_, ?_, ?_, ?_⟩
    · intro d hd
      rcases List.mem_append.mp hd with h | h
      · exact hI.fields d (hsub d h).1
      · split at h
        · simp only [List.mem_singleton] at h; subst h; exact ⟨rfl, rfl, rfl, rfl⟩
        · cases h
    · rw [List.map_append, hmap, stackShape]
      congr 1
      split <;> rfl
    · rw [List.pairwise_append]
      refine ⟨hnestS, ?_, ?_⟩
      · split <;> simp
      · intro a ha b hb
        split at hb
        · simp only [List.mem_singleton] at hb; subst hb; exact (hsub a ha).2
        · cases hb
    · intro d hd
      rcases List.mem_append.mp hd with h | h
      · exact hI.calledIff d (hsub d h).1
      · split at h
        · simp only [List.mem_singleton] at h; subst h
          simp [vdirOf, hzout]
        · cases h
    · intro e
      rw [hI.outIff e, keepIn_snoc cfg (pre' ++ [y]) z e, hsel]
      simp only [Bool.and_false, Bool.or_false]
      constructor
      · intro ⟨h1, h2⟩; exact ⟨List.mem_append_left _ h1, h2⟩
      · intro ⟨h1, h2⟩
        rcases List.mem_append.mp h1 with h | h
        · exact ⟨h, h2⟩
        · simp only [List.mem_singleton] at h; subst h
          simp [keepIn, hsel, hlater] at h2
  | true =>
    rw [hsel] at hcb
    simp only [if_true] at hcb
    refine ⟨_, _, hcb, ?_⟩
    refine ⟨?_, ?_, ?_, ?_, ?_⟩
    · intro d hd
      rcases List.mem_append.mp hd with h | h
      · obtain ⟨d0, hd0, rfl⟩ := List.mem_map.mp h
        exact hI.fields d0 (hsub d0 hd0).1
      · split at h
        · simp only [List.mem_singleton] at h; subst h; exact ⟨rfl, rfl, rfl, rfl⟩
        · cases h
    · rw [List.map_append, List.map_map]
      have : ((fun x => x.st) ∘ called) = (fun (x : VDir) => x.st) := rfl
      rw [this, hmap, stackShape]
      congr 1
      split <;> rfl
    · rw [List.pairwise_append]
      refine ⟨?_, ?_, ?_⟩
      · rw [List.pairwise_map]; exact hnestS
      · split <;> simp
      · intro a ha b hb
        obtain ⟨a0, ha0, rfl⟩ := List.mem_map.mp ha
        split at hb
        · simp only [List.mem_singleton] at hb; subst hb; exact (hsub a0 ha0).2
        · cases hb
    · intro d hd
      rcases List.mem_append.mp hd with h | h
      · obtain ⟨d0, hd0, rfl⟩ := List.mem_map.mp h
        simp only [called, true_iff, called_st]
        by_cases hc : d0.calledFn = true
        · exact List.mem_append_right _ ((hI.calledIff d0 (hsub d0 hd0).1).mp hc)
        · refine List.mem_append_left _ ?_
          simp only [List.mem_reverse, List.mem_append, List.mem_map, List.mem_filter, List.mem_singleton]
          exact Or.inl ⟨d0, ⟨hd0, by simpa using hc⟩, rfl⟩
      · split at h
        · simp only [List.mem_singleton] at h; subst h
          simp [vdirOf]
        · cases h
    · intro e
      rw [keepIn_snoc cfg (pre' ++ [y]) z e, hsel]
      simp only [List.mem_append, List.mem_reverse, List.mem_map, List.mem_filter, List.mem_singleton, Bool.and_true]
      constructor
      · rintro ((⟨d, ⟨hd, _⟩, rfl⟩ | rfl) | h)
        · have hdm : d.st ∈ pre' ++ [y] := by
            have : d.st ∈ (stackFor cfg pd z).map (·.st) := List.mem_map.mpr ⟨d, hd, rfl⟩
            rw [hmap] at this
            simpa using (List.mem_filter.mp this).1
          refine ⟨Or.inl (by simpa using hdm), ?_⟩
          have hdir := hS.dirs d.st hdm (hsub d hd).2
          simp [hdir, (hsub d hd).2]
        · exact ⟨Or.inr rfl, by simp [keepIn, hsel]⟩
        · have := (hI.outIff e).mp h
          exact ⟨Or.inl (by simpa using this.1), by simp [this.2]⟩
      · rintro ⟨h1, h2⟩
        rcases h1 with h | rfl
        · by_cases hk : keepIn cfg (pre' ++ [y]) e = true
          · exact Or.inr ((hI.outIff e).mpr ⟨by simpa using h, hk⟩)
          · simp only [hk, Bool.false_or, Bool.and_eq_true] at h2
            have hem : e ∈ (stackFor cfg pd z).map (·.st) := by
              rw [hmap]; exact List.mem_filter.mpr ⟨by simpa using h, h2.2⟩
            obtain ⟨d, hd, rfl⟩ := List.mem_map.mp hem
            by_cases hc : d.calledFn = true
            · exact Or.inr ((hI.calledIff d (hsub d hd).1).mp hc)
            · exact Or.inl (Or.inl ⟨d, ⟨hd, by simpa using hc⟩, rfl⟩)
        · exact Or.inl (Or.inr rfl)

end Fsm.C16W

namespace Fsm.C16W
open P F C16L

/-- the first entry of a canonical listing establishes the invariant -/
theorem inv_first (cfg : Cfg) (hp : cfg.prune = false) (hm : cfg.map = []) (hf : (!cfg.inc.isEmpty || !cfg.exc.isEmpty) = true)
    (y : StatE) (hS : Step [] y) :
    ∃ pd' outs, callback true cfg [] y = (pd', outs, .cont) ∧ Inv cfg [] y pd' (outs.reverse ++ []) := by
  have hst : stackFor cfg [] y = [] := by simp [stackFor, callback.pop]
  have hpp : parentPrefixes y.path = [] := by have := hS.pp; simpa using this
  have hcb := callback_full cfg hp hm hf [] y (by rw [hst]; intro d hd; cases hd)
    (by rw [hst, hpp]; simp [chainInfo_nil]) (by rw [hst, hpp]; simp [chainInfo_nil])
  rw [hst] at hcb
  cases hsel : selected cfg.inc cfg.exc y.path with
  | false =>
    rw [hsel] at hcb
    simp only [Bool.false_eq_true, if_false, List.nil_append] at hcb
    refine ⟨_, _, hcb, ?_⟩
    refine ⟨?_, ?_, ?_, ?_, ?_⟩
    · intro d hd
      split at hd
      · simp only [List.mem_singleton] at hd; subst hd; exact ⟨rfl, rfl, rfl, rfl⟩
      · cases hd
    · simp only [stackShape, List.filter_nil, List.nil_append]; split <;> rfl
    · split <;> simp
    · intro d hd
      split at hd
      · simp only [List.mem_singleton] at hd; subst hd; simp [vdirOf]
      · cases hd
    · intro e
      simp only [List.reverse_nil, List.nil_append, List.not_mem_nil, false_iff, List.mem_singleton, not_and]
      intro he; subst he
      simp [keepIn, hsel, anc_irrefl]
  | true =>
    rw [hsel] at hcb
    simp only [if_true, List.map_nil, List.filter_nil, List.nil_append] at hcb
    refine ⟨_, _, hcb, ?_⟩
    refine ⟨?_, ?_, ?_, ?_, ?_⟩
    · intro d hd
      split at hd
      · simp only [List.mem_singleton] at hd; subst hd; exact ⟨rfl, rfl, rfl, rfl⟩
      · cases hd
    · simp only [stackShape, List.filter_nil, List.nil_append]; split <;> rfl
    · split <;> simp
    · intro d hd
      split at hd
      · simp only [List.mem_singleton] at hd; subst hd; simp [vdirOf]
      · cases hd
    · intro e
      simp only [List.reverse_cons, List.reverse_nil, List.nil_append, List.append_nil, List.mem_singleton]
      constructor
      · intro he; subst he; exact ⟨rfl, by simp [keepIn, hsel]⟩
      · intro ⟨he, _⟩; exact he

/-- the rest of a canonical listing, from a state that satisfies the invariant -/
theorem walk_run (cfg : Cfg) (hp : cfg.prune = false) (hm : cfg.map = []) (hf : (!cfg.inc.isEmpty || !cfg.exc.isEmpty) = true) :
    ∀ (rest pre' : List StatE) (y : StatE) (pd : List VDir) (out : List StatE), Inv cfg pre' y pd out →
      (∀ r1 z r2, rest = r1 ++ z :: r2 → Step (pre' ++ [y] ++ r1) z) →
      ∀ e, e ∈ walkLoop true cfg rest pd none none out ↔
        e ∈ pre' ++ [y] ++ rest ∧ keepIn cfg (pre' ++ [y] ++ rest) e = true := by
  intro rest
  induction rest with
  | nil =>
    intro pre' y pd out hI _ e
    simp only [walkLoop, List.mem_reverse, List.append_nil]
    exact hI.outIff e
  | cons z rest ih =>
    intro pre' y pd out hI hC e
    obtain ⟨pd', outs, hcb, hI'⟩ := inv_step cfg hp hm hf pre' y z pd out hI (by simpa using hC [] z rest rfl)
    have hC' : ∀ r1 w r2, rest = r1 ++ w :: r2 → Step (pre' ++ [y] ++ [z] ++ r1) w := by
      intro r1 w r2 h
      have := hC (z :: r1) w r2 (by rw [h]; rfl)
      simpa [List.append_assoc] using this
    have := ih (pre' ++ [y]) z pd' (outs.reverse ++ out) hI' hC' e
    simp only [walkLoop, hcb, Bool.false_eq_true, if_false]
    rw [this]
    simp [List.append_assoc]

end Fsm.C16W

namespace Fsm.C16W
open P F C16L

/-- **The filtered walk of a canonical listing** (pruning off, no map function, at least one pattern list) reports exactly
the entries the chain verdict selects and the directories that have such an entry below them. -/
theorem filterWalk_mem (cfg : Cfg) (hp : cfg.prune = false) (hm : cfg.map = []) (hf : (!cfg.inc.isEmpty || !cfg.exc.isEmpty) = true)
    (l : List StatE) (hC : Canon l) :
    ∀ e, e ∈ filterWalk true cfg l ↔ e ∈ l ∧ keepIn cfg l e = true := by
  intro e
  cases l with
  | nil => simp [filterWalk, walkLoop]
  | cons y rest =>
    obtain ⟨pd', outs, hcb, hI⟩ := inv_first cfg hp hm hf y (hC [] y rest rfl)
    have hC' : ∀ r1 z r2, rest = r1 ++ z :: r2 → Step ([] ++ [y] ++ r1) z := by
      intro r1 z r2 h
      exact hC (y :: r1) z r2 (by rw [h]; rfl)
    have := walk_run cfg hp hm hf rest [] y pd' (outs.reverse ++ []) hI hC' e
    simp only [filterWalk, walkLoop, hcb, Bool.false_eq_true, if_false]
    simpa using this

end Fsm.C16W

namespace Fsm.C16W
open P F C16L

/-- executable form of `Step` -/
def stepB (pre : List StatE) (z : StatE) : Bool :=
  (pre.all fun x => !anc x.path z.path || x.isDir) &&
  (parentPrefixes z.path ==
    match (pre.filter (fun x => anc x.path z.path)).getLast? with
    | none => []
    | some t => parentPrefixes t.path ++ [t.path]) &&
  (match pre.getLast? with
   | none => true
   | some y => pre.dropLast.all fun x => !anc x.path z.path || anc x.path y.path) &&
  (pre.all fun x => x.path != z.path) &&
  (pre.all fun x => !anc z.path x.path)

/-- executable form of `Canon` (the driver evaluates it on every listing a real walk produced) -/
def canonGo : List StatE → List StatE → Bool
  | _, [] => true
  | pre, z :: post => stepB pre z && canonGo (pre ++ [z]) post

def canonB (l : List StatE) : Bool := canonGo [] l

theorem stepB_sound (pre : List StatE) (z : StatE) (h : stepB pre z = true) : Step pre z := by
  simp only [stepB, Bool.and_eq_true, List.all_eq_true, Bool.or_eq_true, Bool.not_eq_true', beq_iff_eq, bne_iff_ne] at h
  obtain ⟨⟨⟨⟨h1, h2⟩, h3⟩, h4⟩, h5⟩ := h
  refine ⟨?_, h2, ?_, ?_, ?_⟩
  · intro x hx ha
    rcases h1 x hx with h | h
    · rw [ha] at h; cases h
    · exact h
  · intro pre' y hpre x hx ha
    subst hpre
    simp only [List.getLast?_append, List.getLast?_singleton, Option.some_or, List.dropLast_concat, List.all_eq_true,
      Bool.or_eq_true, Bool.not_eq_true'] at h3
    rcases h3 x hx with h | h
    · rw [ha] at h; cases h
    · exact h
  · intro hz
    exact h4 z hz rfl
  · intro x hx
    exact h5 x hx

theorem canonGo_sound : ∀ (post pre : List StatE), canonGo pre post = true →
    ∀ r1 z r2, post = r1 ++ z :: r2 → Step (pre ++ r1) z := by
  intro post
  induction post with
  | nil => intro pre _ r1 z r2 h; cases r1 <;> cases h
  | cons w post ih =>
    intro pre h r1 z r2 hsplit
    simp only [canonGo, Bool.and_eq_true] at h
    cases r1 with
    | nil =>
      simp only [List.nil_append, List.cons.injEq] at hsplit
      obtain ⟨rfl, _⟩ := hsplit
      simpa using stepB_sound pre w h.1
    | cons a r1 =>
      simp only [List.cons_append, List.cons.injEq] at hsplit
      obtain ⟨rfl, hrest⟩ := hsplit
      have := ih (pre ++ [w]) h.2 r1 z r2 hrest
      simpa [List.append_assoc] using this

theorem canonB_sound (l : List StatE) (h : canonB l = true) : Canon l := by
  intro pre z post hl
  simpa using canonGo_sound l [] h pre z post hl

/-- without pattern lists (and without a map function) the walk reports the listing itself -/
theorem walkLoop_nopatterns (cfg : Cfg) (hm : cfg.map = []) (hi : cfg.inc = []) (hx : cfg.exc = []) :
    ∀ (l : List StatE) (out : List StatE), walkLoop true cfg l [] none none out = out.reverse ++ l := by
  intro l
  induction l with
  | nil => intro out; simp [walkLoop]
  | cons e rest ih =>
    intro out
    have hk : mapOf cfg e.path = .keep := by simp [mapOf, hm]
    have hcb : callback true cfg [] e = ([], [e], .cont) := by
      unfold callback
      simp [hi, hx, hk, emitParents, applyMap]
    simp only [walkLoop, hcb, Bool.false_eq_true, if_false]
    rw [ih]
    simp

end Fsm.C16W
