import FsutilModel.Model.CopyB
/-! Helper lemmas for `Props/C15.lean`: the invariant behind F29. Every hard-link source the copier has
recorded (`St.inodes`: source inode ↦ destination path) denotes a node of the working tree that
carries the content of that inode; it is kept by every step of `copyEntry` — because `dropTarget`
forgets the sources recorded at a path it replaces. -/
namespace Fsm.C15L
open C

/-- nodes with the same path carry the same content token -/
def PathDet (t : List C.Node) : Prop := ∀ x ∈ t, ∀ y ∈ t, x.path = y.path → x.sha = y.sha

/-- every recorded link source is in the tree and carries the content of (an entry with) that source inode -/
def SrcOK (src : List Snap) (s : St) : Prop :=
  ∀ ip ∈ s.inodes, ∃ n ∈ s.tree, n.path = ip.2 ∧ ∃ e ∈ src, e.ino = ip.1 ∧ n.sha = e.sha

def Inv (src : List Snap) (s : St) : Prop := PathDet s.tree ∧ SrcOK src s

theorem findN_none {t : List C.Node} {p : Path} (h : findN t p = none) : ∀ n ∈ t, n.path ≠ p := by
  intro n hn hp
  have := List.find?_eq_none.mp h n hn
  simp [hp] at this

theorem findN_some {t : List C.Node} {p : Path} {n : C.Node} (h : findN t p = some n) : n ∈ t ∧ n.path = p := by
  refine ⟨List.mem_of_find?_eq_some h, ?_⟩
  have := List.find?_some h
  simpa using this

/-- a path- and content-preserving map keeps the invariant -/
theorem inv_map (src : List Snap) (s : St) (f : C.Node → C.Node) (hp : ∀ n, (f n).path = n.path) (hs : ∀ n, (f n).sha = n.sha)
    (h : Inv src s) : Inv src { s with tree := s.tree.map f } := by
  obtain ⟨hd, ho⟩ := h
  constructor
  · intro x hx y hy hxy
    obtain ⟨x0, hx0, rfl⟩ := List.mem_map.mp hx
    obtain ⟨y0, hy0, rfl⟩ := List.mem_map.mp hy
    rw [hs, hs]
    exact hd x0 hx0 y0 hy0 (by rw [← hp x0, ← hp y0]; exact hxy)
  · intro ip hip
    obtain ⟨n, hn, hnp, e, he, hei, hsha⟩ := ho ip hip
    exact ⟨f n, List.mem_map.mpr ⟨n, hn, rfl⟩, by rw [hp]; exact hnp, e, he, hei, by rw [hs]; exact hsha⟩

/-- appending a node at a path where nothing stands keeps the invariant -/
theorem inv_append (src : List Snap) (s : St) (nd : C.Node) (hfresh : ∀ n ∈ s.tree, n.path ≠ nd.path) (nf : List (Path × Bool))
    (h : Inv src s) : Inv src { s with tree := s.tree ++ [nd], notif := nf } := by
  obtain ⟨hd, ho⟩ := h
  constructor
  · intro x hx y hy hxy
    simp only [List.mem_append, List.mem_singleton] at hx hy
    rcases hx with hx | rfl <;> rcases hy with hy | rfl
    · exact hd x hx y hy hxy
    · exact absurd hxy (hfresh x hx)
    · exact absurd hxy.symm (hfresh y hy)
    · rfl
  · intro ip hip
    obtain ⟨n, hn, rest⟩ := ho ip hip
    exact ⟨n, List.mem_append_left _ hn, rest⟩

/-- replacing the nodes at `n`'s path by a node with the same path and content keeps the invariant -/
theorem inv_upsert (src : List Snap) (s : St) (n n' : C.Node) (hn : n ∈ s.tree) (hp : n'.path = n.path) (hs : n'.sha = n.sha)
    (nf : List (Path × Bool)) (ld : List Path) (h : Inv src s) :
    Inv src { s with tree := upsert s.tree n', notif := nf, lazyDone := ld } := by
  have hany : s.tree.any (fun x => x.path = n'.path) = true := by
    simp only [List.any_eq_true, decide_eq_true_eq]
    exact ⟨n, hn, hp.symm⟩
  have hu : upsert s.tree n' = s.tree.map (fun x => if x.path = n'.path then n' else x) := by
    unfold upsert; rw [if_pos (by simpa using hany)]
  obtain ⟨hd, ho⟩ := h
  have hsha : ∀ x ∈ s.tree, (if x.path = n'.path then n' else x).sha = x.sha := by
    intro x hx
    by_cases hc : x.path = n'.path
    · rw [if_pos hc, hs]; exact hd n hn x hx (by rw [hc, hp])
    · rw [if_neg hc]
  have hpath : ∀ x : C.Node, (if x.path = n'.path then n' else x).path = x.path := by
    intro x
    by_cases hc : x.path = n'.path
    · rw [if_pos hc]; exact hc.symm
    · rw [if_neg hc]
  constructor
  · show PathDet (upsert s.tree n')
    rw [hu]
    intro x hx y hy hxy
    obtain ⟨x0, hx0, rfl⟩ := List.mem_map.mp hx
    obtain ⟨y0, hy0, rfl⟩ := List.mem_map.mp hy
    rw [hsha x0 hx0, hsha y0 hy0]
    exact hd x0 hx0 y0 hy0 (by rw [← hpath x0, ← hpath y0]; exact hxy)
  · intro ip hip
    obtain ⟨m, hm, hmp, e, he, hei, hms⟩ := ho ip hip
    refine ⟨if m.path = n'.path then n' else m, ?_, by rw [hpath]; exact hmp, e, he, hei, by rw [hsha m hm]; exact hms⟩
    show _ ∈ upsert s.tree n'
    rw [hu]
    exact List.mem_map.mpr ⟨m, hm, rfl⟩

/-- **the repaired `dropTarget` keeps the invariant**: the nodes at and below the target go, and with them the recorded sources there -/
theorem inv_dropTarget (src : List Snap) (s : St) (target : Path) (h : Inv src s) : Inv src (dropTargetG true s target) := by
  obtain ⟨hd, ho⟩ := h
  unfold dropTargetG
  simp only [if_true]
  -- the regrouping map preserves paths and content
  generalize hg : (fun (n : C.Node) =>
      if (n.grp ≠ [] && (n.grp = target || underB target n.grp)) = true then
        match List.find? (fun m => decide (m.grp = n.grp)) (removeSub s.tree target) with
        | some m => if m.path = n.path then { n with grp := [] } else { n with grp := m.path }
        | none => n
      else n) = f
  have hfp : ∀ n, (f n).path = n.path := by
    intro n; subst hg
    simp only
    split
    · split
      · split <;> rfl
      · rfl
    · rfl
  have hfs : ∀ n, (f n).sha = n.sha := by
    intro n; subst hg
    simp only
    split
    · split
      · split <;> rfl
      · rfl
    · rfl
  have hsub : ∀ n ∈ removeSub s.tree target, n ∈ s.tree := fun n hn => (List.mem_filter.mp hn).1
  constructor
  · intro x hx y hy hxy
    obtain ⟨x0, hx0, rfl⟩ := List.mem_map.mp hx
    obtain ⟨y0, hy0, rfl⟩ := List.mem_map.mp hy
    rw [hfs, hfs]
    exact hd x0 (hsub _ hx0) y0 (hsub _ hy0) (by rw [← hfp x0, ← hfp y0]; exact hxy)
  · intro ip hip
    obtain ⟨hip0, hng⟩ := List.mem_filter.mp hip
    obtain ⟨n, hn, hnp, rest⟩ := ho ip hip0
    have hkeep : n ∈ removeSub s.tree target := by
      unfold removeSub
      refine List.mem_filter.mpr ⟨hn, ?_⟩
      rw [hnp]
      simpa using hng
    obtain ⟨e, he, hei, hsha⟩ := rest
    exact ⟨f n, List.mem_map.mpr ⟨n, hkeep, rfl⟩, by rw [hfp]; exact hnp, e, he, hei, by rw [hfs]; exact hsha⟩

/-- after `dropTarget` nothing stands at the target -/
theorem dropTarget_fresh (fixed : Bool) (s : St) (target : Path) : ∀ n ∈ (dropTargetG fixed s target).tree, n.path ≠ target := by
  intro n hn
  unfold dropTargetG at hn
  simp only at hn
  obtain ⟨n0, hn0, rfl⟩ := List.mem_map.mp hn
  have hne : n0.path ≠ target := by
    have := (List.mem_filter.mp hn0).2
    intro hc
    simp [hc] at this
  split
  · split
    · split <;> exact hne
    · exact hne
  · exact hne

theorem dropTarget_eq (s : St) (t : Path) : dropTarget s t = dropTargetG true s t := rfl

theorem inv_replaceStep (src : List Snap) (a : Args) (e : Snap) (target : Path) (s : St) (h : Inv src s) :
    Inv src (replaceStep a e target s) := by
  unfold replaceStep
  split
  · split
    · rw [dropTarget_eq]; exact inv_dropTarget src s target h
    · exact h
  · exact h

/-- one on-demand ancestor -/
theorem inv_parentStep (src : List Snap) (a : Args) (srcSub : List Snap) (srcRel dstFinal : Path) (s s' : St) (d : Path)
    (h : Inv src s) (hs : parentStep a srcSub srcRel dstFinal s d = .ok s') : Inv src s' := by
  unfold parentStep at hs
  split at hs
  · cases hs; exact h
  · split at hs
    · cases hs; exact h
    · rename_i sd _
      simp only at hs
      split at hs
      · rename_i n hf
        split at hs
        · cases hs
          obtain ⟨hn, _⟩ := findN_some hf
          refine inv_upsert src s n _ hn ?_ ?_ s.notif (d :: s.lazyDone) h <;> rfl
        · cases hs
      · rename_i hf
        cases hs
        have := inv_append src s { path := joinP2 dstFinal d, st := { (applyInfo a sd.st []).1 with path := joinP2 dstFinal d }, mtime := none }
          (findN_none hf) s.notif h
        exact ⟨this.1, this.2⟩

theorem inv_foldlM {α : Type} (src : List Snap) (f : St → α → Except String St)
    (hf : ∀ s x s', Inv src s → f s x = .ok s' → Inv src s') :
    ∀ (l : List α) (s s' : St), Inv src s → l.foldlM f s = .ok s' → Inv src s' := by
  intro l
  induction l with
  | nil => intro s s' h hs; simp [List.foldlM, pure, Except.pure] at hs; cases hs; exact h
  | cons x rest ih =>
    intro s s' h hs
    rw [List.foldlM_cons] at hs
    cases hstep : f s x with
    | error w => rw [hstep] at hs; simp [bind, Except.bind] at hs
    | ok s1 =>
      rw [hstep] at hs
      simp only [bind, Except.bind] at hs
      exact ih s1 s' (hf s x s1 h hstep) hs

theorem inv_createParents (src : List Snap) (a : Args) (srcSub : List Snap) (srcRel dstFinal rel : Path) (s s' : St)
    (h : Inv src s) (hs : createParents a srcSub srcRel dstFinal rel s = .ok s') : Inv src s' :=
  inv_foldlM src _ (fun s x s' hi hx => inv_parentStep src a srcSub srcRel dstFinal s s' x hi hx) _ s s' h hs

theorem inv_dirStep (src : List Snap) (a : Args) (e : Snap) (target : Path) (top : Bool) (s s' : St) (h : Inv src s)
    (hs : dirStep a e target top s = .ok s') : Inv src s' := by
  unfold dirStep at hs
  split at hs
  · rename_i hf
    cases hs
    exact inv_append src s _ (findN_none hf) _ h
  · rename_i n hf
    obtain ⟨hn, _⟩ := findN_some hf
    split at hs
    · cases hs
    · split at hs
      · cases hs
        have := inv_upsert src s n { n with mtime := some (a.utime.getD e.st.mtime), keepIno := none } hn rfl rfl s.notif s.lazyDone h
        exact this
      · cases hs
        refine inv_upsert src s n _ hn ?_ ?_ _ s.lazyDone h <;> rfl

theorem inv_emptyTarget (src : List Snap) (target : Path) (s s' : St) (h : Inv src s) (hs : emptyTarget target s = .ok s') :
    Inv src s' ∧ ∀ n ∈ s'.tree, n.path ≠ target := by
  unfold emptyTarget at hs
  split at hs
  · split at hs
    · cases hs
    · cases hs
      rw [dropTarget_eq]
      exact ⟨inv_dropTarget src s target h, dropTarget_fresh true s target⟩
  · rename_i hf
    cases hs
    exact ⟨h, findN_none hf⟩

theorem inv_congr (src : List Snap) (s s' : St) (ht : s'.tree = s.tree) (hi : s'.inodes = s.inodes) (h : Inv src s) : Inv src s' := by
  obtain ⟨hd, ho⟩ := h
  refine ⟨by rw [ht]; exact hd, ?_⟩
  intro ip hip
  rw [hi] at hip
  rw [ht]
  exact ho ip hip

/-- a non-directory arrives where nothing stands: the invariant is kept, also when the entry becomes a recorded link source -/
theorem inv_putFile (src : List Snap) (a : Args) (e : Snap) (target : Path) (s s' : St) (he : e ∈ src) (h : Inv src s)
    (hfresh : ∀ n ∈ s.tree, n.path ≠ target) (hs : putFile a e target s = .ok s') : Inv src s' := by
  unfold putFile at hs
  simp only at hs
  split at hs
  · cases hs
  · split at hs
    · cases hs
    · cases hs
      -- the tree before the new node: metadata of the link group refreshed (paths and content untouched)
      have key : ∀ (t' : List C.Node), (∃ f : C.Node → C.Node, (∀ n, (f n).path = n.path) ∧ (∀ n, (f n).sha = n.sha) ∧ t' = s.tree.map f) →
          ∀ (ino : List (Nat × Path)) (nf : List (Path × Bool)) (nd : C.Node), nd.path = target → nd.sha = e.sha →
          (ino = s.inodes ∨ ino = (e.ino, target) :: s.inodes) →
          Inv src { s with tree := t' ++ [nd], notif := nf, inodes := ino } := by
        intro t' ⟨f, hfp, hfs, ht'⟩ ino nf nd hndp hnds hino
        have h1 : Inv src { s with tree := s.tree.map f } := inv_map src s f hfp hfs h
        have hfr : ∀ n ∈ ({ s with tree := s.tree.map f } : St).tree, n.path ≠ nd.path := by
          intro n hn
          obtain ⟨n0, hn0, rfl⟩ := List.mem_map.mp hn
          rw [hfp, hndp]; exact hfresh n0 hn0
        have h2 := inv_append src { s with tree := s.tree.map f } nd hfr nf h1
        rcases hino with rfl | rfl
        · rw [ht']; exact inv_congr src _ _ rfl rfl h2
        · rw [ht']
          obtain ⟨hd, ho⟩ := h2
          refine ⟨hd, ?_⟩
          intro ip hip
          simp only [List.mem_cons] at hip
          rcases hip with rfl | hip
          · exact ⟨nd, by simp, hndp, e, he, rfl, hnds⟩
          · exact ho ip hip
      apply key
      · cases hl : leaderOf e s with
        | none => exact ⟨id, fun _ => rfl, fun _ => rfl, by simp⟩
        | some l =>
          refine ⟨fun n => if n.path = l || n.grp = l then { n with st := { (applyInfo a e.st []).1 with path := n.path }, mtime := (applyInfo a e.st []).2 } else n, ?_, ?_, rfl⟩
          · intro n; simp only; split <;> rfl
          · intro n; simp only; split <;> rfl
      · rfl
      · rfl
      · split
        · right; rfl
        · left; rfl

/-- **every step of the copy keeps the link-source invariant** -/
theorem inv_copyEntry (src : List Snap) (a : Args) (srcSub : List Snap) (srcRel dstFinal : Path) (s s' : St) (e : Snap)
    (he : e ∈ src) (h : Inv src s) (hs : copyEntry a srcSub srcRel dstFinal s e = .ok s') : Inv src s' := by
  unfold copyEntry at hs
  simp only at hs
  generalize (if e.st.path = srcRel then ([] : Path) else e.st.path.drop (if srcRel = [] then 0 else srcRel.length + 1)) = rel at hs
  split at hs
  · cases hs; exact h
  · cases hp : createParents a srcSub srcRel dstFinal rel (replaceStep a e (joinP2 dstFinal rel) s) with
    | error w => rw [hp] at hs; cases hs
    | ok s1 =>
      rw [hp] at hs
      have h1 : Inv src s1 := inv_createParents src a srcSub srcRel dstFinal _ _ s1 (inv_replaceStep src a e _ s h) hp
      simp only [Except.bind] at hs
      split at hs
      · exact inv_dirStep src a e _ _ s1 s' h1 hs
      · cases he2 : emptyTarget (joinP2 dstFinal rel) s1 with
        | error w => rw [he2] at hs; cases hs
        | ok s2 =>
          rw [he2] at hs
          obtain ⟨h2, hfr⟩ := inv_emptyTarget src _ s1 s2 h1 he2
          exact inv_putFile src a e _ s2 s' he h2 hfr hs

end Fsm.C15L

namespace Fsm.C15L
open C

theorem inv_append_tree (src : List Snap) (s : St) (t : List C.Node) (p : Path) (hf : findN t p = none) (nd : C.Node) (hp : nd.path = p)
    (h : Inv src { s with tree := t }) : Inv src { s with tree := t ++ [nd] } := by
  have := inv_append src { s with tree := t } nd (by intro n hn; rw [hp]; exact findN_none hf n hn) s.notif h
  exact inv_congr src _ _ rfl rfl this

/-- MkdirAll appends directories at paths where nothing stands -/
theorem inv_mkdirAll_go (src : List Snap) (a : Args) (s : St) :
    ∀ (cs : List Path) (cur : Path) (t t' : List C.Node), Inv src { s with tree := t } →
      mkdirAll.go a cs cur t = .ok t' → Inv src { s with tree := t' } := by
  intro cs
  induction cs with
  | nil => intro cur t t' h hs; simp only [mkdirAll.go] at hs; cases hs; exact h
  | cons c rest ih =>
    intro cur t t' h hs
    simp only [mkdirAll.go] at hs
    split at hs
    · split at hs
      · exact ih _ t t' h hs
      · cases hs
    · rename_i hf
      refine ih _ _ t' ?_ hs
      exact inv_append_tree src s t _ hf _ rfl h

theorem inv_mkdirAll (src : List Snap) (a : Args) (s : St) (p : Path) (t' : List C.Node) (h : Inv src s)
    (hs : mkdirAll a s.tree p = .ok t') : Inv src { s with tree := t' } := by
  unfold mkdirAll at hs
  exact inv_mkdirAll_go src a s _ _ s.tree t' (inv_congr src _ _ rfl rfl h) hs

end Fsm.C15L

namespace Fsm.C15L
open C

theorem inv_foldlM_mem {α : Type} (src : List Snap) (f : St → α → Except String St) :
    ∀ (l : List α), (∀ x ∈ l, ∀ s s', Inv src s → f s x = .ok s' → Inv src s') →
      ∀ (s s' : St), Inv src s → l.foldlM f s = .ok s' → Inv src s' := by
  intro l
  induction l with
  | nil => intro _ s s' h hs; simp [List.foldlM, pure, Except.pure] at hs; cases hs; exact h
  | cons x rest ih =>
    intro hf s s' h hs
    rw [List.foldlM_cons] at hs
    cases hstep : f s x with
    | error w => rw [hstep] at hs; simp [bind, Except.bind] at hs
    | ok s1 =>
      rw [hstep] at hs
      simp only [bind, Except.bind] at hs
      exact ih (fun y hy => hf y (List.mem_cons_of_mem _ hy)) s1 s' (hf x (List.mem_cons_self ..) s s1 h hstep) hs

/-- the entry that stands for the source root itself -/
def rootSnap : Snap :=
  { st := { path := [], mode := modeDir ||| 493, uid := 0, gid := 0, size := 0, mtime := 1500000000000000000, linkname := [],
            devmajor := 0, devminor := 0 }, ino := 0, nlink := 2 }

/-- a path- and content-preserving map of the tree, whatever happens to the other fields that the invariant does not read -/
theorem inv_map' (src : List Snap) (s : St) (t : List C.Node) (f : C.Node → C.Node) (hp : ∀ n, (f n).path = n.path) (hs : ∀ n, (f n).sha = n.sha)
    (nf : List (Path × Bool)) (ld : List Path) (h : Inv src { s with tree := t }) :
    Inv src { tree := t.map f, notif := nf, inodes := s.inodes, lazyDone := ld } :=
  inv_congr src _ _ rfl rfl (inv_map src { s with tree := t } f hp hs h)

theorem ite_mtime_path (c : Prop) [Decidable c] (n : C.Node) (m : Option Int) : (if c then { n with mtime := m } else n).path = n.path := by
  by_cases hc : c <;> simp [hc]

theorem ite_mtime_sha (c : Prop) [Decidable c] (n : C.Node) (m : Option Int) : (if c then { n with mtime := m } else n).sha = n.sha := by
  by_cases hc : c <;> simp [hc]

theorem inv_ite_map (src : List Snap) (s : St) (t : List C.Node) (c : Prop) [Decidable c] (f : C.Node → C.Node)
    (hp : ∀ n, (f n).path = n.path) (hs : ∀ n, (f n).sha = n.sha)
    (nf : List (Path × Bool)) (ld : List Path) (h : Inv src { s with tree := t }) :
    Inv src { tree := if c then t.map f else t, notif := nf, inodes := s.inodes, lazyDone := ld } := by
  by_cases hc : c
  · rw [if_pos hc]; exact inv_map' src s t f hp hs nf ld h
  · rw [if_neg hc]; exact inv_congr src _ _ rfl rfl h

/-- one source of the call (landing rule, MkdirAll of the parents, every entry below it) keeps the invariant -/
theorem inv_copyOne (a : Args) (srcTree : List Snap) (srcRel srcArg dstRel : Path) (s0 s' : St)
    (h : Inv (rootSnap :: srcTree) s0) (hs : copyOne a srcTree srcRel srcArg dstRel s0 = .ok s') : Inv (rootSnap :: srcTree) s' := by
  unfold copyOne at hs
  split at hs
  · cases hs
  · simp only at hs
    split at hs
    · cases hs
    · rename_i t2 hmk
      have h2 : Inv (rootSnap :: srcTree) { s0 with tree := t2 } := inv_mkdirAll _ a s0 _ t2 h hmk
      refine inv_foldlM_mem (rootSnap :: srcTree) _ _ ?_ _ s' ?_ hs
      · intro e he s s1 hi hstep
        refine inv_copyEntry (rootSnap :: srcTree) a _ _ _ s s1 e ?_ hi hstep
        rcases List.mem_append.mp he with hr | hsub
        · split at hr
          · simp only [List.mem_singleton] at hr; rw [hr]; exact List.mem_cons_self ..
          · cases hr
        · exact List.mem_cons_of_mem _ (List.mem_filter.mp hsub).1
      · refine inv_ite_map (rootSnap :: srcTree) s0 t2 _ _ ?_ ?_ _ _ h2
        · intro n; exact ite_mtime_path _ n _
        · intro n; exact ite_mtime_sha _ n _

end Fsm.C15L
