import FsutilModel.Model.MetaOnlyB
/-! C19: what the metadata-only receive hands to the change computation (`metaRun … .forwarded`) is, for every stream that is
canonical (depth first, parents before children, one entry per path) and every selector, exactly the selected entries plus the
directories above them, in stream order, each once - the pending-ancestor stack of receive.go replays what is needed and
nothing else.  Also: the listing holds every announced entry but the listing name. -/
namespace Fsm.C19F

/-- what the stream must look like at the point where `z` follows the entries `pre` (stream without the listing name) -/
structure MStep (pre : List StatE) (z : StatE) : Prop where
  /-- whatever tests as an ancestor is a directory -/
  dirs : ∀ x ∈ pre, underB x.path z.path = true → x.isDir = true
  /-- the parent path of `z` is the path of its nearest announced ancestor; with no announced ancestor nothing announced has that path -/
  par : match (pre.filter (fun x => underB x.path z.path)).getLast? with
        | none => ∀ x ∈ pre, x.path ≠ dirB z.path
        | some t => t.path = dirB z.path
  /-- depth first: an ancestor of `z` announced before `z`'s predecessor is an ancestor of that predecessor -/
  dfs : ∀ pre' y, pre = pre' ++ [y] → ∀ x ∈ pre', underB x.path z.path = true → underB x.path y.path = true
  /-- one entry per path, and nothing announced before `z` lies below it -/
  fresh : ∀ x ∈ pre, x.path ≠ z.path
  later : ∀ x ∈ pre, underB z.path x.path = false

def Canon (l : List StatE) : Prop := ∀ pre z post, l = pre ++ z :: post → MStep pre z

/-- the entries that have to be forwarded once the entries `pre` have been seen -/
def keepIn (sel : Path → Bool) (pre : List StatE) (e : StatE) : Bool :=
  sel e.path || (e.isDir && pre.any fun d => sel d.path && underB e.path d.path)

/-- the stack/forwarded part of `metaStep` -/
def fwdStep (sel : Path → Bool) (s : List StatE × List StatE) (e : StatE) : List StatE × List StatE :=
  let st0 := popToB (dirB e.path) s.1
  if sel e.path then ([], s.2 ++ st0.reverse ++ [e])
  else (if e.isDir then e :: st0 else st0, s.2)

theorem metaStep_proj (fixed : Bool) (sel : Path → Bool) (s : MetaSt) (e : StatE) :
    ((metaStep fixed sel s e).stack, (metaStep fixed sel s e).forwarded) =
      if e.path = metaNameB then (s.stack, s.forwarded) else fwdStep sel (s.stack, s.forwarded) e := by
  unfold metaStep fwdStep
  by_cases h : e.path = metaNameB
  · simp only [h, if_true]; cases fixed <;> rfl
  · simp only [h, if_false, Fix.f6b, if_true]
    cases hs : sel e.path <;> cases hd : e.isDir <;> cases hc : e.canRequestData <;> simp

theorem metaStep_listing (fixed : Bool) (sel : Path → Bool) (s : MetaSt) (e : StatE) :
    (metaStep fixed sel s e).listing = if e.path = metaNameB then s.listing else s.listing ++ [e] := by
  unfold metaStep
  by_cases h : e.path = metaNameB
  · simp only [h, if_true]; cases fixed <;> rfl
  · simp only [h, if_false, Fix.f6b, if_true]
    cases hs : sel e.path <;> cases hd : e.isDir <;> cases hc : e.canRequestData <;> simp

theorem underB_trans {x y z : Path} (h1 : underB x y = true) (h2 : underB y z = true) : underB x z = true := by
  simp only [underB, List.isPrefixOf_iff_prefix] at *
  obtain ⟨t1, ht1⟩ := h1
  obtain ⟨t2, ht2⟩ := h2
  exact ⟨t1 ++ [sep] ++ t2, by rw [← ht2, ← ht1]; simp⟩

theorem underB_irrefl (x : Path) : underB x x = false := by
  cases h : underB x x with
  | false => rfl
  | true =>
    simp only [underB, List.isPrefixOf_iff_prefix] at h
    have := h.length_le
    simp at this
    omega

/-- an ancestor directory of something that has to be forwarded has to be forwarded -/
theorem keep_up (sel : Path → Bool) (pre : List StatE) (a b : StatE) (ha : a.isDir = true) (hab : underB a.path b.path = true)
    (hb : b ∈ pre) (hk : keepIn sel pre b = true) : keepIn sel pre a = true := by
  simp only [keepIn, ha, Bool.true_and, Bool.or_eq_true, List.any_eq_true, Bool.and_eq_true] at *
  rcases hk with h | ⟨_, d, hd, hs, hu⟩
  · exact Or.inr ⟨b, hb, h, hab⟩
  · exact Or.inr ⟨d, hd, hs, underB_trans hab hu⟩

/-- popping the stack of pending directories down to the parent of `z` leaves exactly the pending ancestors of `z`.
`R` = the chain of open directories, deepest first; `nk` = "still pending". -/
theorem popTo_chain (nk : StatE → Bool) (z : StatE) (p : Path) : ∀ (R : List StatE),
    R.Pairwise (fun a b => underB b.path a.path = true) →
    (∀ a ∈ R, ∀ b ∈ R, underB a.path b.path = true → nk a = true → nk b = true) →
    (∀ r ∈ R, underB r.path z.path = true → r.path = p ∨ ∃ t ∈ R, t.path = p ∧ underB r.path t.path = true) →
    (∀ r ∈ R, r.path = p → underB r.path z.path = true) →
    popToB p (R.filter nk) = (R.filter (fun x => underB x.path z.path)).filter nk := by
  intro R
  induction R with
  | nil => intro _ _ _ _; rfl
  | cons r R' ih =>
    intro hn hc hH hp
    have hn' := (List.pairwise_cons.mp hn)
    cases hk : nk r with
    | false =>
      -- `r` is not pending: nothing above it in the chain is
      have hall : R'.filter nk = [] := by
        rw [List.filter_eq_nil_iff]
        intro x hx hx'
        have := hc x (List.mem_cons_of_mem _ hx) r (List.mem_cons_self) (hn'.1 x hx) hx'
        rw [hk] at this; cases this
      have h2 : (R'.filter (fun x => underB x.path z.path)).filter nk = [] := by
        rw [List.filter_eq_nil_iff]
        intro x hx hx'
        have hx1 : x ∈ R'.filter nk := List.mem_filter.mpr ⟨(List.mem_filter.mp hx).1, hx'⟩
        rw [hall] at hx1; cases hx1
      simp only [List.filter_cons, hk, Bool.false_eq_true, if_false, hall]
      split
      · simp [hk, h2, popToB]
      · simp [h2, popToB]
    | true =>
      simp only [List.filter_cons, hk, if_true]
      by_cases hrp : p = r.path
      · have hrz := hp r List.mem_cons_self hrp.symm
        have hall : R'.filter (fun x => underB x.path z.path) = R' := by
          rw [List.filter_eq_self]
          intro x hx
          exact underB_trans (hn'.1 x hx) hrz
        subst hrp
        rw [hrz]
        simp only [if_true, List.filter_cons, hk, hall, popToB]
      · have hrz : underB r.path z.path = false := by
          cases h : underB r.path z.path with
          | false => rfl
          | true =>
            rcases hH r List.mem_cons_self h with h1 | ⟨t, ht, htp, hrt⟩
            · exact absurd h1.symm hrp
            · rcases List.mem_cons.mp ht with rfl | ht'
              · exact absurd htp.symm hrp
              · have := underB_trans (hn'.1 t ht') hrt
                rw [underB_irrefl] at this; cases this
        have ih' := ih hn'.2
          (fun a ha b hb => hc a (List.mem_cons_of_mem _ ha) b (List.mem_cons_of_mem _ hb))
          (by
            intro x hx hxz
            rcases hH x (List.mem_cons_of_mem _ hx) hxz with h1 | ⟨t, ht, htp, hxt⟩
            · exact Or.inl h1
            · rcases List.mem_cons.mp ht with rfl | ht'
              · exact absurd htp.symm hrp
              · exact Or.inr ⟨t, ht', htp, hxt⟩)
          (fun x hx => hp x (List.mem_cons_of_mem _ hx))
        simp only [popToB, hrp, if_false, hrz, Bool.false_eq_true]
        exact ih'

/-- a filter by a disjunction splits when the two kinds exclude each other and nothing of the first kind follows something of the second -/
theorem filter_or_split {α : Type} (k n : α → Bool) : ∀ (l : List α),
    (∀ a ∈ l, n a = true → k a = false) →
    (∀ l1 a l2, l = l1 ++ a :: l2 → n a = true → ∀ b ∈ l2, k b = false) →
    l.filter (fun x => k x || n x) = l.filter k ++ l.filter n := by
  intro l
  induction l with
  | nil => intro _ _; rfl
  | cons a l' ih =>
    intro hd hs
    have ih' := ih (fun x hx => hd x (List.mem_cons_of_mem _ hx))
      (fun l1 x l2 h hn b hb => hs (a :: l1) x l2 (by rw [h]; rfl) hn b hb)
    cases hk : k a with
    | true =>
      have hna : n a = false := by
        cases h : n a with
        | false => rfl
        | true => have := hd a List.mem_cons_self h; rw [hk] at this; cases this
      simp [hk, hna, ih']
    | false =>
      cases hn : n a with
      | false => simp [hk, hn, ih']
      | true =>
        have hz : ∀ b ∈ l', k b = false := hs [] a l' rfl hn
        have h1 : l'.filter k = [] := by
          rw [List.filter_eq_nil_iff]; intro b hb; simp [hz b hb]
        have h2 : l'.filter (fun x => k x || n x) = l'.filter n := by
          apply List.filter_congr; intro b hb; simp [hz b hb]
        simp [hk, hn, h1, h2]

theorem keepIn_snoc (sel : Path → Bool) (pre : List StatE) (z e : StatE) :
    keepIn sel (pre ++ [z]) e = (keepIn sel pre e || (e.isDir && (sel z.path && underB e.path z.path))) := by
  simp only [keepIn, List.any_append, List.any_cons, List.any_nil, Bool.or_false]
  cases sel e.path <;> cases e.isDir <;> simp

theorem pairwise_last {α : Type} {R : α → α → Prop} {l : List α} {t : α} (hp : l.Pairwise R) (hl : l.getLast? = some t) :
    ∀ r ∈ l, r = t ∨ R r t := by
  obtain ⟨ys, rfl⟩ := List.getLast?_eq_some_iff.mp hl
  intro r hr
  rcases List.mem_append.mp hr with h | h
  · exact Or.inr ((List.pairwise_append.mp hp).2.2 r h t (by simp))
  · simp only [List.mem_singleton] at h; exact Or.inl h

theorem distinct_eq {l : List StatE} (hd : l.Pairwise (fun a b => a.path ≠ b.path)) {a b : StatE} (ha : a ∈ l) (hb : b ∈ l)
    (h : a.path = b.path) : a = b := by
  induction l with
  | nil => cases ha
  | cons x l ih =>
    obtain ⟨h1, h2⟩ := List.pairwise_cons.mp hd
    rcases List.mem_cons.mp ha with rfl | ha'
    · rcases List.mem_cons.mp hb with rfl | hb'
      · rfl
      · exact absurd h (h1 b hb')
    · rcases List.mem_cons.mp hb with rfl | hb'
      · exact absurd h.symm (h1 a ha')
      · exact ih h2 ha' hb'

/-- the invariant: `C` = the chain of directories that are open after `pre` (outermost first) -/
structure Inv (sel : Path → Bool) (pre C S F : List StatE) : Prop where
  sub : ∀ x ∈ C, x ∈ pre ∧ x.isDir = true
  nested : C.Pairwise (fun a b => underB a.path b.path = true)
  next : ∀ z, MStep pre z → pre.filter (fun x => underB x.path z.path) = C.filter (fun x => underB x.path z.path)
  below : ∀ a ∈ C, ∀ l1 l2, pre = l1 ++ a :: l2 → ∀ b ∈ l2, underB a.path b.path = true
  shape : S = C.reverse.filter (fun x => !keepIn sel pre x)
  out : F = pre.filter (keepIn sel pre)
  distinct : pre.Pairwise (fun a b => a.path ≠ b.path)

theorem inv_nil (sel : Path → Bool) : Inv sel [] [] [] [] :=
  ⟨by simp, by simp, by simp, by simp, by simp, by simp, by simp⟩

/-- the pending ancestors of the next entry are what popping to its parent leaves on the stack -/
theorem pop_pending (sel : Path → Bool) (pre C S F : List StatE) (z : StatE) (hI : Inv sel pre C S F) (hS : MStep pre z) :
    popToB (dirB z.path) S = ((C.filter (fun x => underB x.path z.path)).filter (fun x => !keepIn sel pre x)).reverse := by
  rw [hI.shape, ← List.filter_reverse, ← List.filter_reverse]
  have hA := hI.next z hS
  apply popTo_chain
  · rw [List.pairwise_reverse]; exact hI.nested
  · intro a ha b hb hab hna
    rw [List.mem_reverse] at ha hb
    cases hkb : keepIn sel pre b with
    | false => rfl
    | true =>
      have := keep_up sel pre a b (hI.sub a ha).2 hab (hI.sub b hb).1 hkb
      simp [this] at hna
  · intro r hr hrz
    rw [List.mem_reverse] at hr
    have hrA : r ∈ C.filter (fun x => underB x.path z.path) := List.mem_filter.mpr ⟨hr, hrz⟩
    have hpar := hS.par
    rw [hA] at hpar
    cases hl : (C.filter (fun x => underB x.path z.path)).getLast? with
    | none =>
      rw [List.getLast?_eq_none_iff] at hl
      rw [hl] at hrA; cases hrA
    | some t =>
      rw [hl] at hpar
      simp only at hpar
      have htA := List.mem_of_getLast? hl
      rcases pairwise_last (hI.nested.sublist List.filter_sublist) hl r hrA with h | h
      · exact Or.inl (h ▸ hpar)
      · exact Or.inr ⟨t, List.mem_reverse.mpr (List.mem_filter.mp htA).1, hpar, h⟩
  · intro r hr hrp
    rw [List.mem_reverse] at hr
    have hpar := hS.par
    rw [hA] at hpar
    cases hl : (C.filter (fun x => underB x.path z.path)).getLast? with
    | none =>
      rw [hl] at hpar
      exact absurd hrp (hpar r (hI.sub r hr).1)
    | some t =>
      rw [hl] at hpar
      simp only at hpar
      have htA := List.mem_of_getLast? hl
      have : r = t := distinct_eq hI.distinct (hI.sub r hr).1 (hI.sub t (List.mem_filter.mp htA).1).1 (hrp.trans hpar.symm)
      rw [this]
      simpa using (List.mem_filter.mp htA).2

/-- the chain of open directories after `z` -/
def chainNext (C : List StatE) (z : StatE) : List StatE :=
  C.filter (fun x => underB x.path z.path) ++ (if z.isDir then [z] else [])

theorem split_snoc {pre l1 l2 : List StatE} {a z : StatE} (h : pre ++ [z] = l1 ++ a :: l2) :
    (l2 = [] ∧ a = z ∧ l1 = pre) ∨ ∃ l2', l2 = l2' ++ [z] ∧ pre = l1 ++ a :: l2' := by
  rcases List.eq_nil_or_concat l2 with rfl | ⟨l2', b, rfl⟩
  · left
    have : pre ++ [z] = l1 ++ [a] := h
    have h2 := List.append_inj' this rfl
    exact ⟨rfl, (by simpa using h2.2.symm), h2.1.symm⟩
  · right
    rw [List.concat_eq_append] at h ⊢
    have : pre ++ [z] = (l1 ++ a :: l2') ++ [b] := by rw [h]; simp
    have h2 := List.append_inj' this rfl
    have hb : z = b := by simpa using h2.2
    exact ⟨l2', by rw [hb], h2.1⟩

/-- one entry of a canonical stream: the invariant moves on -/
theorem inv_step (sel : Path → Bool) (pre C S F : List StatE) (z : StatE) (hI : Inv sel pre C S F) (hS : MStep pre z) :
    Inv sel (pre ++ [z]) (chainNext C z) (fwdStep sel (S, F) z).1 (fwdStep sel (S, F) z).2 := by
  have hpop := pop_pending sel pre C S F z hI hS
  have hA := hI.next z hS
  have hzself : keepIn sel (pre ++ [z]) z = sel z.path := by
    rw [keepIn_snoc]
    have : pre.any (fun d => sel d.path && underB z.path d.path) = false := by
      rw [List.any_eq_false]; intro d hd; simp [hS.later d hd]
    simp [keepIn, this, underB_irrefl]
  have hsubA : ∀ x ∈ C.filter (fun x => underB x.path z.path), x ∈ pre ∧ x.isDir = true ∧ underB x.path z.path = true := by
    intro x hx
    obtain ⟨h1, h2⟩ := List.mem_filter.mp hx
    exact ⟨(hI.sub x h1).1, (hI.sub x h1).2, by simpa using h2⟩
  refine ⟨?_, ?_, ?_, ?_, ?_, ?_, ?_⟩
  · -- sub
    intro x hx
    rcases List.mem_append.mp hx with h | h
    · exact ⟨List.mem_append_left _ (hsubA x h).1, (hsubA x h).2.1⟩
    · split at h
      · rename_i hd
        simp only [List.mem_singleton] at h; subst h
        exact ⟨by simp, hd⟩
      · cases h
  · -- nested
    rw [chainNext, List.pairwise_append]
    refine ⟨hI.nested.sublist List.filter_sublist, ?_, ?_⟩
    · split <;> simp
    · intro a ha b hb
      split at hb
      · simp only [List.mem_singleton] at hb; subst hb; exact (hsubA a ha).2.2
      · cases hb
  · -- next
    intro z' hS'
    rw [List.filter_append, chainNext, List.filter_append]
    congr 1
    · rw [← hA, List.filter_filter]
      apply List.filter_congr
      intro x hx
      cases hz : underB x.path z'.path with
      | false => simp
      | true => simp [hS'.dfs pre z rfl x hx hz]
    · cases hz : underB z.path z'.path with
      | false => split <;> simp [hz]
      | true =>
        have := hS'.dirs z (by simp) hz
        simp [this, hz]
  · -- below
    intro a ha l1 l2 hsp b hb
    rcases split_snoc hsp with ⟨h1, _, _⟩ | ⟨l2', h1, h2⟩
    · rw [h1] at hb; cases hb
    · rw [h1] at hb
      rcases List.mem_append.mp ha with h | h
      · rcases List.mem_append.mp hb with hb' | hb'
        · exact hI.below a (List.mem_filter.mp h).1 l1 l2' h2 b hb'
        · simp only [List.mem_singleton] at hb'; subst hb'; exact (hsubA a h).2.2
      · split at h
        · simp only [List.mem_singleton] at h; subst h
          exact absurd rfl (hS.fresh a (by rw [h2]; simp))
        · cases h
  · -- shape
    unfold fwdStep
    simp only [hpop]
    cases hsel : sel z.path with
    | true =>
      simp only [if_true]
      symm
      rw [List.filter_eq_nil_iff]
      intro x hx
      rw [List.mem_reverse] at hx
      rcases List.mem_append.mp hx with h | h
      · simp [keepIn_snoc, hsel, (hsubA x h).2.1, (hsubA x h).2.2]
      · split at h
        · simp only [List.mem_singleton] at h; subst h; simp [hzself, hsel]
        · cases h
    | false =>
      simp only [Bool.false_eq_true, if_false]
      have hnk : (fun x => !keepIn sel (pre ++ [z]) x) = (fun x => !keepIn sel pre x) := by
        funext x; simp [keepIn_snoc, hsel]
      rw [chainNext, List.reverse_append, List.filter_append, hnk, List.filter_reverse]
      by_cases hd : z.isDir = true
      · have : keepIn sel pre z = false := by
          have := hzself; rw [keepIn_snoc, hsel] at this; simpa using this
        simp [hd, this]
      · simp [hd]
  · -- out
    unfold fwdStep
    simp only [hpop]
    cases hsel : sel z.path with
    | true =>
      simp only [if_true, List.reverse_reverse]
      rw [List.filter_append, hI.out]
      have hz1 : [z].filter (keepIn sel (pre ++ [z])) = [z] := by simp [hzself, hsel]
      rw [hz1]
      congr 1
      symm
      have hk : ∀ x, keepIn sel (pre ++ [z]) x =
          (keepIn sel pre x || (underB x.path z.path && x.isDir && !keepIn sel pre x)) := by
        intro x
        rw [keepIn_snoc, hsel]
        cases keepIn sel pre x <;> cases x.isDir <;> cases underB x.path z.path <;> rfl
      rw [show keepIn sel (pre ++ [z]) = fun x => (keepIn sel pre x || (underB x.path z.path && x.isDir && !keepIn sel pre x)) from funext hk]
      rw [filter_or_split]
      · congr 1
        rw [← hA, List.filter_filter]
        apply List.filter_congr
        intro x hx
        cases hz : underB x.path z.path with
        | false => simp
        | true => simp [hS.dirs x hx hz]
      · intro a _ hn
        cases h : keepIn sel pre a with
        | false => rfl
        | true => simp [h] at hn
      · intro l1 a l2 hsp hn b hb
        simp only [Bool.and_eq_true, Bool.not_eq_true'] at hn
        obtain ⟨⟨haz, had⟩, hak⟩ := hn
        have haC : a ∈ C := by
          have : a ∈ pre.filter (fun x => underB x.path z.path) :=
            List.mem_filter.mpr ⟨by rw [hsp]; simp, haz⟩
          rw [hA] at this
          exact (List.mem_filter.mp this).1
        have hab := hI.below a haC l1 l2 hsp b hb
        cases hkb : keepIn sel pre b with
        | false => rfl
        | true =>
          have := keep_up sel pre a b had hab (by rw [hsp]; simp [hb]) hkb
          rw [hak] at this; cases this
    | false =>
      simp only [Bool.false_eq_true, if_false]
      rw [List.filter_append, hI.out]
      have hz1 : [z].filter (keepIn sel (pre ++ [z])) = [] := by simp [hzself, hsel]
      rw [hz1, List.append_nil]
      apply List.filter_congr
      intro x _
      simp [keepIn_snoc, hsel]
  · -- distinct
    rw [List.pairwise_append]
    refine ⟨hI.distinct, by simp, ?_⟩
    intro a ha b hb
    simp only [List.mem_singleton] at hb; subst hb
    exact hS.fresh a ha

/-- all entries of a canonical stream -/
theorem run_inv (sel : Path → Bool) : ∀ (post pre C S F : List StatE), Inv sel pre C S F → Canon (pre ++ post) →
    ∃ C', Inv sel (pre ++ post) C' (post.foldl (fwdStep sel) (S, F)).1 (post.foldl (fwdStep sel) (S, F)).2 := by
  intro post
  induction post with
  | nil => intro pre C S F hI _; exact ⟨C, by simpa using hI⟩
  | cons z post ih =>
    intro pre C S F hI hC
    have hS : MStep pre z := hC pre z post rfl
    have h1 := inv_step sel pre C S F z hI hS
    have h2 := ih (pre ++ [z]) _ _ _ h1 (by simpa [List.append_assoc] using hC)
    obtain ⟨C', hC'⟩ := h2
    exact ⟨C', by simpa [List.append_assoc] using hC'⟩

theorem fold_proj (fixed : Bool) (sel : Path → Bool) : ∀ (es : List StatE) (s : MetaSt),
    ((es.foldl (metaStep fixed sel) s).stack, (es.foldl (metaStep fixed sel) s).forwarded) =
      (es.filter (fun e => e.path ≠ metaNameB)).foldl (fwdStep sel) (s.stack, s.forwarded) := by
  intro es
  induction es with
  | nil => intro s; rfl
  | cons e es ih =>
    intro s
    rw [List.foldl_cons, ih, metaStep_proj]
    by_cases h : e.path = metaNameB
    · simp [h]
    · simp [h]

theorem fold_listing (fixed : Bool) (sel : Path → Bool) : ∀ (es : List StatE) (s : MetaSt),
    (es.foldl (metaStep fixed sel) s).listing = s.listing ++ es.filter (fun e => e.path ≠ metaNameB) := by
  intro es
  induction es with
  | nil => intro s; simp
  | cons e es ih =>
    intro s
    rw [List.foldl_cons, ih, metaStep_listing]
    by_cases h : e.path = metaNameB
    · simp [h]
    · simp [h]

/-- the forwarded entries of a canonical stream are the selected entries and the directories above them, in stream order, once -/
theorem forwarded_eq_spec (fixed : Bool) (sel : Path → Bool) (es : List StatE)
    (hC : Canon (es.filter (fun e => e.path ≠ metaNameB))) :
    (metaRun fixed sel es).forwarded = specForwarded sel es := by
  have h1 := fold_proj fixed sel es {}
  obtain ⟨C', hI⟩ := run_inv sel (es.filter (fun e => e.path ≠ metaNameB)) [] [] [] [] (inv_nil sel) (by simpa using hC)
  have h2 := hI.out
  simp only [List.nil_append] at h2
  have h3 : (metaRun fixed sel es).forwarded = (List.foldl (fwdStep sel) ([], []) (es.filter (fun e => e.path ≠ metaNameB))).2 := by
    have := congrArg Prod.snd h1
    simpa [metaRun] using this
  rw [h3, h2]
  rfl

/-- … and after the last entry no directory is kept back that something selected needs -/
theorem listing_eq (fixed : Bool) (sel : Path → Bool) (es : List StatE) :
    (metaRun fixed sel es).listing = es.filter (fun e => e.path ≠ metaNameB) := by
  have := fold_listing fixed sel es {}
  simpa [metaRun] using this

/-- executable form of `MStep` -/
def mstepB (pre : List StatE) (z : StatE) : Bool :=
  (pre.all fun x => !underB x.path z.path || x.isDir) &&
  (match (pre.filter (fun x => underB x.path z.path)).getLast? with
   | none => pre.all fun x => x.path != dirB z.path
   | some t => t.path == dirB z.path) &&
  (match pre.getLast? with
   | none => true
   | some y => pre.dropLast.all fun x => !underB x.path z.path || underB x.path y.path) &&
  (pre.all fun x => x.path != z.path) &&
  (pre.all fun x => !underB z.path x.path)

def mcanonGo : List StatE → List StatE → Bool
  | _, [] => true
  | pre, z :: post => mstepB pre z && mcanonGo (pre ++ [z]) post

/-- executable form of `Canon` (the driver evaluates it on every stream a real sender produced) -/
def mcanonB (l : List StatE) : Bool := mcanonGo [] l

theorem mstepB_sound (pre : List StatE) (z : StatE) (h : mstepB pre z = true) : MStep pre z := by
  simp only [mstepB, Bool.and_eq_true, List.all_eq_true, Bool.or_eq_true, Bool.not_eq_true', bne_iff_ne] at h
  obtain ⟨⟨⟨⟨h1, h2⟩, h3⟩, h4⟩, h5⟩ := h
  refine ⟨?_, ?_, ?_, ?_, ?_⟩
  · intro x hx ha
    rcases h1 x hx with h | h
    · rw [ha] at h; cases h
    · exact h
  · cases hl : (pre.filter (fun x => underB x.path z.path)).getLast? with
    | none =>
      rw [hl] at h2
      simp only [List.all_eq_true, bne_iff_ne] at h2
      exact h2
    | some t =>
      rw [hl] at h2
      simpa using h2
  · intro pre' y hpre x hx ha
    subst hpre
    simp only [List.getLast?_append, List.getLast?_singleton, Option.some_or, List.dropLast_concat, List.all_eq_true,
      Bool.or_eq_true, Bool.not_eq_true'] at h3
    rcases h3 x hx with h | h
    · rw [ha] at h; cases h
    · exact h
  · intro x hx
    exact h4 x hx
  · intro x hx
    exact h5 x hx

theorem mcanonGo_sound : ∀ (post pre : List StatE), mcanonGo pre post = true →
    ∀ r1 z r2, post = r1 ++ z :: r2 → MStep (pre ++ r1) z := by
  intro post
  induction post with
  | nil => intro pre _ r1 z r2 h; cases r1 <;> cases h
  | cons w post ih =>
    intro pre h r1 z r2 hsplit
    simp only [mcanonGo, Bool.and_eq_true] at h
    cases r1 with
    | nil =>
      simp only [List.nil_append, List.cons.injEq] at hsplit
      obtain ⟨rfl, _⟩ := hsplit
      simpa using mstepB_sound pre w h.1
    | cons a r1 =>
      simp only [List.cons_append, List.cons.injEq] at hsplit
      obtain ⟨rfl, hrest⟩ := hsplit
      have := ih (pre ++ [w]) h.2 r1 z r2 hrest
      simpa [List.append_assoc] using this

theorem mcanonB_sound (l : List StatE) (h : mcanonB l = true) : Canon l := by
  intro pre z post hl
  simpa using mcanonGo_sound l [] h pre z post hl

end Fsm.C19F

namespace Fsm.C19F

/-- ids are registered for selected entries that can carry content, and for nothing else -/
theorem files_selected (fixed : Bool) (sel : Path → Bool) : ∀ (es : List StatE) (s : MetaSt),
    (∀ pn ∈ s.files, sel pn.1 = true) →
    ∀ pn ∈ (es.foldl (metaStep fixed sel) s).files, sel pn.1 = true := by
  intro es
  induction es with
  | nil => intro s h; exact h
  | cons e es ih =>
    intro s h
    rw [List.foldl_cons]
    apply ih
    intro pn hpn
    unfold metaStep at hpn
    by_cases hm : e.path = metaNameB
    · simp only [hm, if_true] at hpn
      cases fixed <;> exact h pn (by simpa using hpn)
    · simp only [hm, if_false, Fix.f6b, if_true] at hpn
      cases hs : sel e.path <;> cases hd : e.isDir <;> cases hc : e.canRequestData <;>
        simp only [hs, hd, hc, Bool.not_true, Bool.not_false, Bool.and_true, Bool.and_false,
          if_true, if_false, Bool.false_eq_true] at hpn <;>
        first
        | exact h pn hpn
        | (rcases List.mem_append.mp hpn with h1 | h1
           · exact h pn h1
           · simp only [List.mem_singleton] at h1; subst h1; exact hs)

end Fsm.C19F
