import FsutilModel.Lemmas.C16
/-! For pattern lists WITHOUT negations the parent-result chain (`MatchesUsingParentResults`, as the walk and the copier
use it) decides as the stateless matcher (`MatchesOrParentMatches`, as `filterFS.Open` and the naive reference of C10 use
it). This is the boundary of known finding F5: the two differ under negations only. -/
namespace Fsm.C10C
open P C16L

/-- what one pattern contributes at one level: a match of the path itself (or, with the zero parent info, of one of its prefixes) -/
def ev (path : Path) (top : Bool) (p : Pat) : Bool :=
  patMatch p path || (top && (parentPrefixes path).any (patMatch p))

/-- "some pattern has its parent bit set or matches at this level" -/
def anyPair (path : Path) (top : Bool) : List Pat → List Bool → Bool
  | [], _ => false
  | p :: rest, par => ((par.headD false) || ev path top p) || anyPair path top rest (par.drop 1)

/-- one level of the chain over negation-free patterns -/
theorem go_spec (path : Path) (parent : List Bool) : ∀ (ps : List Pat) (par : List Bool) (matched : Bool) (acc : List Bool),
    (∀ p ∈ ps, p.neg = false) →
    ∃ bits, matchesUPR.go path parent ps par matched acc = (matched || anyPair path parent.isEmpty ps par, acc.reverse ++ bits) ∧
      bits.length = ps.length ∧ (matched || bits.any id) = (matched || anyPair path parent.isEmpty ps par) := by
  intro ps
  induction ps with
  | nil => intro par matched acc _; exact ⟨[], by simp [matchesUPR.go, anyPair], rfl, by simp [anyPair]⟩
  | cons p rest ih =>
    intro par matched acc h
    have hp : p.neg = false := h p (List.mem_cons_self ..)
    have hr : ∀ q ∈ rest, q.neg = false := fun q hq => h q (List.mem_cons_of_mem _ hq)
    -- the three branches of one step, given the parent bit `b` of this pattern and the remaining parent bits `t`
    have step : ∀ (b : Bool) (t : List Bool),
        (∃ bits, (if b = true then matchesUPR.go path parent rest t true (true :: acc)
                   else if (false != matched) = true then matchesUPR.go path parent rest t matched (false :: acc)
                   else matchesUPR.go path parent rest t (if (patMatch p path || (parent.isEmpty && (parentPrefixes path).any (patMatch p))) = true then true else matched)
                     ((patMatch p path || (parent.isEmpty && (parentPrefixes path).any (patMatch p))) :: acc)) =
            (matched || ((b || ev path parent.isEmpty p) || anyPair path parent.isEmpty rest t), acc.reverse ++ bits) ∧
          bits.length = (p :: rest).length ∧
          (matched || bits.any id) = (matched || ((b || ev path parent.isEmpty p) || anyPair path parent.isEmpty rest t))) := by
      intro b t
      cases b with
      | true =>
        obtain ⟨bits, hgo, hlen, _⟩ := ih t true (true :: acc) hr
        exact ⟨true :: bits, by simp [hgo], by simp [hlen], by simp⟩
      | false =>
        cases matched with
        | true =>
          obtain ⟨bits, hgo, hlen, _⟩ := ih t true (false :: acc) hr
          exact ⟨false :: bits, by simp [hgo], by simp [hlen], by simp⟩
        | false =>
          obtain ⟨bits, hgo, hlen, hany⟩ := ih t (ev path parent.isEmpty p) (ev path parent.isEmpty p :: acc) hr
          refine ⟨ev path parent.isEmpty p :: bits, ?_, by simp [hlen], ?_⟩
          · have e1 : (if (patMatch p path || (parent.isEmpty && (parentPrefixes path).any (patMatch p))) = true then true else false)
                = ev path parent.isEmpty p := by
              unfold ev; cases (patMatch p path || (parent.isEmpty && (parentPrefixes path).any (patMatch p))) <;> rfl
            have e2 : (patMatch p path || (parent.isEmpty && (parentPrefixes path).any (patMatch p))) = ev path parent.isEmpty p := rfl
            simp only [bne_self_eq_false, Bool.false_eq_true, if_false, e1]
            rw [e2, hgo]
            simp
          · simp only [Bool.false_or] at hany ⊢
            simp only [List.any_cons, id, hany]
    unfold matchesUPR.go
    simp only [hp, Bool.not_false]
    cases par with
    | nil => simpa [anyPair] using step false []
    | cons b t => simpa [anyPair] using step b t

end Fsm.C10C

namespace Fsm.C10C
open P C16L

theorem anyPair_nil (path : Path) (top : Bool) (ps : List Pat) : anyPair path top ps [] = ps.any (ev path top) := by
  induction ps with
  | nil => rfl
  | cons p rest ih => simp [anyPair, ih]

theorem anyPair_full (path : Path) (top : Bool) : ∀ (ps : List Pat) (par : List Bool), par.length = ps.length →
    anyPair path top ps par = (par.any id || ps.any (ev path top)) := by
  intro ps
  induction ps with
  | nil => intro par h; cases par with | nil => rfl | cons _ _ => simp at h
  | cons p rest ih =>
    intro par h
    cases par with
    | nil => simp at h
    | cons b t =>
      simp only [anyPair, List.headD_cons, List.drop_one, List.tail_cons, List.any_cons, id]
      rw [ih t (by simpa using h)]
      cases b <;> cases ev path top p <;> simp

/-- the verdict "some pattern matches some element of the chain seen so far" -/
def G (ps : List Pat) (seen : List Path) : Bool := ps.any fun p => seen.any (patMatch p)

theorem G_snoc (ps : List Pat) (seen : List Path) (q : Path) :
    G ps (seen ++ [q]) = (G ps seen || ps.any (fun p => patMatch p q)) := by
  unfold G
  induction ps with
  | nil => rfl
  | cons p rest ih =>
    simp only [List.any_append, List.any_cons, List.any_nil, Bool.or_false] at ih ⊢
    rw [ih]
    cases seen.any (patMatch p) <;> cases patMatch p q <;> simp

/-- the state of the chain after the elements `seen` -/
def ChainInv (ps : List Pat) (seen : List Path) (acc : Bool × List Bool) : Prop :=
  (seen = [] ∧ acc = (false, [])) ∨
  (seen ≠ [] ∧ acc.2.length = ps.length ∧ acc.2.any id = G ps seen ∧ acc.1 = G ps seen)

theorem chain_step (ps : List Pat) (hneg : ∀ p ∈ ps, p.neg = false) (seen : List Path) (acc : Bool × List Bool) (q : Path)
    (hfirst : seen = [] → parentPrefixes q = []) (h : ChainInv ps seen acc) :
    ChainInv ps (seen ++ [q]) (matchesUPR ps q acc.2) := by
  right
  refine ⟨by simp, ?_⟩
  obtain ⟨bits, hgo, hlen, hany⟩ := go_spec q acc.2 ps acc.2 false [] hneg
  simp only [Bool.false_or, List.reverse_nil, List.nil_append] at hgo hany
  have hm : matchesUPR ps q acc.2 = (anyPair q acc.2.isEmpty ps acc.2, bits) := by unfold matchesUPR; exact hgo
  rw [hm]
  rcases h with ⟨hs, hacc⟩ | ⟨hs, hl, hA, h1⟩
  · -- first element of the chain: zero parent info
    subst hs
    have hq := hfirst rfl
    have : acc.2 = [] := by rw [hacc]
    rw [this] at hany ⊢
    have hv : anyPair q true ps [] = G ps [q] := by
      rw [anyPair_nil]
      unfold G ev
      simp [hq]
    simp only [List.isEmpty_nil] at hany ⊢
    rw [hv] at hany ⊢
    exact ⟨hlen, hany, rfl⟩
  · by_cases hps : ps = []
    · subst hps
      have : bits = [] := by simpa using hlen
      subst this
      simp [anyPair, G]
    · have hne : acc.2.isEmpty = false := by
        cases hacc2 : acc.2 with
        | nil =>
          rw [hacc2] at hl
          exact absurd (List.length_eq_zero_iff.mp hl.symm) hps
        | cons _ _ => rfl
      rw [hne] at hany ⊢
      have hv : anyPair q false ps acc.2 = G ps (seen ++ [q]) := by
        rw [anyPair_full q false ps acc.2 hl, hA, G_snoc]
        congr 1
        have : ev q false = fun p => patMatch p q := by funext p; simp [ev]
        rw [this]
      rw [hv] at hany ⊢
      exact ⟨hlen, hany, rfl⟩

theorem chain_run (ps : List Pat) (hneg : ∀ p ∈ ps, p.neg = false) :
    ∀ (l seen : List Path) (acc : Bool × List Bool), (seen = [] → ∀ q rest, l = q :: rest → parentPrefixes q = []) →
      ChainInv ps seen acc →
      ChainInv ps (seen ++ l) (l.foldl (fun (acc : Bool × List Bool) q => matchesUPR ps q acc.2) acc) := by
  intro l
  induction l with
  | nil => intro seen acc _ h; simpa using h
  | cons q rest ih =>
    intro seen acc hfirst h
    have h1 := chain_step ps hneg seen acc q (fun hs => hfirst hs q rest rfl) h
    have := ih (seen ++ [q]) _ (by intro hs; simp at hs) h1
    simpa [List.append_assoc] using this

end Fsm.C10C

namespace Fsm.C10C
open P C16L

/-- the chain verdict of a negation-free list: some pattern matches the path or one of its parent prefixes -/
theorem uprChain_noneg (ps : List Pat) (hneg : ∀ p ∈ ps, p.neg = false) (path : Path)
    (hfirst : ∀ q rest, parentPrefixes path ++ [path] = q :: rest → parentPrefixes q = []) :
    C.uprChain ps path = G ps (parentPrefixes path ++ [path]) := by
  have h := chain_run ps hneg (parentPrefixes path ++ [path]) [] (false, []) (fun _ => hfirst) (Or.inl ⟨rfl, rfl⟩)
  rcases h with ⟨hnil, _⟩ | ⟨_, _, _, h1⟩
  · simp at hnil
  · simpa [C.uprChain] using h1

/-- the stateless verdict of a negation-free list is the same thing -/
theorem matchesOrParent_noneg (ps : List Pat) (hneg : ∀ p ∈ ps, p.neg = false) (path : Path) :
    matchesOrParent ps path = G ps (parentPrefixes path ++ [path]) := by
  have key : ∀ (l : List Pat) (m : Bool), (∀ p ∈ l, p.neg = false) →
      l.foldl (fun matched p =>
        if (p.neg != matched) = true then matched else
        if (patMatch p path || (parentPrefixes path).any (patMatch p)) = true then !p.neg else matched) m
      = (m || l.any fun p => (parentPrefixes path ++ [path]).any (patMatch p)) := by
    intro l
    induction l with
    | nil => intro m _; simp
    | cons p rest ih =>
      intro m h
      have hp : p.neg = false := h p (List.mem_cons_self ..)
      rw [List.foldl_cons, ih _ (fun q hq => h q (List.mem_cons_of_mem _ hq))]
      simp only [hp, List.any_cons, List.any_append, List.any_nil, Bool.or_false, Bool.not_false]
      cases m <;> cases patMatch p path <;> cases (parentPrefixes path).any (patMatch p) <;> simp
  unfold matchesOrParent G
  simpa using key ps false hneg

/-- **parent-result matching = stateless matching for lists without negations** -/
theorem chain_eq_stateless (ps : List Pat) (hneg : ∀ p ∈ ps, p.neg = false) (path : Path)
    (hfirst : ∀ q rest, parentPrefixes path ++ [path] = q :: rest → parentPrefixes q = []) :
    C.uprChain ps path = matchesOrParent ps path := by
  rw [uprChain_noneg ps hneg path hfirst, matchesOrParent_noneg ps hneg path]

end Fsm.C10C
