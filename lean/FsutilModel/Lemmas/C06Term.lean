import FsutilModel.Sender
/-! Helper lemmas for C06: the number of terminators sent for an id is 1 once the id is finished and 0 before. -/
namespace Fsm.S

theorem terms_snoc (id id' : Nat) (b : Bytes) (o : List (Nat × Bytes)) :
    terms id (o ++ [(id', b)]) = terms id o + (if id' = id ∧ b = [] then 1 else 0) := by
  simp only [terms, List.filter_append, List.length_append]
  by_cases h : id' = id ∧ b = []
  · simp [h]
  · simp [h]

def TermInv (s : St) : Prop := ∀ id, terms id s.out = if s.phase id = .finished then 1 else 0

theorem termInv_init (v) : TermInv (init v) := by
  intro id; simp [init, terms]

/-- generic update: phase of `i` goes from a non-finished value to `p`, output grows by one packet of `i` -/
theorem termInv_upd {s : St} (ht : TermInv s) (i : Nat) (p : Phase) (hold : s.phase i ≠ .finished) (b : Bytes)
    (hb : (b = [] ↔ p = .finished)) :
    ∀ id, terms id (s.out ++ [(i, b)]) = if upd s.phase i p id = .finished then 1 else 0 := by
  intro id
  rw [terms_snoc]
  by_cases h : id = i
  · subst h
    rw [upd_same, ht id]
    simp only [hold, if_false, true_and]
    by_cases hp : p = .finished
    · simp [hp, hb.mpr hp]
    · have : b ≠ [] := fun hbe => hp (hb.mp hbe)
      simp [hp, this]
  · rw [upd_other _ _ _ _ h, ht id]
    have : ¬ (i = id ∧ b = []) := fun hc => h hc.1.symm
    simp [this]

theorem termInv_upd' {s : St} (ht : TermInv s) (i : Nat) (p : Phase) (hold : s.phase i ≠ .finished) (hp : p ≠ .finished) :
    ∀ id, terms id s.out = if upd s.phase i p id = .finished then 1 else 0 := by
  intro id
  by_cases h : id = i
  · subst h; rw [upd_same, ht id]; simp [hold, hp]
  · rw [upd_other _ _ _ _ h, ht id]

theorem termInv_step {s s' : St} {e : Ev} (hi : Inv s) (ht : TermInv s) (hs : step s e = some s') : TermInv s' := by
  cases e with
  | sendStat =>
    simp only [step] at hs
    split at hs; · cases hs
    split at hs
    · have hfr := hi.fresh s.sent (Nat.le_refl _)
      by_cases hreg : isReg s s.sent = true
      · simp only [hreg, if_true] at hs; cases hs
        exact termInv_upd' ht s.sent .requestable (by rw [hfr]; exact fun h => by cases h) (fun h => by cases h)
      · simp only [hreg] at hs; cases hs; exact ht
    · cases hs
  | sendEnd =>
    simp only [step] at hs
    split at hs; · cases hs
    split at hs
    · cases hs; exact ht
    · cases hs
  | recvReq id =>
    simp only [step] at hs
    split at hs; · cases hs
    split at hs
    · rename_i hph; cases hs
      exact termInv_upd' ht id .queued (by rw [hph]; exact fun h => by cases h) (fun h => by cases h)
    · cases hs; exact ht
  | open_ id =>
    simp only [step] at hs
    split at hs
    · rename_i hph; cases hs
      exact termInv_upd' ht id (.active 0) (by rw [hph]; exact fun h => by cases h) (fun h => by cases h)
    · cases hs
  | data id k =>
    simp only [step] at hs
    split at hs
    · rename_i off hph
      split at hs
      · rename_i hc; cases hs
        refine termInv_upd ht id (.active (off + k)) (by rw [hph]; exact fun h => by cases h) _ ⟨fun hb => ?_, fun h => by cases h⟩
        exfalso
        have hl : (List.take k (List.drop off (bytesOf s id))).length = k := by
          rw [List.length_take, List.length_drop]; omega
        rw [hb] at hl; simp at hl; omega
      · cases hs
    · cases hs
  | term id =>
    simp only [step] at hs
    split at hs
    · rename_i off hph
      split at hs
      · cases hs
        exact termInv_upd ht id .finished (by rw [hph]; exact fun h => by cases h) [] ⟨fun _ => rfl, fun _ => rfl⟩
      · cases hs
    · cases hs

theorem termInv_run : ∀ (es : List Ev) (s s' : St), Inv s → TermInv s → run s es = some s' → TermInv s'
  | [], s, s', _, ht, h => by simp [run] at h; subst h; exact ht
  | e :: es, s, s', hi, ht, h => by
    simp only [run] at h
    cases hs : step s e with
    | none => rw [hs] at h; cases h
    | some s1 => rw [hs] at h; exact termInv_run es s1 s' (inv_step hi hs) (termInv_step hi ht hs) h

end Fsm.S
