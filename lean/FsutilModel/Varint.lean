/-! Spike: protobuf varint encode/decode round trip (C20-T1 kernel). -/
namespace Fsm.V

/-- protohelpers.EncodeVarint, as a byte list -/
def encVar (n : Nat) : List Nat :=
  if h : n < 128 then [n] else (n % 128 + 128) :: encVar (n / 128)
decreasing_by omega

/-- the generated decode loop: `mul` = 2^shift, `fuel` = remaining iterations before shift ≥ 64.
    Returns (value mod 2^64, rest) or none (overflow / unexpected EOF). -/
def decVar : Nat → Nat → Nat → List Nat → Option (Nat × List Nat)
  | 0, _, _, _ => none                       -- shift ≥ 64 : ErrIntOverflow
  | _+1, _, _, [] => none                    -- io.ErrUnexpectedEOF
  | fuel+1, mul, acc, b :: rest =>
    let acc' := (acc + (b % 128) * mul) % 2^64
    if b < 128 then some (acc', rest) else decVar fuel (mul * 128) acc' rest

theorem encVar_lt (n : Nat) (h : n < 128) : encVar n = [n] := by
  rw [encVar]; simp [h]

theorem encVar_ge (n : Nat) (h : ¬ n < 128) : encVar n = (n % 128 + 128) :: encVar (n / 128) := by
  rw [encVar]; simp [h]

/-- general round trip: with `fuel` iterations left and multiplier `mul = 128^(10 - fuel)` -/
theorem dec_enc (n : Nat) : ∀ (fuel mul acc : Nat) (rest : List Nat),
    0 < fuel → n < 128 ^ fuel → acc + n * mul < 2^64 →
    decVar fuel mul acc (encVar n ++ rest) = some (acc + n * mul, rest) := by
  induction n using Nat.strongRecOn with
  | _ n ih =>
    intro fuel mul acc rest hf hn hb
    cases fuel with
    | zero => omega
    | succ fuel =>
      by_cases h : n < 128
      · rw [encVar_lt n h]
        simp only [List.cons_append, List.nil_append, decVar, h, if_true]
        have : n % 128 = n := Nat.mod_eq_of_lt h
        rw [this, Nat.mod_eq_of_lt hb]
      · rw [encVar_ge n h]
        have hlt : ¬ (n % 128 + 128 < 128) := by omega
        simp only [List.cons_append, decVar, hlt, if_false]
        have hmod : (n % 128 + 128) % 128 = n % 128 := by omega
        rw [hmod]
        have hsplit : n = n % 128 + 128 * (n / 128) := (Nat.mod_add_div n 128).symm
        have hmul : n * mul = (n % 128) * mul + (n / 128) * (mul * 128) := by
          conv => lhs; rw [hsplit]
          rw [Nat.add_mul, Nat.mul_comm 128 (n / 128), Nat.mul_assoc, Nat.mul_comm 128 mul]
        have hacc : acc + (n % 128) * mul < 2^64 := by
          have : (n % 128) * mul ≤ n * mul := by rw [hmul]; omega
          omega
        rw [Nat.mod_eq_of_lt hacc]
        have hdiv : n / 128 < n := by omega
        have hfuel : n / 128 < 128 ^ fuel := by
          rw [Nat.pow_succ] at hn
          exact Nat.div_lt_of_lt_mul (by rw [Nat.mul_comm]; exact hn)
        have hfpos : 0 < fuel := by
          cases fuel with
          | zero => simp at hn; omega
          | succ k => omega
        have := ih (n / 128) hdiv fuel (mul * 128) (acc + (n % 128) * mul) rest hfpos hfuel (by rw [hmul] at hb; omega)
        rw [this, hmul]
        simp [Nat.add_assoc]

/-- uint64 varints round-trip: 10 iterations are enough -/
theorem varint_roundtrip (n : Nat) (hn : n < 2^64) (rest : List Nat) :
    decVar 10 1 0 (encVar n ++ rest) = some (n, rest) := by
  have h := dec_enc n 10 1 0 rest (by omega) (by
    have : (2:Nat)^64 ≤ 128^10 := by decide
    omega) (by simpa using hn)
  simpa using h

end Fsm.V
