/-! Spike: buffer.go — chunked allocation; WriteTo output = concatenation of the allocated frames. -/
namespace Fsm.B

/-- a chunk: its bytes so far and its capacity -/
structure Chunk where
  data : List Nat
  cap : Nat

/-- `alloc n` followed by the caller filling the returned slice with `frame` (|frame| = n) -/
def alloc (chunkSize : Nat) (cs : List Chunk) (frame : List Nat) : List Chunk :=
  let n := frame.length
  if n > chunkSize then cs ++ [⟨frame, n⟩]
  else match cs.getLast? with
    | some last =>
      if last.data.length + n ≤ last.cap then cs.dropLast ++ [⟨last.data ++ frame, last.cap⟩]
      else cs ++ [⟨frame, chunkSize⟩]
    | none => cs ++ [⟨frame, chunkSize⟩]

def flatten (cs : List Chunk) : List Nat := cs.flatMap (·.data)

theorem flatten_append (a b : List Chunk) : flatten (a ++ b) = flatten a ++ flatten b := by
  simp [flatten]

theorem flatten_alloc (chunkSize : Nat) (cs : List Chunk) (frame : List Nat) :
    flatten (alloc chunkSize cs frame) = flatten cs ++ frame := by
  unfold alloc
  simp only []
  split
  · simp [flatten_append, flatten]
  · cases h : cs.getLast? with
    | none => simp [flatten_append, flatten]
    | some last =>
      simp only []
      split
      · have hne : cs ≠ [] := by intro e; subst e; simp at h
        have hl : cs = cs.dropLast ++ [last] := by
          have h2 : cs.getLast? = some (cs.getLast hne) := List.getLast?_eq_some_getLast hne
          rw [h2] at h; simp at h; rw [← h]; exact (List.dropLast_concat_getLast hne).symm
        conv => rhs; rw [hl]
        simp [flatten_append, flatten]
      · simp [flatten_append, flatten]

/-- C19-T1: whatever the chunk size and frame sizes, the file written is the concatenation of the frames -/
theorem buffer_flatten (chunkSize : Nat) (frames : List (List Nat)) :
    flatten (frames.foldl (alloc chunkSize) []) = frames.flatten := by
  suffices h : ∀ cs, flatten (frames.foldl (alloc chunkSize) cs) = flatten cs ++ frames.flatten by
    simpa [flatten] using h []
  induction frames with
  | nil => intro cs; simp
  | cons f fs ih => intro cs; simp [ih, flatten_alloc, List.append_assoc]

end Fsm.B
