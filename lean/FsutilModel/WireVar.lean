import FsutilModel.Model.Wire
/-! Round trip of the transcribed varint reader (`W.readVar`: array-indexed, shift/OR arithmetic in 64 bits,
overflow and end-of-input exits) against the transcribed varint writer (`W.encVar`). -/
namespace Fsm.W

/-- the bytes `bs` sit in `d` at offset `i` -/
def At (d : Bytes) (i : Nat) (bs : List Nat) : Prop := ∀ j (h : j < bs.length), d[i + j]? = some bs[j]

theorem At.nil (d : Bytes) (i : Nat) : At d i [] := by intro j h; simp at h

theorem At.cons {d : Bytes} {i x : Nat} {xs : List Nat} : At d i (x :: xs) ↔ d[i]? = some x ∧ At d (i + 1) xs := by
  constructor
  · intro h
    refine ⟨by have := h 0 (by simp); simpa using this, ?_⟩
    intro j hj
    have := h (j + 1) (by simpa using hj)
    simpa [Nat.add_assoc, Nat.add_comm 1 j] using this
  · intro ⟨h0, h1⟩ j hj
    cases j with
    | zero => simpa using h0
    | succ j =>
      have := h1 j (by simpa using hj)
      simpa [Nat.add_assoc, Nat.add_comm 1 j] using this

theorem At.append {d : Bytes} {i : Nat} {a b : List Nat} : At d i (a ++ b) ↔ At d i a ∧ At d (i + a.length) b := by
  induction a generalizing i with
  | nil => simp [At.nil]
  | cons x xs ih =>
    simp only [List.cons_append, At.cons, ih, List.length_cons]
    have : i + 1 + xs.length = i + (xs.length + 1) := by omega
    rw [this]
    exact and_assoc.symm

theorem At.bound {d : Bytes} {i : Nat} {bs : List Nat} (h : At d i bs) (hne : bs ≠ []) : i + bs.length ≤ d.size := by
  have hl : 0 < bs.length := List.length_pos_iff.mpr hne
  have := h (bs.length - 1) (by omega)
  have h2 : i + (bs.length - 1) < d.size := by
    cases hh : d[i + (bs.length - 1)]? with
    | none => rw [hh] at this; cases this
    | some v => exact (Array.getElem?_eq_some_iff.mp hh).1
  omega

/-- placing a list inside a bigger one -/
theorem At.of_append (pre bs post : List Nat) : At (pre ++ bs ++ post).toArray pre.length bs := by
  intro j hj
  simp only [List.getElem?_toArray]
  rw [List.append_assoc, List.getElem?_append_right (by omega)]
  simp [List.getElem?_append_left hj]

theorem and127 (b : Nat) : b &&& 127 = b % 128 := by
  have := Nat.and_two_pow_sub_one_eq_mod b 7
  simpa using this

theorem or_shift (acc x s : Nat) (h : acc < 2 ^ s) : acc ||| (x <<< s) = acc + x * 2 ^ s := by
  rw [Nat.or_comm, ← Nat.shiftLeft_add_eq_or_of_lt h, Nat.shiftLeft_eq, Nat.add_comm]

theorem encVarLoop_pos (f m : Nat) (hf : 0 < f) : 0 < (encVarLoop f m).length := by
  cases f with
  | zero => omega
  | succ f => simp only [encVarLoop]; split <;> simp

/-- the decode loop, started at bit position `s` with accumulator `acc < 2^s`, reads the encoding of `m` -/
theorem readVarLoop_enc (d : Bytes) (l : Nat) : ∀ (f m s i acc fuel : Nat),
    0 < f → m < 128 ^ f → f ≤ fuel → s < 64 → acc < 2 ^ s → m * 2 ^ s < two64 →
    At d i (encVarLoop f m) → i + (encVarLoop f m).length ≤ l →
    readVarLoop d l fuel i s acc = .ok (acc + m * 2 ^ s, i + (encVarLoop f m).length) := by
  intro f
  induction f with
  | zero => intro m s i acc fuel hf; omega
  | succ f ih =>
    intro m s i acc fuel _ hm hfu hs hacc hmP hat hl
    cases fuel with
    | zero => omega
    | succ fuel =>
      have hs' : ¬ s ≥ 64 := by omega
      by_cases hlt : m < 128
      · have henc : encVarLoop (f + 1) m = [m] := by simp [encVarLoop, hlt]
        rw [henc] at hat hl ⊢
        have hd : d[i]? = some m := (At.cons.mp hat).1
        have hil : ¬ i ≥ l := by simp at hl; omega
        have hmod : m % 128 = m := Nat.mod_eq_of_lt hlt
        have hx : (m <<< s) % two64 = m <<< s := by
          rw [Nat.shiftLeft_eq]; exact Nat.mod_eq_of_lt hmP
        simp only [readVarLoop, hs', if_false, hil, hd, and127, hmod, hx, hlt, if_true, or_shift _ _ _ hacc,
          List.length_cons, List.length_nil]
      · have henc : encVarLoop (f + 1) m = (m % 128 + 128) :: encVarLoop f (m / 128) := by simp [encVarLoop, hlt]
        rw [henc] at hat hl ⊢
        obtain ⟨hd, hat'⟩ := At.cons.mp hat
        have hil : ¬ i ≥ l := by simp at hl; omega
        have hb : ¬ (m % 128 + 128 < 128) := by omega
        have hmod : (m % 128 + 128) % 128 = m % 128 := by omega
        have hle : m % 128 * 2 ^ s ≤ m * 2 ^ s := Nat.mul_le_mul_right _ (Nat.mod_le _ _)
        have hx : ((m % 128) <<< s) % two64 = (m % 128) <<< s := by
          rw [Nat.shiftLeft_eq]; exact Nat.mod_eq_of_lt (by omega)
        have hq1 : 1 ≤ m / 128 := by omega
        have hsplit : m * 2 ^ s = m % 128 * 2 ^ s + m / 128 * 2 ^ (s + 7) := by
          have h1 : m = m % 128 + 128 * (m / 128) := (Nat.mod_add_div m 128).symm
          have h2 : (2:Nat) ^ (s + 7) = 2 ^ s * 128 := by rw [Nat.pow_add]
          rw [h2]
          conv => lhs; rw [h1]
          rw [Nat.add_mul, Nat.mul_comm 128 (m / 128), Nat.mul_assoc, Nat.mul_comm 128 (2 ^ s)]
        have hP7 : 2 ^ (s + 7) ≤ m / 128 * 2 ^ (s + 7) := Nat.le_mul_of_pos_left _ hq1
        have hs7 : s + 7 < 64 := by
          have : (2:Nat) ^ (s + 7) < 2 ^ 64 := by
            have : two64 = 2 ^ 64 := by decide
            omega
          exact (Nat.pow_lt_pow_iff_right (by omega)).mp this
        have hacc' : acc + m % 128 * 2 ^ s < 2 ^ (s + 7) := by
          have h2 : (2:Nat) ^ (s + 7) = 2 ^ s * 128 := by rw [Nat.pow_add]
          have h3 : m % 128 * 2 ^ s ≤ 127 * 2 ^ s := Nat.mul_le_mul_right _ (by omega)
          omega
        have hf0 : 0 < f := by
          cases f with
          | zero => simp at hm; omega
          | succ f => omega
        have hm' : m / 128 < 128 ^ f := by
          rw [Nat.pow_succ] at hm
          exact Nat.div_lt_of_lt_mul (by rw [Nat.mul_comm]; exact hm)
        have hrec := ih (m / 128) (s + 7) (i + 1) (acc + m % 128 * 2 ^ s) fuel hf0 hm' (by omega) hs7 hacc'
          (by omega) hat' (by simp at hl; omega)
        simp only [readVarLoop, hs', if_false, hil, hd, and127, hmod, hx, hb, or_shift _ _ _ hacc, hrec,
          List.length_cons]
        rw [hsplit]
        simp [Nat.add_assoc, Nat.add_comm 1]

theorem encVar_len_pos (n : Nat) : 0 < (encVar n).length := encVarLoop_pos 11 _ (by omega)

/-- `readVar` reads back what `encVar` wrote (any 64-bit value), wherever it sits in the buffer -/
theorem readVar_enc (d : Bytes) (l i n : Nat) (hn : n < two64) (hat : At d i (encVar n))
    (hl : i + (encVar n).length ≤ l) : readVar d l i = .ok (n, i + (encVar n).length) := by
  have hmod : n % two64 = n := Nat.mod_eq_of_lt hn
  unfold encVar at hat hl ⊢
  rw [hmod] at hat hl ⊢
  have h := readVarLoop_enc d l 11 n 0 i 0 11 (by omega) (by
      have : two64 ≤ 128 ^ 11 := by decide
      omega) (by omega) (by omega) (by simp) (by simpa using hn) hat hl
  simpa [readVar] using h

end Fsm.W
