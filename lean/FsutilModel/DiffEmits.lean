import FsutilModel.DiffInv
/-! Which events the merge loop emits (C02-T1): additions exactly for paths only in the new listing, modifications
exactly for co-present paths whose identity differs (or all of them with differencing off), deletions only for
paths only in the old listing. Any sorted listings, any length. -/
namespace Fsm.D

variable {P : Type} [DecidableEq P] {I : Type} [DecidableEq I]

theorem mem_add_of_delete_cons {e : Ent P I} {p : P} {r : List (Ev P I)} : Ev.add e ∈ (Ev.delete p :: r) ↔ Ev.add e ∈ r := by
  simp
theorem mem_mod_of_delete_cons {e : Ent P I} {p : P} {r : List (Ev P I)} : Ev.modify e ∈ (Ev.delete p :: r) ↔ Ev.modify e ∈ r := by
  simp

theorem mem_add_of_modify_cons {e u : Ent P I} {r : List (Ev P I)} : Ev.add e ∈ (Ev.modify u :: r) ↔ Ev.add e ∈ r := by
  simp
theorem mem_add_of_add_cons {e u : Ent P I} {r : List (Ev P I)} : Ev.add e ∈ (Ev.add u :: r) ↔ (e = u ∨ Ev.add e ∈ r) := by
  simp

/-- additions -/
theorem add_mem_iff (O : PathOrd P) (fc : Bool) : ∀ (n : Nat) (ls us : List (Ent P I)) (rm : Option P),
    Sorted O ls → Sorted O us → ls.length + us.length < n →
    ∀ e, Ev.add e ∈ diff O fc n ls us rm ↔ (e ∈ us ∧ ∀ l ∈ ls, l.path ≠ e.path) := by
  intro n
  induction n with
  | zero => intro ls us rm _ _ h; omega
  | succ n ih =>
    intro ls us rm hl hu hn e
    cases ls with
    | nil =>
      cases us with
      | nil => simp [diff]
      | cons u us =>
        simp only [diff, List.mem_cons, Ev.add.injEq]
        rw [ih [] us none hl (sorted_tail hu) (by simp at hn ⊢; omega) e]
        simp
    | cons l ls =>
      cases us with
      | nil =>
        have hrec := fun rm' => ih ls [] rm' (sorted_tail hl) hu (by simp at hn ⊢; omega) e
        simp only [diff]
        split
        · split
          · rw [hrec]; simp
          · rw [mem_add_of_delete_cons, hrec]; simp
        · rw [mem_add_of_delete_cons, hrec]; simp
      | cons u us =>
        simp only [diff]
        by_cases h1 : O.lt l.path u.path = true
        · simp only [h1, if_true]
          have hrec := fun rm' => ih ls (u :: us) rm' (sorted_tail hl) hu (by simp at hn ⊢; omega) e
          have key : (e ∈ u :: us ∧ ∀ x ∈ ls, x.path ≠ e.path) ↔ (e ∈ u :: us ∧ ∀ x ∈ l :: ls, x.path ≠ e.path) := by
            constructor
            · intro ⟨he, hne⟩
              refine ⟨he, ?_⟩
              intro x hx
              simp only [List.mem_cons] at hx
              rcases hx with rfl | hx
              · -- l < u ≤ e
                simp only [List.mem_cons] at he
                rcases he with rfl | he
                · exact lt_ne O h1
                · exact lt_ne O (O.lt_trans _ _ _ h1 (sorted_head hu e he))
              · exact hne x hx
            · intro ⟨he, hne⟩
              exact ⟨he, fun x hx => hne x (List.mem_cons_of_mem _ hx)⟩
          split
          · split
            · rw [hrec]; exact key
            · rw [mem_add_of_delete_cons, hrec]; exact key
          · rw [mem_add_of_delete_cons, hrec]; exact key
        · simp only [h1, Bool.false_eq_true, if_false]
          by_cases h2 : O.lt u.path l.path = true
          · simp only [h2, if_true]
            rw [mem_add_of_add_cons, ih (l :: ls) us none hl (sorted_tail hu) (by simp at hn ⊢; omega) e]
            constructor
            · rintro (rfl | ⟨he, hne⟩)
              · refine ⟨List.mem_cons_self .., ?_⟩
                intro x hx
                rcases List.mem_cons.mp hx with rfl | hx
                · exact fun h => lt_ne O h2 h.symm
                · exact fun h => lt_ne O (O.lt_trans _ _ _ h2 (sorted_head hl x hx)) h.symm
              · exact ⟨List.mem_cons_of_mem _ he, hne⟩
            · rintro ⟨he, hne⟩
              rcases List.mem_cons.mp he with he | he
              · exact Or.inl he
              · exact Or.inr ⟨he, hne⟩
          · simp only [h2, Bool.false_eq_true, if_false]
            have hp : l.path = u.path := by
              rcases O.lt_total l.path u.path with h | h | h
              · exact h
              · exact absurd h h1
              · exact absurd h h2
            have hrec := fun rm' => ih ls us rm' (sorted_tail hl) (sorted_tail hu) (by simp at hn ⊢; omega) e
            have key : (e ∈ us ∧ ∀ x ∈ ls, x.path ≠ e.path) ↔ (e ∈ u :: us ∧ ∀ x ∈ l :: ls, x.path ≠ e.path) := by
              constructor
              · intro ⟨he, hne⟩
                refine ⟨List.mem_cons_of_mem _ he, ?_⟩
                intro x hx
                simp only [List.mem_cons] at hx
                rcases hx with rfl | hx
                · rw [hp]; exact lt_ne O (sorted_head hu e he)
                · exact hne x hx
              · intro ⟨he, hne⟩
                simp only [List.mem_cons] at he
                rcases he with rfl | he
                · exact absurd hp (hne l (by simp))
                · exact ⟨he, fun x hx => hne x (List.mem_cons_of_mem _ hx)⟩
            split
            · rw [hrec]; exact key
            · rw [mem_add_of_modify_cons, hrec]; exact key

/-- deletions only name paths of the old listing that the new listing does not have -/
theorem delete_mem_only (O : PathOrd P) (fc : Bool) : ∀ (n : Nat) (ls us : List (Ent P I)) (rm : Option P),
    Sorted O ls → Sorted O us → ls.length + us.length < n →
    ∀ p, Ev.delete p ∈ diff O fc n ls us rm → (∃ l ∈ ls, l.path = p) ∧ ∀ u ∈ us, u.path ≠ p := by
  intro n
  induction n with
  | zero => intro ls us rm _ _ h; omega
  | succ n ih =>
    intro ls us rm hl hu hn p hmem
    cases ls with
    | nil =>
      cases us with
      | nil => simp [diff] at hmem
      | cons u us =>
        simp only [diff, List.mem_cons, reduceCtorEq, false_or] at hmem
        have := ih [] us none hl (sorted_tail hu) (by simp at hn ⊢; omega) p hmem
        simp at this
    | cons l ls =>
      cases us with
      | nil =>
        have hrec := fun rm' h => ih ls [] rm' (sorted_tail hl) hu (by simp at hn ⊢; omega) p h
        have lift : (∃ x ∈ ls, x.path = p) ∧ (∀ u ∈ ([] : List (Ent P I)), u.path ≠ p) →
            (∃ x ∈ l :: ls, x.path = p) ∧ ∀ u ∈ ([] : List (Ent P I)), u.path ≠ p := by
          rintro ⟨⟨x, hx, hxp⟩, _⟩; exact ⟨⟨x, List.mem_cons_of_mem _ hx, hxp⟩, by simp⟩
        simp only [diff] at hmem
        split at hmem
        · split at hmem
          · exact lift (hrec _ hmem)
          · simp only [List.mem_cons, Ev.delete.injEq] at hmem
            rcases hmem with rfl | hmem
            · exact ⟨⟨l, by simp, rfl⟩, by simp⟩
            · exact lift (hrec _ hmem)
        · simp only [List.mem_cons, Ev.delete.injEq] at hmem
          rcases hmem with rfl | hmem
          · exact ⟨⟨l, by simp, rfl⟩, by simp⟩
          · exact lift (hrec _ hmem)
      | cons u us =>
        simp only [diff] at hmem
        by_cases h1 : O.lt l.path u.path = true
        · simp only [h1, if_true] at hmem
          have hrec := fun rm' h => ih ls (u :: us) rm' (sorted_tail hl) hu (by simp at hn ⊢; omega) p h
          have lift : (∃ x ∈ ls, x.path = p) ∧ (∀ y ∈ u :: us, y.path ≠ p) →
              (∃ x ∈ l :: ls, x.path = p) ∧ ∀ y ∈ u :: us, y.path ≠ p := by
            rintro ⟨⟨x, hx, hxp⟩, h2⟩; exact ⟨⟨x, List.mem_cons_of_mem _ hx, hxp⟩, h2⟩
          have here : (∃ x ∈ l :: ls, x.path = l.path) ∧ ∀ y ∈ u :: us, y.path ≠ l.path := by
            refine ⟨⟨l, by simp, rfl⟩, ?_⟩
            intro y hy
            simp only [List.mem_cons] at hy
            rcases hy with rfl | hy
            · exact fun h => lt_ne O h1 h.symm
            · exact fun h => lt_ne O (O.lt_trans _ _ _ h1 (sorted_head hu y hy)) h.symm
          split at hmem
          · split at hmem
            · exact lift (hrec _ hmem)
            · simp only [List.mem_cons, Ev.delete.injEq] at hmem
              rcases hmem with rfl | hmem
              · exact here
              · exact lift (hrec _ hmem)
          · simp only [List.mem_cons, Ev.delete.injEq] at hmem
            rcases hmem with rfl | hmem
            · exact here
            · exact lift (hrec _ hmem)
        · simp only [h1, Bool.false_eq_true, if_false] at hmem
          by_cases h2 : O.lt u.path l.path = true
          · simp only [h2, if_true, List.mem_cons, reduceCtorEq, false_or] at hmem
            obtain ⟨hx, hne⟩ := ih (l :: ls) us none hl (sorted_tail hu) (by simp at hn ⊢; omega) p hmem
            refine ⟨hx, ?_⟩
            intro y hy
            simp only [List.mem_cons] at hy
            rcases hy with rfl | hy
            · obtain ⟨x, hxm, hxp⟩ := hx
              simp only [List.mem_cons] at hxm
              rcases hxm with rfl | hxm
              · rw [← hxp]; exact lt_ne O h2
              · rw [← hxp]; exact lt_ne O (O.lt_trans _ _ _ h2 (sorted_head hl x hxm))
            · exact hne y hy
          · simp only [h2, Bool.false_eq_true, if_false] at hmem
            have hp : l.path = u.path := by
              rcases O.lt_total l.path u.path with h | h | h
              · exact h
              · exact absurd h h1
              · exact absurd h h2
            have hrec := fun rm' h => ih ls us rm' (sorted_tail hl) (sorted_tail hu) (by simp at hn ⊢; omega) p h
            have lift : (∃ x ∈ ls, x.path = p) ∧ (∀ y ∈ us, y.path ≠ p) →
                (∃ x ∈ l :: ls, x.path = p) ∧ ∀ y ∈ u :: us, y.path ≠ p := by
              rintro ⟨⟨x, hx, hxp⟩, h3⟩
              refine ⟨⟨x, List.mem_cons_of_mem _ hx, hxp⟩, ?_⟩
              intro y hy
              simp only [List.mem_cons] at hy
              rcases hy with rfl | hy
              · rw [← hxp, ← hp]; exact lt_ne O (sorted_head hl x hx)
              · exact h3 y hy
            split at hmem
            · exact lift (hrec _ hmem)
            · simp only [List.mem_cons, reduceCtorEq, false_or] at hmem
              exact lift (hrec _ hmem)

theorem mem_mod_of_add_cons {e u : Ent P I} {r : List (Ev P I)} : Ev.modify e ∈ (Ev.add u :: r) ↔ Ev.modify e ∈ r := by
  simp
theorem mem_mod_of_mod_cons {e u : Ent P I} {r : List (Ev P I)} : Ev.modify e ∈ (Ev.modify u :: r) ↔ (e = u ∨ Ev.modify e ∈ r) := by
  simp

/-- modifications -/
theorem modify_mem_iff (O : PathOrd P) (fc : Bool) : ∀ (n : Nat) (ls us : List (Ent P I)) (rm : Option P),
    Sorted O ls → Sorted O us → ls.length + us.length < n →
    ∀ e, Ev.modify e ∈ diff O fc n ls us rm ↔
      (e ∈ us ∧ ∃ l ∈ ls, l.path = e.path ∧ (fc = true ∨ same l e = false)) := by
  intro n
  induction n with
  | zero => intro ls us rm _ _ h; omega
  | succ n ih =>
    intro ls us rm hl hu hn e
    cases ls with
    | nil =>
      cases us with
      | nil => simp [diff]
      | cons u us =>
        simp only [diff]
        rw [mem_mod_of_add_cons, ih [] us none hl (sorted_tail hu) (by simp at hn ⊢; omega) e]
        simp
    | cons l ls =>
      cases us with
      | nil =>
        have hrec := fun rm' => ih ls [] rm' (sorted_tail hl) hu (by simp at hn ⊢; omega) e
        simp only [diff]
        split
        · split
          · rw [hrec]; simp
          · rw [mem_mod_of_delete_cons, hrec]; simp
        · rw [mem_mod_of_delete_cons, hrec]; simp
      | cons u us =>
        simp only [diff]
        by_cases h1 : O.lt l.path u.path = true
        · simp only [h1, if_true]
          have hrec := fun rm' => ih ls (u :: us) rm' (sorted_tail hl) hu (by simp at hn ⊢; omega) e
          have key : (e ∈ u :: us ∧ ∃ x ∈ ls, x.path = e.path ∧ (fc = true ∨ same x e = false)) ↔
              (e ∈ u :: us ∧ ∃ x ∈ l :: ls, x.path = e.path ∧ (fc = true ∨ same x e = false)) := by
            constructor
            · rintro ⟨he, x, hx, hp, hs⟩
              exact ⟨he, x, List.mem_cons_of_mem _ hx, hp, hs⟩
            · rintro ⟨he, x, hx, hp, hs⟩
              refine ⟨he, ?_⟩
              rcases List.mem_cons.mp hx with rfl | hx
              · -- l < u ≤ e, so l.path ≠ e.path
                exfalso
                rcases List.mem_cons.mp he with rfl | he
                · exact lt_ne O h1 hp
                · exact lt_ne O (O.lt_trans _ _ _ h1 (sorted_head hu e he)) hp
              · exact ⟨x, hx, hp, hs⟩
          split
          · split
            · rw [hrec]; exact key
            · rw [mem_mod_of_delete_cons, hrec]; exact key
          · rw [mem_mod_of_delete_cons, hrec]; exact key
        · simp only [h1, Bool.false_eq_true, if_false]
          by_cases h2 : O.lt u.path l.path = true
          · simp only [h2, if_true]
            rw [mem_mod_of_add_cons, ih (l :: ls) us none hl (sorted_tail hu) (by simp at hn ⊢; omega) e]
            constructor
            · rintro ⟨he, hx⟩
              exact ⟨List.mem_cons_of_mem _ he, hx⟩
            · rintro ⟨he, x, hx, hp, hs⟩
              rcases List.mem_cons.mp he with rfl | he
              · -- e < l ≤ x
                exfalso
                rcases List.mem_cons.mp hx with rfl | hx
                · exact lt_ne O h2 hp.symm
                · exact lt_ne O (O.lt_trans _ _ _ h2 (sorted_head hl x hx)) hp.symm
              · exact ⟨he, x, hx, hp, hs⟩
          · simp only [h2, Bool.false_eq_true, if_false]
            have hp : l.path = u.path := by
              rcases O.lt_total l.path u.path with h | h | h
              · exact h
              · exact absurd h h1
              · exact absurd h h2
            have hrec := fun rm' => ih ls us rm' (sorted_tail hl) (sorted_tail hu) (by simp at hn ⊢; omega) e
            -- entries of the tails cannot pair with the heads
            have tails : (e ∈ us ∧ ∃ x ∈ ls, x.path = e.path ∧ (fc = true ∨ same x e = false)) →
                (e ∈ u :: us ∧ ∃ x ∈ l :: ls, x.path = e.path ∧ (fc = true ∨ same x e = false)) := by
              rintro ⟨he, x, hx, hxp, hs⟩
              exact ⟨List.mem_cons_of_mem _ he, x, List.mem_cons_of_mem _ hx, hxp, hs⟩
            have back : (e ∈ u :: us ∧ ∃ x ∈ l :: ls, x.path = e.path ∧ (fc = true ∨ same x e = false)) →
                (e = u ∧ (fc = true ∨ same l u = false)) ∨ (e ∈ us ∧ ∃ x ∈ ls, x.path = e.path ∧ (fc = true ∨ same x e = false)) := by
              rintro ⟨he, x, hx, hxp, hs⟩
              rcases List.mem_cons.mp he with rfl | he
              · rcases List.mem_cons.mp hx with rfl | hx
                · exact Or.inl ⟨rfl, hs⟩
                · exfalso; rw [← hp] at hxp; exact lt_ne O (sorted_head hl x hx) hxp.symm
              · rcases List.mem_cons.mp hx with rfl | hx
                · exfalso; rw [hp] at hxp; exact lt_ne O (sorted_head hu e he) hxp
                · exact Or.inr ⟨he, x, hx, hxp, hs⟩
            split
            · rename_i hsame
              -- same and not forced: nothing emitted for the heads
              rw [hrec]
              constructor
              · exact tails
              · intro h
                rcases back h with ⟨rfl, hs⟩ | h'
                · exfalso
                  simp only [Bool.and_eq_true, Bool.not_eq_true'] at hsame
                  rcases hs with hs | hs
                  · rw [hs] at hsame; exact absurd hsame.1 (by simp)
                  · rw [hs] at hsame; exact absurd hsame.2 (by simp)
                · exact h'
            · rename_i hsame
              rw [mem_mod_of_mod_cons, hrec]
              constructor
              · rintro (rfl | h)
                · refine ⟨List.mem_cons_self .., l, List.mem_cons_self .., hp, ?_⟩
                  simp only [Bool.and_eq_true, Bool.not_eq_true', not_and, Bool.not_eq_true] at hsame
                  cases hfc : fc with
                  | true => exact Or.inl rfl
                  | false => exact Or.inr (hsame hfc)
                · exact tails h
              · intro h
                rcases back h with ⟨rfl, _⟩ | h'
                · exact Or.inl rfl
                · exact Or.inr h'

end Fsm.D
