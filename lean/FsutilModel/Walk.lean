import FsutilModel.Order
import FsutilModel.Lex
/-! Spike: C09-T1 — the pre-order walk of a tree whose directories list their children in
    bytewise name order is strictly ascending in `comparePath`. -/
namespace Fsm

inductive Node where
  | file : Node
  | dir : List (Path × Node) → Node

def joinP (pre n : Path) : Path := if pre = [] then n else pre ++ sep :: n

mutual
def walk (pre : Path) : Node → List Path
  | .file => []
  | .dir cs => walkList pre cs
def walkList (pre : Path) : List (Path × Node) → List Path
  | [] => []
  | (n, c) :: rest => joinP pre n :: (walk (joinP pre n) c ++ walkList pre rest)
end

def NameOK (n : Path) : Prop := n ≠ [] ∧ sep ∉ n

mutual
def WF : Node → Prop
  | .file => True
  | .dir cs => WFList cs
def WFList : List (Path × Node) → Prop
  | [] => True
  | (n, c) :: rest => NameOK n ∧ WF c ∧ WFList rest ∧ (∀ m ∈ rest.map (·.1), strLt n m = true)
end

/-- `x` is `q` itself or lies below it -/
def AtOrUnder (q x : Path) : Prop := x = q ∨ ∃ r, x = q ++ sep :: r

theorem joinP_ne_nil (pre n : Path) (hn : n ≠ []) : joinP pre n ≠ [] := by
  unfold joinP; split <;> simp [hn]

mutual
theorem walk_under (pre : Path) (hp : pre ≠ []) : ∀ (t : Node), WF t → ∀ (x : Path), x ∈ walk pre t →
    ∃ r, x = pre ++ sep :: r
  | .file, _, x, h => by simp [walk] at h
  | .dir cs, hw, x, h => by
    simp only [walk] at h
    simp only [WF] at hw
    obtain ⟨n, c, _, hx⟩ := walkList_under pre cs hw x h
    rcases hx with hx | ⟨r, hx⟩
    · exact ⟨n, by rw [hx]; simp [joinP, hp]⟩
    · exact ⟨n ++ sep :: r, by rw [hx]; simp [joinP, hp]⟩
theorem walkList_under (pre : Path) : ∀ (cs : List (Path × Node)), WFList cs → ∀ (x : Path), x ∈ walkList pre cs →
    ∃ n c, (n, c) ∈ cs ∧ AtOrUnder (joinP pre n) x
  | [], _, x, h => by simp [walkList] at h
  | (n, c) :: rest, hw, x, h => by
    simp only [WFList] at hw
    obtain ⟨hn, hc, hrest, _⟩ := hw
    simp only [walkList, List.mem_cons, List.mem_append] at h
    rcases h with h | h | h
    · exact ⟨n, c, by simp, Or.inl h⟩
    · obtain ⟨r, hr⟩ := walk_under (joinP pre n) (joinP_ne_nil pre n hn.1) c hc x h
      exact ⟨n, c, by simp, Or.inr ⟨r, hr⟩⟩
    · obtain ⟨n', c', hm, hx⟩ := walkList_under pre rest hrest x h
      exact ⟨n', c', by simp [hm], hx⟩
end


theorem cmp_parent_lt (q r : Path) : comparePath q (q ++ sep :: r) < 0 := by
  have := cmp_common_prefix q [] (sep :: r)
  simp only [List.append_nil] at this
  rw [this]; simp [comparePath]

theorem atOrUnder_split {q x : Path} (h : AtOrUnder q x) : ∃ r, x = q ++ r ∧ SepOrEnd r := by
  rcases h with h | ⟨r, h⟩
  · exact ⟨[], by simp [h], Or.inl rfl⟩
  · exact ⟨sep :: r, h, Or.inr ⟨r, rfl⟩⟩

/-- everything at-or-under an earlier sibling precedes everything at-or-under a later sibling -/
theorem cmp_siblings (p n1 n2 x y : Path) (h1 : NameOK n1) (h2 : NameOK n2) (hlt : strLt n1 n2 = true)
    (hx : AtOrUnder (joinP p n1) x) (hy : AtOrUnder (joinP p n2) y) : comparePath x y < 0 := by
  obtain ⟨r1, ex, s1⟩ := atOrUnder_split hx
  obtain ⟨r2, ey, s2⟩ := atOrUnder_split hy
  have hne : n1 ≠ n2 := by intro e; subst e; rw [strLt_irrefl] at hlt; cases hlt
  have key := (cmp_diff_comps n1 n2 r1 r2 h1.2 h2.2 hne s1 s2).mpr hlt
  subst ex; subst ey
  unfold joinP
  by_cases hp : p = []
  · simp only [hp, if_true]; exact key
  · simp only [hp, if_false]
    have e1 : p ++ sep :: n1 ++ r1 = (p ++ [sep]) ++ (n1 ++ r1) := by simp
    have e2 : p ++ sep :: n2 ++ r2 = (p ++ [sep]) ++ (n2 ++ r2) := by simp
    rw [e1, e2, cmp_common_prefix]; exact key

def Asc (l : List Path) : Prop := l.Pairwise (fun a b => comparePath a b < 0)

mutual
/-- C09-T1 -/
theorem walk_ascending (pre : Path) : ∀ (t : Node), WF t → Asc (walk pre t)
  | .file, _ => by simp [walk, Asc]
  | .dir cs, hw => by simp only [walk]; simp only [WF] at hw; exact walkList_ascending pre cs hw
theorem walkList_ascending (pre : Path) : ∀ (cs : List (Path × Node)), WFList cs → Asc (walkList pre cs)
  | [], _ => by simp [walkList, Asc]
  | (n, c) :: rest, hw => by
    have hw' := hw
    simp only [WFList] at hw
    obtain ⟨hn, hc, hrest, hsorted⟩ := hw
    simp only [walkList, Asc]
    have hjne := joinP_ne_nil pre n hn.1
    -- names of later siblings are OK and larger
    have hlater : ∀ x ∈ walkList pre rest, ∃ n' c', (n', c') ∈ rest ∧ AtOrUnder (joinP pre n') x :=
      walkList_under pre rest hrest
    have hrestOK : ∀ (l : List (Path × Node)), WFList l → ∀ n' c', (n', c') ∈ l → NameOK n' := by
      intro l
      induction l with
      | nil => intro _ n' c' h; simp at h
      | cons a l ih =>
        intro hwl n' c' h
        obtain ⟨an, ac⟩ := a
        simp only [WFList] at hwl
        simp at h
        rcases h with ⟨h1, _⟩ | h
        · subst h1; exact hwl.1
        · exact ih hwl.2.2.1 n' c' h
    rw [List.pairwise_cons]
    refine ⟨?_, ?_⟩
    · intro y hy
      simp only [List.mem_append] at hy
      rcases hy with hy | hy
      · obtain ⟨r, hr⟩ := walk_under (joinP pre n) hjne c hc y hy
        rw [hr]; exact cmp_parent_lt _ _
      · obtain ⟨n', c', hm, hu⟩ := hlater y hy
        exact cmp_siblings pre n n' _ _ hn (hrestOK rest hrest n' c' hm)
          (hsorted n' (by simp; exact ⟨c', hm⟩)) (Or.inl rfl) hu
    · rw [List.pairwise_append]
      refine ⟨walk_ascending (joinP pre n) c hc, walkList_ascending pre rest hrest, ?_⟩
      intro x hx y hy
      obtain ⟨r, hr⟩ := walk_under (joinP pre n) hjne c hc x hx
      obtain ⟨n', c', hm, hu⟩ := hlater y hy
      exact cmp_siblings pre n n' _ _ hn (hrestOK rest hrest n' c' hm)
        (hsorted n' (by simp; exact ⟨c', hm⟩)) (Or.inr ⟨r, hr⟩) hu
end

end Fsm
