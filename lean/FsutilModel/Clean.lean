import FsutilModel.Path
namespace Fsm

abbrev dot : Nat := 46
abbrev dd : Path := [46, 46]

theorem joinSep_cons_cons (c d : Path) (ds : List Path) :
    joinSep (c :: d :: ds) = c ++ sep :: joinSep (d :: ds) := rfl

/-- splitting and re-joining is the identity on every byte string -/
theorem joinSep_comps (p : Path) : joinSep (comps p) = p := by
  induction p with
  | nil => simp [comps, joinSep]
  | cons b rest ih =>
    simp only [comps]
    by_cases hb : b = sep
    · simp only [hb, if_true]
      have hne := comps_ne_nil rest
      cases hc : comps rest with
      | nil => exact absurd hc hne
      | cons c cs => rw [joinSep_cons_cons, ← hc, ih]; simp
    · simp only [hb, if_false]
      have hne := comps_ne_nil rest
      cases hc : comps rest with
      | nil => exact absurd hc hne
      | cons c cs =>
        simp only []
        rw [hc] at ih
        cases cs with
        | nil => simp [joinSep] at ih ⊢; exact ih
        | cons d ds =>
          rw [joinSep_cons_cons] at ih ⊢
          simp [← ih]

theorem comps_all_sepfree (p : Path) : ∀ c ∈ comps p, sep ∉ c := by
  induction p with
  | nil => simp [comps]
  | cons b rest ih =>
    simp only [comps]
    by_cases hb : b = sep
    · simp only [hb, if_true]; intro c hc; simp at hc; rcases hc with hc | hc
      · subst hc; simp
      · exact ih c hc
    · simp only [hb, if_false]
      cases hc : comps rest with
      | nil => intro c h; simp at h; subst h; simp; exact fun e => hb e.symm
      | cons c cs =>
        rw [hc] at ih
        intro x hx; simp at hx
        rcases hx with hx | hx
        · subst hx; simp; exact ⟨fun e => hb e.symm, ih c (by simp)⟩
        · exact ih x (by simp [hx])

/-- Go's filepath.Clean for '/', over components; `acc` is the reversed output stack -/
def cleanComps (rooted : Bool) : List Path → List Path → List Path
  | acc, [] => acc.reverse
  | acc, c :: cs =>
    if c = [] ∨ c = [dot] then cleanComps rooted acc cs
    else if c = dd then
      match acc with
      | [] => if rooted then cleanComps rooted [] cs else cleanComps rooted [dd] cs
      | top :: rest =>
        if top = dd then cleanComps rooted (dd :: acc) cs
        else cleanComps rooted rest cs
    else cleanComps rooted (c :: acc) cs

def isAbs (p : Path) : Bool := p.head? == some sep

def clean (p : Path) : Path :=
  if p = [] then [dot] else
  let out := joinSep (cleanComps (isAbs p) [] (comps p))
  if isAbs p then sep :: out
  else if out = [] then [dot] else out

def PlainC' (c : Path) : Prop := c ≠ [] ∧ c ≠ [dot] ∧ c ≠ dd

theorem cleanComps_plain (r : Bool) : ∀ (cs acc : List Path), (∀ c ∈ cs, PlainC' c) →
    cleanComps r acc cs = acc.reverse ++ cs := by
  intro cs
  induction cs with
  | nil => intro acc _; simp [cleanComps]
  | cons c cs ih =>
    intro acc h
    obtain ⟨h1, h2, h3⟩ := h c (by simp)
    simp only [cleanComps, h1, h2, h3, or_self, if_false]
    rw [ih (c :: acc) (fun x hx => h x (by simp [hx]))]
    simp

/-- a relative path made of plain components is a fixed point of Clean -/
theorem clean_of_plain (cs : List Path) (hne : cs ≠ []) (hp : ∀ c ∈ cs, PlainC' c) (hs : ∀ c ∈ cs, sep ∉ c) :
    clean (joinSep cs) = joinSep cs ∧ isAbs (joinSep cs) = false := by
  have hcomps := comps_joinSep cs hne hs
  have hjne : joinSep cs ≠ [] := by
    cases cs with
    | nil => exact absurd rfl hne
    | cons c ds =>
      have hc := (hp c (by simp)).1
      cases ds with
      | nil => simpa [joinSep] using hc
      | cons d es => rw [joinSep_cons_cons]; simp [hc]
  have habs : isAbs (joinSep cs) = false := by
    cases cs with
    | nil => exact absurd rfl hne
    | cons c ds =>
      have hc := (hp c (by simp)).1
      have hsc := hs c (by simp)
      cases c with
      | nil => exact absurd rfl hc
      | cons b bs =>
        have hb : b ≠ sep := by intro e; apply hsc; simp [e]
        cases ds with
        | nil => simp [joinSep, isAbs, hb]
        | cons d es => rw [joinSep_cons_cons]; simp [isAbs, hb]
  refine ⟨?_, habs⟩
  unfold clean
  simp only [hjne, if_false, habs, hcomps]
  rw [cleanComps_plain false cs [] hp]
  simp [hjne]

end Fsm
