/-! Spike: abstract sender LTS (safety part of C06): per-id DATA history is a prefix of the file,
    exactly one terminator, only for requested regular ids. -/
namespace Fsm.S

abbrev Bytes := List Nat

inductive Phase
  | unannounced | requestable | queued | active (off : Nat) | finished
deriving DecidableEq, Repr

structure St where
  view : List (Bool × Bytes)          -- per STAT index: (regular?, bytes)
  sent : Nat := 0
  endSent : Bool := false
  phase : Nat → Phase := fun _ => .unannounced
  out : List (Nat × Bytes) := []      -- DATA history (terminator = empty payload)
  failed : Bool := false

inductive Ev
  | sendStat | sendEnd
  | recvReq (id : Nat)
  | open_ (id : Nat)
  | data (id k : Nat)
  | term (id : Nat)

def upd (f : Nat → Phase) (i : Nat) (p : Phase) : Nat → Phase := fun j => if j = i then p else f j
@[simp] theorem upd_same (f i p) : upd f i p i = p := by simp [upd]
theorem upd_other (f i p j) (h : j ≠ i) : upd f i p j = f j := by simp [upd, h]

def bytesOf (s : St) (id : Nat) : Bytes := (s.view.getD id (false, [])).2
def isReg (s : St) (id : Nat) : Bool := (s.view.getD id (false, [])).1

def step (s : St) : Ev → Option St
  | .sendStat =>
    if s.failed then none else
    if s.sent < s.view.length then
      some { s with sent := s.sent + 1,
                    phase := if isReg s s.sent then upd s.phase s.sent .requestable else s.phase }
    else none
  | .sendEnd =>
    if s.failed then none else
    if s.sent = s.view.length ∧ s.endSent = false then some { s with endSent := true } else none
  | .recvReq id =>
    if s.failed then none else
    match s.phase id with
    | .requestable => some { s with phase := upd s.phase id .queued }
    | _ => some { s with failed := true }
  | .open_ id =>
    match s.phase id with
    | .queued => some { s with phase := upd s.phase id (.active 0) }
    | _ => none
  | .data id k =>
    match s.phase id with
    | .active off =>
      if 0 < k ∧ off + k ≤ (bytesOf s id).length then
        some { s with phase := upd s.phase id (.active (off + k)),
                      out := s.out ++ [(id, ((bytesOf s id).drop off).take k)] }
      else none
    | _ => none
  | .term id =>
    match s.phase id with
    | .active off =>
      if off = (bytesOf s id).length then
        some { s with phase := upd s.phase id .finished, out := s.out ++ [(id, [])] }
      else none
    | _ => none

def dataFor (id : Nat) (out : List (Nat × Bytes)) : Bytes :=
  (out.filter (fun p => p.1 = id)).flatMap (·.2)
def terms (id : Nat) (out : List (Nat × Bytes)) : Nat :=
  (out.filter (fun p => p.1 = id ∧ p.2 = [])).length

def prog (ph : Phase) (len : Nat) : Nat :=
  match ph with
  | .active off => off
  | .finished => len
  | _ => 0

structure Inv (s : St) : Prop where
  data : ∀ id, dataFor id s.out = (bytesOf s id).take (prog (s.phase id) (bytesOf s id).length)
  bound : ∀ id off, s.phase id = .active off → off ≤ (bytesOf s id).length
  fresh : ∀ id, s.sent ≤ id → s.phase id = .unannounced
  reg : ∀ id, s.phase id ≠ .unannounced → isReg s id = true

theorem dataFor_snoc_same (id) (o) (b) : dataFor id (o ++ [(id, b)]) = dataFor id o ++ b := by
  simp [dataFor, List.filter_append, List.flatMap_append]
theorem dataFor_snoc_other (id id') (o) (b) (h : id' ≠ id) : dataFor id (o ++ [(id', b)]) = dataFor id o := by
  simp [dataFor, List.filter_append, h]

def init (v : List (Bool × Bytes)) : St := { view := v }

theorem inv_init (v) : Inv (init v) := by
  constructor <;> simp [init, dataFor, prog]

theorem inv_step {s s' : St} {e : Ev} (hi : Inv s) (hs : step s e = some s') : Inv s' := by
  cases e with
  | sendStat =>
    simp only [step] at hs
    split at hs; · cases hs
    split at hs
    · have hfr := hi.fresh s.sent (Nat.le_refl _)
      by_cases hreg : isReg s s.sent = true
      · simp only [hreg, if_true] at hs; cases hs
        refine ⟨?_, ?_, ?_, ?_⟩
        · intro id
          try dsimp only at *
          have h0 := hi.data id
          simp only [bytesOf] at h0 ⊢
          by_cases h : id = s.sent
          · subst h; rw [upd_same]; rw [hfr] at h0; simpa [prog] using h0
          · rw [upd_other _ _ _ _ h]; exact h0
        · intro id off h
          try dsimp only at *
          simp only [bytesOf]
          by_cases hid : id = s.sent
          · subst hid; rw [upd_same] at h; cases h
          · rw [upd_other _ _ _ _ hid] at h; exact hi.bound id off h
        · intro id hle
          try dsimp only at *
          rw [upd_other _ _ _ _ (by omega)]; exact hi.fresh id (by omega)
        · intro id hne
          try dsimp only at *
          simp only [isReg] at *
          by_cases hid : id = s.sent
          · subst hid; exact hreg
          · rw [upd_other _ _ _ _ hid] at hne; exact hi.reg id hne
      · simp only [hreg] at hs; cases hs
        exact ⟨hi.data, hi.bound, fun id hle => hi.fresh id (by have : s.sent + 1 ≤ id := hle; omega), hi.reg⟩
    · cases hs
  | sendEnd =>
    simp only [step] at hs
    split at hs; · cases hs
    split at hs
    · cases hs; exact ⟨hi.data, hi.bound, hi.fresh, hi.reg⟩
    · cases hs
  | recvReq id =>
    simp only [step] at hs
    split at hs; · cases hs
    split at hs
    · rename_i hph
      cases hs
      refine ⟨?_, ?_, ?_, ?_⟩
      · intro id'
        try dsimp only at *
        have h0 := hi.data id'
        simp only [bytesOf] at h0 ⊢
        by_cases h : id' = id
        · subst h; rw [upd_same]; rw [hph] at h0; simpa [prog] using h0
        · rw [upd_other _ _ _ _ h]; exact h0
      · intro id' off h
        try dsimp only at *
        by_cases hid : id' = id
        · subst hid; rw [upd_same] at h; cases h
        · rw [upd_other _ _ _ _ hid] at h; exact hi.bound id' off h
      · intro id' hle
        try dsimp only at *
        by_cases hid : id' = id
        · subst hid; have := hi.fresh id' hle; rw [hph] at this; cases this
        · rw [upd_other _ _ _ _ hid]; exact hi.fresh id' hle
      · intro id' hne
        try dsimp only at *
        by_cases hid : id' = id
        · subst hid; exact hi.reg id' (by rw [hph]; simp)
        · rw [upd_other _ _ _ _ hid] at hne; exact hi.reg id' hne
    · cases hs; exact ⟨hi.data, hi.bound, hi.fresh, hi.reg⟩
  | open_ id =>
    simp only [step] at hs
    split at hs
    · rename_i hph
      cases hs
      refine ⟨?_, ?_, ?_, ?_⟩
      · intro id'
        try dsimp only at *
        have h0 := hi.data id'
        simp only [bytesOf] at h0 ⊢
        by_cases h : id' = id
        · subst h; rw [upd_same]; rw [hph] at h0; simpa [prog] using h0
        · rw [upd_other _ _ _ _ h]; exact h0
      · intro id' off h
        try dsimp only at *
        by_cases hid : id' = id
        · subst hid; rw [upd_same] at h; cases h; omega
        · rw [upd_other _ _ _ _ hid] at h; exact hi.bound id' off h
      · intro id' hle
        try dsimp only at *
        by_cases hid : id' = id
        · subst hid; have := hi.fresh id' hle; rw [hph] at this; cases this
        · rw [upd_other _ _ _ _ hid]; exact hi.fresh id' hle
      · intro id' hne
        try dsimp only at *
        by_cases hid : id' = id
        · subst hid; exact hi.reg id' (by rw [hph]; simp)
        · rw [upd_other _ _ _ _ hid] at hne; exact hi.reg id' hne
    · cases hs
  | data id k =>
    simp only [step] at hs
    split at hs
    · rename_i off hph
      split at hs
      · rename_i hk
        cases hs
        refine ⟨?_, ?_, ?_, ?_⟩
        · intro id'
          try dsimp only at *
          by_cases h : id' = id
          · subst h
            have := hi.data id'
            simp only [prog, hph] at this
            simp only [dataFor_snoc_same, prog, upd_same, bytesOf] at this ⊢
            rw [this, ← List.take_add]
          · have := hi.data id'
            simp only [bytesOf] at this ⊢
            rw [dataFor_snoc_other _ _ _ _ (Ne.symm h), upd_other _ _ _ _ h]
            exact this
        · intro id' off' h'
          try dsimp only at *
          by_cases h : id' = id
          · subst h; rw [upd_same] at h'; cases h'; exact hk.2
          · rw [upd_other _ _ _ _ h] at h'; exact hi.bound id' off' h'
        · intro id' hle
          try dsimp only at *
          by_cases hid : id' = id
          · subst hid; have := hi.fresh id' hle; rw [hph] at this; cases this
          · rw [upd_other _ _ _ _ hid]; exact hi.fresh id' hle
        · intro id' hne
          try dsimp only at *
          by_cases hid : id' = id
          · subst hid; exact hi.reg id' (by rw [hph]; simp)
          · rw [upd_other _ _ _ _ hid] at hne; exact hi.reg id' hne
      · cases hs
    all_goals cases hs
  | term id =>
    simp only [step] at hs
    split at hs
    · rename_i off hph
      split at hs
      · rename_i hk
        cases hs
        refine ⟨?_, ?_, ?_, ?_⟩
        · intro id'
          try dsimp only at *
          by_cases h : id' = id
          · subst h
            have := hi.data id'
            simp only [prog, hph] at this
            simp only [dataFor_snoc_same, prog, upd_same, bytesOf, List.append_nil] at this ⊢
            rw [this, hk]; simp [bytesOf]
          · have := hi.data id'
            simp only [bytesOf] at this ⊢
            rw [dataFor_snoc_other _ _ _ _ (Ne.symm h), upd_other _ _ _ _ h]
            exact this
        · intro id' off' h'
          try dsimp only at *
          by_cases h : id' = id
          · subst h; rw [upd_same] at h'; cases h'
          · rw [upd_other _ _ _ _ h] at h'; exact hi.bound id' off' h'
        · intro id' hle
          try dsimp only at *
          by_cases hid : id' = id
          · subst hid; have := hi.fresh id' hle; rw [hph] at this; cases this
          · rw [upd_other _ _ _ _ hid]; exact hi.fresh id' hle
        · intro id' hne
          try dsimp only at *
          by_cases hid : id' = id
          · subst hid; exact hi.reg id' (by rw [hph]; simp)
          · rw [upd_other _ _ _ _ hid] at hne; exact hi.reg id' hne
      · cases hs
    all_goals cases hs

def run : St → List Ev → Option St
  | s, [] => some s
  | s, e :: es => match step s e with | none => none | some s' => run s' es

theorem inv_run : ∀ (es : List Ev) (s s' : St), Inv s → run s es = some s' → Inv s'
  | [], s, s', hi, h => by simp [run] at h; subst h; exact hi
  | e :: es, s, s', hi, h => by
    simp only [run] at h
    cases hs : step s e with
    | none => rw [hs] at h; cases h
    | some s1 => rw [hs] at h; exact inv_run es s1 s' (inv_step hi hs) h

/-- C06-T2 (safety core): in every reachable state, for every id the DATA payloads sent so far
    concatenate to a prefix of that entry's bytes, and to the whole file once it is finished;
    data is only ever sent for announced regular entries -/
theorem sender_data (v : List (Bool × Bytes)) (es : List Ev) (s : St) (h : run (init v) es = some s) (id : Nat) :
    dataFor id s.out <+: bytesOf s id ∧
    (s.phase id = .finished → dataFor id s.out = bytesOf s id) ∧
    (dataFor id s.out ≠ [] → isReg s id = true ∧ id < s.sent) := by
  have hi := inv_run es _ _ (inv_init v) h
  refine ⟨?_, ?_, ?_⟩
  · rw [hi.data id]; exact List.take_prefix _ _
  · intro hf; rw [hi.data id, hf]; simp [prog]
  · intro hne
    have hph : s.phase id ≠ .unannounced := by
      intro hu; apply hne; rw [hi.data id, hu]; simp [prog]
    refine ⟨hi.reg id hph, ?_⟩
    cases Nat.lt_or_ge id s.sent with
    | inl h => exact h
    | inr h => exact absurd (hi.fresh id h) hph

end Fsm.S

namespace Fsm.S

theorem step_view {s s' : St} {e : Ev} (h : step s e = some s') : s'.view = s.view := by
  cases e <;> simp only [step] at h
  · split at h; · cases h
    split at h
    · cases h; rfl
    · cases h
  · split at h; · cases h
    split at h
    · cases h; rfl
    · cases h
  · split at h; · cases h
    split at h <;> cases h <;> rfl
  · split at h <;> first | (cases h; rfl) | cases h
  · split at h
    · split at h
      · cases h; rfl
      · cases h
    all_goals cases h
  · split at h
    · split at h
      · cases h; rfl
      · cases h
    all_goals cases h

theorem run_view : ∀ (s : St) (es : List Ev) (s' : St), run s es = some s' → s'.view = s.view
  | s, [], s', h => by simp [run] at h; subst h; rfl
  | s, e :: es, s', h => by
    simp only [run] at h
    cases hs : step s e with
    | none => rw [hs] at h; cases h
    | some s1 => rw [hs] at h; rw [run_view s1 es s' h, step_view hs]

end Fsm.S
