import FsutilModel.Model.WalkB
import FsutilModel.Lex
/-! `buildTree` always yields a well-formed tree (children strictly sorted bytewise, names non-empty and
separator-free), so `walk_ascending` applies to the executable walk order of every snapshot. -/
namespace Fsm

theorem WF_childrenOf {n : Node} (h : WF n) : WFList (childrenOf n) := by
  cases n with
  | file => simp [childrenOf, WFList]
  | dir cs => simpa [childrenOf, WF] using h

theorem insertSorted_names (c : Path) (f : Option Node → Node) : ∀ (cs : List (Path × Node)) (m : Path),
    m ∈ (insertSorted c f cs).map (·.1) → m = c ∨ m ∈ cs.map (·.1) := by
  intro cs
  induction cs with
  | nil => intro m h; simp [insertSorted] at h; exact Or.inl h
  | cons hd rest ih =>
    intro m h
    obtain ⟨n, x⟩ := hd
    simp only [insertSorted] at h
    split at h
    · rename_i hnc
      simp only [List.map_cons, List.mem_cons] at h ⊢
      rcases h with h | h
      · right; left; exact h
      · right; right; exact h
    · split at h
      · simp only [List.map_cons, List.mem_cons] at h ⊢
        rcases h with h | h | h
        · left; exact h
        · right; left; exact h
        · right; right; exact h
      · simp only [List.map_cons, List.mem_cons] at h ⊢
        rcases h with h | h
        · right; left; exact h
        · rcases ih m h with h' | h'
          · left; exact h'
          · right; right; exact h'

theorem insertSorted_WF (c : Path) (hc : NameOK c) (f : Option Node → Node)
    (hf0 : WF (f none)) (hf1 : ∀ x, WF x → WF (f (some x))) :
    ∀ (cs : List (Path × Node)), WFList cs → WFList (insertSorted c f cs) := by
  intro cs
  induction cs with
  | nil => intro _; simp [insertSorted, WFList, hc, hf0]
  | cons hd rest ih =>
    intro h
    obtain ⟨n, x⟩ := hd
    simp only [WFList] at h
    obtain ⟨hn, hx, hrest, hlt⟩ := h
    simp only [insertSorted]
    split
    · simp only [WFList]
      exact ⟨hn, hf1 x hx, hrest, hlt⟩
    · rename_i hne
      split
      · rename_i hcn
        simp only [WFList]
        refine ⟨hc, hf0, ⟨hn, hx, hrest, hlt⟩, ?_⟩
        intro m hm
        simp only [List.map_cons, List.mem_cons] at hm
        rcases hm with rfl | hm
        · exact hcn
        · exact strLt_trans hcn (hlt m hm)
      · rename_i hncn
        simp only [WFList]
        refine ⟨hn, hx, ih hrest, ?_⟩
        intro m hm
        rcases insertSorted_names c f rest m hm with rfl | hm'
        · rcases strLt_total n m with h | h | h
          · exact absurd h hne
          · exact h
          · exact absurd h hncn
        · exact hlt m hm'

theorem insertPath_WF : ∀ (cs : List Path) (n : Node), (∀ c ∈ cs, NameOK c) → WF n → WF (insertPath cs n)
  | [], n, _, h => by simpa [insertPath] using h
  | c :: rest, n, hcs, h => by
    simp only [insertPath, WF]
    refine insertSorted_WF c (hcs c (by simp)) _ ?_ ?_ _ (WF_childrenOf h)
    · exact insertPath_WF rest (.dir []) (fun x hx => hcs x (by simp [hx])) (by simp [WF, WFList])
    · intro x hx
      exact insertPath_WF rest x (fun y hy => hcs y (by simp [hy])) hx

theorem buildTree_WF (paths : List Path) (h : ∀ p ∈ paths, ∀ c ∈ comps p, NameOK c) : WF (buildTree paths) := by
  unfold buildTree
  have : ∀ (ps : List Path) (t : Node), (∀ p ∈ ps, ∀ c ∈ comps p, NameOK c) → WF t →
      WF (ps.foldl (fun t p => insertPath (comps p) t) t) := by
    intro ps
    induction ps with
    | nil => intro t _ ht; simpa using ht
    | cons p ps ih =>
      intro t hp ht
      simp only [List.foldl_cons]
      exact ih _ (fun q hq => hp q (by simp [hq])) (insertPath_WF (comps p) t (hp p (by simp)) ht)
  exact this paths (.dir []) h (by simp [WF, WFList])

end Fsm
