import FsutilModel.Path
/-! Spike: from Go's syntactic prune test to the semantic condition S of `go_prune`,
    for the pattern shapes the code counts as "prefix only"; and the F9 witness. -/
namespace Fsm.PS

open Fsm

inductive Shape
  | exact (t : Path)        -- t
  | star (t : Path)         -- t/*
  | dstar (t : Path)        -- t/**
  | starDstar (t : Path)    -- t/*/**   (mis-classified by the double trim)

/-- the matcher (moby's translation) on these shapes -/
def m : Shape → Path → Bool
  | .exact t, q => q == t
  | .star t, q => (t ++ [sep]).isPrefixOf q && !((q.drop (t.length + 1)).contains sep)
  | .dstar t, q => (t ++ [sep]).isPrefixOf q
  | .starDstar t, q => (t ++ [sep]).isPrefixOf q && (q.drop (t.length + 1)).contains sep

/-- text minus ONE trailing glob (the repaired `patternWithoutTrailingGlob`); `none` = has a metacharacter -/
def base1 : Shape → Option Path
  | .exact t | .star t | .dstar t => some t
  | .starDstar _ => none
/-- what the code computes today: both suffixes are trimmed -/
def base2 : Shape → Option Path
  | .exact t | .star t | .dstar t | .starDstar t => some t

def under (d q : Path) : Bool := (d ++ [sep]).isPrefixOf q

/-- Go's test: keep walking `d` iff base/ starts with d/ -/
def keepWalking (b : Path) (d : Path) : Bool := (d ++ [sep]).isPrefixOf (b ++ [sep])

theorem prefix_total {α} {a b l : List α} (ha : a <+: l) (hb : b <+: l) : a <+: b ∨ b <+: a := by
  rcases Nat.le_total a.length b.length with h | h
  · left; exact List.prefix_of_prefix_length_le ha hb h
  · right; exact List.prefix_of_prefix_length_le hb ha h

/-- with the single trim, a pruned directory satisfies the semantic condition S for the pattern -/
theorem prune_syn_sound (s : Shape) (t : Path) (hb : base1 s = some t) (d : Path) (hsep : sep ∉ ([] : Path))
    (hk : keepWalking t d = false) :
    ∀ q, under d q = true → m s q = true → m s d = true := by
  intro q hu hm
  simp only [under, List.isPrefixOf_iff_prefix] at hu
  simp only [keepWalking] at hk
  have hk' : ¬ (d ++ [sep]) <+: (t ++ [sep]) := by
    intro h; rw [← List.isPrefixOf_iff_prefix] at h; rw [h] at hk; cases hk
  cases s with
  | exact t' =>
    simp [base1] at hb; subst hb
    simp [m] at hm; subst hm
    exact absurd (hu.trans (List.prefix_append _ _)) hk'
  | star t' =>
    simp [base1] at hb; subst hb
    simp only [m, Bool.and_eq_true, List.isPrefixOf_iff_prefix] at hm
    obtain ⟨hp, hns⟩ := hm
    rcases prefix_total hu hp with h | h
    · exact absurd h hk'
    · -- t/ is a prefix of d/ and they differ, so d = t/x'… and q = d/… has a separator after t/
      exfalso
      obtain ⟨r, hr⟩ := h          -- t ++ [sep] ++ r = d ++ [sep]
      obtain ⟨w, hw⟩ := hu         -- d ++ [sep] ++ w = q
      have hq : q = t' ++ [sep] ++ (r ++ w) := by rw [← hw, ← hr]; simp
      have hr_ne : r ≠ [] := by
        intro e; subst e; simp at hr
        apply hk'; rw [← hr]; exact List.prefix_refl _
      have hsep_r : sep ∈ r := by
        have : (t' ++ [sep] ++ r).getLast? = some sep := by rw [hr]; simp
        rw [List.getLast?_append] at this
        cases hrl : r.getLast? with
        | none => simp [List.getLast?_eq_none_iff] at hrl; exact absurd hrl hr_ne
        | some x =>
          rw [hrl] at this; simp at this; subst this
          exact List.mem_of_getLast? hrl
      have : (q.drop (t'.length + 1)) = r ++ w := by
        rw [hq]; simp [List.drop_append]
      rw [this] at hns
      simp at hns
      exact hns.1 hsep_r
  | dstar t' =>
    simp [base1] at hb; subst hb
    simp only [m, List.isPrefixOf_iff_prefix] at hm ⊢
    rcases prefix_total hu hm with h | h
    · exact absurd h hk'
    · -- t/ is a prefix of d/, and not equal, hence a prefix of d
      obtain ⟨r, hr⟩ := h
      cases hrr : r.getLast? with
      | none =>
        simp [List.getLast?_eq_none_iff] at hrr; subst hrr; simp at hr
        exact absurd (by rw [← hr]; exact List.prefix_refl _) hk'
      | some x =>
        have hrne : r ≠ [] := by intro e; subst e; simp at hrr
        have hx : r.getLast hrne = x := by
          have := List.getLast?_eq_some_getLast hrne; rw [hrr] at this; simpa using this.symm
        have hr' : r.dropLast ++ [x] = r := by rw [← hx]; exact List.dropLast_concat_getLast hrne
        have : (t' ++ [sep] ++ r).getLast? = some sep := by rw [hr]; simp
        rw [List.getLast?_append, hrr] at this; simp at this; subst this
        refine ⟨r.dropLast, ?_⟩
        have : t' ++ [sep] ++ r.dropLast ++ [sep] = d ++ [sep] := by
          rw [← hr]; conv => rhs; rw [← hr']
          simp
        exact List.append_cancel_right this
  | starDstar t' => simp [base1] at hb

/-- F9, kernel-checked: with the double trim, `a/*/**` is treated as the literal `a`; the directory `a/x`
    is pruned although `a/x/y` matches and `a/x` does not -/
theorem f9_witness :
    let s := Shape.starDstar [97]            -- "a/*/**"
    let d : Path := [97, 47, 120]            -- "a/x"
    let q : Path := [97, 47, 120, 47, 121]   -- "a/x/y"
    base2 s = some [97] ∧ keepWalking [97] d = false ∧ under d q = true ∧ m s q = true ∧ m s d = false := by
  decide

end Fsm.PS
