import FsutilModel.Clean2
namespace Fsm

def PlainList (cs : List Path) : Prop := cs ≠ [] ∧ ∀ c ∈ cs, PlainC' c ∧ sep ∉ c

theorem joinSep_replicate_dd_head (k : Nat) (pp : List Path) (hk : 0 < k) :
    joinSep (List.replicate k dd ++ pp) = dd ∨ (dd ++ [sep]) <+: joinSep (List.replicate k dd ++ pp) := by
  cases k with
  | zero => omega
  | succ k =>
    simp only [List.replicate_succ, List.cons_append]
    cases h : List.replicate k dd ++ pp with
    | nil => left; simp [joinSep]
    | cons x xs => right; rw [joinSep_cons_cons]; exact ⟨joinSep (x :: xs), by simp⟩

/-- the (repaired) lexical test of the validator accepts exactly the paths made of plain components -/
theorem isCleanRel_iff_plain (p : Path) :
    isCleanRel true p ↔ ∃ cs, PlainList cs ∧ p = joinSep cs := by
  constructor
  · rintro ⟨hclean, habs, hpre, hfix⟩
    obtain ⟨hnd, hndd⟩ := hfix rfl
    have hpne : p ≠ [] := by
      intro e; subst e; simp [clean] at hclean
    obtain ⟨pp, k, hres, hpp⟩ := cleanComps_nf (comps p) [] ⟨[], 0, by simp, by simp⟩
    unfold clean at hclean
    simp only [hpne, if_false, habs, Bool.false_eq_true] at hclean
    rw [hres] at hclean
    by_cases hout : joinSep (List.replicate k dd ++ pp) = []
    · simp [hout] at hclean; exact absurd hclean.symm hnd
    · simp only [hout, if_false] at hclean
      -- k must be 0, otherwise p is ".." or starts with "../"
      have hk : k = 0 := by
        rcases Nat.eq_zero_or_pos k with h | h
        · exact h
        · rcases joinSep_replicate_dd_head k pp h with h' | h'
          · rw [hclean] at h'; exact absurd h' hndd
          · rw [hclean] at h'; exact absurd h' hpre
      subst hk
      simp only [List.replicate_zero, List.nil_append] at hclean hres
      have hppne : pp ≠ [] := by intro e; subst e; simp [joinSep] at hout
      refine ⟨pp, ⟨hppne, fun c hc => ⟨hpp c hc, ?_⟩⟩, hclean.symm⟩
      -- components of the output come from comps p, hence are separator-free:
      -- p = joinSep pp and comps p are sep-free; use comps (joinSep pp) … avoid circularity: show via p
      have hsf := comps_all_sepfree p
      -- every element of pp is an element of comps p (cleanComps only keeps input components or dd)
      have hsub : ∀ (cs acc : List Path), (∀ x ∈ acc, sep ∉ x) → (∀ x ∈ cs, sep ∉ x) →
          ∀ x ∈ cleanComps false acc cs, sep ∉ x := by
        intro cs
        induction cs with
        | nil => intro acc ha _ x hx; simp [cleanComps] at hx; exact ha x hx
        | cons y ys ih =>
          intro acc ha hcs x hx
          have hys : ∀ x ∈ ys, sep ∉ x := fun z hz => hcs z (by simp [hz])
          simp only [cleanComps] at hx
          split at hx
          · exact ih acc ha hys x hx
          · split at hx
            · cases acc with
              | nil => simp only [] at hx; exact ih [dd] (by simp) hys x hx
              | cons t r =>
                simp only [] at hx
                split at hx
                · exact ih (dd :: t :: r) (by intro z hz; simp at hz; rcases hz with hz | hz | hz
                                              · subst hz; simp
                                              · subst hz; exact ha _ (by simp)
                                              · exact ha z (by simp [hz])) hys x hx
                · exact ih r (fun z hz => ha z (by simp [hz])) hys x hx
            · exact ih (y :: acc) (by intro z hz; simp at hz; rcases hz with hz | hz
                                      · subst hz; exact hcs _ (by simp)
                                      · exact ha z hz) hys x hx
      have := hsub (comps p) [] (by simp) hsf c (by rw [hres]; exact hc)
      exact this
  · rintro ⟨cs, ⟨hne, hpl⟩, rfl⟩
    have hp : ∀ c ∈ cs, PlainC' c := fun c hc => (hpl c hc).1
    have hs : ∀ c ∈ cs, sep ∉ c := fun c hc => (hpl c hc).2
    obtain ⟨h1, h2⟩ := clean_of_plain cs hne hp hs
    have hcomps := comps_joinSep cs hne hs
    refine ⟨h1, h2, ?_, fun _ => ⟨?_, ?_⟩⟩
    · rintro ⟨t, ht⟩
      have : comps (joinSep cs) = dd :: comps t := by
        rw [← ht, List.append_assoc]; exact comps_append_sep dd _ (by decide)
      rw [hcomps] at this
      have := hp dd (by rw [this]; simp)
      exact this.2.2 rfl
    · intro e
      have : comps (joinSep cs) = [[dot]] := by rw [e]; decide
      rw [hcomps] at this
      have := hp [dot] (by rw [this]; simp)
      exact this.2.1 rfl
    · intro e
      have : comps (joinSep cs) = [dd] := by rw [e]; decide
      rw [hcomps] at this
      have := hp dd (by rw [this]; simp)
      exact this.2.2 rfl

end Fsm
