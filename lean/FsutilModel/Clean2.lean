import FsutilModel.Clean
namespace Fsm

/-- shape of the output stack (top first): plain components on top of a run of ".." -/
def NFs (acc : List Path) : Prop :=
  ∃ pp k, acc = pp ++ List.replicate k dd ∧ ∀ c ∈ pp, PlainC' c

theorem cleanComps_nf : ∀ (cs acc : List Path), NFs acc →
    ∃ pp k, cleanComps false acc cs = List.replicate k dd ++ pp ∧ ∀ c ∈ pp, PlainC' c := by
  intro cs
  induction cs with
  | nil =>
    intro acc ⟨pp, k, hacc, hpp⟩
    refine ⟨pp.reverse, k, ?_, fun c hc => hpp c (by simpa using hc)⟩
    simp [cleanComps, hacc]
  | cons c cs ih =>
    intro acc hnf
    simp only [cleanComps]
    by_cases h1 : c = [] ∨ c = [dot]
    · simp only [h1, if_true]; exact ih acc hnf
    · simp only [h1, if_false]
      by_cases h2 : c = dd
      · simp only [h2, if_true]
        obtain ⟨pp, k, hacc, hpp⟩ := hnf
        cases acc with
        | nil => simp only []; exact ih [dd] ⟨[], 1, by simp, by simp⟩
        | cons top rest =>
          simp only []
          by_cases ht : top = dd
          · simp only [ht, if_true]
            apply ih
            -- pp must be empty: its head would be the top = dd, which is not plain
            cases pp with
            | nil =>
              refine ⟨[], k + 1, ?_, by simp⟩
              simp only [List.nil_append] at hacc ⊢
              rw [ht] at hacc
              rw [hacc, List.replicate_succ]
            | cons x xs =>
              simp at hacc
              have := (hpp x (by simp)).2.2
              exact absurd (hacc.1 ▸ ht) this
          · simp only [ht, if_false]
            apply ih
            cases pp with
            | nil =>
              simp at hacc
              cases k with
              | zero => simp at hacc
              | succ k => simp [List.replicate_succ] at hacc; exact absurd hacc.1 ht
            | cons x xs =>
              simp at hacc
              exact ⟨xs, k, hacc.2, fun c hc => hpp c (by simp [hc])⟩
      · simp only [h2, if_false]
        apply ih
        obtain ⟨pp, k, hacc, hpp⟩ := hnf
        refine ⟨c :: pp, k, by simp [hacc], ?_⟩
        intro x hx; simp at hx
        rcases hx with hx | hx
        · subst hx; exact ⟨fun e => h1 (Or.inl e), fun e => h1 (Or.inr e), h2⟩
        · exact hpp x hx

/-- the lexical test of the validator (with the `.`/`..` repair when `fixed`) -/
def isCleanRel (fixed : Bool) (p : Path) : Prop :=
  clean p = p ∧ isAbs p = false ∧ ¬ ((dd ++ [sep]) <+: p) ∧
  (fixed = true → p ≠ [dot] ∧ p ≠ dd)

/-- F1, kernel-checked: today's lexical test lets ".." and "." through -/
theorem dotdot_passes_today : isCleanRel false dd := by
  refine ⟨by decide, by decide, ?_, by simp⟩
  intro h; have := List.IsPrefix.length_le h; simp at this
theorem dot_passes_today : isCleanRel false [dot] := by
  refine ⟨by decide, by decide, ?_, by simp⟩
  intro h; have := List.IsPrefix.length_le h; simp at this

end Fsm
