import FsutilModel.Path
import FsutilModel.Diff
namespace Fsm

/-! the concrete byte-path order satisfies the abstract `PathOrd` interface used by the diff proof -/

def key (b : Nat) : Nat := if b = sep then 0 else b + 1

def lexLt : List Nat → List Nat → Bool
  | [], [] => false
  | [], _ :: _ => true
  | _ :: _, [] => false
  | a :: p, b :: q => if a = b then lexLt p q else decide (a < b)

theorem key_inj {a b : Nat} (h : key a = key b) : a = b := by
  unfold key at h; split at h <;> split at h <;> omega

theorem cmp_neg_iff_lex (p q : Path) : comparePath p q < 0 ↔ lexLt (p.map key) (q.map key) = true := by
  induction p generalizing q with
  | nil =>
    cases q with
    | nil => simp [comparePath, lexLt]
    | cons b q => simp [comparePath, lexLt]
  | cons a p ih =>
    cases q with
    | nil => simp [comparePath, lexLt]; omega
    | cons b q =>
      by_cases hab : a = b
      · subst hab; simp [comparePath, lexLt, ih]
      · have hk : key a ≠ key b := fun h => hab (key_inj h)
        simp only [comparePath, List.map, lexLt, hab, hk, if_false]
        by_cases ha : a = sep
        · have hb : b ≠ sep := fun h => hab (ha.trans h.symm)
          simp [key, ha, hb]
        · by_cases hb : b = sep
          · simp [key, ha, hb]
          · simp only [key, ha, hb, if_false]
            by_cases hlt : a < b
            · simp [hlt, hb]
            · have : ¬ (a + 1 < b + 1) := by omega
              simp [hlt, ha, this]

theorem lexLt_irrefl (p : List Nat) : lexLt p p = false := by
  induction p with
  | nil => rfl
  | cons a p ih => simp [lexLt, ih]

theorem lexLt_trans {p q r : List Nat} (h1 : lexLt p q = true) (h2 : lexLt q r = true) : lexLt p r = true := by
  induction p generalizing q r with
  | nil =>
    cases q with
    | nil => simp [lexLt] at h1
    | cons b q => cases r with
      | nil => simp [lexLt] at h2
      | cons c r => simp [lexLt]
  | cons a p ih =>
    cases q with
    | nil => simp [lexLt] at h1
    | cons b q =>
      cases r with
      | nil => simp [lexLt] at h2
      | cons c r =>
        simp only [lexLt] at h1 h2 ⊢
        by_cases hab : a = b
        · subst hab
          by_cases hac : a = c
          · subst hac; simp at h1 h2 ⊢; exact ih h1 h2
          · simp [hac] at h2 ⊢; exact h2
        · simp [hab] at h1
          by_cases hbc : b = c
          · subst hbc; simp [hab]; exact h1
          · simp [hbc] at h2
            have : a ≠ c := by omega
            simp [this]; omega

theorem lexLt_total (p q : List Nat) : p = q ∨ lexLt p q = true ∨ lexLt q p = true := by
  induction p generalizing q with
  | nil => cases q <;> simp [lexLt]
  | cons a p ih =>
    cases q with
    | nil => simp [lexLt]
    | cons b q =>
      simp only [lexLt]
      by_cases hab : a = b
      · subst hab; simp; rcases ih q with h | h | h <;> simp [h]
      · have hba : b ≠ a := fun e => hab e.symm
        simp [hab, hba]; omega

theorem lexLt_prefix (d : List Nat) (x : Nat) (t : List Nat) : lexLt d (d ++ x :: t) = true := by
  induction d with
  | nil => simp [lexLt]
  | cons a d ih => simp [lexLt, ih]

/-- d < x < d ++ 0 :: t  ⇒  x = d ++ 0 :: _   (0 is the smallest key) -/
theorem lex_interval (d x t : List Nat) (h1 : lexLt d x = true) (h2 : lexLt x (d ++ 0 :: t) = true) :
    ∃ r, x = d ++ 0 :: r := by
  induction d generalizing x with
  | nil =>
    cases x with
    | nil => simp [lexLt] at h1
    | cons c r =>
      simp only [List.nil_append, lexLt] at h2
      by_cases hc : c = 0
      · subst hc; exact ⟨r, rfl⟩
      · simp [hc] at h2
  | cons a d ih =>
    cases x with
    | nil => simp [lexLt] at h1
    | cons c r =>
      simp only [List.cons_append, lexLt] at h1 h2
      by_cases hac : a = c
      · subst hac
        simp at h1 h2
        obtain ⟨r', hr⟩ := ih r h1 h2
        exact ⟨r', by rw [hr]; rfl⟩
      · have hca : c ≠ a := fun e => hac e.symm
        simp [hac] at h1; simp [hca] at h2; omega

def ltB (a b : Path) : Bool := decide (comparePath a b < 0)
def underB (d q : Path) : Bool := (d ++ [sep]).isPrefixOf q

theorem ltB_iff (a b : Path) : ltB a b = true ↔ lexLt (a.map key) (b.map key) = true := by
  simp [ltB, cmp_neg_iff_lex]

theorem map_key_inj {a b : Path} (h : a.map key = b.map key) : a = b := by
  induction a generalizing b with
  | nil => cases b <;> simp at h ⊢
  | cons x a ih =>
    cases b with
    | nil => simp at h
    | cons y b => simp at h; rw [key_inj h.1, ih h.2]

theorem underB_iff (d q : Path) : underB d q = true ↔ ∃ t, q = d ++ sep :: t := by
  simp only [underB, List.isPrefixOf_iff_prefix]
  constructor
  · rintro ⟨t, ht⟩; exact ⟨t, by rw [← ht]; simp⟩
  · rintro ⟨t, ht⟩; exact ⟨t, by rw [ht]; simp⟩

/-- the byte-level order is an instance of the abstract interface -/
def byteOrd : D.PathOrd Path where
  lt := ltB
  under := underB
  lt_irrefl a := by
    cases h : ltB a a with
    | false => rfl
    | true => rw [ltB_iff, lexLt_irrefl] at h; cases h
  lt_trans a b c h1 h2 := by rw [ltB_iff] at *; exact lexLt_trans h1 h2
  lt_total a b := by
    rcases lexLt_total (a.map key) (b.map key) with h | h | h
    · left; exact map_key_inj h
    · right; left; exact (ltB_iff a b).mpr h
    · right; right; exact (ltB_iff b a).mpr h
  under_lt d q h := by
    obtain ⟨t, ht⟩ := (underB_iff d q).mp h
    rw [ltB_iff, ht]; simp only [List.map_append, List.map_cons]; exact lexLt_prefix _ _ _
  under_trans a b c h1 h2 := by
    obtain ⟨t1, ht1⟩ := (underB_iff a b).mp h1
    obtain ⟨t2, ht2⟩ := (underB_iff b c).mp h2
    exact (underB_iff a c).mpr ⟨t1 ++ sep :: t2, by rw [ht2, ht1]; simp⟩
  interval d x y h1 h2 h3 := by
    obtain ⟨t, ht⟩ := (underB_iff d y).mp h3
    rw [ltB_iff] at h1 h2
    rw [ht] at h2
    simp only [List.map_append, List.map_cons] at h2
    have hk : key sep = 0 := by simp [key]
    rw [hk] at h2
    obtain ⟨r, hr⟩ := lex_interval _ _ _ h1 h2
    -- pull the decomposition back through `map key`
    have hlen : d.length < x.length := by
      have := congrArg List.length hr; simp at this; omega
    refine (underB_iff d x).mpr ⟨x.drop (d.length + 1), ?_⟩
    have h_take : x.take d.length = d := by
      apply map_key_inj
      have := congrArg (List.take d.length) hr
      simp only [List.take_left' (List.length_map key), ← List.map_take] at this
      simpa using this
    have h_mid : x[d.length]'hlen = sep := by
      apply key_inj
      have := congrArg (fun l => l[d.length]?) hr
      simp at this
      rw [hk]; rw [List.getElem?_eq_getElem hlen] at this; simpa using this
    calc x = x.take d.length ++ x.drop d.length := (List.take_append_drop _ _).symm
      _ = d ++ x.drop d.length := by rw [h_take]
      _ = d ++ sep :: x.drop (d.length + 1) := by
          rw [List.drop_eq_getElem_cons hlen, h_mid]

end Fsm
