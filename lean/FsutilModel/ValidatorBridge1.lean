import FsutilModel.Model.ValidatorB
import FsutilModel.Clean3
/-! Bridge, part 1: `filepath.Dir` / `filepath.Base` (byte-level transcriptions) on paths made of plain components. -/
namespace Fsm

theorem lastSepEnd_go_append (l1 l2 : List Nat) (i acc : Nat) :
    lastSepEnd.go (l1 ++ l2) i acc = lastSepEnd.go l2 (i + l1.length) (lastSepEnd.go l1 i acc) := by
  induction l1 generalizing i acc with
  | nil => simp [lastSepEnd.go]
  | cons b rest ih =>
    simp only [List.cons_append, lastSepEnd.go, List.length_cons]
    rw [ih]
    congr 1
    omega

theorem lastSepEnd_go_sepfree (l : List Nat) (i acc : Nat) (h : sep ∉ l) : lastSepEnd.go l i acc = acc := by
  induction l generalizing i with
  | nil => simp [lastSepEnd.go]
  | cons b rest ih =>
    have hb : b ≠ sep := by intro e; apply h; simp [e]
    have hr : sep ∉ rest := by intro e; apply h; simp [e]
    simp [lastSepEnd.go, hb, ih _ hr]

/-- a path `pre ++ b` whose prefix is empty or ends in a separator and whose last part is separator-free:
the last separator ends where `b` starts -/
theorem lastSepEnd_split (pre b : Path) (hpre : pre = [] ∨ ∃ q, pre = q ++ [sep]) (hb : sep ∉ b) :
    lastSepEnd (pre ++ b) = pre.length := by
  unfold lastSepEnd
  rw [lastSepEnd_go_append, lastSepEnd_go_sepfree _ _ _ hb]
  rcases hpre with rfl | ⟨q, rfl⟩
  · simp [lastSepEnd.go]
  · rw [lastSepEnd_go_append]
    simp [lastSepEnd.go]

theorem stripTrailingSeps_id (p : Path) (x : Nat) (hx : x ≠ sep) : stripTrailingSeps (p ++ [x]) = p ++ [x] := by
  unfold stripTrailingSeps
  simp [List.dropWhile, hx]

/-- `joinSep (init ++ [b])` as a prefix ending in a separator (or nothing) followed by `b` -/
def joinPre (init : List Path) : Path := if init = [] then [] else joinSep init ++ [sep]

theorem joinSep_snoc (init : List Path) (b : Path) : joinSep (init ++ [b]) = joinPre init ++ b := by
  induction init with
  | nil => simp [joinSep, joinPre]
  | cons c cs ih =>
    cases cs with
    | nil => simp [joinSep, joinPre]
    | cons d ds =>
      have : (c :: d :: ds) ++ [b] = c :: (d :: (ds ++ [b])) := by simp
      rw [this, joinSep_cons_cons]
      have h2 : d :: (ds ++ [b]) = (d :: ds) ++ [b] := by simp
      rw [h2, ih]
      simp [joinPre, joinSep_cons_cons, List.append_assoc]

theorem joinPre_shape (init : List Path) : joinPre init = [] ∨ ∃ q, joinPre init = q ++ [sep] := by
  unfold joinPre
  by_cases h : init = []
  · simp [h]
  · right; exact ⟨joinSep init, by simp [h]⟩

theorem baseB_snoc (init : List Path) (b : Path) (hb : b ≠ []) (hs : sep ∉ b) :
    baseB (joinSep (init ++ [b])) = b := by
  rw [joinSep_snoc]
  obtain ⟨b0, x, rfl⟩ : ∃ b0 x, b = b0 ++ [x] := ⟨b.dropLast, b.getLast hb, (List.dropLast_concat_getLast hb).symm⟩
  have hx : x ≠ sep := by intro e; apply hs; simp [e]
  unfold baseB
  have hne : joinPre init ++ (b0 ++ [x]) ≠ [] := by simp
  simp only [hne, if_false]
  have hstrip : stripTrailingSeps (joinPre init ++ (b0 ++ [x])) = joinPre init ++ (b0 ++ [x]) := by
    rw [← List.append_assoc]; exact stripTrailingSeps_id _ x hx
  simp only [hstrip]
  rw [lastSepEnd_split _ _ (joinPre_shape init) hs]
  simp

theorem comps_snoc_sep (p : Path) : comps (p ++ [sep]) = comps p ++ [[]] := by
  induction p with
  | nil => simp [comps]
  | cons b rest ih =>
    simp only [List.cons_append, comps]
    by_cases hb : b = sep
    · simp [hb, ih]
    · simp only [hb, if_false, ih]
      cases hc : comps rest with
      | nil => exact absurd hc (comps_ne_nil rest)
      | cons c cs => simp

theorem cleanComps_append_empty (r : Bool) (cs acc : List Path) :
    cleanComps r acc (cs ++ [[]]) = cleanComps r acc cs := by
  induction cs generalizing acc with
  | nil => simp [cleanComps]
  | cons c cs ih =>
    simp only [List.cons_append, cleanComps]
    split
    · exact ih _
    · split
      · split
        · split <;> exact ih _
        · split <;> exact ih _
      · exact ih _

/-- Clean of a plain path with a trailing separator drops the separator -/
theorem clean_trailing (init : List Path) (hne : init ≠ []) (hp : ∀ c ∈ init, PlainC' c) (hs : ∀ c ∈ init, sep ∉ c) :
    clean (joinSep init ++ [sep]) = joinSep init := by
  obtain ⟨hcl, habs⟩ := clean_of_plain init hne hp hs
  have hjne : joinSep init ≠ [] := by
    intro e; rw [e] at hcl; simp [clean] at hcl
  have habs' : isAbs (joinSep init ++ [sep]) = false := by
    unfold isAbs at habs ⊢
    cases hj : joinSep init with
    | nil => exact absurd hj hjne
    | cons x xs => rw [hj] at habs; simpa using habs
  unfold clean at hcl ⊢
  simp only [hjne, if_false, habs, Bool.false_eq_true] at hcl
  have hne2 : joinSep init ++ [sep] ≠ [] := by simp
  simp only [hne2, if_false, habs', Bool.false_eq_true, comps_snoc_sep, cleanComps_append_empty]
  exact hcl

theorem dirB_snoc (init : List Path) (b : Path) (hp : ∀ c ∈ init, PlainC' c) (hsi : ∀ c ∈ init, sep ∉ c) (hs : sep ∉ b) :
    dirB (joinSep (init ++ [b])) = if init = [] then [dot] else joinSep init := by
  rw [joinSep_snoc]
  unfold dirB
  rw [lastSepEnd_split _ _ (joinPre_shape init) hs]
  simp only [List.take_left']
  by_cases h : init = []
  · simp [h, joinPre, clean]
  · simp only [h, if_false, joinPre]
    exact clean_trailing init h hp hsi

end Fsm
