import FsutilModel.ValidatorMain
namespace Fsm

theorem mem_lt_last {pre : List Ent} (hs : pre.Pairwise (fun a b => compsLt a.path b.path = true))
    (l : Ent) (hl : pre.getLast? = some l) (y : Ent) (hy : y ∈ pre) :
    y.path = l.path ∨ compsLt y.path l.path = true := by
  obtain ⟨init, rfl⟩ : ∃ init, pre = init ++ [l] := by
    have hne : pre ≠ [] := by intro e; subst e; simp at hl
    have h2 : pre.getLast? = some (pre.getLast hne) := List.getLast?_eq_some_getLast hne
    rw [h2] at hl; simp at hl
    exact ⟨pre.dropLast, by rw [← hl]; exact (List.dropLast_concat_getLast hne).symm⟩
  rw [List.pairwise_append] at hs
  simp at hy
  rcases hy with hy | hy
  · right; exact hs.2.2 y hy l (by simp)
  · left; rw [hy]

/-- if an earlier directory entry has the same path as the last entry, it *is* the last entry -/
theorem dir_eq_last {pre : List Ent} (hs : pre.Pairwise (fun a b => compsLt a.path b.path = true))
    (l : Ent) (hl : pre.getLast? = some l) (y : Ent) (hy : y ∈ pre) (hp : y.path = l.path) :
    y.isDir = l.isDir := by
  obtain ⟨init, rfl⟩ : ∃ init, pre = init ++ [l] := by
    have hne : pre ≠ [] := by intro e; subst e; simp at hl
    have h2 : pre.getLast? = some (pre.getLast hne) := List.getLast?_eq_some_getLast hne
    rw [h2] at hl; simp at hl
    exact ⟨pre.dropLast, by rw [← hl]; exact (List.dropLast_concat_getLast hne).symm⟩
  rw [List.pairwise_append] at hs
  simp at hy
  rcases hy with hy | hy
  · have := hs.2.2 y hy l (by simp)
    rw [hp, compsLt_irrefl] at this; cases this
  · rw [hy]

theorem spec_step_accept {st pre} (hinv : Inv st pre) (x : Ent) (hx : PlainPath x.path)
    (hspec : specStep pre x) : ∃ st', step st x = some st' := by
  obtain ⟨hord, hpar⟩ := hspec
  have hpath := path_split x.path hx.1
  have hb : x.path.getLast?.getD [] ≠ [] := by
    apply hx.2
    have hne := hx.1
    have h2 : x.path.getLast? = some (x.path.getLast hne) := List.getLast?_eq_some_getLast hne
    rw [h2]; simp
  -- a frame with dir = d exists
  have hframe : ∃ g ∈ st, g.dir = x.path.dropLast := by
    rcases hpar with hd | ⟨y, hy, hyd, hyp⟩
    · rw [hd]; exact hinv.chain.has_root
    · -- pre nonempty
      have hne : pre ≠ [] := by intro e; subst e; simp at hy
      have hl : pre.getLast? = some (pre.getLast hne) := List.getLast?_eq_some_getLast hne
      have hlt := hord _ hl
      have hle := mem_lt_last hinv.sorted _ hl y hy
      rw [hyp] at hle
      rw [hpath] at hlt
      have hpre : x.path.dropLast <+: (pre.getLast hne).path := prefix_of_between _ _ _ hle hlt
      rw [← hinv.lp _ hl] at hpre
      cases hst : st with
      | nil => exact absurd hst hinv.chain.ne_nil
      | cons t rest =>
        have hc := hinv.chain; rw [hst] at hc
        rw [hst] at hpre
        simp only [lpOf] at hpre
        split at hpre
        · exact hc.prefix_is_frame _ hpre
        · rename_i htl
          rcases List.prefix_concat_iff.mp hpre with he | hp
          · -- d = lp : then the last entry is that directory and was pushed: contradiction with t.last ≠ []
            exfalso
            have hlp := hinv.lp _ hl
            rw [hst] at hlp; simp only [lpOf, htl, if_false] at hlp
            have hsame : y.path = (pre.getLast hne).path := by rw [hyp, he, hlp]
            have hdir := dir_eq_last hinv.sorted _ hl y hy hsame
            have := (hinv.fresh t rest hst).mpr (Or.inr ⟨_, hl, by rw [← hdir]; exact hyd⟩)
            exact htl this
          · exact hc.prefix_is_frame _ hp
  obtain ⟨g, hg, hgd⟩ := hframe
  obtain ⟨fs, hpop, _⟩ := popTo_finds hinv.chain _ g hg hgd
  -- the last-child comparison
  have hlt : strLt g.last (x.path.getLast?.getD []) = true := by
    by_cases hgl : g.last = []
    · rw [hgl]
      cases hbb : x.path.getLast?.getD [] with
      | nil => exact absurd hbb hb
      | cons a t => simp [strLt]
    · have hcp := child_prefix_lp hinv.chain g hg hgl
      -- pre must be nonempty since some frame has last ≠ []
      have hne : pre ≠ [] := by
        intro e
        subst e
        -- with pre = [] all frame dirs are [] so st = [root] and fresh says last = []
        cases hst : st with
        | nil => exact absurd hst hinv.chain.ne_nil
        | cons t rest =>
          have hc := hinv.chain; rw [hst] at hc
          cases hc with
          | root l =>
            rw [hst] at hg; simp at hg; subst hg
            have := (hinv.fresh _ _ hst).mpr (Or.inl rfl)
            exact hgl this
          | push _ g' rest' hdir hne' hc' =>
            have := hinv.opened t (by rw [hst]; simp) (by rw [hdir]; simp)
            obtain ⟨y, hy, _⟩ := this; simp at hy
      have hl : pre.getLast? = some (pre.getLast hne) := List.getLast?_eq_some_getLast hne
      have hlt := hord _ hl
      rw [← hinv.lp _ hl] at hlt
      obtain ⟨u, hu⟩ := hcp
      rw [← hu, hgd, hpath, List.append_assoc] at hlt
      simp only [List.dropLast_concat, List.singleton_append] at hlt
      rw [← hpath] at hlt
      rw [hpath] at hlt
      exact strLt_of_compsLt _ _ _ _ (by simpa using hlt)
  exact ⟨_, (step_some_iff st x _).mpr ⟨g, fs, hpop, hgd, hlt, rfl⟩⟩

end Fsm
