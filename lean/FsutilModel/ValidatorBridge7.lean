import FsutilModel.ValidatorBridge6
/-! Bridge, part 5: `vrun true = specRun` for every change sequence. -/
namespace Fsm

/-- the simulation invariant between the byte-level stack and the component-level one -/
structure Sim (bst : List VFrame) (cst : List Frame) (pre : List Chg) : Prop where
  inv : Inv cst (pre.map toEnt)
  stack : (if bst = [] then [⟨[], []⟩] else bst) = bstOf cst
  frames : ∀ f ∈ cst, PlainComps f.dir
  good : ∀ y ∈ pre, Good y ∧ comps y.path ≠ []

theorem vstep_norm (fixed : Bool) (st : List VFrame) (isDel : Bool) (p : Path) (isDir : Bool) :
    vstep fixed st isDel p isDir = vstep fixed (if st = [] then [⟨[], []⟩] else st) isDel p isDir := by
  by_cases h : st = []
  · subst h; simp [vstep]
  · simp [h]

theorem bstOf_ne_nil {cst : List Frame} (h : cst ≠ []) : bstOf cst ≠ [] := by
  intro e
  have := congrArg List.length e
  rw [bstOf_length] at this
  exact h (List.eq_nil_of_length_eq_zero (by simpa using this))

theorem vrunFrom_eq (cs : List Chg) : ∀ (bst : List VFrame) (cst : List Frame) (pre : List Chg) (i : Nat),
    Sim bst cst pre → vrunFrom true bst i cs = specRunFrom pre i cs := by
  induction cs with
  | nil => intro bst cst pre i _; simp [vrunFrom, specRunFrom]
  | cons c cs ih =>
    intro bst cst pre i hsim
    unfold vrunFrom specRunFrom
    by_cases hcl : cleanRelB c.path = true
    · obtain ⟨⟨hgp, hgj⟩, hgne⟩ := good_of_cleanRel c hcl
      obtain ⟨init, b, hib⟩ := split_last _ hgne
      have hp : PlainComps (init ++ [b]) := hib ▸ hgp
      have hne := hsim.inv.chain.ne_nil
      have hv : vstep true bst c.isDel c.path c.isDir =
          match step cst (toEnt c) with
          | some cst' => .ok (bstOf cst')
          | none => .reject := by
        rw [vstep_norm, hsim.stack, hgj, hib, vstep_eq_vsearch _ (bstOf_ne_nil hne) init b hp,
          vsearch_sim cst hsim.inv.chain hsim.frames init b hp]
        simp only [toEnt, hib]
        rfl
      have hxp : PlainPath (toEnt c).path := by
        refine ⟨by simp [toEnt, hgne], ?_⟩
        intro x hx
        exact (hgp x hx).1.1
      have hspec := specOk_iff pre c hsim.good hcl
      cases hs : step cst (toEnt c) with
      | none =>
        have hno : specOk pre c = false := by
          cases hso : specOk pre c with
          | false => rfl
          | true =>
            obtain ⟨st', h⟩ := spec_step_accept hsim.inv (toEnt c) hxp (hspec.mp hso)
            rw [hs] at h; cases h
        rw [hv, hs]
        simp [hno]
      | some cst' =>
        have hyes : specOk pre c = true := hspec.mpr (step_accept_spec hsim.inv (toEnt c) hxp hs)
        rw [hv, hs]
        simp only [hyes, if_true]
        apply ih (bstOf cst') cst' (pre ++ [c]) (i + 1)
        have hinv' := step_inv hsim.inv (toEnt c) hxp hs
        obtain ⟨f, fs, hpop, _, _, hst'⟩ := (step_some_iff cst (toEnt c) cst').mp hs
        obtain ⟨hfm, hfsm⟩ := popTo_suffix _ f fs hpop
        refine ⟨by simpa using hinv', ?_, ?_, ?_⟩
        · have : bstOf cst' ≠ [] := bstOf_ne_nil hinv'.chain.ne_nil
          simp [this]
        · intro g hg
          rw [hst'] at hg
          have hfpl := hsim.frames f hfm
          by_cases hd : (toEnt c).isDir = true
          · simp only [hd, if_true, List.mem_cons] at hg
            rcases hg with rfl | rfl | hg
            · simp only [toEnt]; exact hgp
            · exact hfpl
            · exact hsim.frames g (hfsm g hg)
          · simp only [hd, Bool.false_eq_true, if_false, List.mem_cons] at hg
            rcases hg with rfl | hg
            · exact hfpl
            · exact hsim.frames g (hfsm g hg)
        · intro y hy
          simp only [List.mem_append, List.mem_singleton] at hy
          rcases hy with hy | rfl
          · exact hsim.good y hy
          · exact ⟨⟨hgp, hgj⟩, hgne⟩
    · have hcl' : cleanRelB c.path = false := by simpa using hcl
      have hno : specOk pre c = false := by simp [specOk, hcl']
      rw [vstep_reject_of_not_cleanRel _ _ _ _ hcl']
      simp [hno]

/-- **The byte-level bridge**: the verbatim transcription of `Validator.HandleChange` (lexical tests on bytes, `filepath.Dir`
and `Base`, `sort.Search` over the stack, `ComparePath`) accepts, and rejects at the same index as, the property's
specification — for every sequence of changes. It never reaches `panic`. -/
theorem vrun_eq_specRun (cs : List Chg) : vrun true cs = specRun cs := by
  unfold vrun specRun
  apply vrunFrom_eq cs [] [⟨[], []⟩] [] 0
  refine ⟨by simpa using inv_init, ?_, ?_, ?_⟩
  · simp [bstOf, toB, joinSep]
  · intro f hf; simp at hf; subst hf; intro c hc; simp at hc
  · intro y hy; simp at hy

end Fsm
