import FsutilModel.DiffMain2
namespace Fsm.D

variable {P : Type} [DecidableEq P] {I : Type} [DecidableEq I]

/-- a valid listing: strictly ascending, every ancestor present as a directory -/
structure Valid (O : PathOrd P) (xs : List (Ent P I)) : Prop where
  sorted : Sorted O xs
  closed : ∀ x ∈ xs, ∀ p, O.under p x.path = true → ∃ d ∈ xs, d.path = p ∧ d.isDir = true

theorem toMap_cons (x : Ent P I) (xs : List (Ent P I)) (q : P) :
    toMap (x :: xs) q = if x.path = q then some x else toMap xs q := by
  simp only [toMap, List.find?_cons]
  by_cases h : x.path = q <;> simp [h]

theorem toMap_none {xs : List (Ent P I)} {q : P} (h : ∀ x ∈ xs, x.path ≠ q) : toMap xs q = none := by
  induction xs with
  | nil => rfl
  | cons x xs ih =>
    rw [toMap_cons]
    have := h x (by simp)
    simp [this]
    exact ih (fun y hy => h y (by simp [hy]))

theorem toMap_some_mem {xs : List (Ent P I)} {q : P} {e : Ent P I} (h : toMap xs q = some e) :
    e ∈ xs ∧ e.path = q := by
  induction xs with
  | nil => simp [toMap] at h
  | cons x xs ih =>
    rw [toMap_cons] at h
    by_cases hx : x.path = q
    · simp [hx] at h; subst h; exact ⟨by simp, hx⟩
    · simp [hx] at h; obtain ⟨h1, h2⟩ := ih h; exact ⟨by simp [h1], h2⟩

theorem toMap_mem {O : PathOrd P} {xs : List (Ent P I)} (hs : Sorted O xs) {e : Ent P I} (he : e ∈ xs) :
    toMap xs e.path = some e := by
  induction xs with
  | nil => simp at he
  | cons x xs ih =>
    rw [toMap_cons]
    simp at he
    rcases he with he | he
    · subst he; simp
    · have hlt := sorted_head hs e he
      have : x.path ≠ e.path := lt_ne O hlt
      simp [this]
      exact ih (sorted_tail hs) he

theorem inv_init {O : PathOrd P} {L U : List (Ent P I)} (hL : Valid O L) (hU : Valid O U) :
    Inv O (toMap U) L U none (toMap L) := by
  refine ⟨?_, ?_, ?_, (by intro d h; cases h), hL.sorted, hU.sorted, ?_, ?_, ?_, ?_⟩
  · intro q hq
    rw [toMap_none (fun x hx e => by have := hq.1 x hx; rw [e, O.lt_irrefl] at this; cases this),
        toMap_none (fun x hx e => by have := hq.2 x hx; rw [e, O.lt_irrefl] at this; cases this)]
  · intro q _ hnl; exact toMap_none hnl
  · intro l hl; left; exact toMap_mem hL.sorted hl
  · intro u hu; exact toMap_mem hU.sorted hu
  · intro q e h; left; obtain ⟨h1, h2⟩ := toMap_some_mem h; exact ⟨e, h1, h2⟩
  · intro x hx p hp; left; exact hU.closed x hx p hp
  · intro x hx p hp; left; exact hL.closed x hx p hp

/-- C01-T1 at tree level: applying the emitted changes to the old listing yields the new one -/
theorem diff_converges (O : PathOrd P) (fc : Bool) (L U : List (Ent P I)) (hL : Valid O L) (hU : Valid O U) :
    ∀ q, (diff O fc (L.length + U.length + 1) L U none).foldl (applyEv O) (toMap L) q = toMap U q :=
  diff_fold O fc (toMap U) _ L U none (toMap L) (by omega) (inv_init hL hU)

/-- C02-T3: a re-sync of an unchanged tree emits nothing (any sufficient fuel, any rmdir state) -/
theorem resync_is_silent (O : PathOrd P) : ∀ (L : List (Ent P I)) (n : Nat) (rm : Option P),
    L.length + L.length < n → diff O false n L L rm = [] := by
  intro L
  induction L with
  | nil => intro n rm h; cases n with
    | zero => omega
    | succ n => simp [diff]
  | cons x xs ih =>
    intro n rm h
    cases n with
    | zero => omega
    | succ n =>
      have hsame : same x x = true := by simp [same]
      simp only [diff, O.lt_irrefl, hsame, if_true, Bool.not_false, Bool.true_and]
      simp
      exact ih n _ (by simp at h; omega)

end Fsm.D
