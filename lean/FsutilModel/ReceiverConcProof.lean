import FsutilModel.Model.ReceiverConc
/-! Liveness of the receiver after the stream is torn down (C04): no deadlock, a variant bounding the remaining steps,
the invariant, and the stuck state of a feeder that leaves without closing `closeCh`. -/
namespace Fsm.RC

/-- every step of every goroutine decreases the variant (whatever the flag, whatever the capacities) -/
theorem step_decreases (fixed : Bool) (capW capC : Nat) (s s' : St) (t : Tid) (env : Env)
    (h : step fixed capW capC s t env = some s') : mu s' < mu s := by
  cases t with
  | p =>
    cases hp : s.p with
    | exited => simp [step, hp] at h
    | recv =>
      simp only [step, hp] at h
      split at h
      · cases h; simp [mu, hp, pW]
      · cases env <;> simp only [] at h
        · split at h
          · rename_i hc; cases h; simp [mu, hp, pW]; omega
          · cases h
        · split at h
          · split at h
            · cases h; simp [mu, hp, pW]
            · rename_i hc _; cases h
              have : s.endSent = false := by simpa using hc.2
              simp [mu, hp, pW, this]
          · cases h
        · cases h; simp [mu, hp, pW]
        · cases h
        · cases h
    | upd =>
      simp only [step, hp] at h
      split at h
      · cases h; simp [mu, hp, pW]
      · split at h
        · cases h; simp [mu, hp, pW]; omega
        · cases h
  | f =>
    cases hf : s.f with
    | exited => simp [step, hf] at h
    | wait =>
      simp only [step, hf] at h
      split at h
      · cases h; simp [mu, hf, fW]
      · split at h
        · rename_i hq; cases h; simp [mu, hf, fW]; omega
        · split at h
          · cases h; simp [mu, hf, fW]
          · cases h
    | push =>
      simp only [step, hf] at h
      split at h
      · cases h; simp [mu, hf, fW]
      · split at h
        · cases h; simp [mu, hf, fW]; omega
        · cases h
  | d =>
    cases hd : s.d with
    | exited => simp [step, hd] at h
    | diff =>
      simp only [step, hd] at h
      split at h
      · cases h; simp [mu, hd, dW]
      · split at h
        · rename_i hq
          cases env <;> simp only [] at h <;> cases h <;> simp [mu, hd, dW] <;> omega
        · split at h
          · cases h; simp [mu, hd, dW]
          · cases h
    | wait =>
      simp only [step, hd] at h
      split at h
      · cases h; simp [mu, hd, dW]
      · split at h
        · cases h; simp [mu, hd, dW]
        · cases h
    | fin =>
      simp only [step, hd] at h
      cases h; simp [mu, hd, dW]
  | writer =>
    simp only [step] at h
    split at h
    · cases h
    · rename_i hw
      split at h
      · cases h; simp [mu]; omega
      · split at h
        · cases h; simp [mu]; omega
        · cases env <;> simp only [] at h <;> cases h
          simp [mu]; omega


/-- **No deadlock after teardown** (repaired receiver): in every well-formed state in which the stream is torn down and
some goroutine is still alive, some goroutine can take a step — whatever the channels hold, for all capacities ≥ 1. -/
theorem teardown_progress (capW capC : Nat) (hW : 0 < capW) (hC : 0 < capC) (s : St) (hwf : WF s)
    (ht : s.torn = true) (hnd : allDone s = false) :
    ∃ t env, (step true capW capC s t env).isSome = true := by
  cases hp : s.p with
  | recv => exact ⟨.p, .fail, by simp [step, hp, ht]⟩
  | upd =>
    by_cases hcc : s.closeCh = true
    · exact ⟨.p, .fail, by simp [step, hp, hcc]⟩
    · by_cases hroom : s.wq < capW
      · exact ⟨.p, .fail, by simp [step, hp, hcc, hroom]⟩
      · -- walkChan full, closeCh open: the feeder is alive (it cannot have left without closing closeCh)
        cases hf : s.f with
        | exited =>
          rcases hwf.fExit hf with h | ⟨_, h⟩
          · exact absurd h hcc
          · omega
        | wait =>
          have hq : s.wq > 0 := by omega
          by_cases hc : s.cancelled = true
          · exact ⟨.f, .alt, by simp [step, hf, hc]⟩
          · exact ⟨.f, .fail, by simp [step, hf, hc, hq]⟩
        | push =>
          by_cases hc : s.cancelled = true
          · exact ⟨.f, .alt, by simp [step, hf, hc]⟩
          · by_cases hcq : s.cq < capC
            · exact ⟨.f, .fail, by simp [step, hf, hc, hcq]⟩
            · -- the differ's channel is full and nothing is cancelled: the differ is in its loop and consumes
              have hd : s.d = .diff := by
                by_cases hd : s.d = .diff
                · exact hd
                · rcases hwf.dLeft hd with h | ⟨h, _⟩
                  · exact absurd h hc
                  · have := hwf.c2.mp h; rw [hf] at this; cases this
              have hq : s.cq > 0 := by omega
              exact ⟨.d, .fail, by simp [step, hd, hc, hq]⟩
  | exited =>
    have hc := hwf.pExit hp
    cases hf : s.f with
    | wait => exact ⟨.f, .alt, by simp [step, hf, hc]⟩
    | push => exact ⟨.f, .alt, by simp [step, hf, hc]⟩
    | exited =>
      cases hd : s.d with
      | diff => exact ⟨.d, .fail, by simp [step, hd, hc]⟩
      | wait => exact ⟨.d, .fail, by simp [step, hd, hc]⟩
      | fin => exact ⟨.d, .fail, by simp [step, hd]⟩
      | exited =>
        have hw : s.writers ≠ 0 := by
          intro h0; simp [allDone, hp, hf, hd, h0] at hnd
        exact ⟨.writer, .fail, by simp [step, hw, ht]⟩

theorem wf_init (n : Nat) : WF (init n) := by
  refine ⟨?_, ?_, ?_, ?_, ?_, ?_, ?_⟩ <;> simp [init]

macro "wf_leaf" : tactic =>
  `(tactic| (refine ⟨?_, ?_, ?_, ?_, ?_, ?_, ?_⟩ <;> simp_all <;> omega))

/-- the invariant is preserved by every step of the repaired receiver -/
theorem wf_step (capW capC : Nat) (s s' : St) (t : Tid) (env : Env) (hwf : WF s)
    (h : step true capW capC s t env = some s') : WF s' := by
  obtain ⟨h1, h2, h3, h4, h5, h6, h7⟩ := hwf
  cases t with
  | p =>
    cases hp : s.p with
    | exited => simp [step, hp] at h
    | recv =>
      simp only [step, hp] at h
      split at h
      · cases h; wf_leaf
      · cases env <;> simp only [] at h
        · split at h
          · cases h; wf_leaf
          · cases h
        · split at h
          · split at h
            · cases h; wf_leaf
            · cases h; wf_leaf
          · cases h
        · cases h; wf_leaf
        · cases h
        · cases h
    | upd =>
      simp only [step, hp] at h
      split at h
      · cases h; wf_leaf
      · split at h
        · cases h; wf_leaf
        · cases h
  | f =>
    cases hf : s.f with
    | exited => simp [step, hf] at h
    | wait =>
      simp only [step, hf] at h
      split at h
      · cases h; wf_leaf
      · split at h
        · cases h; wf_leaf
        · split at h
          · cases h; wf_leaf
          · cases h
    | push =>
      simp only [step, hf] at h
      split at h
      · cases h; wf_leaf
      · split at h
        · cases h; wf_leaf
        · cases h
  | d =>
    cases hd : s.d with
    | exited => simp [step, hd] at h
    | diff =>
      simp only [step, hd] at h
      split at h
      · cases h; wf_leaf
      · split at h
        · cases env <;> simp only [] at h <;> cases h <;> wf_leaf
        · split at h
          · cases h; wf_leaf
          · cases h
    | wait =>
      simp only [step, hd] at h
      split at h
      · cases h; wf_leaf
      · split at h
        · cases h; wf_leaf
        · cases h
    | fin =>
      simp only [step, hd] at h
      cases h; wf_leaf
  | writer =>
    simp only [step] at h
    split at h
    · cases h
    · split at h
      · cases h; wf_leaf
      · split at h
        · cases h; wf_leaf
        · cases env <;> simp only [] at h <;> cases h
          wf_leaf


/-! ### the stuck state of a feeder that leaves without closing `closeCh` -/

def runTrace (fixed : Bool) (capW capC : Nat) : St → List (Tid × Env) → Option St
  | s, [] => some s
  | s, (t, e) :: rest => match step fixed capW capC s t e with
    | some s' => runTrace fixed capW capC s' rest
    | none => none

def allTids : List Tid := [.p, .f, .d, .writer]
def allEnvs : List Env := [.stat, .endm, .fail, .alt, .req]

/-- no goroutine can take a step, whatever the environment offers -/
def stuck (fixed : Bool) (capW capC : Nat) (s : St) : Bool :=
  allTids.all fun t => allEnvs.all fun e => (step fixed capW capC s t e).isNone

/-- a schedule of the unrepaired receiver (channel capacities 1, four entries announced): the channels fill up, a callback
fails, the feeder sees the cancellation while handing an entry to the differ and leaves -/
def badSchedule : List (Tid × Env) :=
  [(.p, .stat), (.p, .stat), (.f, .stat), (.f, .stat), (.p, .stat), (.p, .stat), (.f, .stat), (.p, .stat), (.p, .stat),
   (.d, .fail), (.f, .alt), (.p, .stat)]

/-- **Kernel-checked**: the unrepaired feeder can leave the packet reader blocked forever - after the schedule above the
stream is torn down, the reader is still alive, and nothing can ever move again. -/
theorem unrepaired_feeder_can_block_forever :
    (match runTrace false 1 1 (init 4) badSchedule with
     | some s => !allDone { s with torn := true } && stuck false 1 1 { s with torn := true }
     | none => false) = true := by
  decide

/-- the same schedule on the repaired receiver does not end in a stuck state -/
theorem repaired_feeder_same_schedule :
    (match runTrace true 1 1 (init 4) badSchedule with
     | some s => !stuck true 1 1 { s with torn := true }
     | none => false) = true := by
  decide

end Fsm.RC
