import FsutilModel.DiffMain
namespace Fsm.D

variable {P : Type} [DecidableEq P] {I : Type} [DecidableEq I]

theorem popU_add {O : PathOrd P} {tU : TMap P I} {u : Ent P I} {ls us : List (Ent P I)} {rm : Option P}
    {t : TMap P I} (hi : Inv O tU ls (u :: us) rm t)
    (hlt : ∀ l ∈ ls, O.lt u.path l.path = true) :
    Inv O tU ls us none (applyEv O t (.add u)) := by
  have hnone : t u.path = none := by
    apply hi.pnone
    · intro h; have := h.2 u (by simp); rw [O.lt_irrefl] at this; cases this
    · intro l hl e; exact lt_ne O (hlt l hl) e.symm
  apply inv_popU hi hlt
  · intro q hq; rw [applyEv_add]; simp [hq, hnone]
  · rw [applyEv_add]; simp

theorem ent_ext {a b : Ent P I} (h1 : a.path = b.path) (h2 : same a b = true) : a = b := by
  cases a; cases b
  simp [same] at h2
  simp at h1
  simp [h1, h2.1, h2.2]

theorem top_is_l {O : PathOrd P} {tU : TMap P I} {l u : Ent P I} {ls us : List (Ent P I)} {rm : Option P}
    {t : TMap P I} (hi : Inv O tU (l :: ls) (u :: us) rm t) (hp : l.path = u.path) :
    t u.path = some l := by
  rcases hi.pl l (by simp) with h | ⟨_, h2⟩
  · rw [← hp]; exact h
  · exact absurd hp.symm (h2 u (by simp))

theorem popB_same {O : PathOrd P} {tU : TMap P I} {l u : Ent P I} {ls us : List (Ent P I)} {rm : Option P}
    {t : TMap P I} (hi : Inv O tU (l :: ls) (u :: us) rm t) (hp : l.path = u.path)
    (hs : same l u = true) : Inv O tU ls us none t := by
  have hlu := ent_ext hp hs
  apply inv_popB hi hp
  · intro q _; rfl
  · rw [top_is_l hi hp, hlu]
  · intro q hq _; exact hq
  · intro l' _; left; rfl
  · intro d' h; cases h

theorem popB_modify {O : PathOrd P} {tU : TMap P I} {l u : Ent P I} {ls us : List (Ent P I)} {rm : Option P}
    {t : TMap P I} (hi : Inv O tU (l :: ls) (u :: us) rm t) (hp : l.path = u.path) :
    Inv O tU ls us (if (l.isDir && !u.isDir) = true then some l.path else none)
      (applyEv O t (.modify u)) := by
  have htop := top_is_l hi hp
  apply inv_popB hi hp
  · intro q hq
    rw [applyEv_modify]
    have h1 : q ≠ u.path := lt_ne O hq
    have h2 : O.under u.path q = false := by
      cases h : O.under u.path q with
      | false => rfl
      | true => have := O.under_lt _ _ h; rw [lt_asymm O hq] at this; cases this
    simp [h1, h2]
  · rw [applyEv_modify]; simp
  · intro q hq hne; rw [applyEv_modify]; simp only [hne, if_false]; split <;> simp [hq]
  · intro l' hl'
    rw [applyEv_modify, htop]
    have hne : l'.path ≠ u.path := by
      rw [← hp]; exact fun e => lt_ne O (sorted_head hi.sL l' hl') e.symm
    simp only [hne, if_false]
    by_cases hu : O.under u.path l'.path = true
    · by_cases hsw : (l.isDir != u.isDir) = true
      · right; refine ⟨by simp [hu, hsw], hu, ?_⟩
        simpa using hsw
      · left; simp [hu, hsw]
    · left; simp [hu]
  · intro d' hd' l' hl' hu
    by_cases hc : (l.isDir && !u.isDir) = true
    · simp only [hc, if_true, Option.some.injEq] at hd'
      subst hd'
      rw [applyEv_modify, htop]
      have hne : l'.path ≠ u.path := by
        rw [← hp]; exact fun e => lt_ne O (sorted_head hi.sL l' hl') e.symm
      rw [hp] at hu
      have hsw : (l.isDir != u.isDir) = true := by
        simp at hc; simp [hc.1, hc.2]
      simp [hne, hu, hsw]
    · simp [hc] at hd'

theorem diff_fold (O : PathOrd P) (fc : Bool) (tU : TMap P I) :
    ∀ n ls us rm t, ls.length + us.length < n → Inv O tU ls us rm t →
      ∀ q, (diff O fc n ls us rm).foldl (applyEv O) t q = tU q := by
  intro n
  induction n with
  | zero => intro ls us rm t h; omega
  | succ n ih =>
    intro ls us rm t hn hi q
    cases ls with
    | nil =>
      cases us with
      | nil =>
        simp only [diff, List.foldl_nil]
        exact hi.done_ q ⟨by simp, by simp⟩
      | cons u us =>
        simp only [diff, List.foldl_cons]
        exact ih [] us none _ (by simp at hn ⊢; omega) (popU_add hi (by simp)) q
    | cons l ls =>
      cases us with
      | nil =>
        simp only [diff]
        exact popL_branch hi (by simp) (fun ls' rm' => diff O fc n ls' [] rm')
          (fun rm' t' hi' q' => ih ls [] rm' t' (by simp at hn ⊢; omega) hi' q') q
      | cons u us =>
        simp only [diff]
        by_cases h1 : O.lt l.path u.path = true
        · simp only [h1, if_true]
          have hlt : ∀ x ∈ u :: us, O.lt l.path x.path = true := by
            intro x hx; simp at hx; rcases hx with hx | hx
            · subst hx; exact h1
            · exact O.lt_trans _ _ _ h1 (sorted_head hi.sU x hx)
          exact popL_branch hi hlt (fun ls' rm' => diff O fc n ls' (u :: us) rm')
            (fun rm' t' hi' q' => ih ls (u :: us) rm' t' (by simp at hn ⊢; omega) hi' q') q
        · simp only [h1, if_false]
          by_cases h2 : O.lt u.path l.path = true
          · simp only [h2, if_true, List.foldl_cons]
            have hlt : ∀ x ∈ l :: ls, O.lt u.path x.path = true := by
              intro x hx; simp at hx; rcases hx with hx | hx
              · subst hx; exact h2
              · exact O.lt_trans _ _ _ h2 (sorted_head hi.sL x hx)
            exact ih (l :: ls) us none _ (by simp at hn ⊢; omega) (popU_add hi hlt) q
          · simp only [h2, if_false]
            have hp : l.path = u.path := by
              rcases O.lt_total l.path u.path with h | h | h
              · exact h
              · exact absurd h h1
              · exact absurd h h2
            by_cases hs : (!fc && same l u) = true
            · simp only [hs, if_true]
              have hs : same l u = true := by simp at hs; exact hs.2
              have hrm : (if (l.isDir && !u.isDir) = true then some l.path else none) = (none : Option P) := by
                have := ent_ext hp hs; subst this; simp
              rw [hrm]
              exact ih ls us none t (by simp at hn ⊢; omega) (popB_same hi hp hs) q
            · simp only [hs, if_false, List.foldl_cons]
              exact ih ls us _ _ (by simp at hn ⊢; omega) (popB_modify hi hp) q

end Fsm.D
