import FsutilModel.Props.C12
import FsutilModel.Model.RecvProto
import FsutilModel.Lemmas.C03Anc
import FsutilModel.Lemmas.C03Link
/-! # C03 — Receiver containment -/
namespace Fsm.C03

/-- A path that passes the (repaired) lexical test of the validator consists of plain components only:
non-empty, separator-free, neither "." nor "..". Joined below the destination it therefore names a
strict descendant of the destination, lexically. -/
theorem accepted_path_is_plain (p : Path) (h : isCleanRel true p) :
    ∃ cs, PlainList cs ∧ p = joinSep cs :=
  (isCleanRel_iff_plain p).mp h

/-- The hard-link admission check only lets a link through whose name is an earlier admitted
non-directory, non-symlink entry without link name. -/
theorem link_source_was_sent (seen seen' : List Path) (s : StatE) (h : R.hardlinkStep seen s = some seen')
    (hl : s.linkname ≠ []) (hd : s.isDir = false) (hs : s.isSymlink = false) : s.linkname ∈ seen := by
  unfold R.hardlinkStep at h
  simp only [hd, hs, Bool.or_self, Bool.false_eq_true, if_false, hl, ne_eq, not_false_eq_true, if_true] at h
  split at h
  · rename_i hc; simpa using hc
  · cases h

/-- F1 witness kept: the unrepaired model accepts STAT ".." -/
theorem dotdot_was_accepted : vrun false [⟨false, dd, true⟩] = .accept := by decide

/-- **No component of an accepted path is of the peer's making, except as a directory**: in a sequence the repaired
validator accepts (verbatim `HandleChange`, every length, any byte strings), every ancestor path of every entry - its parent,
the parent's parent, … up to the top level - was announced EARLIER in the same sequence as a directory (and not deleted).
`C03A.Anc q p`: `q` is reached from `p` by iterating `filepath.Dir`. -/
theorem every_component_is_an_announced_directory (cs : List Chg) (h : vrun true cs = .accept)
    (pre : List Chg) (x : Chg) (post : List Chg) (hs : cs = pre ++ x :: post) (q : Path) (hq : C03A.Anc q x.path) :
    ∃ y ∈ pre, y.path = q ∧ y.isDir = true ∧ y.isDel = false :=
  C03A.ancestors_announced cs h pre.length pre x post rfl hs q hq

/-- … and an accepted sequence announces no path twice (it is strictly ascending), so the directory found above is the only
entry the peer ever announced at that path: a stream cannot first announce `a/` and `a/b` and then turn `a` into a symlink. -/
theorem nothing_is_announced_twice (cs : List Chg) (h : vrun true cs = .accept)
    (pre : List Chg) (x : Chg) (post : List Chg) (hs : cs = pre ++ x :: post) : ∀ y ∈ pre, y.path ≠ x.path :=
  C03A.announced_once cs h pre x post hs

/-- the premises are met by `a/`, `a/b/`, `a/b/c`, and `a` is an ancestor of `a/b/c` in the sense of the statement -/
example : vrun true [⟨false, [97], true⟩, ⟨false, [97, 47, 98], true⟩, ⟨false, [97, 47, 98, 47, 99], false⟩] = .accept ∧
    C03A.Anc [97] [97, 47, 98, 47, 99] := by
  refine ⟨by decide, ?_⟩
  have h1 : parentOf [97, 47, 98, 47, 99] = [97, 47, 98] := by decide
  have h2 : parentOf [97, 47, 98] = [97] := by decide
  refine C03A.Anc.up _ _ (by decide) ?_
  rw [h1]
  have := C03A.Anc.parent [97, 47, 98] (by decide)
  rwa [h2] at this

/-- … and the validator rejects the sequence that puts an entry below a symlink (a non-directory) it announced -/
example : vrun true [⟨false, [97], false⟩, ⟨false, [97, 47, 98], false⟩] = .rejectAt 1 := by decide

/-- **Hard links over a whole stream**: if the hard-link check lets a stream pass (`C03L.hlRun`: `Hardlinks.HandleChange` applied to
every STAT in order), every hard-link entry of the stream names an entry that was announced STRICTLY EARLIER as a plain file - not a
directory, not a symlink, itself without a link name. An entry that names itself, a later entry, a symlink or another link does not pass. -/
theorem hard_link_names_an_earlier_plain_file (es : List StatE) (r : List Path) (h : C03L.hlRun [] es = some r)
    (pre : List StatE) (s : StatE) (post : List StatE) (hsp : es = pre ++ s :: post)
    (hd : s.isDir = false) (hs : s.isSymlink = false) (hl : s.linkname ≠ []) :
    ∃ y ∈ pre, y.path = s.linkname ∧ C03L.Plain y := by
  simpa using C03L.link_source_strictly_earlier es [] [] r (by simp) h pre s post hsp hd hs hl

/-- a file followed by a link to it passes; an entry that names itself does not (kernel-checked) -/
example :
    let f (p l : Path) : StatE := ⟨p, 420, 0, 0, 0, 0, l, 0, 0, []⟩
    (C03L.hlRun [] [f [97] [], f [98] [97]]).isSome = true ∧ C03L.hlRun [] [f [97] [97]] = none ∧
      C03L.hlRun [] [f [97] [98], f [98] []] = none := by
  decide

end Fsm.C03
