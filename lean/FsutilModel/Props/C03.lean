import FsutilModel.Props.C12
import FsutilModel.Model.RecvProto
/-! # C03 — Receiver containment -/
namespace Fsm.C03

/-- A path that passes the (repaired) lexical test of the validator consists of plain components only:
non-empty, separator-free, neither "." nor "..". Joined below the destination it therefore names a
strict descendant of the destination, lexically. -/
theorem accepted_path_is_plain (p : Path) (h : isCleanRel true p) :
    ∃ cs, PlainList cs ∧ p = joinSep cs :=
  (isCleanRel_iff_plain p).mp h

/-- The hard-link admission check only lets a link through whose name is an earlier admitted
non-directory, non-symlink entry without link name. -/
theorem link_source_was_sent (seen seen' : List Path) (s : StatE) (h : R.hardlinkStep seen s = some seen')
    (hl : s.linkname ≠ []) (hd : s.isDir = false) (hs : s.isSymlink = false) : s.linkname ∈ seen := by
  unfold R.hardlinkStep at h
  simp only [hd, hs, Bool.or_self, Bool.false_eq_true, if_false, hl, ne_eq, not_false_eq_true, if_true] at h
  split at h
  · rename_i hc; simpa using hc
  · cases h

/-- F1 witness kept: the unrepaired model accepts STAT ".." -/
theorem dotdot_was_accepted : vrun false [⟨false, dd, true⟩] = .accept := by decide

end Fsm.C03
