import FsutilModel.Model.CopyB
import FsutilModel.Lemmas.C13Mode
import FsutilModel.Lemmas.C17Perm
/-! # C13 — copy preserves metadata / applies the requested options (entry level) -/
namespace Fsm.C13
open C

/-- Without options the metadata a copied entry ends up with is the source's: mode incl. special bits,
owner, xattrs; and its mtime is the source's mtime. -/
theorem no_options_preserves (src : StatE) (dst src' : Path) :
    let a : Args := { src := src', dst := dst }
    (applyInfo a src []).1 = { src with xattrs := src.xattrs ++ [] } ∧ (applyInfo a src []).2 = some src.mtime := by
  simp [applyInfo]

/-- With the chown option every copied entry carries the requested owner. -/
theorem chown_option (a : Args) (u g : Nat) (h : a.chown = some (u, g)) (src : StatE) (ex : List (Path × Path)) :
    (applyInfo a src ex).1.uid = u ∧ (applyInfo a src ex).1.gid = g := by
  simp [applyInfo, h]

/-- With the utime option every copied entry carries the requested timestamp. -/
theorem utime_option (a : Args) (t : Int) (h : a.utime = some t) (src : StatE) (ex : List (Path × Path)) :
    (applyInfo a src ex).2 = some t := by
  simp [applyInfo, h]

/-- The mode option never changes a symlink (symlinks excepted) and replaces exactly the permission /
special bits of every other entry. -/
theorem mode_option_symlink (a : Args) (src : StatE) (ex : List (Path × Path)) (hs : src.isSymlink = true) :
    (applyInfo a src ex).1.mode = src.mode := by
  simp [applyInfo, hs]

theorem mode_option_other (a : Args) (m : Nat) (hm : a.mode = some m) (hms : a.modeStr = none) (src : StatE) (ex : List (Path × Path)) (hs : src.isSymlink = false) :
    (applyInfo a src ex).1.mode = (src.mode &&& (4294967295 - permMask)) ||| goPermOfUnix m := by
  simp [applyInfo, hs, hm, hms]

/-- The octal mode option replaces **exactly** the permission and special bits: the permission/setuid/
setgid/sticky bits of the copied entry are those requested, and every other bit (the entry type) is
the source's — for every source mode and every requested mode. -/
theorem mode_option_sets_exactly_perm_bits (a : Args) (m : Nat) (hm : a.mode = some m) (hms : a.modeStr = none) (src : StatE)
    (ex : List (Path × Path)) (hs : src.isSymlink = false) :
    (applyInfo a src ex).1.mode &&& permMask = goPermOfUnix m ∧
    (applyInfo a src ex).1.mode &&& typeMask = src.mode &&& typeMask := by
  rw [mode_option_other a m hm hms src ex hs]
  exact set_perm_bits src.mode (goPermOfUnix m) (goPerm_within_mask m)

/-- asking for the mode an entry already has (its own bits, as unix bits) changes nothing below 2^32 -/
theorem mode_option_with_own_bits (m : Nat) : goPermOfUnix (T.unixPerm m) = m &&& permMask :=
  perm_round_trip m

/-- Under **every** option combination the options touch only their own field: name, link target,
size and device numbers of a copied entry are the source's, whatever chown / mode / utime say. -/
theorem options_keep_identity_fields (a : Args) (src : StatE) (ex : List (Path × Path)) :
    (applyInfo a src ex).1.path = src.path ∧ (applyInfo a src ex).1.linkname = src.linkname ∧
    (applyInfo a src ex).1.size = src.size ∧ (applyInfo a src ex).1.devmajor = src.devmajor ∧
    (applyInfo a src ex).1.devminor = src.devminor := by
  simp [applyInfo]

/-- Every option that is absent leaves its field as the source has it, whatever the other options are. -/
theorem absent_option_preserves (a : Args) (src : StatE) (ex : List (Path × Path)) :
    (a.chown = none → (applyInfo a src ex).1.uid = src.uid ∧ (applyInfo a src ex).1.gid = src.gid) ∧
    (a.mode = none → a.modeStr = none → (applyInfo a src ex).1.mode = src.mode) ∧
    (a.utime = none → (applyInfo a src ex).2 = some src.mtime) := by
  refine ⟨fun h => ?_, fun h1 h2 => ?_, fun h => ?_⟩
  · simp [applyInfo, h]
  · by_cases hs : src.isSymlink = true <;> simp [applyInfo, h1, h2, hs]
  · simp [applyInfo, h]

/-- The extended attributes of a copied entry do not depend on the options: every source attribute is
carried, and an attribute the destination already had survives exactly when the source has no
attribute of that name. -/
theorem xattrs_source_wins (a : Args) (src : StatE) (ex : List (Path × Path)) (kv : Path × Path) :
    kv ∈ (applyInfo a src ex).1.xattrs ↔ kv ∈ src.xattrs ∨ (kv ∈ ex ∧ ∀ s ∈ src.xattrs, s.1 ≠ kv.1) := by
  simp [applyInfo, List.mem_append, List.mem_filter]

/-- non-vacuity: chown + utime + mode together on a regular file, an attribute of the destination kept -/
example : applyInfo { src := [], dst := [], chown := some (5, 6), utime := some 9, mode := some 420 }
    { path := [97], mode := 493, uid := 1, gid := 2, size := 3, mtime := 4, linkname := [], devmajor := 0, devminor := 0,
      xattrs := [([1], [2])] } [([1], [9]), ([3], [4])] =
    ({ path := [97], mode := 420, uid := 5, gid := 6, size := 3, mtime := 4, linkname := [], devmajor := 0, devminor := 0,
       xattrs := [([1], [2]), ([3], [4])] }, some 9) := by decide

end Fsm.C13
