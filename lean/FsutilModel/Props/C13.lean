import FsutilModel.Model.CopyB
/-! # C13 — copy preserves metadata / applies the requested options (entry level) -/
namespace Fsm.C13
open C

/-- Without options the metadata a copied entry ends up with is the source's: mode incl. special bits,
owner, xattrs; and its mtime is the source's mtime. -/
theorem no_options_preserves (src : StatE) (dst src' : Path) :
    let a : Args := { src := src', dst := dst }
    (applyInfo a src []).1 = { src with xattrs := src.xattrs ++ [] } ∧ (applyInfo a src []).2 = some src.mtime := by
  simp [applyInfo]

/-- With the chown option every copied entry carries the requested owner. -/
theorem chown_option (a : Args) (u g : Nat) (h : a.chown = some (u, g)) (src : StatE) (ex : List (Path × Path)) :
    (applyInfo a src ex).1.uid = u ∧ (applyInfo a src ex).1.gid = g := by
  simp [applyInfo, h]

/-- With the utime option every copied entry carries the requested timestamp. -/
theorem utime_option (a : Args) (t : Int) (h : a.utime = some t) (src : StatE) (ex : List (Path × Path)) :
    (applyInfo a src ex).2 = some t := by
  simp [applyInfo, h]

/-- The mode option never changes a symlink (symlinks excepted) and replaces exactly the permission /
special bits of every other entry. -/
theorem mode_option_symlink (a : Args) (src : StatE) (ex : List (Path × Path)) (hs : src.isSymlink = true) :
    (applyInfo a src ex).1.mode = src.mode := by
  simp [applyInfo, hs]

theorem mode_option_other (a : Args) (m : Nat) (hm : a.mode = some m) (hms : a.modeStr = none) (src : StatE) (ex : List (Path × Path)) (hs : src.isSymlink = false) :
    (applyInfo a src ex).1.mode = (src.mode &&& (4294967295 - permMask)) ||| goPermOfUnix m := by
  simp [applyInfo, hs, hm, hms]

end Fsm.C13
