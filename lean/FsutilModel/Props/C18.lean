import FsutilModel.Model.FollowLinks
import FsutilModel.Lex
import FsutilModel.Lemmas.C18
import FsutilModel.Lemmas.C18Fuel
/-! # C18 — FollowLinks: shape of the result (sorted, prefix-free, root rule) and de-duplication -/
namespace Fsm.C18
open FL

/-- F4 witness (kernel-checked): after the bytewise sort `a`, `a.txt`, `a/b` the de-duplication as it
stood compares only with the previous element and keeps `a/b` although `a` is kept. -/
theorem dedupe_not_prefix_free_unrepaired :
    dedupePaths false [[97], [97, 46, 116, 120, 116], [97, 47, 98]] = some [[97], [97, 46, 116, 120, 116], [97, 47, 98]] := by
  decide

/-- the repaired version drops it -/
theorem dedupe_repaired_witness :
    dedupePaths true [[97], [97, 46, 116, 120, 116], [97, 47, 98]] = some [[97], [97, 46, 116, 120, 116]] := by
  decide

theorem dedupe_prefix_free (l r : List Path) (hs : l.Pairwise (fun a b => strLt a b = true))
    (h : dedupePaths true l = some r) : ∀ a ∈ r, ∀ b ∈ r, ¬ (a ++ [47]) <+: b :=
  dedupe_go_prefix_free l [] [] r hs (by simp) (by simp) h

theorem sortBytes_sorted (l : List Path) : SortedB (sortBytes l) := by
  unfold sortBytes
  suffices h : ∀ acc, SortedB acc → SortedB (l.foldl (fun acc x => insertSortedB x acc) acc) from h [] (by simp [SortedB])
  induction l with
  | nil => intro acc h; simpa using h
  | cons x xs ih => intro acc h; simp only [List.foldl_cons]; exact ih _ (insertSortedB_sorted x acc h)

theorem dedupe_sorted (fixed : Bool) (l r : List Path) (hs : SortedB l) (h : dedupePaths fixed l = some r) : SortedB r := by
  obtain ⟨k, hk, hsub⟩ := dedupe_go_sublist fixed l [] [] r h
  simp at hk
  subst hk
  exact hs.sublist hsub

/-- **Shape of every FollowLinks result** (transcribed resolver, repaired de-duplication): for every tree, every request
list and every fuel the result is bytewise sorted, and no element is inside another. -/
theorem followLinks_sorted_prefix_free (l : List Ent) (paths : List Path) (fuel : Nat) (r : List Path)
    (h : followLinks true l paths fuel = some r) :
    SortedB r ∧ ∀ a ∈ r, ∀ b ∈ r, ¬ (a ++ [47]) <+: b := by
  unfold followLinks at h
  exact ⟨dedupe_sorted true _ r (sortBytes_sorted _) h, dedupe_prefix_free _ r (sortBytes_sorted _) h⟩

/-- the result is "everything" (no list) exactly when the root itself was resolved -/
theorem dedupe_none_iff_root (fixed : Bool) (l : List Path) : dedupePaths fixed l = none ↔ [dot] ∈ l := by
  unfold dedupePaths
  suffices h : ∀ (l : List Path) (last : Path) (out : List Path), dedupePaths.go fixed l last out = none ↔ [dot] ∈ l from h l [] []
  intro l
  induction l with
  | nil => intro last out; simp [dedupePaths.go]
  | cons s rest ih =>
    intro last out
    simp only [dedupePaths.go]
    split
    · rename_i hs; simp [hs]
    · rename_i hs
      have : ([dot] ∈ s :: rest) ↔ [dot] ∈ rest := by
        simp only [List.mem_cons]
        constructor
        · rintro (h | h)
          · exact absurd h.symm hs
          · exact h
        · exact Or.inr
      rw [this]
      split
      · split <;> exact ih _ _
      · split <;> exact ih _ _

/-- The transcription of the resolver recurses on a fuel argument; the code itself has none (it terminates because every link
is recorded before it is followed). `resolveAllX` is the same run with a flag raised when the fuel runs out. When the flag
stays down - the driver reports it for every case it answers, and a case where it is up is a broken correspondence, not an
answer - the result is the one every larger fuel gives: the answer of the unbounded recursion. -/
theorem model_run_is_the_unbounded_run (fixed : Bool) (l : List Ent) (paths : List Path) (fuel k : Nat)
    (h : (resolveAllX l fuel paths).2 = false) :
    followLinks fixed l paths (fuel + k) = followLinks fixed l paths fuel :=
  followLinks_fuel_independent fixed l paths fuel k h

/-- the flag is up when the fuel is too small (a chain of three links resolved with fuel 2), down when it suffices -/
example :
    let ln (p t : Path) : Ent := ⟨p, false, some t⟩
    let l := [ln [97] [98], ln [98] [99], ln [99] [100]]
    (resolveAllX l 2 [[97]]).2 = true ∧ (resolveAllX l 16 [[97]]).2 = false := by
  decide

end Fsm.C18
