import FsutilModel.Model.FollowLinks
import FsutilModel.Lex
/-! # C18 — FollowLinks: de-duplication -/
namespace Fsm.C18
open FL

/-- F4 witness (kernel-checked): after the bytewise sort `a`, `a.txt`, `a/b` the de-duplication as it
stood compares only with the previous element and keeps `a/b` although `a` is kept. -/
theorem dedupe_not_prefix_free_unrepaired :
    dedupePaths false [[97], [97, 46, 116, 120, 116], [97, 47, 98]] = some [[97], [97, 46, 116, 120, 116], [97, 47, 98]] := by
  decide

/-- the repaired version drops it -/
theorem dedupe_repaired_witness :
    dedupePaths true [[97], [97, 46, 116, 120, 116], [97, 47, 98]] = some [[97], [97, 46, 116, 120, 116]] := by
  decide

theorem strLt_of_sep_prefix (s b : Path) (h : (s ++ [47]) <+: b) : strLt s b = true := by
  obtain ⟨t, ht⟩ := h
  subst ht
  induction s with
  | nil => simp [strLt]
  | cons a s ih => simpa [strLt] using ih

/-- For every bytewise-sorted input list, the repaired de-duplication returns a list in which no
element is inside another (`x/` is never a prefix of another kept element) — or nothing when the root
is among them. -/
theorem dedupe_go_prefix_free : ∀ (l : List Path) (last : Path) (out : List Path) (r : List Path),
    l.Pairwise (fun a b => strLt a b = true) →
    (∀ o ∈ out, ∀ x ∈ l, strLt o x = true) →
    (∀ a ∈ out, ∀ b ∈ out, ¬ (a ++ [47]) <+: b) →
    dedupePaths.go true l last out = some r →
    ∀ a ∈ r, ∀ b ∈ r, ¬ (a ++ [47]) <+: b := by
  intro l
  induction l with
  | nil =>
    intro last out r _ _ hinv h
    simp only [dedupePaths.go, Option.some.injEq] at h
    subst h
    intro a ha b hb
    exact hinv a (by simpa using ha) b (by simpa using hb)
  | cons s rest ih =>
    intro last out r hsort hlt hinv h
    have hsr := List.pairwise_cons.mp hsort
    have hlt' : ∀ o ∈ out, ∀ x ∈ rest, strLt o x = true := fun o ho x hx => hlt o ho x (List.mem_cons_of_mem _ hx)
    simp only [dedupePaths.go] at h
    split at h
    · cases h
    · simp only [if_true] at h
      split at h
      · exact ih last out r hsr.2 hlt' hinv h
      · rename_i hnone
        refine ih s (s :: out) r hsr.2 ?_ ?_ h
        · intro o ho x hx
          simp only [List.mem_cons] at ho
          rcases ho with rfl | ho
          · exact hsr.1 x hx
          · exact hlt' o ho x hx
        · intro a ha b hb
          simp only [List.mem_cons] at ha hb
          simp only [List.any_eq_true, not_exists, not_and, Bool.not_eq_true] at hnone
          rcases ha with rfl | ha <;> rcases hb with rfl | hb
          · intro hp
            have := List.IsPrefix.length_le hp
            simp only [List.length_append, List.length_cons, List.length_nil] at this
            omega
          · intro hp
            -- b was kept earlier, so b < a; but a/ prefix of b gives a < b
            have h1 := strLt_of_sep_prefix _ _ hp
            have h2 := hlt b hb _ (List.mem_cons_self ..)
            have := strLt_asymm h1
            rw [h2] at this; cases this
          · intro hp
            have := hnone a ha
            have hp' : (a ++ [47]).isPrefixOf b = true := List.isPrefixOf_iff_prefix.mpr hp
            rw [hp'] at this; cases this
          · exact hinv a ha b hb

theorem dedupe_prefix_free (l r : List Path) (hs : l.Pairwise (fun a b => strLt a b = true))
    (h : dedupePaths true l = some r) : ∀ a ∈ r, ∀ b ∈ r, ¬ (a ++ [47]) <+: b :=
  dedupe_go_prefix_free l [] [] r hs (by simp) (by simp) h

end Fsm.C18
