import FsutilModel.Props.C02
/-! # C05 — Change notifications mirror exactly what changed (listing level) -/
namespace Fsm.C05
open D

/-- Replaying the notified add/modify/delete events on the old destination listing yields the new
one (the receiver notifies exactly the events of its change computation). -/
theorem notifications_replay (none : Bool) (L U : List StatE)
    (hL : Valid byteOrd (L.map StatE.toEnt)) (hU : Valid byteOrd (U.map StatE.toEnt)) :
    ∀ q, (diffB none L U).foldl (applyEv byteOrd) (toMap (L.map StatE.toEnt)) q = toMap (U.map StatE.toEnt) q :=
  C02.diff_converges none L U hL hU

/-- No notification at all when nothing changed. -/
theorem unchanged_is_silent (L : List StatE) : diffB false L L = [] := C02.resync_is_silent L

end Fsm.C05
