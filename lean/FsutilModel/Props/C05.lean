import FsutilModel.Props.C02
import FsutilModel.Lemmas.C05Vanish
import FsutilModel.DiffOrder
/-! # C05 — Change notifications mirror exactly what changed (listing level) -/
namespace Fsm.C05
open D

/-- Replaying the notified add/modify/delete events on the old destination listing yields the new
one (the receiver notifies exactly the events of its change computation). -/
theorem notifications_replay (none : Bool) (L U : List StatE)
    (hL : Valid byteOrd (L.map StatE.toEnt)) (hU : Valid byteOrd (U.map StatE.toEnt)) :
    ∀ q, (diffB none L U).foldl (applyEv byteOrd) (toMap (L.map StatE.toEnt)) q = toMap (U.map StatE.toEnt) q :=
  C02.diff_converges none L U hL hU

/-- No notification at all when nothing changed. -/
theorem unchanged_is_silent (L : List StatE) : diffB false L L = [] := C02.resync_is_silent L

/-- No existing unchanged path is reported: a modify notification implies that the identity tuple of the old and the
new entry differ (metadata differ), for any strictly ascending listings. -/
theorem unchanged_never_notified (L U : List StatE)
    (hL : Sorted byteOrd (L.map StatE.toEnt)) (hU : Sorted byteOrd (U.map StatE.toEnt)) (e : BEnt)
    (h : Ev.modify e ∈ diffB false L U) : ∃ l ∈ L.map StatE.toEnt, l.path = e.path ∧ same l e = false := by
  obtain ⟨_, l, hl, hp, hs⟩ := (C02.modifies_exactly_changed false L U hL hU e).mp h
  rcases hs with hs | hs
  · cases hs
  · exact ⟨l, hl, hp, hs⟩

/-- every path that exists only in the new listing is reported as added, every co-present path whose identity changed
as modified -/
theorem every_change_notified (L U : List StatE)
    (hL : Sorted byteOrd (L.map StatE.toEnt)) (hU : Sorted byteOrd (U.map StatE.toEnt)) (e : BEnt) (he : e ∈ U.map StatE.toEnt) :
    ((∀ l ∈ L.map StatE.toEnt, l.path ≠ e.path) → Ev.add e ∈ diffB false L U) ∧
    (∀ l ∈ L.map StatE.toEnt, l.path = e.path → same l e = false → Ev.modify e ∈ diffB false L U) :=
  ⟨fun h => (C02.adds_exactly_new false L U hL hU e).mpr ⟨he, h⟩,
   fun l hl hp hs => (C02.modifies_exactly_changed false L U hL hU e).mpr ⟨he, l, hl, hp, Or.inr hs⟩⟩

/-- Every removal is notified: for every valid pair of listings, each path of the old listing that the new one
does not have is covered by a notification that removes it — a delete of the path itself or of a directory
above it, or an add/modify that replaces an entry above it (a directory that became a file or link). -/
theorem every_removal_notified (none : Bool) (L U : List StatE)
    (hL : Valid byteOrd (L.map StatE.toEnt)) (hU : Valid byteOrd (U.map StatE.toEnt)) (l : BEnt)
    (hl : l ∈ L.map StatE.toEnt) (hu : ∀ u ∈ U.map StatE.toEnt, u.path ≠ l.path) :
    ∃ ev ∈ diffB none L U, Removes byteOrd ev l.path := by
  have hconv := C02.diff_converges none L U hL hU l.path
  have hU0 : toMap (U.map StatE.toEnt) l.path = Option.none := by
    simp only [toMap, List.find?_eq_none]
    intro u hu'; simpa using hu u hu'
  have hL0 : toMap (L.map StatE.toEnt) l.path ≠ Option.none := by
    simp only [toMap, ne_eq, List.find?_eq_none]
    intro hall
    exact hall l hl (by simp)
  rw [hU0] at hconv
  exact vanish_cause byteOrd _ _ l.path hL0 hconv

/-- Each changed path is notified once: for every pair of strictly ascending listings (any size), the paths of the
notifications come in strictly ascending protocol order, hence no path is reported twice — whether as add, modify or
delete, with either differ. -/
theorem each_path_notified_once (none : Bool) (L U : List StatE)
    (hL : Sorted byteOrd (L.map StatE.toEnt)) (hU : Sorted byteOrd (U.map StatE.toEnt)) :
    ((diffB none L U).map evPath).Pairwise (fun a b => byteOrd.lt a b = true) ∧ ((diffB none L U).map evPath).Nodup := by
  have h := diff_ascending byteOrd none (L.length + U.length + 1) (L.map StatE.toEnt) (U.map StatE.toEnt) Option.none hL hU
  refine ⟨h, List.Pairwise.imp ?_ h⟩
  intro a b hlt hab
  subst hab
  rw [byteOrd.lt_irrefl] at hlt
  cases hlt

end Fsm.C05
