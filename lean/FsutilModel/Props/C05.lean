import FsutilModel.Props.C02
/-! # C05 — Change notifications mirror exactly what changed (listing level) -/
namespace Fsm.C05
open D

/-- Replaying the notified add/modify/delete events on the old destination listing yields the new
one (the receiver notifies exactly the events of its change computation). -/
theorem notifications_replay (none : Bool) (L U : List StatE)
    (hL : Valid byteOrd (L.map StatE.toEnt)) (hU : Valid byteOrd (U.map StatE.toEnt)) :
    ∀ q, (diffB none L U).foldl (applyEv byteOrd) (toMap (L.map StatE.toEnt)) q = toMap (U.map StatE.toEnt) q :=
  C02.diff_converges none L U hL hU

/-- No notification at all when nothing changed. -/
theorem unchanged_is_silent (L : List StatE) : diffB false L L = [] := C02.resync_is_silent L

/-- No existing unchanged path is reported: a modify notification implies that the identity tuple of the old and the
new entry differ (metadata differ), for any strictly ascending listings. -/
theorem unchanged_never_notified (L U : List StatE)
    (hL : Sorted byteOrd (L.map StatE.toEnt)) (hU : Sorted byteOrd (U.map StatE.toEnt)) (e : BEnt)
    (h : Ev.modify e ∈ diffB false L U) : ∃ l ∈ L.map StatE.toEnt, l.path = e.path ∧ same l e = false := by
  obtain ⟨_, l, hl, hp, hs⟩ := (C02.modifies_exactly_changed false L U hL hU e).mp h
  rcases hs with hs | hs
  · cases hs
  · exact ⟨l, hl, hp, hs⟩

/-- every path that exists only in the new listing is reported as added, every co-present path whose identity changed
as modified -/
theorem every_change_notified (L U : List StatE)
    (hL : Sorted byteOrd (L.map StatE.toEnt)) (hU : Sorted byteOrd (U.map StatE.toEnt)) (e : BEnt) (he : e ∈ U.map StatE.toEnt) :
    ((∀ l ∈ L.map StatE.toEnt, l.path ≠ e.path) → Ev.add e ∈ diffB false L U) ∧
    (∀ l ∈ L.map StatE.toEnt, l.path = e.path → same l e = false → Ev.modify e ∈ diffB false L U) :=
  ⟨fun h => (C02.adds_exactly_new false L U hL hU e).mpr ⟨he, h⟩,
   fun l hl hp hs => (C02.modifies_exactly_changed false L U hL hU e).mpr ⟨he, l, hl, hp, Or.inr hs⟩⟩

end Fsm.C05
