import FsutilModel.Walk
import FsutilModel.Model.WalkB
import FsutilModel.WalkBuild
import FsutilModel.ByteOrd
import FsutilModel.WalkComplete
import FsutilModel.WalkSound
/-! # C09 — Walk lists every entry once, parents first, in protocol path order -/
namespace Fsm.C09

/-- The depth-first pre-order walk of any tree whose directories list their children in bytewise name
order (what `os.ReadDir` yields) is strictly ascending in the protocol's `ComparePath` — for every
tree, every depth, every name alphabet (names non-empty and separator-free). -/
theorem walk_strictly_ascending (t : Node) (h : WF t) :
    (walk [] t).Pairwise (fun a b => comparePath a b < 0) :=
  walk_ascending [] t h

/-- the same below any prefix (walking a sub-target / a composite file system's sub-root) -/
theorem walk_strictly_ascending_below (pre : Path) (t : Node) (h : WF t) :
    (walk pre t).Pairwise (fun a b => comparePath a b < 0) :=
  walk_ascending pre t h

/-- each directory is reported before its contents: everything the walk reports below a
(non-root) prefix lies strictly under that prefix, and the prefix sorts before all of it -/
theorem dir_before_contents (pre : Path) (hp : pre ≠ []) (t : Node) (h : WF t) (x : Path)
    (hx : x ∈ walk pre t) : ∃ r, x = pre ++ sep :: r ∧ comparePath pre x < 0 := by
  obtain ⟨r, hr⟩ := walk_under pre hp t h x hx
  exact ⟨r, hr, by rw [hr]; exact cmp_parent_lt pre r⟩

/-- For the executable model the correspondence runs: whatever set of entries a snapshot contains (paths whose
components are non-empty and separator-free), the order in which `fs.Walk` visits them — the pre-order walk of the
tree built from those paths — is strictly ascending in the protocol's path comparison. -/
theorem walk_order_ascending (paths : List Path) (h : ∀ p ∈ paths, ∀ c ∈ comps p, NameOK c) :
    (walk [] (buildTree paths)).Pairwise (fun a b => comparePath a b < 0) :=
  walk_ascending [] (buildTree paths) (buildTree_WF paths h)

/-- Every entry is listed once: the walk of any well-formed tree, below any prefix, has no repeated
path (a strictly ascending sequence has none, since `ComparePath` is irreflexive). -/
theorem walk_lists_each_entry_once (pre : Path) (t : Node) (h : WF t) : (walk pre t).Nodup := by
  refine List.Pairwise.imp ?_ (walk_ascending pre t h)
  intro a b hlt hab
  subst hab
  rw [cmp_neg_iff_lex] at hlt
  exact absurd hlt (by simp [lexLt_irrefl])

/-- the same for the executable model the correspondence runs (tree built from a snapshot's path set) -/
theorem walk_order_lists_once (paths : List Path) (h : ∀ p ∈ paths, ∀ c ∈ comps p, NameOK c) :
    (walk [] (buildTree paths)).Nodup :=
  walk_lists_each_entry_once [] _ (buildTree_WF paths h)

/-- Every entry is listed: whatever set of paths a snapshot contains (any number, any depth, given in any
order, with or without their parents), each of them is visited by the walk of the tree built from
them. Together with `walk_order_lists_once` and `walk_order_ascending`: each exactly once, in protocol order. -/
theorem walk_lists_every_entry (paths : List Path) (h : ∀ p ∈ paths, ∀ c ∈ comps p, NameOK c) (x : Path)
    (hx : x ∈ paths) : x ∈ walk [] (buildTree paths) :=
  buildTree_lists paths h x hx

/-- Nothing is invented: everything the walk of the tree built from a snapshot lists is a path of the
snapshot or a directory above one (`p = x/…`). With `walk_lists_every_entry`: for a parent-closed
snapshot the walk lists exactly its paths. -/
theorem walk_lists_only_entries (paths : List Path) (h : ∀ p ∈ paths, ∀ c ∈ comps p, NameOK c) (x : Path)
    (hx : x ∈ walk [] (buildTree paths)) : ∃ p ∈ paths, x = p ∨ ∃ r, p = x ++ sep :: r :=
  buildTree_sound paths h x hx

/-- Hence, for a parent-closed snapshot (what a directory tree on disk is), the walk lists exactly the
snapshot's paths: `x` is visited iff `x` is an entry. -/
theorem walk_lists_exactly_the_entries (paths : List Path) (h : ∀ p ∈ paths, ∀ c ∈ comps p, NameOK c)
    (hclosed : ∀ p ∈ paths, ∀ x r, p = x ++ sep :: r → x ∈ paths) (x : Path) :
    x ∈ walk [] (buildTree paths) ↔ x ∈ paths := by
  constructor
  · intro hx
    obtain ⟨p, hp, hxp | ⟨r, hr⟩⟩ := walk_lists_only_entries paths h x hx
    · exact hxp ▸ hp
    · exact hclosed p hp x r hr
  · exact walk_lists_every_entry paths h x

/-- non-vacuity: the tree a/{b}, "a b", "a-b" is well-formed and walks as a, a/b, a b, a-b -/
example : walk [] (.dir [([97], .dir [([98], .file)]), ([97, 32, 98], .file), ([97, 45, 98], .file)])
    = [[97], [97, 47, 98], [97, 32, 98], [97, 45, 98]] := by decide

end Fsm.C09
