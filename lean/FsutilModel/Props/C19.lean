import FsutilModel.MetaOnly
import FsutilModel.Buffer
import FsutilModel.Model.MetaOnlyB
/-! # C19 — Metadata-only transfer -/
namespace Fsm.C19

/-- The chunked listing buffer written out equals the concatenation of the frames allocated in it, for
every chunk capacity and every sequence of frame sizes (including frames larger than a chunk). -/
theorem buffer_flatten (chunkSize : Nat) (frames : List (List Nat)) :
    B.flatten (frames.foldl (B.alloc chunkSize) []) = frames.flatten :=
  B.buffer_flatten chunkSize frames

/-- With the repaired counter, every id registered for a content request is the zero-based position
of that entry in the full STAT sequence — for every stream, including ones that contain the listing name. -/
theorem ids_are_stat_indices (es : List M.E) : M.idsOK es (M.run true es) :=
  M.ids_are_stat_indices_fixed es

/-- The code as it stood satisfies this only for streams without the listing name … -/
theorem ids_are_stat_indices_partial (es : List M.E) (h : ∀ e ∈ es, e.path ≠ M.metaName) :
    M.idsOK es (M.run false es) :=
  M.ids_are_stat_indices_partial es h

/-- … and violates it otherwise (F2 witness, kernel-checked): the file after the listing name gets id 0, not 1. -/
theorem ids_shifted_witness : (M.run false [M.f M.metaName, M.f [[97]]]).files = [([[97]], 0)] :=
  M.ids_shifted_witness

end Fsm.C19
