import FsutilModel.MetaOnly
import FsutilModel.Buffer
import FsutilModel.Model.MetaOnlyB
import FsutilModel.MetaOnlyBProof
/-! # C19 — Metadata-only transfer -/
namespace Fsm.C19

/-- The chunked listing buffer written out equals the concatenation of the frames allocated in it, for
every chunk capacity and every sequence of frame sizes (including frames larger than a chunk). -/
theorem buffer_flatten (chunkSize : Nat) (frames : List (List Nat)) :
    B.flatten (frames.foldl (B.alloc chunkSize) []) = frames.flatten :=
  B.buffer_flatten chunkSize frames

/-- With the repaired counter, every id registered for a content request is the zero-based position
of that entry in the full STAT sequence — for every stream, including ones that contain the listing name. -/
theorem ids_are_stat_indices (es : List M.E) : M.idsOK es (M.run true es) :=
  M.ids_are_stat_indices_fixed es

/-- The code as it stood satisfies this only for streams without the listing name … -/
theorem ids_are_stat_indices_partial (es : List M.E) (h : ∀ e ∈ es, e.path ≠ M.metaName) :
    M.idsOK es (M.run false es) :=
  M.ids_are_stat_indices_partial es h

/-- … and violates it otherwise (F2 witness, kernel-checked): the file after the listing name gets id 0, not 1. -/
theorem ids_shifted_witness : (M.run false [M.f M.metaName, M.f [[97]]]).files = [([[97]], 0)] :=
  M.ids_shifted_witness

/-- The same for the executable byte-level model the correspondence runs (`metaRun`, repaired counter): for every
announced STAT sequence and every selector, each id registered for a content request is the zero-based position
of that entry in the full sequence. -/
theorem ids_are_stat_indices_bytes (selected : Path → Bool) (es : List StatE) :
    ∀ p n, (p, n) ∈ (metaRun true selected es).files → ∃ e, es[n]? = some e ∧ e.path = p := by
  have := metaRun_idInv true selected es [] {} ⟨rfl, by intro p n h; simp at h⟩ (fun _ _ => Or.inl rfl)
  simpa [metaRun] using this.ok

/-- … and for the code as it stood, provided the stream does not contain the listing name -/
theorem ids_are_stat_indices_bytes_partial (selected : Path → Bool) (es : List StatE) (h : ∀ e ∈ es, e.path ≠ metaNameB) :
    ∀ p n, (p, n) ∈ (metaRun false selected es).files → ∃ e, es[n]? = some e ∧ e.path = p := by
  have := metaRun_idInv false selected es [] {} ⟨rfl, by intro p n h; simp at h⟩ (fun e he => Or.inr (h e he))
  simpa [metaRun] using this.ok

end Fsm.C19
