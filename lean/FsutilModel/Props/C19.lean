import FsutilModel.MetaOnly
import FsutilModel.Buffer
import FsutilModel.Model.MetaOnlyB
import FsutilModel.MetaOnlyBProof
import FsutilModel.Lemmas.C19Fwd
/-! # C19 — Metadata-only transfer -/
namespace Fsm.C19

/-- The chunked listing buffer written out equals the concatenation of the frames allocated in it, for
every chunk capacity and every sequence of frame sizes (including frames larger than a chunk). -/
theorem buffer_flatten (chunkSize : Nat) (frames : List (List Nat)) :
    B.flatten (frames.foldl (B.alloc chunkSize) []) = frames.flatten :=
  B.buffer_flatten chunkSize frames

/-- With the repaired counter, every id registered for a content request is the zero-based position
of that entry in the full STAT sequence — for every stream, including ones that contain the listing name. -/
theorem ids_are_stat_indices (es : List M.E) : M.idsOK es (M.run true es) :=
  M.ids_are_stat_indices_fixed es

/-- The code as it stood satisfies this only for streams without the listing name … -/
theorem ids_are_stat_indices_partial (es : List M.E) (h : ∀ e ∈ es, e.path ≠ M.metaName) :
    M.idsOK es (M.run false es) :=
  M.ids_are_stat_indices_partial es h

/-- … and violates it otherwise (F2 witness, kernel-checked): the file after the listing name gets id 0, not 1. -/
theorem ids_shifted_witness : (M.run false [M.f M.metaName, M.f [[97]]]).files = [([[97]], 0)] :=
  M.ids_shifted_witness

/-- The same for the executable byte-level model the correspondence runs (`metaRun`, repaired counter): for every
announced STAT sequence and every selector, each id registered for a content request is the zero-based position
of that entry in the full sequence. -/
theorem ids_are_stat_indices_bytes (selected : Path → Bool) (es : List StatE) :
    ∀ p n, (p, n) ∈ (metaRun true selected es).files → ∃ e, es[n]? = some e ∧ e.path = p := by
  have := metaRun_idInv true selected es [] {} ⟨rfl, by intro p n h; simp at h⟩ (fun _ _ => Or.inl rfl)
  simpa [metaRun] using this.ok

/-- … and for the code as it stood, provided the stream does not contain the listing name -/
theorem ids_are_stat_indices_bytes_partial (selected : Path → Bool) (es : List StatE) (h : ∀ e ∈ es, e.path ≠ metaNameB) :
    ∀ p n, (p, n) ∈ (metaRun false selected es).files → ∃ e, es[n]? = some e ∧ e.path = p := by
  have := metaRun_idInv false selected es [] {} ⟨rfl, by intro p n h; simp at h⟩ (fun e he => Or.inr (h e he))
  simpa [metaRun] using this.ok

/-- The listing holds, in stream order, every announced entry but the listing file's own name - for every stream and selector,
with the counter repaired or not. -/
theorem listing_is_stream_minus_own_name (fixed : Bool) (selected : Path → Bool) (es : List StatE) :
    (metaRun fixed selected es).listing = es.filter (fun e => e.path ≠ metaNameB) :=
  C19F.listing_eq fixed selected es

/-- The pending-ancestor stack replays exactly what is needed: for every stream that is canonical once the listing name is
taken out (depth first, a directory before what is below it, one entry per path, the parent of an entry is its nearest announced
ancestor - `C19F.Canon`, the shape the validator enforces and `C19F.mcanonB` decides) and every selector, what is handed to
the change computation is the selected entries and the directories above them, in stream order, each once. -/
theorem forwarded_is_selected_plus_ancestors (fixed : Bool) (selected : Path → Bool) (es : List StatE)
    (hC : C19F.Canon (es.filter (fun e => e.path ≠ metaNameB))) :
    (metaRun fixed selected es).forwarded = specForwarded selected es :=
  C19F.forwarded_eq_spec fixed selected es hC

/-- the premise is decidable; the driver evaluates this checker on every stream a real sender produced -/
theorem canonical_stream_check_sound (l : List StatE) (h : C19F.mcanonB l = true) : C19F.Canon l :=
  C19F.mcanonB_sound l h

/-- the premise is met by a stream with a nested selection and a listing-name entry, and the replay is not trivial there -/
example :
    let d (p : Path) : StatE := ⟨p, modeDir ||| 493, 0, 0, 0, 0, [], 0, 0, []⟩
    let f (p : Path) : StatE := ⟨p, 420, 0, 0, 1, 0, [], 0, 0, []⟩
    -- .fsutil-metadata, a/, a/b/, a/b/c (selected), a/d, e
    let es := [f metaNameB, d [97], d [97, 47, 98], f [97, 47, 98, 47, 99], f [97, 47, 100], f [101]]
    C19F.mcanonB (es.filter (fun e => e.path ≠ metaNameB)) = true ∧
    (metaRun true (fun p => p == [97, 47, 98, 47, 99]) es).forwarded = [d [97], d [97, 47, 98], f [97, 47, 98, 47, 99]] := by
  decide

/-- Ids are registered - so content can be requested - for selected entries only: for every stream and selector, whatever the order
of the entries. -/
theorem content_requested_only_for_selected (fixed : Bool) (selected : Path → Bool) (es : List StatE) :
    ∀ p n, (p, n) ∈ (metaRun fixed selected es).files → selected p = true := by
  intro p n h
  exact C19F.files_selected fixed selected es {} (by intro pn hpn; cases hpn) (p, n) (by simpa [metaRun] using h)

end Fsm.C19
