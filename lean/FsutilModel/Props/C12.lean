import FsutilModel.ByteOrd
import FsutilModel.Order
import FsutilModel.ValidatorMain3
import FsutilModel.Clean3
import FsutilModel.Model.ValidatorB
import FsutilModel.ValidatorBridge7
/-! # C12 — Stream validator accepts exactly ordered, parent-closed, contained sequences

Property theorems only (helper lemmas live in the other modules). -/
namespace Fsm.C12

/-- `ComparePath` is irreflexive. -/
theorem cmp_irrefl (p : Path) : ¬ comparePath p p < 0 := by
  rw [cmp_neg_iff_lex]; simp [lexLt_irrefl]

/-- `ComparePath` is transitive. -/
theorem cmp_trans (p q r : Path) (h1 : comparePath p q < 0) (h2 : comparePath q r < 0) :
    comparePath p r < 0 := by
  rw [cmp_neg_iff_lex] at *; exact lexLt_trans h1 h2

/-- `ComparePath` is total: distinct paths are ordered one way or the other. -/
theorem cmp_total (p q : Path) : p = q ∨ comparePath p q < 0 ∨ comparePath q p < 0 := by
  rcases lexLt_total (p.map key) (q.map key) with h | h | h
  · exact Or.inl (map_key_inj h)
  · exact Or.inr (Or.inl ((cmp_neg_iff_lex p q).mpr h))
  · exact Or.inr (Or.inr ((cmp_neg_iff_lex q p).mpr h))

/-- `ComparePath` is asymmetric. -/
theorem cmp_asymm (p q : Path) (h : comparePath p q < 0) : ¬ comparePath q p < 0 := by
  intro h2; exact cmp_irrefl p (cmp_trans p q p h h2)

/-- The order equals comparing component by component: on paths given by their component lists
(separator-free components) `ComparePath` is the lexicographic order on the lists, each component
compared bytewise. -/
theorem cmp_eq_componentwise (a b : List Path) (ha : AllSepFree a) (hb : AllSepFree b)
    (hane : a ≠ []) (hbne : b ≠ []) :
    comparePath (joinSep a) (joinSep b) < 0 ↔ compsLt a b = true :=
  cmp_joinSep a b ha hb hane hbne

/-- Component-level validator = specification, for every sequence of plain paths (unbounded length):
accepted iff strictly ascending and each parent is an earlier directory (or the root). -/
theorem validator_iff_spec_components (xs : List Ent) (hx : ∀ x ∈ xs, PlainPath x.path) :
    runFrom [⟨[], []⟩] xs = true ↔ validFrom [] xs :=
  Fsm.validator_iff_spec xs hx

/-- The repaired lexical test admits exactly the paths whose components are plain
(non-empty, separator-free, neither "." nor ".."). -/
theorem lexical_test_iff_plain (p : Path) :
    isCleanRel true p ↔ ∃ cs, PlainList cs ∧ p = joinSep cs :=
  isCleanRel_iff_plain p

/-- **C12 at byte level, unbounded**: the verbatim transcription of `Validator.HandleChange` — lexical tests on the byte
string, `filepath.Dir` / `filepath.Base`, the `sort.Search` binary search over `parentDirs`, the last-child comparison —
returns, for EVERY sequence of changes (any length, any byte strings as paths, adds and deletes), exactly what the
property's specification returns: accept, or reject at the same index. -/
theorem validator_eq_spec (cs : List Chg) : vrun true cs = specRun cs :=
  vrun_eq_specRun cs

/-- … in particular the slice expressions and index computations of `HandleChange` never go out of range -/
theorem validator_never_panics (cs : List Chg) (i : Nat) : vrun true cs ≠ .panicAt i := by
  rw [validator_eq_spec]
  suffices h : ∀ (cs : List Chg) (pre : List Chg) (k : Nat), specRunFrom pre k cs ≠ .panicAt i from h cs [] 0
  intro cs
  induction cs with
  | nil => intro pre k; simp [specRunFrom]
  | cons c cs ih =>
    intro pre k
    unfold specRunFrom
    split
    · exact ih _ _
    · simp

/-- F1 witness (kernel-checked): the lexical test as it stood lets ".." through. -/
theorem dotdot_passes_unrepaired : isCleanRel false dd := dotdot_passes_today

/-- F1 witness on the executable byte-level model of the code as it stood: STAT ".." is accepted. -/
theorem validator_accepts_dotdot_unrepaired :
    vrun false [⟨false, dd, true⟩] = .accept := by decide

/-- ... and the repaired model rejects it at index 0. -/
theorem validator_rejects_dotdot_repaired :
    vrun true [⟨false, dd, true⟩] = .rejectAt 0 := by decide

/-- non-vacuity: a concrete 3-element sequence is accepted by the byte-level model and the spec -/
example : vrun true [⟨false, [97], true⟩, ⟨false, [97, 47, 98], false⟩, ⟨false, [97, 45, 98], false⟩] = .accept
        ∧ specRun [⟨false, [97], true⟩, ⟨false, [97, 47, 98], false⟩, ⟨false, [97, 45, 98], false⟩] = .accept := by
  decide

end Fsm.C12
