import FsutilModel.DiffOrder
import FsutilModel.DiffFinal
import FsutilModel.Model.DiffB
import FsutilModel.DiffEmits
/-! # C02 — Incremental minimality (listing level)

The receiver's change computation (`doubleWalkDiff` + `sameFile`) over the old destination listing and
the announced source listing. -/
namespace Fsm.C02
open D

/-- `sameFile` (metadata differ), transcribed from the Go code, is exactly equality of the identity
tuple of the property: mode/type, uid, gid, link name, device numbers and, for non-directories,
size and mtime. -/
theorem sameFile_iff_identity (a b : StatE) : sameFileB a b = true ↔ a.ident = b.ident := by
  unfold sameFileB StatE.ident StatE.isDir
  constructor
  · intro h
    simp only [Bool.and_eq_true, Bool.or_eq_true, beq_iff_eq, bne_iff_ne, ne_eq] at h
    obtain ⟨h1, ⟨⟨⟨⟨⟨hm, hu⟩, hg⟩, hdM⟩, hdm⟩, hl⟩⟩ := h
    simp only [hm, hu, hg, hdM, hdm, hl, bne_iff_ne, ne_eq, Ident.mk.injEq, true_and]
    rw [hm] at h1
    rcases h1 with h1 | ⟨h2, h3⟩
    · simp [h1]
    · simp [h2, h3]
  · intro h
    simp only [Ident.mk.injEq] at h
    obtain ⟨hm, hu, hg, hdM, hdm, hl, hsm⟩ := h
    simp only [hm, hu, hg, hdM, hdm, hl, Bool.and_eq_true, Bool.or_eq_true, beq_iff_eq, bne_iff_ne, ne_eq, and_self, and_true]
    rw [hm] at hsm
    by_cases hd : b.mode &&& modeDir = 0
    · right; simp [hd] at hsm; exact hsm
    · left; exact hd

/-- the abstract `same` used by the diff model is the transcribed `sameFile` -/
theorem same_toEnt (a b : StatE) : same a.toEnt b.toEnt = sameFileB a b := by
  have h := sameFile_iff_identity a b
  unfold same StatE.toEnt
  simp only
  by_cases hi : a.ident = b.ident
  · have hd : a.isDir = b.isDir := by
      have : a.mode = b.mode := by
        have := congrArg Ident.mode hi; simpa [StatE.ident] using this
      unfold StatE.isDir; rw [this]
    rw [h.mpr hi]; simp [hi, hd]
  · have : sameFileB a b = false := by
      cases hs : sameFileB a b with
      | false => rfl
      | true => exact absurd (h.mp hs) hi
    rw [this]; simp [hi]

/-- C02 "a re-sync of an unchanged source emits zero change notifications and zero content requests":
diffing a listing against itself emits nothing — any listing, any length. -/
theorem resync_is_silent (L : List StatE) : diffB false L L = [] := by
  unfold diffB
  exact D.resync_is_silent byteOrd (L.map StatE.toEnt) _ none (by simp)

/-- C01/C02 convergence at listing level: for valid (strictly ascending, parent-closed) listings the
emitted add/modify/delete events, applied to the old listing, give exactly the source listing —
for both differs. -/
theorem diff_converges (none : Bool) (L U : List StatE)
    (hL : Valid byteOrd (L.map StatE.toEnt)) (hU : Valid byteOrd (U.map StatE.toEnt)) :
    ∀ q, (diffB none L U).foldl (applyEv byteOrd) (toMap (L.map StatE.toEnt)) q = toMap (U.map StatE.toEnt) q := by
  intro q
  unfold diffB
  have := D.diff_converges byteOrd none (L.map StatE.toEnt) (U.map StatE.toEnt) hL hU q
  simpa using this

/-- Exactly the changed entries are touched (listing level, any strictly ascending listings, any length):
an entry is announced as ADDED iff it is in the source listing and its path is not in the old one; -/
theorem adds_exactly_new (none : Bool) (L U : List StatE)
    (hL : Sorted byteOrd (L.map StatE.toEnt)) (hU : Sorted byteOrd (U.map StatE.toEnt)) (e : BEnt) :
    Ev.add e ∈ diffB none L U ↔ (e ∈ U.map StatE.toEnt ∧ ∀ l ∈ L.map StatE.toEnt, l.path ≠ e.path) := by
  unfold diffB
  exact add_mem_iff byteOrd none _ _ _ Option.none hL hU (by simp) e

/-- as MODIFIED iff its path is in both listings and the identity tuple differs (with differencing disabled: iff
its path is in both — every co-present regular file is then re-requested); -/
theorem modifies_exactly_changed (none : Bool) (L U : List StatE)
    (hL : Sorted byteOrd (L.map StatE.toEnt)) (hU : Sorted byteOrd (U.map StatE.toEnt)) (e : BEnt) :
    Ev.modify e ∈ diffB none L U ↔
      (e ∈ U.map StatE.toEnt ∧ ∃ l ∈ L.map StatE.toEnt, l.path = e.path ∧ (none = true ∨ same l e = false)) := by
  unfold diffB
  exact modify_mem_iff byteOrd none _ _ _ Option.none hL hU (by simp) e

/-- and a DELETE only ever names a path of the old listing that the source listing does not have. -/
theorem deletes_only_removed (none : Bool) (L U : List StatE)
    (hL : Sorted byteOrd (L.map StatE.toEnt)) (hU : Sorted byteOrd (U.map StatE.toEnt)) (p : Path)
    (h : Ev.delete p ∈ diffB none L U) :
    (∃ l ∈ L.map StatE.toEnt, l.path = p) ∧ ∀ u ∈ U.map StatE.toEnt, u.path ≠ p := by
  unfold diffB at h
  exact delete_mem_only byteOrd none _ _ _ Option.none hL hU (by simp) p h

/-- Minimality, per path: the change events of any two strictly ascending listings carry strictly ascending paths,
so the receiver computes at most one event per path (and sends at most one request for it). -/
theorem at_most_one_event_per_path (none : Bool) (L U : List StatE)
    (hL : Sorted byteOrd (L.map StatE.toEnt)) (hU : Sorted byteOrd (U.map StatE.toEnt)) :
    ((diffB none L U).map evPath).Pairwise (fun a b => byteOrd.lt a b = true) :=
  diff_ascending byteOrd none (L.length + U.length + 1) (L.map StatE.toEnt) (U.map StatE.toEnt) Option.none hL hU

/-- non-vacuity: a two-entry listing [a (dir), a/b (file)] is Valid -/
example : (diffB false [⟨[97], modeDir ||| 493, 0, 0, 0, 5, [], 0, 0, []⟩, ⟨[97, 47, 98], 420, 0, 0, 3, 5, [], 0, 0, []⟩]
                       [⟨[97], modeDir ||| 493, 0, 0, 0, 6, [], 0, 0, []⟩, ⟨[97, 47, 98], 420, 0, 0, 4, 5, [], 0, 0, []⟩]).length = 1 := by
  decide

end Fsm.C02
