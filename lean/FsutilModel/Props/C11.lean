import FsutilModel.Model.Filter
/-! # C11 — A filtered view transfers as a self-contained tree (hard-link reset) -/
namespace Fsm.C11
open F

/-- A hard link whose source is not in the filtered view (nothing recorded for its link name) is
announced as a regular entry without link name — whatever else the listing contains. -/
theorem reset_promotes (seen : List (Path × Path)) (e : StatE) (rest : List StatE)
    (hd : (e.isDir || e.isSymlink) = false) (hl : e.linkname ≠ [])
    (hnone : seen.find? (·.1 = e.linkname) = none) :
    (hardlinkResetGo seen (e :: rest)).head? = some { e with linkname := [] } := by
  unfold hardlinkResetGo
  simp [hd, hl, hnone]

/-- … and every later member of the group that names the same (missing) source is re-pointed to the
promoted entry. -/
theorem reset_relinks (seen : List (Path × Path)) (e : StatE) (rest : List StatE) (k v : Path)
    (hd : (e.isDir || e.isSymlink) = false) (hl : e.linkname ≠ [])
    (hsome : seen.find? (·.1 = e.linkname) = some (k, v)) (hne : v ≠ e.path) :
    (hardlinkResetGo seen (e :: rest)).head? = some { e with linkname := v } := by
  unfold hardlinkResetGo
  simp [hd, hl, hsome, hne]

/-- entries that are not hard links pass through unchanged -/
theorem reset_keeps_plain (seen : List (Path × Path)) (e : StatE) (rest : List StatE) (hl : e.linkname = []) :
    (hardlinkResetGo seen (e :: rest)).head? = some e := by
  unfold hardlinkResetGo
  by_cases hd : (e.isDir || e.isSymlink) = true
  · simp [hd]
  · simp [hd, hl]

/-- concrete instance (kernel-evaluated): the source `a` is filtered out; `b → a` is promoted, `c → a`
becomes `c → b`, and the result is closed under link names. -/
example :
    let b : StatE := ⟨[98], 420, 0, 0, 3, 5, [97], 0, 0, []⟩
    let c : StatE := ⟨[99], 420, 0, 0, 3, 5, [97], 0, 0, []⟩
    (hardlinkReset [b, c]).map (·.linkname) = [[], [98]] ∧ linksClosed [] (hardlinkReset [b, c]) = true := by
  decide

end Fsm.C11
