import FsutilModel.Model.Filter
import FsutilModel.Lemmas.C11
/-! # C11 — A filtered view transfers as a self-contained tree (hard-link reset) -/
namespace Fsm.C11
open F

/-- A hard link whose source is not in the filtered view (nothing recorded for its link name) is
announced as a regular entry without link name — whatever else the listing contains. -/
theorem reset_promotes (seen : List (Path × Path)) (e : StatE) (rest : List StatE)
    (hd : (e.isDir || e.isSymlink) = false) (hl : e.linkname ≠ [])
    (hnone : seen.find? (·.1 = e.linkname) = none) :
    (hardlinkResetGo seen (e :: rest)).head? = some { e with linkname := [] } := by
  unfold hardlinkResetGo
  simp [hd, hl, hnone]

/-- … and every later member of the group that names the same (missing) source is re-pointed to the
promoted entry. -/
theorem reset_relinks (seen : List (Path × Path)) (e : StatE) (rest : List StatE) (k v : Path)
    (hd : (e.isDir || e.isSymlink) = false) (hl : e.linkname ≠ [])
    (hsome : seen.find? (·.1 = e.linkname) = some (k, v)) (hne : v ≠ e.path) :
    (hardlinkResetGo seen (e :: rest)).head? = some { e with linkname := v } := by
  unfold hardlinkResetGo
  simp [hd, hl, hsome, hne]

/-- entries that are not hard links pass through unchanged -/
theorem reset_keeps_plain (seen : List (Path × Path)) (e : StatE) (rest : List StatE) (hl : e.linkname = []) :
    (hardlinkResetGo seen (e :: rest)).head? = some e := by
  unfold hardlinkResetGo
  by_cases hd : (e.isDir || e.isSymlink) = true
  · simp [hd]
  · simp [hd, hl]

/-- concrete instance (kernel-evaluated): the source `a` is filtered out; `b → a` is promoted, `c → a`
becomes `c → b`, and the result is closed under link names. -/
example :
    let b : StatE := ⟨[98], 420, 0, 0, 3, 5, [97], 0, 0, []⟩
    let c : StatE := ⟨[99], 420, 0, 0, 3, 5, [97], 0, 0, []⟩
    (hardlinkReset [b, c]).map (·.linkname) = [[], [98]] ∧ linksClosed [] (hardlinkReset [b, c]) = true := by
  decide

/-- the listing comes from a walk: paths are distinct, and a link name never names an entry that is itself announced as a
link (the walk names the first member of the group), nor the entry itself -/
structure Canon (l : List StatE) : Prop where
  nodup : (l.map (·.path)).Nodup
  names : ∀ e ∈ l, NonDir e → e.linkname ≠ [] → e.linkname ∉ linkPaths l ∧ e.linkname ≠ e.path
  nonempty : ∀ e ∈ l, e.path ≠ []

/-- the reset changes link names only: same entries, same order -/
theorem reset_paths : ∀ (l : List StatE) (seen : List (Path × Path)),
    (hardlinkResetGo seen l).map (·.path) = l.map (·.path) := by
  intro l
  induction l with
  | nil => intro seen; simp [hardlinkResetGo]
  | cons e rest ih =>
    intro seen
    by_cases hd : (e.isDir || e.isSymlink) = true
    · rw [step_dir seen e rest hd]; simp [ih]
    · have hn : NonDir e := by simpa [NonDir] using hd
      by_cases hl : e.linkname = []
      · rw [step_plain seen e rest hn hl]; simp [ih]
      · cases hf : seen.find? (·.1 = e.linkname) with
        | none => rw [step_promote seen e rest hn hl hf]; simp [ih]
        | some kv =>
          obtain ⟨k, v⟩ := kv
          by_cases hv : v = e.path
          · subst hv; rw [step_same seen e rest k hn hl hf]; simp [ih]
          · rw [step_relink seen e rest k v hn hl hf hv]; simp [ih]

/-- **Closure of the reset**: for every listing as a walk produces it (distinct paths, link names naming non-link entries or
entries that are not in the listing at all), every hard link of the reset listing names an EARLIER entry of the listing
that is announced without link name — whichever members of each group the filter removed. -/
theorem reset_closed (l : List StatE) (hc : Canon l) : linksClosed [] (hardlinkReset l) = true := by
  apply reset_closed_go l l [] []
  · intro kv h; simp at h
  · intro e he hn hl
    refine ⟨(hc.names e he hn hl).1, ?_⟩
    unfold linkPaths
    refine List.mem_map.mpr ⟨e, List.mem_filter.mpr ⟨he, ?_⟩, rfl⟩
    have : (e.isDir || e.isSymlink) = false := hn
    simp [this, hl]
  · intro e he; exact ⟨by simp, hc.nonempty e he⟩
  · intro x hx; simp at hx
  · exact hc.nodup

/-- non-vacuity: `b → a`, `c → a`, `d` plain, with `a` filtered out of the listing, is a canonical listing -/
example :
    let b : StatE := ⟨[98], 420, 0, 0, 3, 5, [97], 0, 0, []⟩
    let c : StatE := ⟨[99], 420, 0, 0, 3, 5, [97], 0, 0, []⟩
    let d : StatE := ⟨[100], 420, 0, 0, 3, 5, [], 0, 0, []⟩
    Canon [b, c, d] := by
  refine ⟨by decide, ?_, ?_⟩
  · intro e he _ _
    simp only [List.mem_cons, List.mem_singleton, List.not_mem_nil, or_false] at he
    rcases he with rfl | rfl | rfl <;> decide
  · intro e he
    simp only [List.mem_cons, List.mem_singleton, List.not_mem_nil, or_false] at he
    rcases he with rfl | rfl | rfl <;> decide

end Fsm.C11
