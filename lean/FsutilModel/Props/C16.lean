import FsutilModel.Model.CopyB
/-! # C16 — include/exclude selection: nothing else is written -/
namespace Fsm.C16
open C

/-- An entry that the include/exclude lists do not select has no effect of its own on the destination:
no directory is created for it, nothing is written, nothing is notified (it can only come into being
later, on demand, as the ancestor of a selected entry). For every tree, state and pattern lists. -/
theorem not_selected_no_effect (a : Args) (srcSub : List Snap) (srcRel dstFinal : Path) (s : St) (e : Snap)
    (h : included a (if e.st.path = srcRel then [] else e.st.path.drop (if srcRel = [] then 0 else srcRel.length + 1)) = false) :
    ∃ s', copyEntry a srcSub srcRel dstFinal s e = .ok s' ∧ s'.tree = s.tree ∧ s'.notif = s.notif := by
  refine ⟨s, ?_, rfl, rfl⟩
  unfold copyEntry
  simp only [h, Bool.not_false, if_true]

/-- the copied source itself (relative path "") is always selected -/
theorem root_always_selected (a : Args) : included a [] = true := by
  simp [included]

end Fsm.C16
