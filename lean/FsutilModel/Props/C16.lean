import FsutilModel.Model.CopyB
import FsutilModel.Lemmas.C16
import FsutilModel.Lemmas.C16Walk
/-! # C16 — include/exclude selection: nothing else is written -/
namespace Fsm.C16
open C

/-- An entry that the include/exclude lists do not select has no effect of its own on the destination:
no directory is created for it, nothing is written, nothing is notified (it can only come into being
later, on demand, as the ancestor of a selected entry). For every tree, state and pattern lists. -/
theorem not_selected_no_effect (a : Args) (srcSub : List Snap) (srcRel dstFinal : Path) (s : St) (e : Snap)
    (h : included a (if e.st.path = srcRel then [] else e.st.path.drop (if srcRel = [] then 0 else srcRel.length + 1)) = false) :
    ∃ s', copyEntry a srcSub srcRel dstFinal s e = .ok s' ∧ s'.tree = s.tree ∧ s'.notif = s.notif := by
  refine ⟨s, ?_, rfl, rfl⟩
  unfold copyEntry
  simp only [h, Bool.not_false, if_true]

/-- the copied source itself (relative path "") is always selected -/
theorem root_always_selected (a : Args) : included a [] = true := by
  simp [included]

/-! ## The copier and the filtered walk decide alike

`copy.go` threads `patternmatcher.MatchInfo` down its own recursion (`C.included`, which recomputes the parent-result
chain along the ancestors of an entry); `filter.go` keeps the infos on its directory stack. The two are compared step by
step: whenever the stack is topped by the chain infos of the entry's ancestors, the callback of `filterFS.Walk` (pruning
off, no map function) reports the entry exactly when the copier selects it — and what it pushes re-establishes that
premise for the entries below. -/

/-- the copier's selection is the chain verdict (for every pattern list and path below the copied source) -/
theorem copier_selection_is_chain (a : C.Args) (rel : Path) (h : rel ≠ []) :
    C.included a rel = C16L.selected a.inc a.exc rel :=
  C16L.included_eq_selected a rel h

/-- **one step of the filtered walk = the copier's decision**, for every configuration, stack and entry -/
theorem walk_step_decides_as_copier (cfg : F.Cfg) (hp : cfg.prune = false) (hm : cfg.map = []) (pd0 : List F.VDir) (e : StatE)
    (a : C.Args) (hai : a.inc = cfg.inc) (hae : a.exc = cfg.exc) (hne : e.path ≠ [])
    (hsk : ∀ d ∈ C16L.stackFor cfg pd0 e, d.skipFn = false)
    (hinc : (((C16L.stackFor cfg pd0 e).getLast?).map (·.inc)).getD [] = C16L.chainInfo cfg.inc (P.parentPrefixes e.path))
    (hexc : (((C16L.stackFor cfg pd0 e).getLast?).map (·.exc)).getD [] = C16L.chainInfo cfg.exc (P.parentPrefixes e.path)) :
    (F.callback true cfg pd0 e).2.2 = .cont ∧
    ((F.callback true cfg pd0 e).2.1.getLast? = some e ↔ C.included a e.path = true) ∧
    (C.included a e.path = false → (F.callback true cfg pd0 e).2.1 = []) := by
  rw [C16L.included_eq_selected a e.path hne, hai, hae]
  exact C16L.callback_decision cfg hp hm pd0 e hsk hinc hexc

/-- the premise is re-established for the entries directly below a directory -/
theorem walk_step_keeps_premise (cfg : F.Cfg) (hp : cfg.prune = false) (hm : cfg.map = []) (pd0 : List F.VDir) (e : StatE)
    (hsk : ∀ d ∈ C16L.stackFor cfg pd0 e, d.skipFn = false)
    (hinc : (((C16L.stackFor cfg pd0 e).getLast?).map (·.inc)).getD [] = C16L.chainInfo cfg.inc (P.parentPrefixes e.path))
    (hexc : (((C16L.stackFor cfg pd0 e).getLast?).map (·.exc)).getD [] = C16L.chainInfo cfg.exc (P.parentPrefixes e.path))
    (hd : e.isDir = true) (hf : (!cfg.inc.isEmpty || !cfg.exc.isEmpty) = true) :
    ∃ d, (F.callback true cfg pd0 e).1.getLast? = some d ∧ d.skipFn = false ∧ d.pathSep = e.path ++ [47] ∧
      d.inc = C16L.chainInfo cfg.inc (P.parentPrefixes e.path ++ [e.path]) ∧
      d.exc = C16L.chainInfo cfg.exc (P.parentPrefixes e.path ++ [e.path]) :=
  C16L.callback_pushes_chain cfg hp hm pd0 e hsk hinc hexc hd hf

/-- the premise holds at the top level with the empty stack (non-vacuity: the first entry of every walk) -/
example (cfg : F.Cfg) (e : StatE) (h : P.parentPrefixes e.path = []) :
    (((C16L.stackFor cfg [] e).getLast?).map (·.inc)).getD [] = C16L.chainInfo cfg.inc (P.parentPrefixes e.path) := by
  rw [h]
  unfold C16L.stackFor
  split <;> simp [F.callback.pop, C16L.chainInfo_nil]

/-! ## The whole walk

`C16W.Canon l`: the listing is canonical with respect to the walk's own ancestor test `x/ ⊑ y` — whatever tests as an
ancestor is a directory listed earlier, the parent prefixes of an entry are those of its nearest ancestor plus that
ancestor, the order is depth first, no entry is repeated. `C16W.canonB` is its executable form; the driver evaluates it
on every listing a real walk produced in the correspondence runs (suite `filter`), so the premise is checked on the code's
own output, not assumed. -/

/-- **The set of copied paths equals the set the filtered walk reports**: for every canonical listing and every pattern
lists (at least one non-empty; pruning off, no map function) the filtered walk reports exactly the entries the copier
selects and the directories that have a selected entry below them (the ancestors the copier creates on demand). -/
theorem filtered_walk_reports_copier_selection (cfg : F.Cfg) (hp : cfg.prune = false) (hm : cfg.map = [])
    (hf : (!cfg.inc.isEmpty || !cfg.exc.isEmpty) = true) (l : List StatE) (hC : C16W.Canon l)
    (a : C.Args) (hai : a.inc = cfg.inc) (hae : a.exc = cfg.exc) (hne : ∀ e ∈ l, e.path ≠ []) :
    ∀ e, e ∈ F.filterWalk true cfg l ↔
      e ∈ l ∧ (C.included a e.path = true ∨
        (e.isDir = true ∧ ∃ d ∈ l, C16W.anc e.path d.path = true ∧ C.included a d.path = true)) := by
  intro e
  rw [C16W.filterWalk_mem cfg hp hm hf l hC e]
  constructor
  · intro ⟨he, hk⟩
    refine ⟨he, ?_⟩
    simp only [C16W.keepIn, Bool.or_eq_true, Bool.and_eq_true, List.any_eq_true] at hk
    rcases hk with h | ⟨hd, d, hdl, hda, hds⟩
    · left; rw [C16L.included_eq_selected a e.path (hne e he), hai, hae]; exact h
    · right; exact ⟨hd, d, hdl, hda, by rw [C16L.included_eq_selected a d.path (hne d hdl), hai, hae]; exact hds⟩
  · intro ⟨he, hk⟩
    refine ⟨he, ?_⟩
    simp only [C16W.keepIn, Bool.or_eq_true, Bool.and_eq_true, List.any_eq_true]
    rcases hk with h | ⟨hd, d, hdl, hda, hds⟩
    · left; rw [C16L.included_eq_selected a e.path (hne e he), hai, hae] at h; exact h
    · right; exact ⟨hd, d, hdl, hda, by rw [C16L.included_eq_selected a d.path (hne d hdl), hai, hae] at hds; exact hds⟩

/-- the executable canonicity check is sound -/
theorem canonical_check_sound (l : List StatE) (h : C16W.canonB l = true) : C16W.Canon l :=
  C16W.canonB_sound l h

/-- without pattern lists the walk reports the listing itself -/
theorem walk_without_patterns (cfg : F.Cfg) (hm : cfg.map = []) (hi : cfg.inc = []) (hx : cfg.exc = []) (l : List StatE) :
    F.filterWalk true cfg l = l := by
  simpa [F.filterWalk] using C16W.walkLoop_nopatterns cfg hm hi hx l []

end Fsm.C16
