import FsutilModel.Props.C06
import FsutilModel.Props.C07
import FsutilModel.Props.C02
/-! # C08 — Outcome is schedule-independent

The outcome of a transfer — final tree, request set, notification set — is determined by functions of
(view, prior destination) alone; the protocol LTSs show that every schedule delivers exactly those. -/
namespace Fsm.C08

/-- Whatever the interleaving of workers, requests and reads (any event sequence the sender LTS
admits), once an id is finished the bytes sent for it are the file's bytes: two runs that both finish
an id have sent identical bytes for it. -/
theorem sent_bytes_schedule_independent (v : List (Bool × S.Bytes)) (es1 es2 : List S.Ev) (s1 s2 : S.St)
    (h1 : S.run (S.init v) es1 = some s1) (h2 : S.run (S.init v) es2 = some s2) (id : Nat)
    (f1 : s1.phase id = .finished) (f2 : s2.phase id = .finished) :
    S.dataFor id s1.out = S.dataFor id s2.out := by
  have a := (S.sender_data v es1 s1 h1 id).2.1 f1
  have b := (S.sender_data v es2 s2 h2 id).2.1 f2
  have hv1 : S.bytesOf s1 id = (v.getD id (false, [])).2 := by
    have : s1.view = v := S.run_view (S.init v) es1 s1 h1
    simp [S.bytesOf, this]
  have hv2 : S.bytesOf s2 id = (v.getD id (false, [])).2 := by
    have : s2.view = v := S.run_view (S.init v) es2 s2 h2
    simp [S.bytesOf, this]
  rw [a, b, hv1, hv2]

/-- On the receiving side the stored bytes depend only on the payload sequence of that id, not on how
ids and STATs interleave: two event sequences with the same per-id payloads store the same bytes. -/
theorem stored_bytes_schedule_independent (need : List Nat) (es1 es2 : List R.Ev) (s1 s2 : R.St)
    (h1 : R.run { need := need } es1 = some s1) (h2 : R.run { need := need } es2 = some s2) (id : Nat)
    (hp : R.payloads id es1 = R.payloads id es2) : R.storedFor id s1 = R.storedFor id s2 := by
  rw [C07.stored_is_concat need es1 s1 h1 id, C07.stored_is_concat need es2 s2 h2 id, hp]

/-- The request set is schedule-independent: two complete receiver runs (FIN sent) over the same change
computation have requested the same ids, whatever the interleaving of STATs, requests, content and
terminators was. -/
theorem request_set_schedule_independent (need : List Nat) (es1 es2 : List R.Ev) (s1 s2 : R.St)
    (h1 : R.run { need := need } es1 = some s1) (h2 : R.run { need := need } es2 = some s2)
    (f1 : s1.finSent = true) (f2 : s2.finSent = true) (id : Nat) : id ∈ s1.reqd ↔ id ∈ s2.reqd := by
  have n1 : s1.need = need := R.run_need _ es1 s1 h1
  have n2 : s2.need = need := R.run_need _ es2 s2 h2
  rw [C07.requests_are_exactly_the_needed_ids need es1 s1 h1 f1, C07.requests_are_exactly_the_needed_ids need es2 s2 h2 f2, n1, n2]

/-- The set of changes (hence of requests and notifications) is a function of the two listings. -/
theorem change_set_is_a_function (none : Bool) (L U : List StatE) :
    ∀ evs1 evs2, evs1 = diffB none L U → evs2 = diffB none L U → evs1 = evs2 := by
  intro _ _ h1 h2; rw [h1, h2]

end Fsm.C08
