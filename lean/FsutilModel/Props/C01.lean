import FsutilModel.Props.C02
import FsutilModel.Model.SyncB
/-! # C01 — Sync convergence (tree level) -/
namespace Fsm.C01
open D

/-- The change events the receiver computes for (old destination listing, announced source listing),
applied in order to the old listing, produce exactly the source listing: same path set and, per path,
the source's identity — for every valid pair of listings, every size, both differs. -/
theorem transfer_events_converge (none : Bool) (L U : List StatE)
    (hL : Valid byteOrd (L.map StatE.toEnt)) (hU : Valid byteOrd (U.map StatE.toEnt)) :
    ∀ q, (diffB none L U).foldl (applyEv byteOrd) (toMap (L.map StatE.toEnt)) q = toMap (U.map StatE.toEnt) q :=
  C02.diff_converges none L U hL hU

/-- Merge mode (the destination is not walked: the old listing is empty): every source entry is
announced as an addition, nothing is ever deleted. -/
theorem merge_never_deletes (none : Bool) (U : List StatE) :
    ∀ ev ∈ diffB none [] U, ∃ e, ev = .add e := by
  unfold diffB
  generalize (List.map StatE.toEnt U) = us
  generalize hn : ([] : List StatE).length + U.length + 1 = n
  clear hn
  induction n generalizing us with
  | zero => intro ev h; simp [diff] at h
  | succ n ih =>
    intro ev h
    cases us with
    | nil => simp [diff] at h
    | cons u us =>
      simp only [List.map_nil, diff, List.mem_cons] at h
      rcases h with h | h
      · exact ⟨u, h⟩
      · exact ih us ev (by simpa using h)

end Fsm.C01
