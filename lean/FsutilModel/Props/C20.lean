import FsutilModel.Varint
import FsutilModel.Model.Wire
import FsutilModel.WirePacket
import FsutilModel.WireSafe
/-! # C20 — Wire encoding and framing -/
namespace Fsm.C20
open W

/-- The protobuf varint codec round-trips every 64-bit value and leaves the rest of the input alone
(decoder = the generated shift loop with its overflow and end-of-input exits). -/
theorem varint_roundtrip (n : Nat) (h : n < 2^64) (rest : List Nat) :
    V.decVar 10 1 0 (V.encVar n ++ rest) = some (n, rest) :=
  V.varint_roundtrip n h rest

theorem ofBe32_be32 (n : Nat) (h : n < 4294967296) : ofBe32 (be32 n) = n := by
  simp only [be32, ofBe32]; omega

/-- Framing: any sequence of messages (each shorter than 2^32 bytes, empty ones included) written as
4-byte big-endian length + payload is read back identical and in order. The reader sees the byte
stream only through `io.ReadFull`, so the statement is independent of how the stream is fragmented. -/
theorem frames_roundtrip (msgs : List (List Nat)) (h : ∀ m ∈ msgs, m.length < 4294967296) (fuel : Nat)
    (hf : msgs.length < fuel) : recvAll fuel (sendAll msgs) = some msgs := by
  induction msgs generalizing fuel with
  | nil =>
    cases fuel with
    | zero => omega
    | succ f => simp [recvAll, sendAll]
  | cons m ms ih =>
    cases fuel with
    | zero => omega
    | succ f =>
      have hm : m.length < 4294967296 := h m (by simp)
      have hms : ∀ x ∈ ms, x.length < 4294967296 := fun x hx => h x (by simp [hx])
      have hrec := ih hms f (by simp at hf; omega)
      have hs : sendAll (m :: ms) = be32 m.length ++ (m ++ sendAll ms) := by
        simp [sendAll, frame, List.append_assoc]
      have hl : (be32 m.length).length = 4 := by simp [be32]
      rw [hs]
      simp only [recvAll]
      have hne : (be32 m.length ++ (m ++ sendAll ms)).isEmpty = false := by simp [be32]
      have h4 : ¬ (be32 m.length ++ (m ++ sendAll ms)).length < 4 := by simp [hl]
      have htake : (be32 m.length ++ (m ++ sendAll ms)).take 4 = be32 m.length := by
        rw [List.take_append_of_le_length (by omega)]; simp [List.take_of_length_le, hl]
      have hdrop : (be32 m.length ++ (m ++ sendAll ms)).drop 4 = m ++ sendAll ms := by
        rw [← hl, List.drop_left]
      simp only [hne, Bool.false_eq_true, if_false, h4, htake, hdrop, ofBe32_be32 _ hm]
      have hlen : ¬ (m ++ sendAll ms).length < m.length := by simp
      simp only [hlen, if_false, List.drop_left, List.take_left, hrec]

/-- non-vacuity: two messages, one of them empty -/
example : recvAll 5 (sendAll [[1, 2, 3], []]) = some [[1, 2, 3], []] := by decide

/-- The transcribed varint reader (`readVar`: array-indexed, `(b & 0x7f) << shift` OR-ed into a 64-bit accumulator, overflow
and end-of-input exits) reads back what the transcribed writer wrote, wherever it sits in a buffer. -/
theorem readVar_roundtrip (d : Bytes) (l i n : Nat) (hn : n < two64) (hat : At d i (encVar n))
    (hl : i + (encVar n).length ≤ l) : readVar d l i = .ok (n, i + (encVar n).length) :=
  readVar_enc d l i n hn hat hl

/-- **Stat round trip over the transcribed generated code**: for every well-formed value (uint32 / int64 field ranges,
distinct xattr keys, no unknown fields; names and values are arbitrary byte strings, including non-UTF-8 and empty ones)
`UnmarshalVT(MarshalVT(s)) = s`. -/
theorem stat_roundtrip (s : PStat) (hwf : s.WF) (hlen : (marshalStat s).length < two63) :
    unmarshalStat (marshalStat s) = .ok s :=
  W.stat_roundtrip s hwf hlen

/-- **Packet round trip** (type, nested optional Stat, id, data; `data = some []` is the one value the wire format cannot
distinguish from `none`, as in protobuf). -/
theorem packet_roundtrip (p : PPacket) (hwf : p.WF) (hlen : (marshalPacket p).length < two63) :
    unmarshalPacket (marshalPacket p) = .ok p :=
  W.packet_roundtrip p hwf hlen

/-- **Never panics on arbitrary bytes** (model level): in the transcription every index expression `dAtA[i]` and every
slice expression `dAtA[a:b]` is bounds-checked with the distinguished outcome `panic`; for EVERY byte string the Stat
decoder returns a value or one of the decoder's own errors, never `panic` — the generated bounds checks are sufficient. -/
theorem stat_decoder_never_panics (bs : List Nat) : unmarshalStat bs ≠ .error .panic :=
  W.unmarshalStat_never_panics bs

/-- the same for the Packet decoder, including the nested Stat decoded from its own sub-slice -/
theorem packet_decoder_never_panics (bs : List Nat) : unmarshalPacket bs ≠ .error .panic :=
  W.unmarshalPacket_never_panics bs

/-- non-vacuity: a value with a negative size, a maximal mode, an empty xattr value and a non-UTF-8 name … -/
def exStat : PStat :=
  { path := [255, 47, 0], mode := 4294967295, size := -1, mtime := 1700000000000000000,
    xattrs := [([117], []), ([118], [0, 200])] }
/-- … is well-formed … -/
example : exStat.WF := ⟨by decide, by decide, by decide, by decide, by decide, by decide, by decide, by decide, rfl⟩
/-- … and is decoded back (evaluated: a test of the statement's reading, not a proof of it) -/
example : (match unmarshalStat (marshalStat exStat) with | .ok s => decide (s = exStat) | .error _ => false) = true := by decide
example : (⟨2, some exStat, 7, some [1, 2, 3], []⟩ : PPacket).WF :=
  ⟨by decide, fun st h => by
    cases h; exact ⟨by decide, by decide, by decide, by decide, by decide, by decide, by decide, by decide, rfl⟩,
   by decide, by decide, rfl⟩

end Fsm.C20
