import FsutilModel.Props.C07
import FsutilModel.Props.C01
import FsutilModel.SenderConcProof
import FsutilModel.ReceiverConcProof
/-! # C04 — Faults: success is never reported for a partial tree (safety part) -/
namespace Fsm.C04

/-- The receiver sends FIN (and can only then return success) only in states where the end-of-stats
marker was received and the terminator of every needed id has arrived — for every event sequence,
i.e. whatever fault cut the run short before. -/
theorem fin_only_if_complete (need : List Nat) (es : List R.Ev) (s : R.St) (h : R.run { need := need } es = some s)
    (hf : s.finSent = true) : s.endSeen = true ∧ ∀ id ∈ s.need, id ∈ s.termd :=
  (C07.receiver_protocol need es s h).2.2.2 hf

/-- resume: convergence is quantified over every valid prior destination listing, in particular over
whatever an aborted or killed run left behind. -/
theorem resume_converges (none : Bool) (leftover U : List StatE)
    (hL : D.Valid byteOrd (leftover.map StatE.toEnt)) (hU : D.Valid byteOrd (U.map StatE.toEnt)) :
    ∀ q, (diffB none leftover U).foldl (D.applyEv byteOrd) (D.toMap (leftover.map StatE.toEnt)) q = D.toMap (U.map StatE.toEnt) q :=
  C01.transfer_events_converge none leftover U hL hU

/-! ## liveness after teardown (concrete, blocking model of the sender's goroutines) -/

/-- Once the stream is torn down the sender cannot deadlock: in every well-formed state (≥ 1 worker, pipeline capacity ≥ 1)
with some goroutine still alive, some goroutine can take a step — whatever the pipeline holds and however many
requests are pending (> 132 included). -/
theorem sender_no_deadlock_after_teardown (cap : Nat) (hcap : 0 < cap) (s : SC.St) (hwf : SC.WF s) (hw : s.workers ≠ [])
    (ht : s.torn = true) (hnd : SC.allDone s = false) : ∃ t env, (SC.step true cap s t env).isSome = true :=
  SC.teardown_progress cap hcap s hwf hw ht hnd

/-- … and every step strictly decreases the variant `mu`, so under every scheduler all goroutines have ended after at
most `mu s` steps: the call returns in bounded time and leaves no goroutine behind. -/
theorem sender_terminates_after_teardown (fixed : Bool) (cap : Nat) (s s' : SC.St) (t : SC.Tid) (env : SC.Env)
    (ht : s.torn = true) (hs : SC.step fixed cap s t env = some s') : SC.mu s' < SC.mu s :=
  SC.teardown_decreases fixed cap s s' t env ht hs

/-- the invariant used above is established initially and preserved by every step -/
theorem sender_wf_invariant (fixed : Bool) (cap : Nat) (s s' : SC.St) (t : SC.Tid) (env : SC.Env) (hwf : SC.WF s)
    (hs : SC.step fixed cap s t env = some s') : SC.WF s' :=
  SC.wf_step fixed cap s s' t env hwf hs

/-- F3 (kernel-checked): with the unconditional channel send of the code as it stood there is a well-formed state — all
workers gone, pipeline full, receive loop pushing one more request — that is stuck for ever after teardown, while the
repaired push leaves it. -/
theorem unrepaired_sender_can_block_forever :
    let s : SC.St := { walker := .exited, workers := [.exited], queue := [7], closed := false, recv := .push 8,
                       cancelled := true, torn := true }
    SC.allDone s = false ∧ (∀ t env, SC.step false 1 s t env = none) ∧ (∃ t env, (SC.step true 1 s t env).isSome = true) :=
  SC.unrepaired_push_can_block_forever

/-! ## liveness after teardown: the receiver (packet reader, feeder `dynamicWalker.fill`, differ goroutine, async writers) -/

/-- Once the stream is torn down the receiver cannot deadlock: in every well-formed state with some goroutine still alive
some goroutine can take a step — whatever `walkChan` and the differ's channel hold (any capacities ≥ 1, any backlog of
announced entries, e.g. more than 2 × 128). -/
theorem receiver_no_deadlock_after_teardown (capW capC : Nat) (hW : 0 < capW) (hC : 0 < capC) (s : RC.St) (hwf : RC.WF s)
    (ht : s.torn = true) (hnd : RC.allDone s = false) : ∃ t env, (RC.step true capW capC s t env).isSome = true :=
  RC.teardown_progress capW capC hW hC s hwf ht hnd

/-- … every step of every goroutine strictly decreases the variant `mu` (bounded time, no goroutine left behind) … -/
theorem receiver_terminates (fixed : Bool) (capW capC : Nat) (s s' : RC.St) (t : RC.Tid) (env : RC.Env)
    (hs : RC.step fixed capW capC s t env = some s') : RC.mu s' < RC.mu s :=
  RC.step_decreases fixed capW capC s s' t env hs

/-- … and the invariant holds initially and is preserved by every step. -/
theorem receiver_wf_invariant (capW capC : Nat) (s s' : RC.St) (t : RC.Tid) (env : RC.Env) (hwf : RC.WF s)
    (hs : RC.step true capW capC s t env = some s') : RC.WF s' :=
  RC.wf_step capW capC s s' t env hwf hs

theorem receiver_wf_init (n : Nat) : RC.WF (RC.init n) := RC.wf_init n

/-- Kernel-checked: a feeder that leaves on cancellation WITHOUT closing `closeCh` while it is handing an entry to the differ
(the shape of seeded change C04-c) reaches, by an explicit schedule from the initial state, a state in which the packet
reader is blocked for ever after teardown; the repaired feeder does not. -/
theorem feeder_without_close_blocks_forever :
    (match RC.runTrace false 1 1 (RC.init 4) RC.badSchedule with
     | some s => !RC.allDone { s with torn := true } && RC.stuck false 1 1 { s with torn := true }
     | none => false) = true :=
  RC.unrepaired_feeder_can_block_forever

end Fsm.C04
