import FsutilModel.Props.C07
import FsutilModel.Props.C01
/-! # C04 — Faults: success is never reported for a partial tree (safety part) -/
namespace Fsm.C04

/-- The receiver sends FIN (and can only then return success) only in states where the end-of-stats
marker was received and the terminator of every needed id has arrived — for every event sequence,
i.e. whatever fault cut the run short before. -/
theorem fin_only_if_complete (need : List Nat) (es : List R.Ev) (s : R.St) (h : R.run { need := need } es = some s)
    (hf : s.finSent = true) : s.endSeen = true ∧ ∀ id ∈ s.need, id ∈ s.termd :=
  (C07.receiver_protocol need es s h).2.2.2 hf

/-- resume: convergence is quantified over every valid prior destination listing, in particular over
whatever an aborted or killed run left behind. -/
theorem resume_converges (none : Bool) (leftover U : List StatE)
    (hL : D.Valid byteOrd (leftover.map StatE.toEnt)) (hU : D.Valid byteOrd (U.map StatE.toEnt)) :
    ∀ q, (diffB none leftover U).foldl (D.applyEv byteOrd) (D.toMap (leftover.map StatE.toEnt)) q = D.toMap (U.map StatE.toEnt) q :=
  C01.transfer_events_converge none leftover U hL hU

end Fsm.C04
