import FsutilModel.Model.Tar
import FsutilModel.Props.C11
import FsutilModel.Lemmas.C17
import FsutilModel.Lemmas.C17Perm
/-! # C17 — tar export (member abstraction) -/
namespace Fsm.C17
open T F

/-- one member per view entry, in walk order -/
theorem members_in_walk_order (view : List VEnt) :
    (members view).length = view.length ∧
    ∀ i (h : i < view.length), ((members view)[i]?).map (·.name) =
      some (let s := view[i].st; if s.isDir && s.path.getLast? ≠ some 47 then s.path ++ [47] else s.path) := by
  refine ⟨by simp [members], ?_⟩
  intro i h
  simp [members, memberOf, h]

/-- A payload follows the header iff the member is a regular file of positive size without link name;
symlinks and hard links are link members of size 0 and never carry a payload — for every view entry. -/
theorem payload_iff (v : VEnt) :
    hasPayload (memberOf v) = true ↔ (typeOf v.st = .reg ∧ v.st.size > 0 ∧ v.st.linkname = []) := by
  unfold hasPayload memberOf
  by_cases hl : v.st.linkname = []
  · by_cases ht : typeOf v.st = .reg
    · simp [hl, ht]
    · simp [hl, ht]
  · by_cases hs : v.st.isSymlink = true
    · simp [hl, hs]
    · simp [hl, hs]

theorem links_have_no_payload (v : VEnt) (h : v.st.linkname ≠ []) :
    (memberOf v).size = 0 ∧ (memberOf v).sha = [] ∧ ((memberOf v).tf = .symlink ∨ (memberOf v).tf = .link) := by
  unfold memberOf
  by_cases hs : v.st.isSymlink = true <;> simp [h, hs]

/-- directories are named with a trailing slash -/
theorem dir_trailing_slash (v : VEnt) (hd : v.st.isDir = true) : (memberOf v).name.getLast? = some 47 := by
  unfold memberOf
  by_cases h : v.st.path.getLast? = some 47
  · simp [hd, h]
  · simp [hd, h]

/-- identity fields are carried over unchanged -/
theorem identity_preserved (v : VEnt) :
    (memberOf v).uid = v.st.uid ∧ (memberOf v).gid = v.st.gid ∧ (memberOf v).xattrs = v.st.xattrs ∧
    (memberOf v).devmajor = v.st.devmajor ∧ (memberOf v).devminor = v.st.devminor ∧ (memberOf v).linkname = v.st.linkname := by
  simp [memberOf]

/-- **The repaired WriteTar writes an extractable archive for every filtered view** (link structure): whichever members of
each hard-link group the filter removed, every `link` member of the archive names an earlier member that is written as
the file itself (F24: the code as it stood wrote the listing without the reset). -/
theorem tar_links_closed (l : List StatE) (hc : C11.Canon l) (hdir : ∀ s ∈ l, s.isDir = true → s.linkname = [])
    (sha : StatE → Path) :
    memLinksClosed [] (members ((hardlinkReset l).map fun s => { st := s, sha := sha s })) = true := by
  apply members_closed sha _ [] _ (C11.reset_closed l hc)
  intro s hs hd
  exact hdir s (reset_dirs_unchanged l [] s hs hd) hd

/-- The mode field round-trips: for every `os.FileMode` the tar mode bits WriteTar writes (`unixPerm`:
rwx bits, setuid 04000, setgid 02000, sticky 01000) read back — as an extractor, or the copy option that
takes unix bits, reads them — to exactly the permission and special bits of the entry; no bit of them
is lost or invented, whatever the other (type) bits are. -/
theorem mode_bits_round_trip (m : Nat) : C.goPermOfUnix (unixPerm m) = m &&& C.permMask :=
  perm_round_trip m

/-- hence two entries whose archived mode fields are equal have equal permission and special bits -/
theorem mode_field_injective_on_perm_bits (m1 m2 : Nat) (h : unixPerm m1 = unixPerm m2) :
    m1 &&& C.permMask = m2 &&& C.permMask := by
  rw [← perm_round_trip m1, ← perm_round_trip m2, h]

/-- non-vacuity: a setuid+sticky 0751 directory mode -/
example : unixPerm (modeDir ||| modeSetuid ||| modeSticky ||| 489) = 2048 + 512 + 489 := by decide

end Fsm.C17
