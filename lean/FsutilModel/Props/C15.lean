import FsutilModel.Model.CopyB
/-! # C15 — overlay semantics and idempotence (abstract tree maps) -/
namespace Fsm.C15

/-- a tree as a finite map path ↦ entry; `E` = whatever an entry carries -/
abbrev TMap (E : Type) := Path → Option E

/-- the overlay of a source over a destination (always-replace reading, where no conflict arises): a path
the source has wins; a destination path strictly below a source NON-directory disappears with the
replaced entry; everything else of the destination stays -/
def overlay {E : Type} (isDir : E → Bool) (s d : TMap E) (under : Path → Path → Bool) (ancestors : Path → List Path) : TMap E :=
  fun p =>
    match s p with
    | some e => some e
    | none =>
      if (ancestors p).any (fun a => match s a with | some e => !isDir e | none => false) then none else d p

/-- Overlaying the same source a second time changes nothing — for every source, every destination. -/
theorem overlay_idempotent {E : Type} (isDir : E → Bool) (s d : TMap E) (under : Path → Path → Bool) (anc : Path → List Path) :
    overlay isDir s (overlay isDir s d under anc) under anc = overlay isDir s d under anc := by
  funext p
  simp only [overlay]
  cases s p with
  | some e => rfl
  | none =>
    simp only
    split
    · rfl
    · rfl

/-- Unrelated destination entries stay: a path the source does not have and that is not below a source
non-directory keeps its destination entry. -/
theorem overlay_keeps_unrelated {E : Type} (isDir : E → Bool) (s d : TMap E) (under : Path → Path → Bool) (anc : Path → List Path)
    (p : Path) (h1 : s p = none) (h2 : (anc p).any (fun a => match s a with | some e => !isDir e | none => false) = false) :
    overlay isDir s d under anc p = d p := by
  simp [overlay, h1, h2]

/-- source entries win -/
theorem overlay_source_wins {E : Type} (isDir : E → Bool) (s d : TMap E) (under : Path → Path → Bool) (anc : Path → List Path)
    (p : Path) (e : E) (h : s p = some e) : overlay isDir s d under anc p = some e := by
  simp [overlay, h]

/-- Landing rule (the executable reference uses exactly this predicate): a source directory lands inside an existing
destination under its own name unless directory-contents mode is on … -/
theorem dir_into_existing (cdc destIsDir : Bool) : C.landsInside cdc true true destIsDir = !cdc := by
  cases cdc <;> cases destIsDir <;> rfl

/-- … a non-directory copied to an existing directory lands inside it (either mode) … -/
theorem file_into_existing_dir (cdc : Bool) : C.landsInside cdc false true true = true := by
  cases cdc <;> rfl

/-- … a non-directory copied onto an existing non-directory replaces it (lands on the name itself) … -/
theorem file_onto_existing_file (cdc : Bool) : C.landsInside cdc false true false = false := by
  cases cdc <;> rfl

/-- … and a destination that does not exist yet is the name the source gets. -/
theorem new_destination_is_the_name (cdc srcIsDir destIsDir : Bool) : C.landsInside cdc srcIsDir false destIsDir = false := by
  cases cdc <;> cases srcIsDir <;> cases destIsDir <;> rfl

/-- the working-tree primitives of the executable reference are idempotent -/
theorem upsert_idem (t : List C.Node) (n : C.Node) : (C.upsert (C.upsert t n) n).map (·.path) = (C.upsert t n).map (·.path) := by
  unfold C.upsert
  by_cases h : t.any (·.path = n.path) = true
  · simp only [h, if_true]
    have : (t.map (fun x => if x.path = n.path then n else x)).any (·.path = n.path) = true := by
      simp only [List.any_eq_true, decide_eq_true_eq] at h ⊢
      obtain ⟨x, hx, hp⟩ := h
      exact ⟨n, by simp only [List.mem_map]; exact ⟨x, hx, by simp [hp]⟩, rfl⟩
    simp only [this, if_true, List.map_map]
    congr 1
    funext x
    simp only [Function.comp]
    by_cases hx : x.path = n.path <;> simp [hx]
  · simp only [h, Bool.false_eq_true, if_false]
    have : (t ++ [n]).any (·.path = n.path) = true := by simp
    simp only [this, if_true, List.map_map]
    congr 1
    funext x
    simp only [Function.comp]
    by_cases hx : x.path = n.path <;> simp [hx]

end Fsm.C15
