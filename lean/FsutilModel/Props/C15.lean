import FsutilModel.Model.CopyB
import FsutilModel.Lemmas.C15
/-! # C15 — overlay semantics and idempotence (abstract tree maps) -/
namespace Fsm.C15

/-- a tree as a finite map path ↦ entry; `E` = whatever an entry carries -/
abbrev TMap (E : Type) := Path → Option E

/-- the overlay of a source over a destination (always-replace reading, where no conflict arises): a path
the source has wins; a destination path strictly below a source NON-directory disappears with the
replaced entry; everything else of the destination stays -/
def overlay {E : Type} (isDir : E → Bool) (s d : TMap E) (under : Path → Path → Bool) (ancestors : Path → List Path) : TMap E :=
  fun p =>
    match s p with
    | some e => some e
    | none =>
      if (ancestors p).any (fun a => match s a with | some e => !isDir e | none => false) then none else d p

/-- Overlaying the same source a second time changes nothing — for every source, every destination. -/
theorem overlay_idempotent {E : Type} (isDir : E → Bool) (s d : TMap E) (under : Path → Path → Bool) (anc : Path → List Path) :
    overlay isDir s (overlay isDir s d under anc) under anc = overlay isDir s d under anc := by
  funext p
  simp only [overlay]
  cases s p with
  | some e => rfl
  | none =>
    simp only
    split
    · rfl
    · rfl

/-- Unrelated destination entries stay: a path the source does not have and that is not below a source
non-directory keeps its destination entry. -/
theorem overlay_keeps_unrelated {E : Type} (isDir : E → Bool) (s d : TMap E) (under : Path → Path → Bool) (anc : Path → List Path)
    (p : Path) (h1 : s p = none) (h2 : (anc p).any (fun a => match s a with | some e => !isDir e | none => false) = false) :
    overlay isDir s d under anc p = d p := by
  simp [overlay, h1, h2]

/-- source entries win -/
theorem overlay_source_wins {E : Type} (isDir : E → Bool) (s d : TMap E) (under : Path → Path → Bool) (anc : Path → List Path)
    (p : Path) (e : E) (h : s p = some e) : overlay isDir s d under anc p = some e := by
  simp [overlay, h]

/-- Landing rule (the executable reference uses exactly this predicate): a source directory lands inside an existing
destination under its own name unless directory-contents mode is on … -/
theorem dir_into_existing (cdc destIsDir : Bool) : C.landsInside cdc true true destIsDir = !cdc := by
  cases cdc <;> cases destIsDir <;> rfl

/-- … a non-directory copied to an existing directory lands inside it (either mode) … -/
theorem file_into_existing_dir (cdc : Bool) : C.landsInside cdc false true true = true := by
  cases cdc <;> rfl

/-- … a non-directory copied onto an existing non-directory replaces it (lands on the name itself) … -/
theorem file_onto_existing_file (cdc : Bool) : C.landsInside cdc false true false = false := by
  cases cdc <;> rfl

/-- … and a destination that does not exist yet is the name the source gets. -/
theorem new_destination_is_the_name (cdc srcIsDir destIsDir : Bool) : C.landsInside cdc srcIsDir false destIsDir = false := by
  cases cdc <;> cases srcIsDir <;> cases destIsDir <;> rfl

/-- the working-tree primitives of the executable reference are idempotent -/
theorem upsert_idem (t : List C.Node) (n : C.Node) : (C.upsert (C.upsert t n) n).map (·.path) = (C.upsert t n).map (·.path) := by
  unfold C.upsert
  by_cases h : t.any (·.path = n.path) = true
  · simp only [h, if_true]
    have : (t.map (fun x => if x.path = n.path then n else x)).any (·.path = n.path) = true := by
      simp only [List.any_eq_true, decide_eq_true_eq] at h ⊢
      obtain ⟨x, hx, hp⟩ := h
      exact ⟨n, by simp only [List.mem_map]; exact ⟨x, hx, by simp [hp]⟩, rfl⟩
    simp only [this, if_true, List.map_map]
    congr 1
    funext x
    simp only [Function.comp]
    by_cases hx : x.path = n.path <;> simp [hx]
  · simp only [h, Bool.false_eq_true, if_false]
    have : (t ++ [n]).any (·.path = n.path) = true := by simp
    simp only [this, if_true, List.map_map]
    congr 1
    funext x
    simp only [Function.comp]
    by_cases hx : x.path = n.path <;> simp [hx]

/-! ## Hard-link sources of the copier (F29)

The copier records, per source inode, the destination path of the first member of a hard-link group
(`St.inodes`) and links later members to that path. `C15L.Inv src s`: nodes with equal paths carry
equal content, and every recorded source is a node of the working tree that carries the content of
(an entry with) that inode. -/

/-- **The recorded link sources stay valid along every sequence of copied entries**, whatever the options,
patterns and collisions between sources: every state reached from a state satisfying the invariant
satisfies it (the repaired `dropTarget` forgets the sources recorded at a path that is replaced). -/
theorem link_sources_stay_valid (src : List Snap) (a : C.Args) (srcSub : List Snap) (srcRel dstFinal : Path) :
    ∀ (es : List Snap) (s s' : C.St), (∀ e ∈ es, e ∈ src) → C15L.Inv src s →
      es.foldlM (C.copyEntry a srcSub srcRel dstFinal) s = .ok s' → C15L.Inv src s' := by
  intro es
  induction es with
  | nil => intro s s' _ h hs; simp [List.foldlM, pure, Except.pure] at hs; cases hs; exact h
  | cons e rest ih =>
    intro s s' hsub h hs
    rw [List.foldlM_cons] at hs
    cases hstep : C.copyEntry a srcSub srcRel dstFinal s e with
    | error w => rw [hstep] at hs; simp [bind, Except.bind] at hs
    | ok s1 =>
      rw [hstep] at hs
      simp only [bind, Except.bind] at hs
      exact ih s1 s' (fun x hx => hsub x (List.mem_cons_of_mem _ hx))
        (C15L.inv_copyEntry src a srcSub srcRel dstFinal s s1 e (hsub e (List.mem_cons_self ..)) h hstep) hs

/-- … and along a whole call: any sequence of sources (wildcard matches), each with whatever destination path the
call resolves for it, each with its landing rule, `MkdirAll` of the missing parents and all its entries. The states
between the sources are exactly where F29 went wrong (a later source replaces a path an earlier one recorded). -/
theorem link_sources_stay_valid_call (a : C.Args) (srcTree : List Snap) :
    ∀ (srcs : List (Path × Path × Path)) (s s' : C.St), C15L.Inv (C15L.rootSnap :: srcTree) s →
      srcs.foldlM (fun s sr => C.copyOne a srcTree sr.1 sr.2.1 sr.2.2 s) s = .ok s' → C15L.Inv (C15L.rootSnap :: srcTree) s' := by
  intro srcs
  induction srcs with
  | nil => intro s s' h hs; simp [List.foldlM, pure, Except.pure] at hs; cases hs; exact h
  | cons sr rest ih =>
    intro s s' h hs
    rw [List.foldlM_cons] at hs
    cases hstep : C.copyOne a srcTree sr.1 sr.2.1 sr.2.2 s with
    | error w => rw [hstep] at hs; simp [bind, Except.bind] at hs
    | ok s1 =>
      rw [hstep] at hs
      simp only [bind, Except.bind] at hs
      exact ih s1 s' (C15L.inv_copyOne a srcTree _ _ _ s s1 h hstep) hs

/-- the invariant holds initially (nothing recorded yet) for every destination whose paths determine the content -/
theorem link_sources_initially (src : List Snap) (t : List C.Node) (h : C15L.PathDet t) : C15L.Inv src { tree := t } :=
  ⟨h, by intro ip hip; cases hip⟩

/-- **A hard link never joins different contents**: in a state satisfying the invariant, the link source the copier
has recorded for an entry's inode is a node carrying that entry's content (source entries with one inode have one
content). This is what failed before F29 was repaired. -/
theorem link_joins_same_content (src : List Snap) (s : C.St) (e : Snap) (l : Path)
    (hsrc : ∀ x ∈ src, ∀ y ∈ src, x.ino = y.ino → x.sha = y.sha) (he : e ∈ src) (h : C15L.Inv src s)
    (hl : C.leaderOf e s = some l) : ∃ n ∈ s.tree, n.path = l ∧ n.sha = e.sha := by
  unfold C.leaderOf at hl
  split at hl
  · cases hf : s.inodes.find? (·.1 = e.ino) with
    | none => rw [hf] at hl; cases hl
    | some ip =>
      rw [hf] at hl
      simp only [Option.map_some, Option.some.injEq] at hl
      have hmem := List.mem_of_find?_eq_some hf
      have hino : ip.1 = e.ino := by simpa using List.find?_some hf
      obtain ⟨n, hn, hnp, e', he', hei, hsha⟩ := h.2 ip hmem
      exact ⟨n, hn, by rw [hnp, hl], by rw [hsha]; exact hsrc e' he' e he (by rw [hei, hino])⟩
  · cases hl

/-- witness for the unrepaired `dropTarget`: after the path of a recorded source has been replaced, the record still
names it — the next member of that group would be linked to whatever stands there now -/
theorem unrepaired_link_source_goes_stale :
    let f : C.Node := { path := [102], st := { path := [102], mode := 420, uid := 0, gid := 0, size := 1, mtime := 0, linkname := [],
                                                 devmajor := 0, devminor := 0 }, sha := [1], mtime := none }
    let s : C.St := { tree := [f], inodes := [(7, [102])] }
    (C.dropTargetG false s [102]).inodes = [(7, [102])] ∧ (C.dropTargetG false s [102]).tree = [] ∧
    (C.dropTargetG true s [102]).inodes = [] := by
  refine ⟨rfl, ?_, ?_⟩ <;> simp [C.dropTargetG, C.removeSub]

/-- the invariant is satisfiable with a recorded source (the statements above are not vacuous) -/
example :
    let e : Snap := { st := { path := [102], mode := 420, uid := 0, gid := 0, size := 1, mtime := 0, linkname := [], devmajor := 0, devminor := 0 },
                      ino := 7, nlink := 2, sha := [1] }
    let f : C.Node := { path := [111, 47, 102], st := e.st, sha := [1], mtime := none }
    C15L.Inv [e] { tree := [f], inodes := [(7, [111, 47, 102])] } := by
  intro e f
  refine ⟨?_, ?_⟩
  · intro x hx y hy _
    simp only [List.mem_singleton] at hx hy
    rw [hx, hy]
  · intro ip hip
    simp only [List.mem_singleton] at hip
    subst hip
    exact ⟨f, by simp, rfl, e, by simp, rfl, rfl⟩

end Fsm.C15
