import FsutilModel.Prune
import FsutilModel.PruneSyn
import FsutilModel.Model.Filter
/-! # C10 — Filtered walk; pruning is unobservable -/
namespace Fsm.C10

/-- Core of pruning soundness for the parent-result matcher, for every pattern list (patterns
abstracted to their match predicate), every directory `d` and every descendant `q` evaluated with
parent results that came from somewhere between `d` and `q`: if no positive pattern can match below
`d` without matching `d` itself (the semantic prune condition), then a negative verdict at `d`
stays negative at `q` — nothing below a pruned directory would have been reported. -/
theorem prune_core (d q : Pr.Path) : ∀ (ps : List Pr.Pat) (Ip Iq : List Bool) (f g : Bool),
    Ip.length = ps.length → Iq.length = ps.length →
    Pr.Le (Pr.go ps Ip d f).2 Iq → Pr.Rel d ps (Pr.go ps Ip d f).2 Iq →
    (∀ p ∈ ps, p.neg = false → p.m q = true → p.m d = true) → (g = true → f = true) →
    ((Pr.go ps Iq q g).1 = true → (Pr.go ps Ip d f).1 = true) :=
  fun ps Ip Iq f g h1 h2 h3 h4 h5 h6 => (Pr.go_prune d q ps Ip Iq f g h1 h2 h3 h4 h5 h6).1

/-- F9 witness (kernel-checked): with the double trim `a/*/**` is treated as the literal `a`,
`a/x` is pruned although `a/x/y` matches. -/
theorem f9_witness :
    let s := PS.Shape.starDstar [97]            -- "a/*/**"
    let d : Path := [97, 47, 120]               -- "a/x"
    let q : Path := [97, 47, 120, 47, 121]      -- "a/x/y"
    PS.base2 s = some [97] ∧ PS.keepWalking [97] d = false ∧ PS.under d q = true ∧ PS.m s q = true ∧ PS.m s d = false :=
  PS.f9_witness

/-- With a single trim the syntactic test is sound for the shapes exact `t`, `t/*`, `t/**`, `t/*/**`:
if the walk does not keep walking into `d`, nothing under `d` matches unless `d` itself matches. -/
theorem prune_syntactic_sound (s : PS.Shape) (t : Path) (hb : PS.base1 s = some t) (d : Path)
    (hk : PS.keepWalking t d = false) : ∀ q, PS.under d q = true → PS.m s q = true → PS.m s d = true :=
  PS.prune_syn_sound s t hb d (by simp) hk

end Fsm.C10
