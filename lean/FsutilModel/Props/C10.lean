import FsutilModel.Prune
import FsutilModel.PruneSyn
import FsutilModel.Model.Filter
import FsutilModel.Lemmas.C10
import FsutilModel.Lemmas.C10Walk
/-! # C10 — Filtered walk; pruning is unobservable -/
namespace Fsm.C10
open P F

/-- Core of pruning soundness for the parent-result matcher, for every pattern list (patterns
abstracted to their match predicate), every directory `d` and every descendant `q` evaluated with
parent results that came from somewhere between `d` and `q`: if no positive pattern can match below
`d` without matching `d` itself (the semantic prune condition), then a negative verdict at `d`
stays negative at `q` — nothing below a pruned directory would have been reported. -/
theorem prune_core (d q : Pr.Path) : ∀ (ps : List Pr.Pat) (Ip Iq : List Bool) (f g : Bool),
    Ip.length = ps.length → Iq.length = ps.length →
    Pr.Le (Pr.go ps Ip d f).2 Iq → Pr.Rel d ps (Pr.go ps Ip d f).2 Iq →
    (∀ p ∈ ps, p.neg = false → p.m q = true → p.m d = true) → (g = true → f = true) →
    ((Pr.go ps Iq q g).1 = true → (Pr.go ps Ip d f).1 = true) :=
  fun ps Ip Iq f g h1 h2 h3 h4 h5 h6 => (Pr.go_prune d q ps Ip Iq f g h1 h2 h3 h4 h5 h6).1

/-- F9 witness (kernel-checked): with the double trim `a/*/**` is treated as the literal `a`,
`a/x` is pruned although `a/x/y` matches. -/
theorem f9_witness :
    let s := PS.Shape.starDstar [97]            -- "a/*/**"
    let d : Path := [97, 47, 120]               -- "a/x"
    let q : Path := [97, 47, 120, 47, 121]      -- "a/x/y"
    PS.base2 s = some [97] ∧ PS.keepWalking [97] d = false ∧ PS.under d q = true ∧ PS.m s q = true ∧ PS.m s d = false :=
  PS.f9_witness

/-- With a single trim the syntactic test is sound for the shapes exact `t`, `t/*`, `t/**`, `t/*/**`:
if the walk does not keep walking into `d`, nothing under `d` matches unless `d` itself matches. -/
theorem prune_syntactic_sound (s : PS.Shape) (t : Path) (hb : PS.base1 s = some t) (d : Path)
    (hk : PS.keepWalking t d = false) : ∀ q, PS.under d q = true → PS.m s q = true → PS.m s d = true :=
  PS.prune_syn_sound s t hb d (by simp) hk

/-- the executable parent-results matcher IS the abstract one, whenever it is given parent results (i.e. below the root) -/
theorem matchesUPR_eq (ps : List P.Pat) (path : List Nat) (I : List Bool) (hne : I ≠ []) (hlen : I.length = ps.length) :
    matchesUPR ps path I = Pr.upr (ps.map toAbs) I path := by
  unfold matchesUPR Pr.upr
  rw [go_bridge path I hne ps I false [] hlen]
  simp

/-- **Pruning is unobservable for the executable matcher** (include side, semantic condition): let the transcribed
`MatchesUsingParentResults` give verdict "no match" at a directory `d`. If no positive pattern of the list matches a path of
`Below` without matching `d` itself, then along every chain of paths of `Below` evaluated top-down with the parent results
threaded through - as the walk does below `d` - the verdict stays "no match": nothing below `d` would have been reported,
so returning SkipDir at `d` cannot be observed. For every pattern list (negations included) and every such chain. -/
theorem exec_prune_sound (ps : List P.Pat) (hps : ps ≠ []) (Ip : List Bool) (hIp : Ip.length = ps.length) (d : List Nat)
    (hv : (matchesUPR ps d Ip).1 = false) (Below : List Nat → Prop)
    (hS : ∀ q, Below q → ∀ p ∈ ps, p.neg = false → patMatch p q = true → patMatch p d = true) :
    ∀ (chain : List (List Nat)), (∀ q ∈ chain, Below q) → chain ≠ [] →
      (chain.foldl (fun (acc : List Bool × Bool) x => let r := matchesUPR ps x acc.1; (r.2, acc.2 || r.1))
        ((matchesUPR ps d Ip).2, false)).2 = false := by
  have hIne : Ip ≠ [] := by
    intro e; rw [e] at hIp; simp at hIp; exact hps (List.eq_nil_of_length_eq_zero hIp.symm)
  have hlenA : Ip.length = (ps.map toAbs).length := by simpa using hIp
  rw [matchesUPR_eq ps d Ip hIne hIp] at hv ⊢
  have hS' : ∀ q, Below q → ∀ p ∈ ps.map toAbs, p.neg = false → p.m q = true → p.m d = true := by
    intro q hq p hp hn hm
    obtain ⟨p0, hp0, rfl⟩ := List.mem_map.mp hp
    exact hS q hq p0 hp0 hn hm
  intro chain hB hne
  -- the fold over the executable matcher equals the fold over the abstract one (lengths are preserved)
  have hfold : ∀ (xs : List (List Nat)) (I : List Bool) (b : Bool), I.length = ps.length →
      xs.foldl (fun (acc : List Bool × Bool) x => let r := matchesUPR ps x acc.1; (r.2, acc.2 || r.1)) (I, b) =
      xs.foldl (fun (acc : List Bool × Bool) x => let r := Pr.upr (ps.map toAbs) acc.1 x; (r.2, acc.2 || r.1)) (I, b) := by
    intro xs
    induction xs with
    | nil => intro I b _; rfl
    | cons x xs ih =>
      intro I b hI
      have hIne' : I ≠ [] := by intro e; rw [e] at hI; simp at hI; exact hps (List.eq_nil_of_length_eq_zero hI.symm)
      simp only [List.foldl_cons]
      rw [matchesUPR_eq ps x I hIne' hI]
      exact ih _ _ (by rw [Pr.upr, Pr.go_length]; simp)
  have hl0 : (Pr.upr (ps.map toAbs) Ip d).2.length = ps.length := by rw [Pr.upr, Pr.go_length]; simp
  rw [hfold chain _ false hl0]
  obtain ⟨q, hq⟩ := List.exists_mem_of_ne_nil chain hne
  exact Pr.prune_sound (ps.map toAbs) Ip d hlenA hv Below hS' chain hB _ (by rw [hl0]; simp) (Pr.Le_refl _)
    (Rel_refl d _ _ (by rw [hl0]; simp)) q hq trivial

/-- **The syntactic prune test implies the semantic condition for literal and `t/**` patterns** (the pattern kinds that
`onlyPrefixIncludes` admits and that patternmatcher matches by string comparison): if for every positive pattern the
directory `d/` is not a prefix of the pattern's literal base followed by `/`, then no positive pattern matches a path
below `d` without matching `d`. -/
theorem literal_prune_condition (ps : List P.Pat) (d : List Nat)
    (hshape : ∀ p ∈ ps, p.neg = false →
      (p.mt = .exact ∧ withoutTrailingGlob true p = p.text) ∨
      (p.mt = .prefix_ ∧ p.text = withoutTrailingGlob true p ++ [47, 42, 42]))
    (hprune : ∀ p ∈ ps, p.neg = false → (d ++ [47]).isPrefixOf (withoutTrailingGlob true p ++ [47]) = false) :
    ∀ q, (d ++ [47]).isPrefixOf q = true → ∀ p ∈ ps, p.neg = false → patMatch p q = true → patMatch p d = true := by
  intro q hq p hp hn hm
  have hqd : d ++ [47] <+: q := List.isPrefixOf_iff_prefix.mp hq
  have hnp : ¬ (d ++ [47] <+: withoutTrailingGlob true p ++ [47]) := by
    intro h; have := hprune p hp hn; rw [List.isPrefixOf_iff_prefix.mpr h] at this; cases this
  rcases hshape p hp hn with ⟨hmt, hbase⟩ | ⟨hmt, htext⟩
  · -- exact: q is the pattern text itself, so d/ would be a prefix of it
    unfold patMatch at hm
    simp only [hmt, decide_eq_true_eq] at hm
    exfalso; apply hnp
    rw [hbase, ← hm]
    exact prefix_of_append_left _ _ _ hqd
  · -- t/**: matches exactly the paths below t/
    generalize hw : withoutTrailingGlob true p = t at *
    have htake : p.text.take (p.text.length - 2) = t ++ [47] := by
      rw [htext]
      have e1 : t ++ [47, 42, 42] = (t ++ [47]) ++ [42, 42] := by simp
      have e2 : (t ++ [47, 42, 42]).length - 2 = (t ++ [47]).length := by simp
      rw [e2, e1, List.take_left']
      rfl
    unfold patMatch at hm ⊢
    simp only [hmt, htake] at hm ⊢
    have hqt : t ++ [47] <+: q := List.isPrefixOf_iff_prefix.mp hm
    rcases List.prefix_or_prefix_of_prefix hqd hqt with h | h
    · exact absurd h hnp
    · have hne : t ++ [47] ≠ d ++ [47] := by
        intro e; apply hnp; rw [e]; exact List.prefix_refl _
      exact List.isPrefixOf_iff_prefix.mpr (prefix_of_proper_prefix_snoc _ d 47 h hne)

/-- **Pruning below a directory is unobservable for literal and `t/**` include lists, from the syntactic test alone**: if the
executable matcher says "no match" at `d` and the prune test of filter.go passes (no positive pattern's base lies at or below
`d`), then along every chain of paths below `d` evaluated with threaded parent results the verdict stays "no match". -/
theorem literal_prune_unobservable (ps : List P.Pat) (hps : ps ≠ []) (Ip : List Bool) (hIp : Ip.length = ps.length) (d : List Nat)
    (hv : (matchesUPR ps d Ip).1 = false)
    (hshape : ∀ p ∈ ps, p.neg = false →
      (p.mt = .exact ∧ withoutTrailingGlob true p = p.text) ∨
      (p.mt = .prefix_ ∧ p.text = withoutTrailingGlob true p ++ [47, 42, 42]))
    (hprune : ∀ p ∈ ps, p.neg = false → (d ++ [47]).isPrefixOf (withoutTrailingGlob true p ++ [47]) = false) :
    ∀ (chain : List (List Nat)), (∀ q ∈ chain, (d ++ [47]).isPrefixOf q = true) → chain ≠ [] →
      (chain.foldl (fun (acc : List Bool × Bool) x => let r := matchesUPR ps x acc.1; (r.2, acc.2 || r.1))
        ((matchesUPR ps d Ip).2, false)).2 = false :=
  exec_prune_sound ps hps Ip hIp d hv (fun q => (d ++ [47]).isPrefixOf q = true)
    (fun q hq p hp hn hm => literal_prune_condition ps d hshape hprune q hq p hp hn hm)

/-- non-vacuity: the parsed patterns `a/b` and `a/**` have exactly these shapes -/
example : (parsePattern [97, 47, 98]).map (fun p => (p.mt, decide (withoutTrailingGlob true p = p.text))) = some (.exact, true) := by decide
example : (parsePattern [97, 47, 42, 42]).map (fun p => (p.mt, decide (p.text = withoutTrailingGlob true p ++ [47, 42, 42]))) = some (.prefix_, true) := by
  decide


/-! ## The filtered walk against the naive reference, for whole listings

`filterFS.Walk` (and the copier) thread `MatchesUsingParentResults` down the walk; `filterFS.Open` and the naive reference
use the stateless `MatchesOrParentMatches`. Known finding F5 is that the two differ under negations. Without negations
they are the same function, and then the filtered walk of every canonical listing (the premise `C16W.Canon` is evaluated
on the listings the real walk produced) reports exactly what the reference keeps. -/

/-- parent-result matching along the ancestors of a path = stateless matching, for every negation-free pattern list -/
theorem chain_matching_is_stateless_without_negations (ps : List P.Pat) (hneg : ∀ p ∈ ps, p.neg = false) (path : List Nat)
    (hfirst : ∀ q rest, P.parentPrefixes path ++ [path] = q :: rest → P.parentPrefixes q = []) :
    C.uprChain ps path = P.matchesOrParent ps path :=
  C10C.chain_eq_stateless ps hneg path hfirst

/-- **filtered walk = naive reference** (pruning off, no map function, no negations, any canonical listing) -/
theorem filtered_walk_equals_reference_without_negations (cfg : F.Cfg) (hp : cfg.prune = false) (hm : cfg.map = [])
    (hf : (!cfg.inc.isEmpty || !cfg.exc.isEmpty) = true)
    (hni : ∀ p ∈ cfg.inc, p.neg = false) (hnx : ∀ p ∈ cfg.exc, p.neg = false)
    (l : List StatE) (hC : C16W.Canon l) :
    ∀ e, e ∈ F.filterWalk true cfg l ↔ e ∈ F.reference cfg l :=
  C10W.filterWalk_eq_reference cfg hp hm hf hni hnx l hC

end Fsm.C10
