import FsutilModel.Model.RecvProto
/-! # C07 — Receiver speaks the documented wire protocol -/
namespace Fsm.C07
open R

/-- In every reachable state of the receiver LTS: every id requested is one the change computation
needs, was announced before it was requested (its STAT index is below the number of STATs received),
is requested at most once; terminators only arrive for requested ids; and FIN is sent only after the
end-of-stats marker and the terminator of every needed id. -/
theorem receiver_protocol (need : List Nat) (es : List Ev) (s : St) (h : run { need := need } es = some s) :
    (∀ id ∈ s.reqd, id ∈ s.need ∧ id < s.statsRecv) ∧ s.reqd.Nodup ∧ (∀ id ∈ s.termd, id ∈ s.reqd) ∧
    (s.finSent = true → s.endSeen = true ∧ ∀ id ∈ s.need, id ∈ s.termd) := by
  have hi := inv_run es _ _ (inv_init need) h
  exact ⟨hi.reqNeed, hi.reqNodup, hi.termReq, hi.fin⟩

/-- For every event sequence, the bytes stored for an id are exactly the concatenation of the DATA
payloads received for it — any chunk sizes, any interleaving of ids and of STATs. -/
theorem stored_is_concat (need : List Nat) (es : List Ev) (s : St) (h : run { need := need } es = some s) (id : Nat) :
    storedFor id s = payloads id es := by
  have := storedFor_run es { need := need } s h id
  simpa [storedFor] using this

/-- non-vacuity -/
example : (run { need := [1] } [.rStat, .rStat, .sReq 1, .rData 1 [7, 8], .rEnd, .rData 1 [9], .rTerm 1, .sFin]).isSome = true := by
  decide

end Fsm.C07
