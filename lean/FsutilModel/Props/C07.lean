import FsutilModel.Model.RecvProto
import FsutilModel.Lemmas.C07
/-! # C07 — Receiver speaks the documented wire protocol -/
namespace Fsm.C07
open R

/-- In every reachable state of the receiver LTS: every id requested is one the change computation
needs, was announced before it was requested (its STAT index is below the number of STATs received),
is requested at most once; terminators only arrive for requested ids; and FIN is sent only after the
end-of-stats marker and the terminator of every needed id. -/
theorem receiver_protocol (need : List Nat) (es : List Ev) (s : St) (h : run { need := need } es = some s) :
    (∀ id ∈ s.reqd, id ∈ s.need ∧ id < s.statsRecv) ∧ s.reqd.Nodup ∧ (∀ id ∈ s.termd, id ∈ s.reqd) ∧
    (s.finSent = true → s.endSeen = true ∧ ∀ id ∈ s.need, id ∈ s.termd) := by
  have hi := inv_run es _ _ (inv_init need) h
  exact ⟨hi.reqNeed, hi.reqNodup, hi.termReq, hi.fin⟩

/-- For every event sequence, the bytes stored for an id are exactly the concatenation of the DATA
payloads received for it — any chunk sizes, any interleaving of ids and of STATs. -/
theorem stored_is_concat (need : List Nat) (es : List Ev) (s : St) (h : run { need := need } es = some s) (id : Nat) :
    storedFor id s = payloads id es := by
  have := storedFor_run es { need := need } s h id
  simpa [storedFor] using this

/-- Once FIN has been sent the ids requested are exactly the ids the change computation needs (as sets):
nothing needed was skipped and nothing else was asked for. -/
theorem requests_are_exactly_the_needed_ids (need : List Nat) (es : List Ev) (s : St) (h : run { need := need } es = some s)
    (hf : s.finSent = true) (id : Nat) : id ∈ s.reqd ↔ id ∈ s.need := by
  obtain ⟨h1, _, h3, h4⟩ := receiver_protocol need es s h
  exact ⟨fun hr => (h1 id hr).1, fun hn => h3 id ((h4 hf).2 id hn)⟩

/-- Nothing is stored for an id that was not requested: in every reachable state each stored chunk
belongs to a requested (hence needed and announced) id. -/
theorem stored_only_for_requested (need : List Nat) (es : List Ev) (s : St) (h : run { need := need } es = some s) :
    ∀ x ∈ s.stored, x.1 ∈ s.reqd ∧ x.1 ∈ s.need :=
  fun x hx =>
    have hr := storedReq_run es _ _ (by intro y hy; simp at hy) h x hx
    ⟨hr, ((receiver_protocol need es s h).1 x.1 hr).1⟩

/-- non-vacuity -/
example : (run { need := [1] } [.rStat, .rStat, .sReq 1, .rData 1 [7, 8], .rEnd, .rData 1 [9], .rTerm 1, .sFin]).isSome = true := by
  decide

/-- In every reachable state a terminator has been accepted at most once per id: a second terminator
for an id (or content after it, see `step`) is not part of any accepted log. -/
theorem terminator_once_per_id (need : List Nat) (es : List Ev) (s : St) (h : run { need := need } es = some s) :
    s.termd.Nodup :=
  termNodup_run es _ _ (by simp) h

/-- FIN is the last thing the receiver sends: in every accepted log nothing after the FIN is a request
or another FIN (so FIN is sent at most once, and no id is requested after it). -/
theorem fin_is_the_last_send (need : List Nat) (before after : List Ev) (s : St)
    (h : run { need := need } (before ++ .sFin :: after) = some s) :
    ∀ e ∈ after, (∀ id, e ≠ .sReq id) ∧ e ≠ .sFin := by
  obtain ⟨m, _, h2⟩ := run_append before (.sFin :: after) _ _ h
  simp only [run] at h2
  cases hs : step m .sFin with
  | none => rw [hs] at h2; cases h2
  | some m1 =>
    rw [hs] at h2
    have hf : m1.finSent = true := by
      simp only [step] at hs
      split at hs
      · cases hs; rfl
      · cases hs
    exact (afterFin_run after m1 s hf h2).2

/-- the acceptor rejects what the two theorems exclude (the premises are not vacuous: these logs are refused) -/
example : (run { need := [0] } [.rStat, .sReq 0, .rTerm 0, .rTerm 0]).isSome = false := by decide
example : (run { need := [0] } [.rStat, .sReq 0, .rTerm 0, .rEnd, .sFin, .sFin]).isSome = false := by decide

end Fsm.C07
