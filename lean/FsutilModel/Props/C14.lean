import FsutilModel.Model.CopyB
/-! # C14 — copy stays inside its roots: the chroot-style resolver -/
namespace Fsm.C14
open FL

/-- a component that can be part of a resolved location -/
def PlainComp (c : Path) : Prop := c ≠ [] ∧ c ≠ [dot] ∧ c ≠ dd

/-- The chroot-style resolver ("as if each root were /") never leaves the root: whatever symlinks the
tree contains (absolute, `..`-laden, dangling, looping) and whatever the path argument is, the location
it arrives at consists of plain components only — no `..`, no `.`, no empty component — so joined below
the root it names something inside the root. For every tree, every path, every fuel. -/
theorem resolve_stays_inside (l : List Ent) : ∀ (fuel : Nat) (st : List (Path × List Path)) (seen cur rest : List Path) (fin : List Path),
    (∀ c ∈ cur, PlainComp c) →
    (resolveLoop l fuel st seen cur rest).2 = some fin →
    ∀ c ∈ fin, PlainComp c := by
  intro fuel
  induction fuel with
  | zero => intro st seen cur rest fin _ h; simp [resolveLoop] at h
  | succ n ih =>
    intro st seen cur rest fin hc h
    cases rest with
    | nil =>
      simp only [resolveLoop, Option.some.injEq] at h
      subst h; exact hc
    | cons c rest =>
      simp only [resolveLoop] at h
      split at h
      · exact ih st seen cur rest fin hc h
      · rename_i h1
        split at h
        · refine ih st seen cur.dropLast rest fin ?_ h
          intro x hx; exact hc x (List.dropLast_subset cur hx)
        · rename_i h2
          have hplain : ∀ x ∈ cur ++ [c], PlainComp x := by
            intro x hx
            simp only [List.mem_append, List.mem_singleton] at hx
            rcases hx with hx | rfl
            · exact hc x hx
            · exact ⟨fun e => h1 (Or.inl e), fun e => h1 (Or.inr e), h2⟩
          split at h
          · split at h
            · split at h
              · simp at h
              · split at h
                · exact ih _ _ [] _ fin (by simp) h
                · exact ih _ _ cur _ fin hc h
            · exact ih st seen (cur ++ [c]) rest fin hplain h
          · exact ih st seen (cur ++ [c]) rest fin hplain h

/-- non-vacuity: a link `a -> ../../outside` below the root resolves to `outside` INSIDE the root -/
example : (resolve [⟨[97], false, some [46, 46, 47, 46, 46, 47, 111]⟩] [97]).2 = some [111] := by decide

end Fsm.C14
