import FsutilModel.Model.CopyB
import FsutilModel.ValidatorBridge1
import FsutilModel.Lemmas.C14
/-! # C14 — copy stays inside its roots: the chroot-style resolver -/
namespace Fsm.C14
open FL C

/-- The chroot-style resolver ("as if each root were /") never leaves the root: whatever symlinks the
tree contains (absolute, `..`-laden, dangling, looping) and whatever the path argument is, the location
it arrives at consists of plain components only — no `..`, no `.`, no empty component — so joined below
the root it names something inside the root. For every tree, every path, every fuel. -/
theorem resolve_stays_inside (l : List Ent) : ∀ (fuel : Nat) (st : List (Path × List Path)) (seen cur rest : List Path) (fin : List Path),
    (∀ c ∈ cur, PlainComp c) →
    (resolveLoop l fuel st seen cur rest).2 = some fin →
    ∀ c ∈ fin, PlainComp c := by
  intro fuel
  induction fuel with
  | zero => intro st seen cur rest fin _ h; simp [resolveLoop] at h
  | succ n ih =>
    intro st seen cur rest fin hc h
    cases rest with
    | nil =>
      simp only [resolveLoop, Option.some.injEq] at h
      subst h; exact hc
    | cons c rest =>
      simp only [resolveLoop] at h
      split at h
      · exact ih st seen cur rest fin hc h
      · rename_i h1
        split at h
        · refine ih st seen cur.dropLast rest fin ?_ h
          intro x hx; exact hc x (List.dropLast_subset cur hx)
        · rename_i h2
          have hplain : ∀ x ∈ cur ++ [c], PlainComp x := by
            intro x hx
            simp only [List.mem_append, List.mem_singleton] at hx
            rcases hx with hx | rfl
            · exact hc x hx
            · exact ⟨fun e => h1 (Or.inl e), fun e => h1 (Or.inr e), h2⟩
          split at h
          · split at h
            · split at h
              · simp at h
              · split at h
                · exact ih _ _ [] _ fin (by simp) h
                · exact ih _ _ cur _ fin hc h
            · exact ih st seen (cur ++ [c]) rest fin hplain h
          · exact ih st seen (cur ++ [c]) rest fin hplain h

/-- non-vacuity: a link `a -> ../../outside` below the root resolves to `outside` INSIDE the root -/
example : (resolve [⟨[97], false, some [46, 46, 47, 46, 46, 47, 111]⟩] [97]).2 = some [111] := by decide

/-- **The landing name of a copy is a single plain component (or nothing)**: whatever the source argument is (`sub/..`,
`..`, `a//b/`, absolute or not), the name joined below an existing destination directory is empty or a non-empty
separator-free component different from "." and ".." — the copy lands on a direct child of the destination, never above it. -/
theorem landName_plain (a : Path) :
    landName true a = [] ∨ (PlainC' (landName true a) ∧ sep ∉ landName true a) := by
  obtain ⟨cs, hcl, hp⟩ := clean_rooted a
  unfold landName
  simp only [if_true, hcl]
  by_cases hne : cs = []
  · subst hne
    left
    simp [joinSep, baseB, stripTrailingSeps, lastSepEnd, lastSepEnd.go]
  · obtain ⟨init, b, rfl⟩ : ∃ init b, cs = init ++ [b] := ⟨cs.dropLast, cs.getLast hne, (List.dropLast_concat_getLast hne).symm⟩
    have hb := hp b (by simp)
    have hbase : baseB (sep :: joinSep (init ++ [b])) = b := by
      rw [joinSep_snoc]
      obtain ⟨b0, x, rfl⟩ : ∃ b0 x, b = b0 ++ [x] := ⟨b.dropLast, b.getLast hb.1.1, (List.dropLast_concat_getLast hb.1.1).symm⟩
      have hx : x ≠ sep := by intro e; apply hb.2; simp [e]
      unfold baseB
      have hne2 : sep :: (joinPre init ++ (b0 ++ [x])) ≠ [] := by simp
      simp only [hne2, if_false]
      have hstrip : stripTrailingSeps (sep :: (joinPre init ++ (b0 ++ [x]))) = sep :: (joinPre init ++ (b0 ++ [x])) := by
        have : sep :: (joinPre init ++ (b0 ++ [x])) = (sep :: (joinPre init ++ b0)) ++ [x] := by simp
        rw [this]; exact stripTrailingSeps_id _ x hx
      simp only [hstrip]
      have hshape : (sep :: joinPre init) = [] ∨ ∃ q, (sep :: joinPre init) = q ++ [sep] := by
        right
        rcases joinPre_shape init with h | ⟨q, h⟩
        · exact ⟨[], by simp [h]⟩
        · exact ⟨sep :: q, by simp [h]⟩
      have hsplit := lastSepEnd_split (sep :: joinPre init) (b0 ++ [x]) hshape hb.2
      have heq : sep :: (joinPre init ++ (b0 ++ [x])) = (sep :: joinPre init) ++ (b0 ++ [x]) := by simp
      rw [heq, hsplit]
      simp
    rw [hbase]
    right
    have h47 : ¬ (b = [47]) := by intro e; apply hb.2; simp [e]
    have hdot : ¬ (b = [dot]) := hb.1.2.1
    simp only [h47, hdot, decide_false, Bool.or_self, Bool.false_eq_true, if_false]
    exact hb

/-- F23 witness (kernel-checked): the landing name as the code computed it was `..` for the argument `a/..` -/
theorem landName_unrepaired_dotdot : landName false [97, 47, 46, 46] = dd := by decide

/-- non-vacuity: the repaired rule gives nothing for `a/..` (the root itself) and `b` for `a/../b/` -/
example : landName true [97, 47, 46, 46] = [] ∧ landName true [97, 47, 46, 46, 47, 98, 47] = [98] := by decide

end Fsm.C14
