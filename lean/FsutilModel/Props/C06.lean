import FsutilModel.Sender
import FsutilModel.Model.SendProto
import FsutilModel.SenderStats
import FsutilModel.Lemmas.C06Term
import FsutilModel.Lemmas.C06Req
/-! # C06 — Sender speaks the documented wire protocol -/
namespace Fsm.C06
open S

/-- Safety core, for every event sequence of the abstract sender (any number of workers, any queue
discipline, any order/timing/concurrency of requests, any split of files into reads): for every id the
DATA payloads sent so far concatenate to a prefix of the bytes of the entry at that STAT index, to
the whole file once its terminator was sent, and DATA is only ever sent for announced regular entries. -/
theorem sender_data (v : List (Bool × Bytes)) (es : List Ev) (s : St) (h : run (init v) es = some s) (id : Nat) :
    dataFor id s.out <+: bytesOf s id ∧
    (s.phase id = .finished → dataFor id s.out = bytesOf s id) ∧
    (dataFor id s.out ≠ [] → isReg s id = true ∧ id < s.sent) :=
  S.sender_data v es s h id

/-- the invariant behind it is inductive over every step -/
theorem invariant_step {s s' : St} {e : Ev} (hi : Inv s) (hs : step s e = some s') : Inv s' :=
  S.inv_step hi hs

/-- STAT sequence: in every reachable state the number of STATs sent is at most the size of the view (the k-th STAT
announces the k-th view entry, by construction of the step), and once the end-of-stats marker has been sent every
entry has been announced. -/
theorem sender_stats (v : List (Bool × Bytes)) (es : List Ev) (s : St) (h : run (init v) es = some s) :
    s.sent ≤ s.view.length ∧ (s.endSent = true → s.sent = s.view.length) :=
  let hi := statInv_run es _ _ (statInv_init v) h
  ⟨hi.le, hi.fin⟩

/-- exactly one end marker: after it neither another STAT nor a second marker is enabled -/
theorem one_end_marker (v : List (Bool × Bytes)) (es : List Ev) (s : St) (h : run (init v) es = some s)
    (he : s.endSent = true) : (∀ s', step s .sendStat ≠ some s') ∧ (∀ s', step s .sendEnd ≠ some s') :=
  ⟨fun s' hs => no_stat_after_end he (statInv_run es _ _ (statInv_init v) h) hs,
   fun s' hs => end_at_most_once he hs⟩

/-- non-vacuity: a run announcing one regular 3-byte file, requested, opened, sent in chunks 2+1 and terminated -/
example : (run (init [(true, [1, 2, 3])]) [.sendStat, .recvReq 0, .sendEnd, .open_ 0, .data 0 2, .data 0 1, .term 0]).isSome = true := by
  decide

/-- Exactly one terminator: in every reachable state the number of terminators (empty DATA) sent for an
id is 1 if its answer is finished and 0 otherwise — never two, and never one in the middle of the
content (a DATA packet that carries content is not empty). -/
theorem one_terminator_per_id (v : List (Bool × Bytes)) (es : List Ev) (s : St) (h : run (init v) es = some s) (id : Nat) :
    terms id s.out = if s.phase id = .finished then 1 else 0 :=
  termInv_run es _ _ (inv_init v) (termInv_init v) h id

/-- Content and terminators are sent only for ids the receiver asked for: in every run of the sender, if any
content byte or a terminator has gone out for an id, a request for that id was received earlier in the run. -/
theorem content_only_for_requested (v : List (Bool × Bytes)) (es : List Ev) (s : St) (h : run (init v) es = some s) (id : Nat)
    (hd : dataFor id s.out ≠ [] ∨ 0 < terms id s.out) : Ev.recvReq id ∈ es := by
  have hpost : post (s.phase id) = true := by
    rcases hd with hd | hd
    · have hi := inv_run es _ _ (inv_init v) h
      have hdat := hi.data id
      cases hph : s.phase id with
      | unannounced => rw [hph] at hdat; simp [prog] at hdat; exact absurd hdat hd
      | requestable => rw [hph] at hdat; simp [prog] at hdat; exact absurd hdat hd
      | queued => rfl
      | active off => rfl
      | finished => rfl
    · have ht := one_terminator_per_id v es s h id
      by_cases hf : s.phase id = .finished
      · rw [hf]; rfl
      · rw [ht] at hd; simp [hf] at hd
  rcases post_run id es (init v) s h hpost with h0 | h0
  · simp [init, post] at h0
  · exact h0

/-- non-vacuity: after the run above the one terminator of id 0 is counted, and none for id 1 -/
example : ((run (init [(true, [1, 2, 3])]) [.sendStat, .recvReq 0, .sendEnd, .open_ 0, .data 0 2, .data 0 1, .term 0]).map
    fun s => (terms 0 s.out, terms 1 s.out)) = some (1, 0) := by
  decide

end Fsm.C06
