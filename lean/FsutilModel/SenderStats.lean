import FsutilModel.Sender
/-! STAT-sequence invariant of the abstract sender LTS: the STATs sent are a prefix of the view; the end marker is sent
once, after all of them. -/
namespace Fsm.S

structure StatInv (s : St) : Prop where
  le : s.sent ≤ s.view.length
  fin : s.endSent = true → s.sent = s.view.length

theorem statInv_init (v : List (Bool × Bytes)) : StatInv (init v) := by
  constructor <;> simp [init]

theorem statInv_step {s s' : St} {e : Ev} (hi : StatInv s) (hs : step s e = some s') : StatInv s' := by
  cases e with
  | sendStat =>
    simp only [step] at hs
    split at hs; · cases hs
    split at hs
    · rename_i hlt
      cases hs
      refine ⟨by simp; omega, ?_⟩
      intro he
      have := hi.fin he
      simp at *; omega
    · cases hs
  | sendEnd =>
    simp only [step] at hs
    split at hs; · cases hs
    split at hs
    · rename_i hc
      cases hs
      exact ⟨hi.le, fun _ => hc.1⟩
    · cases hs
  | recvReq id =>
    simp only [step] at hs
    split at hs; · cases hs
    split at hs <;> cases hs <;> exact ⟨hi.le, hi.fin⟩
  | open_ id =>
    simp only [step] at hs
    split at hs <;> first | (cases hs; exact ⟨hi.le, hi.fin⟩) | cases hs
  | data id k =>
    simp only [step] at hs
    split at hs
    · split at hs
      · cases hs; exact ⟨hi.le, hi.fin⟩
      · cases hs
    all_goals cases hs
  | term id =>
    simp only [step] at hs
    split at hs
    · split at hs
      · cases hs; exact ⟨hi.le, hi.fin⟩
      · cases hs
    all_goals cases hs

theorem statInv_run : ∀ (es : List Ev) (s s' : St), StatInv s → run s es = some s' → StatInv s'
  | [], s, s', hi, h => by simp [run] at h; subst h; exact hi
  | e :: es, s, s', hi, h => by
    simp only [run] at h
    cases hs : step s e with
    | none => rw [hs] at h; cases h
    | some s1 => rw [hs] at h; exact statInv_run es s1 s' (statInv_step hi hs) h

/-- the end marker, once sent, is never followed by another STAT, and is sent at most once -/
theorem no_stat_after_end {s s' : St} (he : s.endSent = true) (hi : StatInv s) :
    step s .sendStat = some s' → False := by
  intro hs
  simp only [step] at hs
  split at hs; · cases hs
  split at hs
  · rename_i hlt
    have := hi.fin he
    omega
  · cases hs

theorem end_at_most_once {s s' : St} (he : s.endSent = true) : step s .sendEnd = some s' → False := by
  intro hs
  simp only [step] at hs
  split at hs; · cases hs
  split at hs
  · rename_i hc; rw [he] at hc; exact absurd hc.2 (by simp)
  · cases hs

end Fsm.S
