/-! Spike: path algebra over bytes-as-Nat. -/
namespace Fsm

abbrev Path := List Nat
abbrev sep : Nat := 47

/-- a path component: non-empty, separator-free -/
def PlainC (c : Path) : Prop := c ≠ [] ∧ sep ∉ c

/-- join components with '/' -/
def joinSep : List Path → Path
  | [] => []
  | [c] => c
  | c :: d :: cs => c ++ sep :: joinSep (d :: cs)

/-- split on '/' -/
def comps : Path → List Path
  | [] => [[]]
  | b :: rest =>
    if b = sep then [] :: comps rest
    else match comps rest with
      | [] => [[b]]
      | c :: cs => (b :: c) :: cs

theorem comps_ne_nil (p : Path) : comps p ≠ [] := by
  induction p with
  | nil => simp [comps]
  | cons b rest ih =>
    simp only [comps]
    split
    · simp
    · split <;> simp

theorem comps_sepfree (c : Path) (h : sep ∉ c) : comps c = [c] := by
  induction c with
  | nil => simp [comps]
  | cons b rest ih =>
    have hb : b ≠ sep := by intro e; apply h; simp [e]
    have hr : sep ∉ rest := by intro e; apply h; simp [e]
    simp [comps, hb, ih hr]

theorem comps_append_sep (c rest : Path) (h : sep ∉ c) :
    comps (c ++ sep :: rest) = c :: comps rest := by
  induction c with
  | nil => simp [comps]
  | cons b c ih =>
    have hb : b ≠ sep := by intro e; apply h; simp [e]
    have hr : sep ∉ c := by intro e; apply h; simp [e]
    simp [comps, hb, ih hr]

theorem comps_joinSep (cs : List Path) (hne : cs ≠ []) (h : ∀ c ∈ cs, sep ∉ c) :
    comps (joinSep cs) = cs := by
  induction cs with
  | nil => exact absurd rfl hne
  | cons c cs ih =>
    cases cs with
    | nil => simp [joinSep, comps_sepfree c (h c (by simp))]
    | cons d ds =>
      have hc : sep ∉ c := h c (by simp)
      have := ih (by simp) (fun x hx => h x (by simp [hx]))
      simp only [joinSep]
      rw [comps_append_sep _ _ hc, this]

/-- validator.go:ComparePath, verbatim -/
def comparePath : Path → Path → Int
  | [], [] => 0
  | [], q => - (q.length : Int)
  | p, [] => (p.length : Int)
  | a :: p, b :: q =>
    if a = b then comparePath p q
    else if (b ≠ sep ∧ a < b) ∨ a = sep then -1 else 1

/-- Go string `<` -/
def strLt : Path → Path → Bool
  | [], [] => false
  | [], _ :: _ => true
  | _ :: _, [] => false
  | a :: p, b :: q => if a = b then strLt p q else decide (a < b)

/-- lexicographic `<` on component lists, components compared with strLt -/
def compsLt : List Path → List Path → Bool
  | [], [] => false
  | [], _ :: _ => true
  | _ :: _, [] => false
  | c :: cs, d :: ds => if c = d then compsLt cs ds else strLt c d

/-- key bridge: on sep-free strings comparePath is string order -/
theorem cmp_sepfree (c d : Path) (hc : sep ∉ c) (hd : sep ∉ d) :
    comparePath c d < 0 ↔ strLt c d = true := by
  induction c generalizing d with
  | nil =>
    cases d with
    | nil => simp [comparePath, strLt]
    | cons b d => simp [comparePath, strLt]
  | cons a c ih =>
    cases d with
    | nil => simp [comparePath, strLt]; omega
    | cons b d =>
      have ha : a ≠ sep := by intro e; apply hc; simp [e]
      have hb : b ≠ sep := by intro e; apply hd; simp [e]
      have hc' : sep ∉ c := by intro e; apply hc; simp [e]
      have hd' : sep ∉ d := by intro e; apply hd; simp [e]
      by_cases hab : a = b
      · subst hab; simp [comparePath, strLt, ih d hc' hd']
      · simp only [comparePath, strLt, hab, if_false]
        by_cases hlt : a < b
        · simp [hlt, hb]
        · simp [hlt, ha]

end Fsm
