import FsutilModel.ValidatorMain2
namespace Fsm

theorem step_inv {st pre} (hinv : Inv st pre) (x : Ent) (hx : PlainPath x.path)
    {st'} (hs : step st x = some st') : Inv st' (pre ++ [x]) := by
  have hspec := step_accept_spec hinv x hx hs
  obtain ⟨f, fs, hpop, hfd, hlt, hst'⟩ := (step_some_iff st x st').mp hs
  have hfmem := (popTo_suffix _ f fs hpop).1
  have hfsmem := (popTo_suffix _ f fs hpop).2
  obtain ⟨fs', hpop', hchain⟩ := popTo_finds hinv.chain _ f hfmem hfd
  rw [hpop] at hpop'; simp at hpop'; subst hpop'
  have hpath := path_split x.path hx.1
  have hb : x.path.getLast?.getD [] ≠ [] := by
    apply hx.2
    have h2 : x.path.getLast? = some (x.path.getLast hx.1) := List.getLast?_eq_some_getLast hx.1
    rw [h2]; simp
  have hchain' := hchain.set_last (x.path.getLast?.getD [])
  have hsorted : (pre ++ [x]).Pairwise (fun a b => compsLt a.path b.path = true) := by
    rw [List.pairwise_append]
    refine ⟨hinv.sorted, by simp, ?_⟩
    intro a ha b hb'
    simp at hb'; subst hb'
    have hne : pre ≠ [] := by intro e; subst e; simp at ha
    have hl : pre.getLast? = some (pre.getLast hne) := List.getLast?_eq_some_getLast hne
    have h1 := hspec.1 _ hl
    rcases mem_lt_last hinv.sorted _ hl a ha with h | h
    · rw [h]; exact h1
    · exact compsLt_trans h h1
  have hopened_old : ∀ g ∈ ({ f with last := x.path.getLast?.getD [] } : Frame) :: fs, g.dir ≠ [] →
      ∃ y ∈ pre ++ [x], y.isDir = true ∧ y.path = g.dir := by
    intro g hg hne
    simp at hg
    rcases hg with hg | hg
    · subst hg
      obtain ⟨y, hy, h1, h2⟩ := hinv.opened f hfmem hne
      exact ⟨y, by simp [hy], h1, h2⟩
    · obtain ⟨y, hy, h1, h2⟩ := hinv.opened g (hfsmem g hg) hne
      exact ⟨y, by simp [hy], h1, h2⟩
  by_cases hdir : x.isDir = true
  · simp only [hdir, if_true] at hst'
    subst hst'
    refine ⟨?_, ?_, ?_, ?_, hsorted⟩
    · refine Chain.push _ _ _ ?_ hb hchain'
      simp only []; rw [hfd]; exact hpath
    · intro l hl; simp at hl; subst hl; simp [lpOf]
    · intro t ts e
      simp at e; obtain ⟨e1, _⟩ := e; subst e1
      simp [hdir]
    · intro g hg hne
      simp only [List.mem_cons] at hg
      rcases hg with hg | hg
      · subst hg; exact ⟨x, by simp, hdir, rfl⟩
      · exact hopened_old g (by simpa using hg) hne
  · have hd : x.isDir = false := by simpa using hdir
    rw [hd] at hst'
    simp only [Bool.false_eq_true, if_false] at hst'
    subst hst'
    refine ⟨hchain', ?_, ?_, hopened_old, hsorted⟩
    · intro l hl; simp at hl; subst hl
      simp only [lpOf, hb, if_false]
      rw [hfd]; exact hpath.symm
    · intro t ts e
      simp at e; obtain ⟨e1, _⟩ := e; subst e1
      simp [hb, hd]

/-- run the validator over a list; `true` = accepted -/
def runFrom : List Frame → List Ent → Bool
  | _, [] => true
  | st, x :: xs => match step st x with
    | none => false
    | some st' => runFrom st' xs

def validFrom : List Ent → List Ent → Prop
  | _, [] => True
  | pre, x :: xs => specStep pre x ∧ validFrom (pre ++ [x]) xs

theorem run_iff_valid {st pre} (hinv : Inv st pre) (xs : List Ent) (hx : ∀ x ∈ xs, PlainPath x.path) :
    runFrom st xs = true ↔ validFrom pre xs := by
  induction xs generalizing st pre with
  | nil => simp [runFrom, validFrom]
  | cons x xs ih =>
    have hxp := hx x (by simp)
    simp only [runFrom, validFrom]
    cases hs : step st x with
    | none =>
      simp only [Bool.false_eq_true, false_iff, not_and]
      intro hspec
      obtain ⟨st', h⟩ := spec_step_accept hinv x hxp hspec
      rw [hs] at h; cases h
    | some st' =>
      have h1 := step_accept_spec hinv x hxp hs
      have h2 := step_inv hinv x hxp hs
      simp only [h1, true_and]
      exact ih h2 (fun y hy => hx y (by simp [hy]))

/-- the component-level C12 statement: the validator accepts exactly the valid sequences -/
theorem validator_iff_spec (xs : List Ent) (hx : ∀ x ∈ xs, PlainPath x.path) :
    runFrom [⟨[], []⟩] xs = true ↔ validFrom [] xs :=
  run_iff_valid inv_init xs hx

end Fsm
