import FsutilModel.DiffPopL
namespace Fsm.D

variable {P : Type} [DecidableEq P] {I : Type} [DecidableEq I]

/-- step that consumes the head of the upper list (add) -/
theorem inv_popU {O : PathOrd P} {tU : TMap P I} {u : Ent P I} {ls us : List (Ent P I)} {rm : Option P}
    {t t' : TMap P I} (hi : Inv O tU ls (u :: us) rm t)
    (hlt : ∀ l ∈ ls, O.lt u.path l.path = true)
    (ha : ∀ q, q ≠ u.path → t' q = t q)
    (hb : t' u.path = some u) :
    Inv O tU ls us none t' := by
  have hsu := sorted_head hi.sU
  have huB : Before O u.path ls us := ⟨hlt, hsu⟩
  have hmono : ∀ q, Before O q ls (u :: us) → Before O q ls us :=
    fun q h => h.mono (fun x hx => hx) (fun x hx => by simp [hx])
  refine ⟨?_, ?_, ?_, (by intro d h; cases h), hi.sL, sorted_tail hi.sU, ?_, ?_, ?_, ?_⟩
  · intro q hq
    rcases O.lt_total q u.path with h | h | h
    · subst h; rw [hb]; exact (hi.tUus u (by simp)).symm
    · have hold : Before O q ls (u :: us) := ⟨hq.1, by
        intro x hx; simp at hx; rcases hx with hx | hx
        · subst hx; exact h
        · exact hq.2 x hx⟩
      rw [ha q (lt_ne O h)]; exact hi.done_ q hold
    · have hnb : ¬ Before O q ls (u :: us) := by
        intro hB; have := hB.2 u (by simp); rw [lt_asymm O h] at this; cases this
      have hnl : ∀ l ∈ ls, l.path ≠ q := by
        intro l hl e; have := hq.1 l hl; rw [e, O.lt_irrefl] at this; cases this
      have hne : q ≠ u.path := fun e => lt_ne O h e.symm
      rw [ha q hne, hi.pnone q hnb hnl]
      symm; apply tU_none hi q _ hnb
      intro x hx e; simp at hx; rcases hx with hx | hx
      · subst hx; exact hne e.symm
      · have := hq.2 x hx; rw [e, O.lt_irrefl] at this; cases this
  · intro q hnb hnl
    have hne : q ≠ u.path := by intro e; subst e; exact hnb huB
    rw [ha q hne]
    exact hi.pnone q (fun h => hnb (hmono q h)) hnl
  · intro l hl
    have hne : l.path ≠ u.path := fun e => lt_ne O (hlt l hl) e.symm
    rw [ha _ hne]
    rcases hi.pl l hl with h | ⟨h1, h2⟩
    · left; exact h
    · right; exact ⟨h1, fun x hx => h2 x (by simp [hx])⟩
  · intro x hx; exact hi.tUus x (by simp [hx])
  · intro q e hq
    rcases hi.tUdom q e hq with ⟨x, hx, hxq⟩ | h
    · simp at hx; rcases hx with hx | hx
      · subst hx; right; rw [← hxq]; exact huB
      · left; exact ⟨x, hx, hxq⟩
    · right; exact hmono q h
  · intro x hx p hp
    rcases hi.cU x (by simp [hx]) p hp with ⟨d, hdm, hdp, hdd⟩ | h
    · simp at hdm; rcases hdm with hdm | hdm
      · subst hdm; right; rw [← hdp]; exact huB
      · left; exact ⟨d, hdm, hdp, hdd⟩
    · right; exact hmono p h
  · intro x hx p hp
    rcases hi.cL x hx p hp with h | h
    · left; exact h
    · right; exact hmono p h

end Fsm.D
