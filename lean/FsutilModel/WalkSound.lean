import FsutilModel.WalkComplete
/-! C09 soundness of the listing: the walk of the tree built from a snapshot lists nothing but the
snapshot's paths and the directories above them. -/
namespace Fsm

theorem walk_eq_children (pre : Path) (n : Node) : walk pre n = walkList pre (childrenOf n) := by
  cases n <;> simp [walk, childrenOf, walkList]

theorem walkList_insertSorted (pre c : Path) (f : Option Node → Node) : ∀ (L : List (Path × Node)) (x : Path),
    x ∈ walkList pre (insertSorted c f L) →
    x ∈ walkList pre L ∨ x = joinP pre c ∨ x ∈ walk (joinP pre c) (f none) ∨
      ∃ ch, (c, ch) ∈ L ∧ x ∈ walk (joinP pre c) (f (some ch))
  | [], x, h => by
    simp only [insertSorted, walkList, List.mem_cons, List.mem_append, List.not_mem_nil, or_false] at h
    rcases h with h | h
    · exact Or.inr (Or.inl h)
    · exact Or.inr (Or.inr (Or.inl h))
  | (m, ch) :: rest, x, h => by
    simp only [insertSorted] at h
    split at h
    · rename_i hmc
      subst hmc
      simp only [walkList, List.mem_cons, List.mem_append] at h ⊢
      rcases h with h | h | h
      · exact Or.inl (Or.inl h)
      · exact Or.inr (Or.inr (Or.inr ⟨ch, by simp, h⟩))
      · exact Or.inl (Or.inr (Or.inr h))
    · split at h
      · simp only [walkList, List.mem_cons, List.mem_append] at h ⊢
        rcases h with h | h | h
        · exact Or.inr (Or.inl h)
        · exact Or.inr (Or.inr (Or.inl h))
        · exact Or.inl h
      · simp only [walkList, List.mem_cons, List.mem_append] at h ⊢
        rcases h with h | h | h
        · exact Or.inl (Or.inl h)
        · exact Or.inl (Or.inr (Or.inl h))
        · rcases walkList_insertSorted pre c f rest x h with h | h | h | ⟨ch', hm, h⟩
          · exact Or.inl (Or.inr (Or.inr h))
          · exact Or.inr (Or.inl h)
          · exact Or.inr (Or.inr (Or.inl h))
          · exact Or.inr (Or.inr (Or.inr ⟨ch', by simp [hm], h⟩))

/-- what `insertPath cs` adds to a listing are the joined non-empty initial segments of `cs` -/
theorem insertPath_adds : ∀ (cs : List Path), (∀ c ∈ cs, NameOK c) → ∀ (n : Node) (pre x : Path),
    x ∈ walk pre (insertPath cs n) →
    x ∈ walk pre n ∨ ∃ ini tl, ini ≠ [] ∧ ini ++ tl = cs ∧ x = joinP pre (joinSep ini)
  | [], _, n, pre, x, h => Or.inl (by simpa [insertPath] using h)
  | c :: rest, hok, n, pre, x, h => by
    have hc : c ≠ [] := (hok c (by simp)).1
    have hrest : ∀ d ∈ rest, NameOK d := fun d hd => hok d (by simp [hd])
    simp only [insertPath, walk] at h
    rw [walk_eq_children pre n]
    have sub : ∀ (nd : Node), x ∈ walk (joinP pre c) (insertPath rest nd) →
        x ∈ walk (joinP pre c) nd ∨ ∃ ini tl, ini ≠ [] ∧ ini ++ tl = c :: rest ∧ x = joinP pre (joinSep ini) := by
      intro nd hx
      rcases insertPath_adds rest hrest nd (joinP pre c) x hx with h1 | ⟨ini, tl, hne, happ, hx⟩
      · exact Or.inl h1
      · refine Or.inr ⟨c :: ini, tl, by simp, by simp [happ], ?_⟩
        rw [hx, joinP_joinP pre c _ hc]
        cases ini with
        | nil => exact absurd rfl hne
        | cons d ds => rfl
    rcases walkList_insertSorted pre c _ _ x h with h | h | h | ⟨ch, hm, h⟩
    · exact Or.inl h
    · exact Or.inr ⟨[c], rest, by simp, by simp, by simp [joinSep, h]⟩
    · rcases sub _ h with h | h
      · simp [walk, walkList] at h
      · exact Or.inr h
    · rcases sub _ h with h | h
      · exact Or.inl ((mem_walkList_of_mem pre _ c ch hm).2 x (by simpa using h))
      · exact Or.inr h

theorem joinSep_append (ini : List Path) (hne : ini ≠ []) (tl : List Path) :
    joinSep (ini ++ tl) = joinSep ini ∨ ∃ r, joinSep (ini ++ tl) = joinSep ini ++ sep :: r := by
  induction ini with
  | nil => exact absurd rfl hne
  | cons c cs ih =>
    cases cs with
    | nil =>
      cases tl with
      | nil => exact Or.inl rfl
      | cons t ts => exact Or.inr ⟨joinSep (t :: ts), rfl⟩
    | cons d ds =>
      rcases ih (by simp) with h | ⟨r, h⟩
      · left
        show c ++ sep :: joinSep ((d :: ds) ++ tl) = c ++ sep :: joinSep (d :: ds)
        rw [h]
      · right
        refine ⟨r, ?_⟩
        show c ++ sep :: joinSep ((d :: ds) ++ tl) = (c ++ sep :: joinSep (d :: ds)) ++ sep :: r
        rw [h]; simp

theorem buildFold_sound (x : Path) : ∀ (paths : List Path) (t : Node), (∀ p ∈ paths, ∀ c ∈ comps p, NameOK c) →
    x ∈ walk [] (paths.foldl (fun t p => insertPath (comps p) t) t) →
    x ∈ walk [] t ∨ ∃ p ∈ paths, x = p ∨ ∃ r, p = x ++ sep :: r
  | [], t, _, h => Or.inl (by simpa using h)
  | p :: ps, t, hok, h => by
    simp only [List.foldl_cons] at h
    rcases buildFold_sound x ps _ (fun q hq => hok q (by simp [hq])) h with h | ⟨q, hq, hx⟩
    · rcases insertPath_adds (comps p) (hok p (by simp)) t [] x h with h | ⟨ini, tl, hne, happ, hx⟩
      · exact Or.inl h
      · right
        refine ⟨p, by simp, ?_⟩
        have hj : x = joinSep ini := by simpa [joinP] using hx
        have hp : joinSep (ini ++ tl) = p := by rw [happ, joinSep_comps]
        rcases joinSep_append ini hne tl with h1 | ⟨r, h1⟩
        · left; rw [hj, ← hp, h1]
        · right; exact ⟨r, by rw [hj, ← hp, h1]⟩
    · exact Or.inr ⟨q, by simp [hq], hx⟩

/-- the walk of the tree built from a snapshot lists only snapshot paths and directories above them -/
theorem buildTree_sound (paths : List Path) (h : ∀ p ∈ paths, ∀ c ∈ comps p, NameOK c) (x : Path)
    (hx : x ∈ walk [] (buildTree paths)) : ∃ p ∈ paths, x = p ∨ ∃ r, p = x ++ sep :: r := by
  rcases buildFold_sound x paths (.dir []) h hx with h | h
  · simp [walk, walkList] at h
  · exact h

end Fsm
