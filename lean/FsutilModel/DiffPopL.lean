import FsutilModel.DiffInv
namespace Fsm.D

variable {P : Type} [DecidableEq P] {I : Type} [DecidableEq I]

/-- generic step that consumes the head of the lower list (skip or delete) -/
theorem inv_popL {O : PathOrd P} {tU : TMap P I} {l : Ent P I} {ls us : List (Ent P I)} {rm rm' : Option P}
    {t t' : TMap P I} (hi : Inv O tU (l :: ls) us rm t)
    (hlt : ∀ u ∈ us, O.lt l.path u.path = true)
    (ha : ∀ q, O.lt q l.path = true → t' q = t q)
    (hb : t' l.path = none)
    (hc : ∀ q, t q = none → t' q = none)
    (hd : ∀ l' ∈ ls, t' l'.path = t l'.path ∨ (t' l'.path = none ∧ O.under l.path l'.path = true))
    (he : ∀ d', rm' = some d' → ∀ l' ∈ ls, O.under d' l'.path = true → t' l'.path = none) :
    Inv O tU ls us rm' t' := by
  have hsl := sorted_head hi.sL
  have hpB : Before O l.path ls us := ⟨hsl, hlt⟩
  have hnotBold : ¬ Before O l.path (l :: ls) us := by
    intro h; have := h.1 l (by simp); rw [O.lt_irrefl] at this; cases this
  have hpU : ∀ u ∈ us, u.path ≠ l.path := fun u hu e => lt_ne O (hlt u hu) e.symm
  have htUp : tU l.path = none := tU_none hi _ hpU hnotBold
  -- classification of a q that is before the new remaining lists
  have hsplit : ∀ q, Before O q ls us → Before O q (l :: ls) us ∨ q = l.path ∨ O.lt l.path q = true := by
    intro q hq
    rcases O.lt_total q l.path with h | h | h
    · right; left; exact h
    · left; refine ⟨?_, hq.2⟩
      intro x hx; simp at hx; rcases hx with hx | hx
      · subst hx; exact h
      · exact hq.1 x hx
    · right; right; exact h
  -- q strictly after p and before everything remaining: both maps are none there
  have hafter : ∀ q, Before O q ls us → O.lt l.path q = true → t q = none ∧ tU q = none := by
    intro q hq hpq
    have hnb : ¬ Before O q (l :: ls) us := by
      intro h; have := h.1 l (by simp); rw [lt_asymm O hpq] at this; cases this
    have hnl : ∀ x ∈ l :: ls, x.path ≠ q := by
      intro x hx e; simp at hx; rcases hx with hx | hx
      · subst hx; exact lt_ne O hpq e
      · have := hq.1 x hx; rw [e, O.lt_irrefl] at this; cases this
    refine ⟨hi.pnone q hnb hnl, tU_none hi q ?_ hnb⟩
    intro u hu e; have := hq.2 u hu; rw [e, O.lt_irrefl] at this; cases this
  refine ⟨?_, ?_, ?_, he, sorted_tail hi.sL, hi.sU, hi.tUus, ?_, ?_, ?_⟩
  · -- done_
    intro q hq
    rcases hsplit q hq with h | h | h
    · rw [ha q (h.1 l (by simp))]; exact hi.done_ q h
    · subst h; rw [hb, htUp]
    · obtain ⟨h1, h2⟩ := hafter q hq h; rw [hc q h1, h2]
  · -- pnone
    intro q hnb hnl
    by_cases hqp : q = l.path
    · subst hqp; exact hb
    · apply hc
      apply hi.pnone q
      · intro h; exact hnb (h.mono (fun x hx => by simp [hx]) (fun x hx => hx))
      · intro x hx e; simp at hx; rcases hx with hx | hx
        · subst hx; exact hqp e.symm
        · exact hnl x hx e
  · -- pl
    intro l' hl'
    rcases hd l' hl' with h | ⟨h1, h2⟩
    · rw [h]; exact hi.pl l' (by simp [hl'])
    · right; refine ⟨h1, ?_⟩
      intro u hu e
      rcases hi.cU u hu l.path (by rw [e]; exact h2) with ⟨d, hdm, hdp, _⟩ | hB
      · have := hlt d hdm; rw [hdp, O.lt_irrefl] at this; cases this
      · exact hnotBold hB
  · -- tUdom
    intro q e hq
    rcases hi.tUdom q e hq with h | h
    · left; exact h
    · right; exact h.mono (fun x hx => by simp [hx]) (fun x hx => hx)
  · -- cU
    intro x hx p hp
    rcases hi.cU x hx p hp with h | h
    · left; exact h
    · right; exact h.mono (fun x hx => by simp [hx]) (fun x hx => hx)
  · -- cL
    intro x hx p hp
    rcases hi.cL x (by simp [hx]) p hp with ⟨d, hdm, hdp, hdd⟩ | h
    · simp at hdm; rcases hdm with hdm | hdm
      · subst hdm; right; rw [← hdp]; exact hpB
      · left; exact ⟨d, hdm, hdp, hdd⟩
    · right; exact h.mono (fun x hx => by simp [hx]) (fun x hx => hx)

end Fsm.D
