import FsutilModel.DiffPopB
namespace Fsm.D

variable {P : Type} [DecidableEq P] {I : Type} [DecidableEq I]

theorem applyEv_delete (O : PathOrd P) (t : TMap P I) (p q : P) :
    applyEv O t (.delete p) q = if q = p ∨ O.under p q = true then none else t q := rfl

theorem applyEv_add (O : PathOrd P) (t : TMap P I) (e : Ent P I) (q : P) :
    applyEv O t (.add e) q = if q = e.path then some e
      else if (O.under e.path q && (match t e.path with | some o => o.isDir != e.isDir | none => false)) = true
      then none else t q := rfl

theorem applyEv_modify (O : PathOrd P) (t : TMap P I) (e : Ent P I) (q : P) :
    applyEv O t (.modify e) q = if q = e.path then some e
      else if (O.under e.path q && (match t e.path with | some o => o.isDir != e.isDir | none => false)) = true
      then none else t q := rfl

/-- the delete step satisfies the hypotheses of `inv_popL` -/
theorem popL_delete {O : PathOrd P} {tU : TMap P I} {l : Ent P I} {ls us : List (Ent P I)} {rm rm' : Option P}
    {t : TMap P I} (hi : Inv O tU (l :: ls) us rm t)
    (hlt : ∀ u ∈ us, O.lt l.path u.path = true)
    (hrm : ∀ d', rm' = some d' → d' = l.path) :
    Inv O tU ls us rm' (applyEv O t (.delete l.path)) := by
  apply inv_popL hi hlt
  · intro q hq
    rw [applyEv_delete]
    have h1 : q ≠ l.path := lt_ne O hq
    have h2 : O.under l.path q = false := by
      cases h : O.under l.path q with
      | false => rfl
      | true => have := O.under_lt _ _ h; rw [lt_asymm O hq] at this; cases this
    simp [h1, h2]
  · rw [applyEv_delete]; simp
  · intro q hq; rw [applyEv_delete]; split <;> simp [hq]
  · intro l' hl'
    rw [applyEv_delete]
    have hne : l'.path ≠ l.path := fun e => lt_ne O (sorted_head hi.sL l' hl') e.symm
    by_cases hu : O.under l.path l'.path = true
    · right; simp [hu]
    · left; simp [hne, hu]
  · intro d' hd' l' hl' hu
    rw [hrm d' hd'] at hu
    rw [applyEv_delete]; simp [hu]

theorem popL_skip {O : PathOrd P} {tU : TMap P I} {l : Ent P I} {ls us : List (Ent P I)} {d : P}
    {t : TMap P I} (hi : Inv O tU (l :: ls) us (some d) t)
    (hlt : ∀ u ∈ us, O.lt l.path u.path = true) (hu : O.under d l.path = true) :
    Inv O tU ls us (some d) t := by
  apply inv_popL hi hlt
  · intro q _; rfl
  · exact hi.rmok d rfl l (by simp) hu
  · intro q hq; exact hq
  · intro l' _; left; rfl
  · intro d' hd' l' hl' hu'
    exact hi.rmok d' hd' l' (by simp [hl']) hu'

/-- the lower-only branch as a whole -/
theorem popL_branch {O : PathOrd P} {tU : TMap P I} {l : Ent P I} {ls us : List (Ent P I)} {rm : Option P}
    {t : TMap P I} (hi : Inv O tU (l :: ls) us rm t)
    (hlt : ∀ u ∈ us, O.lt l.path u.path = true)
    (k : List (Ent P I) → Option P → List (Ev P I))
    (IH : ∀ rm' t', Inv O tU ls us rm' t' → ∀ q, (k ls rm').foldl (applyEv O) t' q = tU q) :
    ∀ q, (match rm with
      | some d => if O.under d l.path then k ls rm else .delete l.path :: k ls none
      | none => .delete l.path :: k ls (if l.isDir then some l.path else none)).foldl (applyEv O) t q = tU q := by
  intro q
  cases rm with
  | some d =>
    simp only []
    by_cases hu : O.under d l.path = true
    · simp only [hu, if_true]
      exact IH _ _ (popL_skip hi hlt hu) q
    · simp only [hu, if_false, List.foldl_cons]
      exact IH _ _ (popL_delete hi hlt (by intro d' h; cases h)) q
  | none =>
    simp only [List.foldl_cons]
    apply IH _ _ (popL_delete hi hlt _) q
    intro d' h
    by_cases hd : l.isDir = true
    · simp [hd] at h; exact h.symm
    · simp [hd] at h

end Fsm.D
