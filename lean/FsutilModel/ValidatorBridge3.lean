import FsutilModel.ValidatorBridge2
/-! Bridge, part 3a: byte-level facts about paths made of plain components; the stack correspondence. -/
namespace Fsm

/-- every component plain (non-empty, not "." / "..") and separator-free; the empty list is the root -/
def PlainComps (cs : List Path) : Prop := ∀ c ∈ cs, PlainC' c ∧ sep ∉ c

theorem PlainComps.sepfree {cs} (h : PlainComps cs) : AllSepFree cs := fun c hc => (h c hc).2
theorem PlainComps.plainList {cs} (h : PlainComps cs) (hne : cs ≠ []) : PlainList cs := ⟨hne, h⟩

theorem joinSep_ne_nil {cs : List Path} (h : PlainComps cs) (hne : cs ≠ []) : joinSep cs ≠ [] := by
  cases cs with
  | nil => exact absurd rfl hne
  | cons c ds =>
    have hc := (h c (by simp)).1.1
    cases ds with
    | nil => simpa [joinSep] using hc
    | cons d es => rw [joinSep_cons_cons]; simp [hc]

theorem joinSep_inj {a b : List Path} (ha : PlainComps a) (hb : PlainComps b) (h : joinSep a = joinSep b) : a = b := by
  by_cases hane : a = []
  · subst hane
    by_cases hbne : b = []
    · exact hbne.symm
    · exact absurd h.symm (by simpa [joinSep] using joinSep_ne_nil hb hbne)
  · by_cases hbne : b = []
    · subst hbne; exact absurd h (by simpa [joinSep] using joinSep_ne_nil ha hane)
    · have := congrArg comps h
      rwa [comps_joinSep a hane ha.sepfree, comps_joinSep b hbne hb.sepfree] at this

/-- `ComparePath(x, y) <= 0` on joined plain component lists is `≤` on the lists -/
theorem cmp_le_iff (a b : List Path) (ha : PlainComps a) (hb : PlainComps b) :
    comparePath (joinSep a) (joinSep b) ≤ 0 ↔ compsLeB a b = true := by
  by_cases hane : a = []
  · subst hane; simp [joinSep, comparePath_nil_le, compsLeB_nil]
  · by_cases hbne : b = []
    · subst hbne
      have hj := joinSep_ne_nil ha hane
      cases hja : joinSep a with
      | nil => exact absurd hja hj
      | cons x xs =>
        simp only [joinSep]
        constructor
        · intro h; exact absurd h (comparePath_cons_nil_pos x xs)
        · intro h
          cases a with
          | nil => exact absurd rfl hane
          | cons c cs => simp [compsLeB, compsLt] at h
    · have hlt := cmp_joinSep a b ha.sepfree hb.sepfree hane hbne
      have heq : comparePath (joinSep a) (joinSep b) = 0 ↔ a = b := by
        rw [comparePath_eq_zero]
        exact ⟨joinSep_inj ha hb, fun e => by rw [e]⟩
      unfold compsLeB
      simp only [Bool.or_eq_true, decide_eq_true_eq]
      constructor
      · intro h
        by_cases h0 : comparePath (joinSep a) (joinSep b) = 0
        · exact Or.inl (heq.mp h0)
        · exact Or.inr (hlt.mp (by omega))
      · rintro (h | h)
        · have := heq.mpr h; omega
        · have := hlt.mpr h; omega

theorem comps_dotdotSlash (p : Path) (h : hasPrefixB dotdotSlash p = true) : ∃ t, comps p = dd :: t := by
  unfold hasPrefixB dotdotSlash at h
  obtain ⟨rest, rfl⟩ := List.isPrefixOf_iff_prefix.mp h
  refine ⟨comps rest, ?_⟩
  have := comps_append_sep [46, 46] rest (by decide)
  simpa [dd, dot] using this

/-- the lexical tests of `HandleChange` all pass on a path made of plain components -/
theorem lexical_pass (cs : List Path) (hp : PlainComps cs) (hne : cs ≠ []) :
    clean (joinSep cs) = joinSep cs ∧ isAbs (joinSep cs) = false ∧ joinSep cs ≠ [dot] ∧ joinSep cs ≠ dd ∧
    hasPrefixB dotdotSlash (joinSep cs) = false := by
  obtain ⟨h1, h2⟩ := clean_of_plain cs hne (fun c hc => (hp c hc).1) hp.sepfree
  have hcomps := comps_joinSep cs hne hp.sepfree
  refine ⟨h1, h2, ?_, ?_, ?_⟩
  · intro e
    rw [e] at hcomps
    have : comps [dot] = [[dot]] := by decide
    rw [this] at hcomps
    have := (hp [dot] (by rw [← hcomps]; simp)).1.2.1
    exact this rfl
  · intro e
    rw [e] at hcomps
    have : comps dd = [dd] := by decide
    rw [this] at hcomps
    have := (hp dd (by rw [← hcomps]; simp)).1.2.2
    exact this rfl
  · cases hpre : hasPrefixB dotdotSlash (joinSep cs) with
    | false => rfl
    | true =>
      obtain ⟨t, ht⟩ := comps_dotdotSlash _ hpre
      rw [hcomps] at ht
      have := (hp dd (by rw [ht]; simp)).1.2.2
      exact absurd rfl this

def toB (f : Frame) : VFrame := ⟨joinSep f.dir, f.last⟩
def bstOf (cst : List Frame) : List VFrame := (cst.map toB).reverse

theorem bstOf_cons (f : Frame) (fs : List Frame) : bstOf (f :: fs) = bstOf fs ++ [toB f] := by
  simp [bstOf]

theorem bstOf_length (cst : List Frame) : (bstOf cst).length = cst.length := by simp [bstOf]

theorem bstOf_getD (cst : List Frame) (i : Nat) (hi : i < cst.length) :
    (bstOf cst).getD (cst.length - 1 - i) ⟨[], []⟩ = toB (cst.getD i ⟨[], []⟩) := by
  unfold bstOf
  rw [List.getD_eq_getElem?_getD, List.getD_eq_getElem?_getD]
  rw [List.getElem?_reverse (by simp; omega)]
  simp only [List.length_map]
  have : cst.length - 1 - (cst.length - 1 - i) = i := by omega
  rw [this, List.getElem?_map]
  rw [List.getElem?_eq_getElem hi]
  simp

theorem bstOf_take (cst : List Frame) (k : Nat) (hk : k ≤ cst.length) :
    (bstOf cst).take (cst.length - k) = bstOf (cst.drop k) := by
  unfold bstOf
  rw [List.take_reverse, List.length_map, List.map_drop]
  congr 2
  omega

end Fsm
