import FsutilModel.Model.Wire
/-! The transcribed decoders never reach the outcome `panic` (an out-of-range index or slice expression), whatever the
input bytes: every read is guarded by the bounds checks of the generated code. -/
namespace Fsm.W

def NP {α : Type} (x : Except Err α) : Prop := x ≠ .error .panic

theorem readVarLoop_np (d : Bytes) (l : Nat) (hld : l ≤ d.size) : ∀ fuel i s acc, NP (readVarLoop d l fuel i s acc) := by
  intro fuel
  induction fuel with
  | zero => intro i s acc; simp [readVarLoop, NP]
  | succ f ih =>
    intro i s acc
    unfold readVarLoop
    split
    · simp [NP]
    · split
      · simp [NP]
      · rename_i h1 h2
        split
        · rename_i hnone
          have : i < d.size := by omega
          simp [Array.getElem?_eq_getElem this] at hnone
        · split
          · simp [NP]
          · exact ih _ _ _

theorem readVar_np (d : Bytes) (l i : Nat) (hld : l ≤ d.size) : NP (readVar d l i) := readVarLoop_np d l hld _ _ _ _

theorem readLen_np (d : Bytes) (l i : Nat) (hld : l ≤ d.size) : NP (readLen d l i) := by
  unfold readLen
  have h := readVar_np d l i hld
  cases hr : readVar d l i with
  | error e => simp [bind, Except.bind, NP] at *; rw [hr] at h; simpa using h
  | ok v =>
    simp only [bind, Except.bind]
    repeat' split
    all_goals simp_all [NP, throw, throwThe, MonadExceptOf.throw, pure, Except.pure]
    all_goals (intro h; subst h; simp_all)

theorem readLen_bounds (d : Bytes) (l i a b : Nat) (h : readLen d l i = .ok (a, b)) : a ≤ b ∧ b ≤ l := by
  unfold readLen at h
  cases hr : readVar d l i with
  | error e => simp [hr, bind, Except.bind] at h
  | ok v =>
    simp only [hr, bind, Except.bind] at h
    repeat' split at h
    all_goals simp_all [throw, throwThe, MonadExceptOf.throw, pure, Except.pure]
    all_goals omega



theorem np_of_eq_error {α : Type} {x : Except Err α} {e : Err} (h : NP x) (he : x = .error e) : e ≠ .panic := by
  intro hp; subst hp; exact h he

theorem skipLoop_np (d : Bytes) (l start : Nat) (hld : l ≤ d.size) : ∀ fuel i depth, NP (skipLoop d l start fuel i depth) := by
  intro fuel
  induction fuel with
  | zero => intro i depth; simp [skipLoop, NP]
  | succ f ih =>
    intro i depth
    unfold skipLoop
    split
    · simp [NP]
    · cases hr : readVar d l i with
      | error e =>
        have := np_of_eq_error (readVar_np d l i hld) hr
        simp [NP]; exact this
      | ok w =>
        obtain ⟨wire, i1⟩ := w
        simp only
        have hv := readVar_np d l i1 hld
        cases hr2 : readVar d l i1 with
        | error e =>
          have he := np_of_eq_error hv hr2
          repeat' split
          all_goals (first | (simp [NP]; done) | exact ih _ _ | skip)
          all_goals simp_all [NP]
          all_goals (try (repeat' split at *))
          all_goals simp_all
          all_goals (try (intro h; subst h; simp_all))
        | ok w2 =>
          repeat' split
          all_goals (first | (simp [NP]; done) | exact ih _ _ | skip)
          all_goals simp_all [NP]
          all_goals (try (repeat' split at *))
          all_goals simp_all
          all_goals (try (intro h; subst h; simp_all))

theorem skip_np (d : Bytes) (l start : Nat) (hld : l ≤ d.size) : NP (skip d l start) := skipLoop_np d l start hld _ _ _



theorem NP_bind {α β : Type} (x : Except Err α) (f : α → Except Err β) (hx : NP x) (hf : ∀ a, x = .ok a → NP (f a)) :
    NP (x >>= f) := by
  cases x with
  | error e => simp [bind, Except.bind, NP] at *; exact hx
  | ok a => simpa [bind, Except.bind] using hf a rfl

theorem NP_ok {α : Type} (a : α) : NP (Except.ok a : Except Err α) := by simp [NP]
theorem NP_pure {α : Type} (a : α) : NP (pure a : Except Err α) := by simp [NP, pure, Except.pure]
theorem NP_throw {α : Type} (e : Err) (h : e ≠ .panic) : NP (throw e : Except Err α) := by
  simp [NP, throw, throwThe, MonadExceptOf.throw]; exact h

theorem sliceC_np (d : Bytes) (a b : Nat) (h1 : a ≤ b) (h2 : b ≤ d.size) : NP (sliceC d a b) := by
  simp [sliceC, h1, h2, NP]

theorem xattrEntryLoop_np (d : Bytes) (l post : Nat) (hld : l ≤ d.size) :
    ∀ fuel i k v, NP (xattrEntryLoop d l post fuel i k v) := by
  intro fuel
  induction fuel with
  | zero => intro i k v; simp [xattrEntryLoop, NP]
  | succ f ih =>
    intro i k v
    unfold xattrEntryLoop
    split
    · exact NP_ok _
    · refine NP_bind _ _ (readVar_np d l i hld) ?_
      intro ⟨wire, i1⟩ hr
      simp only
      split
      · refine NP_bind _ _ (readLen_np d l i1 hld) ?_
        intro ⟨a, b⟩ hl
        have hb := readLen_bounds d l i1 a b hl
        refine NP_bind _ _ (sliceC_np d a b hb.1 (by omega)) ?_
        intro ks _
        exact ih _ _ _
      · split
        · refine NP_bind _ _ (readLen_np d l i1 hld) ?_
          intro ⟨a, b⟩ hl
          have hb := readLen_bounds d l i1 a b hl
          refine NP_bind _ _ (sliceC_np d a b hb.1 (by omega)) ?_
          intro vs _
          exact ih _ _ _
        · refine NP_bind _ _ (skip_np d l i hld) ?_
          intro sk _
          split
          · exact NP_throw _ (by decide)
          · exact ih _ _ _



theorem NP_ite_throw (c : Prop) [Decidable c] (e : Err) (h : e ≠ .panic) :
    NP (if c then (throw e : Except Err PUnit) else pure PUnit.unit) := by
  split
  · exact NP_throw _ h
  · exact NP_pure _


theorem NP_ite {α : Type} (c : Prop) [Decidable c] (a b : Except Err α) (ha : c → NP a) (hb : ¬ c → NP b) :
    NP (if c then a else b) := by
  split
  · exact ha ‹_›
  · exact hb ‹_›

theorem NP_throw_bind {α β : Type} (e : Err) (f : α → Except Err β) (h : e ≠ .panic) :
    NP ((throw e : Except Err α) >>= f) := by
  simp [bind, Except.bind, throw, throwThe, MonadExceptOf.throw, NP]; exact h

/-- `if c then throw e; rest` as the do-notation elaborates it -/
macro "np_guard " e:term : tactic =>
  `(tactic| refine NP_ite _ _ _ (fun _ => NP_throw_bind $e _ (by decide)) (fun _ => ?_))

theorem varintFieldG_np {M : Type} (d : Bytes) (l i1 wt : Nat) (k : Nat → M) (hld : l ≤ d.size) :
    NP (varintFieldG d l i1 wt k) := by
  unfold varintFieldG
  np_guard Err.wrongWireType
  refine NP_bind _ _ (readVar_np d l i1 hld) ?_
  intro ⟨v, i2⟩ _
  exact NP_pure _

theorem bytesFieldG_np {M : Type} (d : Bytes) (l i1 wt : Nat) (k : List Nat → M) (hld : l ≤ d.size) :
    NP (bytesFieldG d l i1 wt k) := by
  unfold bytesFieldG
  np_guard Err.wrongWireType
  refine NP_bind _ _ (readLen_np d l i1 hld) ?_
  intro ⟨a, b⟩ hl
  have hb := readLen_bounds d l i1 a b hl
  refine NP_bind _ _ (sliceC_np d a b hb.1 (by omega)) ?_
  intro s _
  exact NP_pure _

theorem unknownFieldG_np {M : Type} (d : Bytes) (l pre : Nat) (k : List Nat → M) (hld : l ≤ d.size) :
    NP (unknownFieldG d l pre k) := by
  unfold unknownFieldG
  refine NP_bind _ _ (skip_np d l pre hld) ?_
  intro sk _
  refine NP_ite _ _ _ (fun _ => NP_throw_bind Err.eof _ (by decide)) (fun hc => ?_)
  refine NP_bind _ _ (sliceC_np d pre (pre + sk) (by omega) (by omega)) ?_
  intro u _
  exact NP_pure _

theorem xattrField_np (d : Bytes) (l i1 wt : Nat) (m : PStat) (hld : l ≤ d.size) : NP (xattrField d l i1 wt m) := by
  unfold xattrField
  np_guard Err.wrongWireType
  refine NP_bind _ _ (readLen_np d l i1 hld) ?_
  intro ⟨a, post⟩ _
  refine NP_bind _ _ (xattrEntryLoop_np d l post hld _ _ _ _) ?_
  intro ⟨k, v⟩ _
  exact NP_pure _

attribute [local irreducible] bytesFieldG varintFieldG xattrField unknownFieldG nestedStatField in
theorem statField_np (d : Bytes) (l pre i1 wire : Nat) (m : PStat) (hld : l ≤ d.size) : NP (statField d l pre i1 wire m) := by
  unfold statField
  simp only
  repeat' (refine NP_ite _ _ _ (fun _ => ?_) (fun _ => ?_))
  all_goals first
    | exact NP_throw _ (by decide)
    | exact bytesFieldG_np d l i1 _ _ hld
    | exact varintFieldG_np d l i1 _ _ hld
    | exact xattrField_np d l i1 _ m hld
    | exact unknownFieldG_np d l pre _ hld

theorem unmarshalStatLoop_np (d : Bytes) (l : Nat) (hld : l ≤ d.size) :
    ∀ fuel i m, NP (unmarshalStatLoop d l fuel i m) := by
  intro fuel
  induction fuel with
  | zero => intro i m; simp [unmarshalStatLoop, NP]
  | succ f ih =>
    intro i m
    rw [unmarshalStatLoop]
    refine NP_ite _ _ _ (fun _ => NP_ok _) (fun _ => ?_)
    refine NP_bind _ _ (readVar_np d l i hld) ?_
    intro ⟨wire, i1⟩ _
    refine NP_bind _ _ (statField_np d l i i1 wire m hld) ?_
    intro ⟨i', m'⟩ _
    exact ih _ _

theorem nestedStatField_np (d : Bytes) (l i1 wt : Nat) (m : PPacket) (hld : l ≤ d.size) : NP (nestedStatField d l i1 wt m) := by
  unfold nestedStatField
  np_guard Err.wrongWireType
  refine NP_bind _ _ (readLen_np d l i1 hld) ?_
  intro ⟨a, b⟩ hl
  have hb := readLen_bounds d l i1 a b hl
  refine NP_bind _ _ (sliceC_np d a b hb.1 (by omega)) ?_
  intro subl _
  refine NP_bind _ _ (unmarshalStatLoop_np _ _ (Nat.le_refl _) _ _ _) ?_
  intro st _
  exact NP_pure _

attribute [local irreducible] bytesFieldG varintFieldG xattrField unknownFieldG nestedStatField in
theorem packetField_np (d : Bytes) (l pre i1 wire : Nat) (m : PPacket) (hld : l ≤ d.size) :
    NP (packetField d l pre i1 wire m) := by
  unfold packetField
  simp only
  repeat' (refine NP_ite _ _ _ (fun _ => ?_) (fun _ => ?_))
  all_goals first
    | exact NP_throw _ (by decide)
    | exact bytesFieldG_np d l i1 _ _ hld
    | exact varintFieldG_np d l i1 _ _ hld
    | exact nestedStatField_np d l i1 _ m hld
    | exact unknownFieldG_np d l pre _ hld

theorem unmarshalPacketLoop_np (d : Bytes) (l : Nat) (hld : l ≤ d.size) :
    ∀ fuel i m, NP (unmarshalPacketLoop d l fuel i m) := by
  intro fuel
  induction fuel with
  | zero => intro i m; simp [unmarshalPacketLoop, NP]
  | succ f ih =>
    intro i m
    rw [unmarshalPacketLoop]
    refine NP_ite _ _ _ (fun _ => NP_ok _) (fun _ => ?_)
    refine NP_bind _ _ (readVar_np d l i hld) ?_
    intro ⟨wire, i1⟩ _
    refine NP_bind _ _ (packetField_np d l i i1 wire m hld) ?_
    intro ⟨i', m'⟩ _
    exact ih _ _

/-- **No out-of-range access on any input** -/
theorem unmarshalStat_never_panics (bs : List Nat) : unmarshalStat bs ≠ .error .panic :=
  unmarshalStatLoop_np _ _ (Nat.le_refl _) _ _ _

theorem unmarshalPacket_never_panics (bs : List Nat) : unmarshalPacket bs ≠ .error .panic :=
  unmarshalPacketLoop_np _ _ (Nat.le_refl _) _ _ _

end Fsm.W
