import FsutilModel.Validator
namespace Fsm

theorem compsLt_of_strLt (d : List Path) (c b : Path) (u : List Path) (h : strLt c b = true) :
    compsLt (d ++ c :: u) (d ++ [b]) = true := by
  induction d with
  | nil =>
    have : c ≠ b := by intro e; subst e; simp [strLt_irrefl] at h
    simp [compsLt, this, h]
  | cons x d ih => simp [compsLt, ih]

theorem strLt_of_compsLt (d : List Path) (c b : Path) (u : List Path)
    (h : compsLt (d ++ c :: u) (d ++ [b]) = true) : strLt c b = true := by
  induction d with
  | nil =>
    by_cases e : c = b
    · subst e; simp [compsLt] at h; cases u <;> simp [compsLt] at h
    · simpa [compsLt, e] using h
  | cons x d ih => exact ih (by simpa [compsLt] using h)

theorem Chain.has_root {st} (h : Chain st) : ∃ g ∈ st, g.dir = [] := by
  induction h with
  | root l => exact ⟨⟨[], l⟩, by simp, rfl⟩
  | push f g rest _ _ _ ih => obtain ⟨r, hr, hd⟩ := ih; exact ⟨r, List.mem_cons_of_mem _ hr, hd⟩

theorem Chain.set_last {g : Frame} {fs} (h : Chain (g :: fs)) (b : Path) :
    Chain ({ g with last := b } :: fs) := by
  cases h with
  | root l => exact Chain.root b
  | push _ g' rest hdir hne hc => exact Chain.push _ g' rest hdir hne hc

/-- a non-top frame's child (dir ++ [last]) is a prefix of the top dir -/
theorem Chain.child_prefix {t : Frame} {rest} (h : Chain (t :: rest)) :
    ∀ g ∈ rest, (g.dir ++ [g.last]) <+: t.dir := by
  generalize hst : t :: rest = st at h
  induction h generalizing t rest with
  | root l => simp at hst; obtain ⟨_, h2⟩ := hst; subst h2; intro g hg; simp at hg
  | push f g' rest' hdir hne hc ih =>
    simp at hst; obtain ⟨h1, h2⟩ := hst; subst h1; subst h2
    intro g hg
    simp at hg
    rcases hg with hg | hg
    · subst hg; rw [hdir]; exact List.prefix_refl _
    · have := ih (t := g') (rest := rest') rfl g hg
      rw [hdir]; exact this.trans (List.prefix_append _ _)

theorem path_split (p : List Path) (hp : p ≠ []) : p = p.dropLast ++ [p.getLast?.getD []] := by
  have h1 := List.dropLast_concat_getLast hp
  have h2 : p.getLast? = some (p.getLast hp) := List.getLast?_eq_some_getLast hp
  rw [h2]; simpa using h1.symm

def lpOf : List Frame → List Path
  | [] => []
  | f :: _ => if f.last = [] then f.dir else f.dir ++ [f.last]

structure Inv (st : List Frame) (pre : List Ent) : Prop where
  chain : Chain st
  lp : ∀ l, pre.getLast? = some l → lpOf st = l.path
  fresh : ∀ f fs, st = f :: fs → (f.last = [] ↔ (pre = [] ∨ ∃ l, pre.getLast? = some l ∧ l.isDir = true))
  opened : ∀ g ∈ st, g.dir ≠ [] → ∃ y ∈ pre, y.isDir = true ∧ y.path = g.dir
  sorted : pre.Pairwise (fun a b => compsLt a.path b.path = true)

def PlainPath (p : List Path) : Prop := p ≠ [] ∧ ∀ c ∈ p, c ≠ []

theorem inv_init : Inv [⟨[], []⟩] [] := by
  refine ⟨Chain.root _, by simp, ?_, ?_, by simp⟩
  · intro f fs h; simp at h; obtain ⟨h1, _⟩ := h; subst h1; simp
  · intro g hg hne; simp at hg; subst hg; simp at hne

end Fsm
