import FsutilModel.MetaOnly
import FsutilModel.Model.MetaOnlyB
/-! The id invariant of the metadata-only receive, for the executable byte-level model `metaStep`. -/
namespace Fsm

structure IdInvB (pre : List StatE) (s : MetaSt) : Prop where
  count : s.i = pre.length
  ok : ∀ p n, (p, n) ∈ s.files → ∃ e, pre[n]? = some e ∧ e.path = p

theorem metaStep_idInv (fixed : Bool) (selected : Path → Bool) (pre : List StatE) (s : MetaSt) (e : StatE) (hi : IdInvB pre s)
    (hadv : fixed = true ∨ e.path ≠ metaNameB) : IdInvB (pre ++ [e]) (metaStep fixed selected s e) := by
  unfold metaStep
  by_cases hm : e.path = metaNameB
  · have hf : fixed = true := by rcases hadv with h | h; exact h; exact absurd hm h
    simp only [hm, if_true, hf]
    exact ⟨by simp [hi.count], fun p n h => by
      obtain ⟨e', h1, h2⟩ := hi.ok p n h; exact ⟨e', M.getElem?_append_left' _ _ _ _ h1, h2⟩⟩
  · simp only [hm, if_false]
    have key : ∀ (s' : MetaSt), s'.i = s.i + 1 →
        s'.files = (if (!(!selected e.path) && e.canRequestData) = true then s.files ++ [(e.path, s.i)] else s.files) →
        IdInvB (pre ++ [e]) s' := by
      intro s' hi' hf'
      refine ⟨by simp [hi', hi.count], ?_⟩
      intro p n hmem
      rw [hf'] at hmem
      split at hmem
      · simp at hmem
        rcases hmem with hmem | ⟨hp, hn⟩
        · obtain ⟨e', h1, h2⟩ := hi.ok p n hmem; exact ⟨e', M.getElem?_append_left' _ _ _ _ h1, h2⟩
        · subst hp; subst hn; exact ⟨e, by simp [hi.count], rfl⟩
      · obtain ⟨e', h1, h2⟩ := hi.ok p n hmem; exact ⟨e', M.getElem?_append_left' _ _ _ _ h1, h2⟩
    split
    · apply key <;> (split <;> simp)
    · split
      · apply key <;> (split <;> simp)
      · apply key <;> (split <;> simp)

theorem metaRun_idInv (fixed : Bool) (selected : Path → Bool) : ∀ (es pre : List StatE) (s : MetaSt), IdInvB pre s →
    (∀ e ∈ es, fixed = true ∨ e.path ≠ metaNameB) → IdInvB (pre ++ es) (es.foldl (metaStep fixed selected) s)
  | [], pre, s, hi, _ => by simpa using hi
  | e :: es, pre, s, hi, h => by
    have := metaRun_idInv fixed selected es (pre ++ [e]) (metaStep fixed selected s e)
      (metaStep_idInv fixed selected pre s e hi (h e (by simp))) (fun x hx => h x (by simp [hx]))
    simpa using this

end Fsm
