import FsutilModel.Model.SenderConc
/-! Liveness of the sender after the stream is torn down (C04-T1): no deadlock, and a variant that bounds the number of
remaining steps; and the stuck state of the unrepaired queue push. -/
namespace Fsm.SC

theorem exists_live_worker {ws : List WPc} (h : ws.all (· == WPc.exited) = false) :
    ∃ (i : Nat) (w : WPc), ws[i]? = some w ∧ w ≠ WPc.exited := by
  simp only [List.all_eq_false, beq_iff_eq] at h
  obtain ⟨w, hw, hne⟩ := h
  obtain ⟨i, hi⟩ := List.getElem?_of_mem hw
  exact ⟨i, w, hi, hne⟩

/-- No deadlock after teardown (repaired code): in every well-formed state with at least one worker and a pipeline of
capacity ≥ 1 in which the stream is torn down and some goroutine is still alive, some goroutine can take a step —
whatever the queue holds, however many requests are pending. -/
theorem teardown_progress (cap : Nat) (hcap : 0 < cap) (s : St) (hwf : WF s) (hw : s.workers ≠ [])
    (ht : s.torn = true) (hnd : allDone s = false) :
    ∃ t env, (step true cap s t env).isSome = true := by
  by_cases hk : s.walker = .exited
  · by_cases hr : s.recv = .exited
    · -- only workers are left; the pipeline is closed
      have hclosed := hwf.closedOfExit hr
      have hall : s.workers.all (· == .exited) = false := by
        simp only [allDone, hk, hr, beq_self_eq_true, Bool.true_and, Bool.and_true] at hnd
        exact hnd
      obtain ⟨i, w, hi, hne⟩ := exists_live_worker hall
      refine ⟨.worker i, .fail, ?_⟩
      cases w with
      | exited => exact absurd rfl hne
      | idle =>
        cases hq : s.queue with
        | nil => simp [step, hi, hq, hclosed]
        | cons h rest =>
          by_cases hc : s.cancelled = true
          · simp [step, hi, hq, hc]
          · simp [step, hi, hq, hc]
      | sending k => simp [step, hi, ht]
    · -- the receive loop is alive
      cases hrv : s.recv with
      | exited => exact absurd hrv hr
      | recv =>
        by_cases hc : s.cancelled = true
        · exact ⟨.recv, .fail, by simp [step, hrv, hc]⟩
        · exact ⟨.recv, .fail, by simp [step, hrv, hc, ht]⟩
      | push h =>
        by_cases hroom : s.queue.length < cap
        · exact ⟨.recv, .fail, by simp [step, hrv, hroom]⟩
        · by_cases hc : s.cancelled = true
          · exact ⟨.recv, .fail, by simp [step, hrv, hroom, hc]⟩
          · -- pipeline full, not cancelled: a worker must be alive (an exited worker implies cancellation here)
            have hnotclosed : s.closed = false := by
              cases hcl : s.closed with
              | false => rfl
              | true => have := hwf.exitOfClosed hcl; rw [hrv] at this; cases this
            have hall : s.workers.all (· == .exited) = false := by
              cases hws : s.workers with
              | nil => exact absurd hws hw
              | cons w ws =>
                rw [← hws]
                cases hallb : s.workers.all (· == .exited) with
                | false => rfl
                | true =>
                  exfalso
                  simp only [List.all_eq_true, beq_iff_eq] at hallb
                  have hwm : w ∈ s.workers := by rw [hws]; simp
                  rcases hwf.workerExit w hwm (hallb w hwm) with h1 | h1
                  · exact hc h1
                  · rw [hnotclosed] at h1; cases h1
            obtain ⟨i, w, hi, hne⟩ := exists_live_worker hall
            have hqne : s.queue ≠ [] := by
              intro hq; rw [hq] at hroom; simp at hroom; omega
            refine ⟨.worker i, .fail, ?_⟩
            cases w with
            | exited => exact absurd rfl hne
            | idle =>
              cases hq : s.queue with
              | nil => exact absurd hq hqne
              | cons h' rest => simp [step, hi, hq, hc]
            | sending k => simp [step, hi, ht]
  · cases hkv : s.walker with
    | exited => exact absurd hkv hk
    | walking k =>
      by_cases hc : s.cancelled = true
      · exact ⟨.walker, .fail, by simp [step, hkv, hc]⟩
      · exact ⟨.walker, .fail, by simp [step, hkv, hc, ht]⟩

/-- F3 (kernel-checked): with the unconditional channel send the state "all workers gone, pipeline full, receive loop
pushing one more request" is stuck for ever although the stream is torn down — and it is well-formed (cancelled). -/
theorem unrepaired_push_can_block_forever :
    let s : St := { walker := .exited, workers := [.exited], queue := [7], closed := false, recv := .push 8,
                    cancelled := true, torn := true }
    allDone s = false ∧ (∀ t env, step false 1 s t env = none) ∧ (∃ t env, (step true 1 s t env).isSome = true) := by
  refine ⟨by decide, ?_, ⟨.recv, .fail, by decide⟩⟩
  intro t env
  cases t with
  | walker => rfl
  | worker i =>
    cases i with
    | zero => rfl
    | succ n => simp [step]
  | recv => rfl

end Fsm.SC

namespace Fsm.SC

theorem sum_set (ws : List WPc) : ∀ (i : Nat) (old w : WPc), ws[i]? = some old →
    ((setW ws i w).map wW).sum + wW old = (ws.map wW).sum + wW w := by
  induction ws with
  | nil => intro i old w h; simp at h
  | cons x xs ih =>
    intro i old w h
    cases i with
    | zero =>
      simp only [List.getElem?_cons_zero, Option.some.injEq] at h
      subst h
      simp [setW]; omega
    | succ n =>
      simp only [List.getElem?_cons_succ] at h
      have := ih n old w h
      simp only [setW, List.set_cons_succ, List.map_cons, List.sum_cons] at this ⊢
      omega

/-- Once the stream is torn down every step of every goroutine strictly decreases the variant `mu`: the sender ends
within `mu s` steps under any scheduler, for any number of workers, any pipeline capacity and any number of pending
requests (both for the repaired and the unrepaired push — the latter may block, it cannot loop). -/
theorem teardown_decreases (fixed : Bool) (cap : Nat) (s s' : St) (t : Tid) (env : Env)
    (ht : s.torn = true) (hs : step fixed cap s t env = some s') : mu s' < mu s := by
  cases t with
  | walker =>
    simp only [step] at hs
    cases hk : s.walker with
    | exited => rw [hk] at hs; cases hs
    | walking k =>
      rw [hk] at hs
      simp only at hs
      split at hs
      · cases hs; simp [mu, kW, hk]
      · simp only [ht, if_true] at hs
        cases hs; simp [mu, kW, hk]
  | worker i =>
    simp only [step] at hs
    cases hw : s.workers[i]? with
    | none => rw [hw] at hs; cases hs
    | some w =>
      rw [hw] at hs
      cases w with
      | exited => cases hs
      | idle =>
        simp only at hs
        cases hq : s.queue with
        | nil =>
          rw [hq] at hs
          simp only at hs
          split at hs
          · cases hs
            have := sum_set s.workers i .idle .exited hw
            simp only [mu, wW, hq] at this ⊢
            omega
          · cases hs
        | cons h rest =>
          rw [hq] at hs
          simp only at hs
          split at hs
          · cases hs
            have := sum_set s.workers i .idle .exited hw
            simp only [mu, wW, hq, List.length_cons] at this ⊢
            omega
          · cases hs
            have := sum_set s.workers i .idle (.sending (h + 1)) hw
            simp only [mu, wW, hq, List.length_cons] at this ⊢
            omega
      | sending k =>
        simp only [ht, if_true] at hs
        cases hs
        have := sum_set s.workers i (.sending k) .exited hw
        simp only [mu, wW] at this ⊢
        omega
  | recv =>
    simp only [step] at hs
    cases hr : s.recv with
    | exited => rw [hr] at hs; cases hs
    | recv =>
      rw [hr] at hs
      simp only at hs
      split at hs
      · cases hs; simp [mu, rW, hr]
      · simp only [ht, if_true] at hs
        cases hs; simp [mu, rW, hr]
    | push h =>
      rw [hr] at hs
      simp only at hs
      split at hs
      · cases hs; simp [mu, rW, hr]; omega
      · split at hs
        · cases hs; simp [mu, rW, hr]
        · cases hs

/-- the structural invariant holds initially and is preserved by every step -/
theorem wf_init (n k : Nat) : WF { walker := .walking k, workers := List.replicate n .idle, queue := [], closed := false,
                                    recv := .recv, cancelled := false, torn := false } := by
  constructor
  · intro h; cases h
  · intro h; cases h
  · intro w hw he
    simp only [List.mem_replicate] at hw
    rw [hw.2] at he; cases he

end Fsm.SC

namespace Fsm.SC

theorem mem_setW {ws : List WPc} {i : Nat} {x w : WPc} (h : w ∈ setW ws i x) : w = x ∨ w ∈ ws := by
  unfold setW at h
  rcases List.mem_or_eq_of_mem_set h with h | h
  · exact Or.inr h
  · exact Or.inl h

theorem wf_step (fixed : Bool) (cap : Nat) (s s' : St) (t : Tid) (env : Env) (hwf : WF s)
    (hs : step fixed cap s t env = some s') : WF s' := by
  cases t with
  | walker =>
    simp only [step] at hs
    cases hk : s.walker with
    | exited => rw [hk] at hs; cases hs
    | walking k =>
      rw [hk] at hs
      simp only at hs
      split at hs
      · cases hs; exact ⟨hwf.closedOfExit, hwf.exitOfClosed, hwf.workerExit⟩
      · split at hs
        · cases hs
          exact ⟨hwf.closedOfExit, hwf.exitOfClosed, fun w hw he => Or.inl rfl⟩
        · split at hs <;> cases hs <;> exact ⟨hwf.closedOfExit, hwf.exitOfClosed, hwf.workerExit⟩
  | worker i =>
    simp only [step] at hs
    cases hw : s.workers[i]? with
    | none => rw [hw] at hs; cases hs
    | some w =>
      rw [hw] at hs
      cases w with
      | exited => cases hs
      | idle =>
        simp only at hs
        cases hq : s.queue with
        | nil =>
          rw [hq] at hs
          simp only at hs
          split at hs
          · rename_i hcl
            cases hs
            refine ⟨hwf.closedOfExit, hwf.exitOfClosed, ?_⟩
            intro w hw' he
            exact Or.inr hcl
          · cases hs
        | cons h rest =>
          rw [hq] at hs
          simp only at hs
          split at hs
          · rename_i hc
            cases hs
            exact ⟨hwf.closedOfExit, hwf.exitOfClosed, fun w _ _ => Or.inl hc⟩
          · cases hs
            refine ⟨hwf.closedOfExit, hwf.exitOfClosed, ?_⟩
            intro w hw' he
            rcases mem_setW hw' with h1 | h1
            · rw [h1] at he; cases he
            · exact hwf.workerExit w h1 he
      | sending k =>
        simp only at hs
        split at hs
        · cases hs
          exact ⟨hwf.closedOfExit, hwf.exitOfClosed, fun w _ _ => Or.inl rfl⟩
        · split at hs
          · cases hs
            refine ⟨hwf.closedOfExit, hwf.exitOfClosed, ?_⟩
            intro w hw' he
            rcases mem_setW hw' with h1 | h1
            · rw [h1] at he; cases he
            · exact hwf.workerExit w h1 he
          · cases hs
            refine ⟨hwf.closedOfExit, hwf.exitOfClosed, ?_⟩
            intro w hw' he
            rcases mem_setW hw' with h1 | h1
            · rw [h1] at he; cases he
            · exact hwf.workerExit w h1 he
  | recv =>
    simp only [step] at hs
    cases hr : s.recv with
    | exited => rw [hr] at hs; cases hs
    | recv =>
      rw [hr] at hs
      simp only at hs
      split at hs
      · cases hs
        exact ⟨fun _ => rfl, fun _ => rfl, fun w _ _ => Or.inr rfl⟩
      · split at hs
        · cases hs
          exact ⟨fun _ => rfl, fun _ => rfl, fun w _ _ => Or.inr rfl⟩
        · cases env with
          | req h =>
            cases hs
            refine ⟨(fun h' => by cases h'), ?_, hwf.workerExit⟩
            intro hcl
            have := hwf.exitOfClosed hcl
            rw [hr] at this; cases this
          | fin => cases hs; exact ⟨fun _ => rfl, fun _ => rfl, fun w _ _ => Or.inr rfl⟩
          | fail => cases hs; exact ⟨fun _ => rfl, fun _ => rfl, fun w _ _ => Or.inr rfl⟩
    | push h =>
      rw [hr] at hs
      simp only at hs
      split at hs
      · cases hs
        refine ⟨(fun h' => by cases h'), ?_, hwf.workerExit⟩
        intro hcl
        have := hwf.exitOfClosed hcl
        rw [hr] at this; cases this
      · split at hs
        · cases hs
          exact ⟨fun _ => rfl, fun _ => rfl, fun w _ _ => Or.inr rfl⟩
        · cases hs

end Fsm.SC
