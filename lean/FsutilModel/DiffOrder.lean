import FsutilModel.DiffEmits
/-! The events of the merge loop come in strictly ascending path order: no path is reported twice. -/
namespace Fsm.D
variable {P : Type} [DecidableEq P] {I : Type} [DecidableEq I]

def evPath : Ev P I → P
  | .add e => e.path
  | .modify e => e.path
  | .delete p => p

theorem mem_paths_mono {ls ls' us us' : List (Ent P I)} (h1 : ∀ x ∈ ls, x ∈ ls') (h2 : ∀ x ∈ us, x ∈ us') {p : P}
    (h : p ∈ ls.map (·.path) ++ us.map (·.path)) : p ∈ ls'.map (·.path) ++ us'.map (·.path) := by
  simp only [List.mem_append, List.mem_map] at h ⊢
  rcases h with ⟨x, hx, rfl⟩ | ⟨x, hx, rfl⟩
  · exact Or.inl ⟨x, h1 x hx, rfl⟩
  · exact Or.inr ⟨x, h2 x hx, rfl⟩

theorem evPath_mem (O : PathOrd P) (fc : Bool) : ∀ (n : Nat) (ls us : List (Ent P I)) (rm : Option P) (ev : Ev P I),
    ev ∈ diff O fc n ls us rm → evPath ev ∈ ls.map (·.path) ++ us.map (·.path) := by
  intro n
  induction n with
  | zero => intro ls us rm ev h; simp [diff] at h
  | succ n ih =>
    intro ls us rm ev h
    cases ls with
    | nil =>
      cases us with
      | nil => simp [diff] at h
      | cons u us =>
        simp only [diff, List.mem_cons] at h
        rcases h with rfl | h
        · simp [evPath]
        · exact mem_paths_mono (fun x hx => hx) (fun x hx => List.mem_cons_of_mem _ hx) (ih [] us none ev h)
    | cons l ls =>
      have hd : evPath (Ev.delete l.path : Ev P I) ∈ (l :: ls).map (·.path) ++ us.map (·.path) := by simp [evPath]
      cases us with
      | nil =>
        have recE : ∀ rm', ev ∈ diff O fc n ls [] rm' → evPath ev ∈ (l :: ls).map (·.path) ++ ([] : List (Ent P I)).map (·.path) :=
          fun rm' h' => mem_paths_mono (fun x hx => List.mem_cons_of_mem _ hx) (fun x hx => hx) (ih ls [] rm' ev h')
        simp only [diff] at h
        split at h
        · split at h
          · exact recE _ h
          · simp only [List.mem_cons] at h
            rcases h with rfl | h
            · exact hd
            · exact recE _ h
        · simp only [List.mem_cons] at h
          rcases h with rfl | h
          · exact hd
          · exact recE _ h
      | cons u us =>
        have recL : ∀ rm', ev ∈ diff O fc n ls (u :: us) rm' → evPath ev ∈ (l :: ls).map (·.path) ++ (u :: us).map (·.path) :=
          fun rm' h' => mem_paths_mono (fun x hx => List.mem_cons_of_mem _ hx) (fun x hx => hx) (ih ls (u :: us) rm' ev h')
        have recB : ∀ rm', ev ∈ diff O fc n ls us rm' → evPath ev ∈ (l :: ls).map (·.path) ++ (u :: us).map (·.path) :=
          fun rm' h' => mem_paths_mono (fun x hx => List.mem_cons_of_mem _ hx) (fun x hx => List.mem_cons_of_mem _ hx) (ih ls us rm' ev h')
        simp only [diff] at h
        split at h
        · split at h
          · split at h
            · exact recL _ h
            · simp only [List.mem_cons] at h
              rcases h with rfl | h
              · exact hd
              · exact recL _ h
          · simp only [List.mem_cons] at h
            rcases h with rfl | h
            · exact hd
            · exact recL _ h
        · split at h
          · simp only [List.mem_cons] at h
            rcases h with rfl | h
            · simp [evPath]
            · exact mem_paths_mono (fun x hx => hx) (fun x hx => List.mem_cons_of_mem _ hx) (ih (l :: ls) us none ev h)
          · split at h
            · exact recB _ h
            · simp only [List.mem_cons] at h
              rcases h with rfl | h
              · simp [evPath]
              · exact recB _ h

/-- everything reported while merging `ls'` and `us'` lies above `p` if all their paths do -/
theorem lt_of_mem_diff (O : PathOrd P) (fc : Bool) (n : Nat) (ls' us' : List (Ent P I)) (rm' : Option P) (p : P)
    (hA : ∀ x ∈ ls', O.lt p x.path = true) (hB : ∀ x ∈ us', O.lt p x.path = true) :
    ∀ q ∈ (diff O fc n ls' us' rm').map evPath, O.lt p q = true := by
  intro q hq
  simp only [List.mem_map] at hq
  obtain ⟨ev, hev, rfl⟩ := hq
  have := evPath_mem O fc n ls' us' rm' ev hev
  simp only [List.mem_append, List.mem_map] at this
  rcases this with ⟨x, hx, hp⟩ | ⟨x, hx, hp⟩
  · rw [← hp]; exact hA x hx
  · rw [← hp]; exact hB x hx

theorem diff_ascending (O : PathOrd P) (fc : Bool) : ∀ (n : Nat) (ls us : List (Ent P I)) (rm : Option P),
    Sorted O ls → Sorted O us → ((diff O fc n ls us rm).map evPath).Pairwise (fun a b => O.lt a b = true) := by
  intro n
  induction n with
  | zero => intro ls us rm _ _; simp [diff]
  | succ n ih =>
    intro ls us rm hl hu
    cases ls with
    | nil =>
      cases us with
      | nil => simp [diff]
      | cons u us =>
        simp only [diff, List.map_cons]
        have hu' := List.pairwise_cons.mp hu
        exact List.pairwise_cons.mpr ⟨lt_of_mem_diff O fc n [] us none u.path (by simp) hu'.1, ih [] us none hl hu'.2⟩
    | cons l ls =>
      have hl' := List.pairwise_cons.mp hl
      cases us with
      | nil =>
        have hd : ∀ rm', ((Ev.delete l.path :: diff O fc n ls [] rm').map evPath).Pairwise (fun a b => O.lt a b = true) :=
          fun rm' => List.pairwise_cons.mpr ⟨lt_of_mem_diff O fc n ls [] rm' l.path hl'.1 (by simp), ih ls [] rm' hl'.2 hu⟩
        simp only [diff]
        split
        · split
          · exact ih ls [] _ hl'.2 hu
          · exact hd _
        · exact hd _
      | cons u us =>
        have hu' := List.pairwise_cons.mp hu
        simp only [diff]
        split
        · rename_i h1
          have hB : ∀ x ∈ u :: us, O.lt l.path x.path = true := by
            intro x hx
            simp only [List.mem_cons] at hx
            rcases hx with rfl | hx
            · exact h1
            · exact O.lt_trans _ _ _ h1 (hu'.1 x hx)
          have hd : ∀ rm', ((Ev.delete l.path :: diff O fc n ls (u :: us) rm').map evPath).Pairwise (fun a b => O.lt a b = true) :=
            fun rm' => List.pairwise_cons.mpr ⟨lt_of_mem_diff O fc n ls (u :: us) rm' l.path hl'.1 hB, ih ls (u :: us) rm' hl'.2 hu⟩
          split
          · split
            · exact ih ls (u :: us) _ hl'.2 hu
            · exact hd _
          · exact hd _
        · rename_i h1
          split
          · rename_i h2
            have hA : ∀ x ∈ l :: ls, O.lt u.path x.path = true := by
              intro x hx
              simp only [List.mem_cons] at hx
              rcases hx with rfl | hx
              · exact h2
              · exact O.lt_trans _ _ _ h2 (hl'.1 x hx)
            exact List.pairwise_cons.mpr ⟨lt_of_mem_diff O fc n (l :: ls) us none u.path hA hu'.1, ih (l :: ls) us none hl hu'.2⟩
          · rename_i h2
            have heq : l.path = u.path := by
              rcases O.lt_total l.path u.path with h | h | h
              · exact h
              · exact absurd h h1
              · exact absurd h h2
            have hA : ∀ x ∈ ls, O.lt u.path x.path = true := fun x hx => heq ▸ hl'.1 x hx
            split
            · exact ih ls us _ hl'.2 hu'.2
            · exact List.pairwise_cons.mpr ⟨lt_of_mem_diff O fc n ls us _ u.path hA hu'.1, ih ls us _ hl'.2 hu'.2⟩

end Fsm.D
